package main

import (
	"crypto/elliptic"
	"crypto/sha256"
	"encoding/binary"
	"fmt"
	"sync"

	"github.com/ontio/ontology-crypto/ec"
	"github.com/ontio/ontology-crypto/keypair"
	s "github.com/ontio/ontology-crypto/signature"
	"github.com/polynetwork/poly/account"
	"github.com/polynetwork/poly/common"
	"github.com/polynetwork/poly/core/types"
	_ "github.com/polynetwork/poly/native/service" // registers the real contracts
	scm "github.com/polynetwork/poly/native/service/governance/side_chain_manager"

	"verifh/kit/nativekit"
	"verifh/kit/vio"
)

// detReader is a deterministic byte stream derived from (VERIF_SEED, label).
type detReader struct {
	key [32]byte
	ctr uint64
	buf []byte
}

func newDet(label string) *detReader {
	var sd [8]byte
	binary.LittleEndian.PutUint64(sd[:], vio.Seed())
	return &detReader{key: sha256.Sum256(append(sd[:], []byte(label)...))}
}

func (d *detReader) Read(p []byte) (int, error) {
	for i := range p {
		if len(d.buf) == 0 {
			var c [8]byte
			binary.LittleEndian.PutUint64(c[:], d.ctr)
			d.ctr++
			h := sha256.Sum256(append(d.key[:], c[:]...))
			d.buf = h[:]
		}
		p[i] = d.buf[0]
		d.buf = d.buf[1:]
	}
	return len(p), nil
}

func (d *detReader) Bytes(n int) []byte {
	b := make([]byte, n)
	d.Read(b)
	return b
}

// detAccount is account.NewAccount("") with the key taken from the seeded stream.
func detAccount(label string) *account.Account {
	pri, pub, err := ec.GenerateECKeyPair(elliptic.P256(), newDet("acct:"+label), ec.ECDSA)
	if err != nil {
		panic(err)
	}
	var pk keypair.PublicKey = pub
	return &account.Account{PrivateKey: pri, PublicKey: pk, Address: types.AddressFromPubKey(pk), SigScheme: s.SHA256withECDSA}
}

func detAccounts(label string, n int) []*account.Account {
	r := make([]*account.Account, n)
	for i := range r {
		r[i] = detAccount(fmt.Sprintf("%s/%d", label, i))
	}
	return r
}

// world is one sandbox with a seeded consensus validator set.
type world struct {
	sb   *nativekit.Sandbox
	vals []*account.Account
	op   common.Address
}

// Sandboxes are recycled: creating one allocates large zeroed buffers (overlay memdb, in-memory leveldb), which dominated
// the run time.  Nothing is ever committed to the leveldb store, so resetting cache and overlay gives an empty universe.
var sbPool sync.Pool

func getSandbox() *nativekit.Sandbox {
	if v := sbPool.Get(); v != nil {
		sb := v.(*nativekit.Sandbox)
		sb.Cache.Reset()
		sb.Overlay.Reset()
		sb.Height, sb.Time = 1, 1000
		return sb
	}
	return nativekit.New()
}

func putSandbox(sb *nativekit.Sandbox) { sbPool.Put(sb) }

func newWorld(nvals int) *world {
	w := &world{sb: getSandbox()}
	w.vals = detAccounts("polyval", nvals)
	w.sb.SeedValidators(w.vals, 1)
	w.op = nativekit.Operator(w.vals)
	return w
}

// putSideChain registers a side chain record directly (the registration protocol itself is C35's subject).
func (w *world) putSideChain(sc *scm.SideChain) {
	ns := w.sb.Service(nativekit.Tx(), nil)
	if err := scm.PutSideChain(ns, sc); err != nil {
		panic(err)
	}
	w.sb.Cache.Commit()
}

func sinkBytes(f func(*common.ZeroCopySink)) []byte {
	sk := common.NewZeroCopySink(nil)
	f(sk)
	return sk.Bytes()
}
