package main

// Header-sync adapters for C19's "sync" steps: the n-th acceptable header (batch) after genesis variant v, for the routers
// where a valid successor can be fabricated offline (eth with the seal hook, bsc with real secp256k1 seals, ont with real
// validator signatures, cosmos with a real ed25519 commit).

import (
	"fmt"
	"math/big"
	"time"

	etypes "github.com/ethereum/go-ethereum/core/types"
	ecrypto "github.com/ethereum/go-ethereum/crypto"
	"github.com/ontio/ontology-crypto/keypair"
	osig "github.com/ontio/ontology-crypto/signature"
	ocommon "github.com/ontio/ontology/common"
	otypes "github.com/ontio/ontology/core/types"
	"github.com/polynetwork/poly/native/service/header_sync/bsc"
	"github.com/polynetwork/poly/native/service/header_sync/cosmos"
	"github.com/polynetwork/poly/native/service/header_sync/eth"
	"github.com/tendermint/tendermint/crypto/ed25519"
	tmtypes "github.com/tendermint/tendermint/types"
)

func init() {
	// Ethash seals cannot be mined offline; everything but the seal stays real (hook is a no-op unless installed).
	eth.VerifSealHook = func(h *eth.Header) (bool, error) { return true, nil }
}

func ethGenesis(v string) *eth.Header {
	if v == "gdeg" { // height 0, empty extra data
		return &eth.Header{UncleHash: etypes.EmptyUncleHash, Number: big.NewInt(0), Difficulty: big.NewInt(1000000), Extra: []byte{}, GasLimit: 10000000, Time: baseTime}
	}
	return polyEthHeader(1000+hOff(v), v, []byte("verif-"+v), [20]byte{1}, 1000000)
}

func ethSync(fx *routerFx, v string, n int) [][]byte {
	parent := ethGenesis(v)
	var h *eth.Header
	for i := 0; i <= n; i++ {
		h = &eth.Header{ParentHash: parent.Hash(), UncleHash: etypes.EmptyUncleHash, Number: new(big.Int).Add(parent.Number, big.NewInt(1)),
			GasLimit: parent.GasLimit, Time: parent.Time + 20, Extra: []byte{byte(i)}, Coinbase: [20]byte{2}}
		// pre-London rule far below the bomb: parent + parent/2048 * max(1 - dt/9, -99), floor 131072
		x := int64(1) - int64(20/9)
		d := parent.Difficulty.Int64() + parent.Difficulty.Int64()/2048*x
		if d < 131072 {
			d = 131072
		}
		h.Difficulty = big.NewInt(d)
		parent = h
	}
	return [][]byte{mustJSON(h)}
}

func bscGenesis(v string) *etypes.Header {
	_, addrs := evmKeys("bsc/"+v, 3)
	return gethHeader(200+2*hOff(v), v, posaExtra(addrs), addrs[(200+2*hOff(v))%3])
}

func bscSync(fx *routerFx, v string, n int) [][]byte {
	keys, addrs := evmKeys("bsc/"+v, 3)
	parent := bscGenesis(v)
	var h *etypes.Header
	for i := 0; i <= n; i++ {
		num := parent.Number.Uint64() + 1
		s := int(num % 3)
		h = &etypes.Header{ParentHash: parent.Hash(), UncleHash: etypes.CalcUncleHash(nil), Coinbase: addrs[s], Number: new(big.Int).SetUint64(num),
			GasLimit: parent.GasLimit, Time: parent.Time + 3, Extra: make([]byte, 32+65), Difficulty: big.NewInt(2)}
		sig, err := ecrypto.Sign(bsc.SealHash(h, evmChainID).Bytes(), keys[s])
		if err != nil {
			panic(err)
		}
		copy(h.Extra[len(h.Extra)-65:], sig)
		parent = h
	}
	return [][]byte{mustJSON(h)}
}

func ontSync(fx *routerFx, v string, n int) [][]byte {
	accs := detAccounts("ontval/"+v, 4)
	h := &otypes.Header{Height: uint32(hOff(v)) + uint32(n+1), Timestamp: uint32(baseTime) + uint32(n+1), ConsensusPayload: []byte("{}")}
	h.Bookkeepers = []keypair.PublicKey{accs[0].PublicKey, accs[1].PublicKey, accs[2].PublicKey}
	hash := h.Hash()
	for _, a := range accs[:3] {
		sg, err := osig.Sign(a.SigScheme, a.PrivateKey, hash[:], nil)
		if err != nil {
			panic(err)
		}
		sb, err := osig.Serialize(sg)
		if err != nil {
			panic(err)
		}
		h.SigData = append(h.SigData, sb)
	}
	sink := ocommon.NewZeroCopySink(nil)
	h.Serialization(sink)
	return [][]byte{sink.Bytes()}
}

func cosmosVal(v string, k int) (ed25519.PrivKeyEd25519, *tmtypes.Validator) {
	priv := ed25519.GenPrivKeyFromSecret(newDet(fmt.Sprintf("cosmos/%s/%d", v, k)).Bytes(32))
	return priv, tmtypes.NewValidator(priv.PubKey(), 10)
}

func cosmosSetHash(v string, k int) []byte {
	_, val := cosmosVal(v, k)
	return tmtypes.NewValidatorSet([]*tmtypes.Validator{val}).Hash()
}

func cosmosGenesisHeight(v string) int64 { return int64(100 + hOff(v)) }

func cosmosSync(fx *routerFx, v string, n int) [][]byte {
	priv, val := cosmosVal(v, n)
	hdr := tmtypes.Header{ChainID: "verif-cosmos", Height: cosmosGenesisHeight(v) + int64(n) + 1, Time: time.Unix(int64(baseTime)+int64(n)+1, 0).UTC(),
		ValidatorsHash: cosmosSetHash(v, n), NextValidatorsHash: cosmosSetHash(v, n+1), AppHash: []byte("app")}
	hdr.Version.Block = 10
	bid := tmtypes.BlockID{Hash: hdr.Hash(), PartsHeader: tmtypes.PartSetHeader{Total: 1, Hash: make([]byte, 32)}}
	commit := &tmtypes.Commit{Height: hdr.Height, Round: 0, BlockID: bid, Signatures: []tmtypes.CommitSig{{BlockIDFlag: tmtypes.BlockIDFlagCommit,
		ValidatorAddress: val.Address, Timestamp: hdr.Time.Add(time.Second)}}}
	ch := cosmos.CosmosHeader{Header: hdr, Commit: commit, Valsets: []*tmtypes.Validator{val}}
	sig, err := priv.Sign(cosmos.VoteSignBytes(&ch, 0))
	if err != nil {
		panic(err)
	}
	ch.Commit.Signatures[0].Signature = sig
	b, err := cosmos.Cdc.MarshalBinaryBare(ch)
	if err != nil {
		panic(err)
	}
	return [][]byte{b}
}
