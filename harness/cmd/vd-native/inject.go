package main

// C17, within-kind injectivity binding (keys-inject): for every record kind with integer key fields the real writing
// operation is run with two parameter values that differ in ONE byte position of one integer field (and once in the whole
// upper half, +2^32), each in its own fresh universe.  The raw key of that kind is taken from the write set; the bytes it
// carries at the field's position are compared with the driver's OWN little-endian encoding of the parameter (no poly helper).
// spec/TraceStorageKeys.tla judges every pair: different parameters must give different raw keys.

import (
	"bytes"
	"encoding/binary"
	"encoding/hex"
	"fmt"
	"math/big"

	"github.com/btcsuite/btcd/chaincfg/chainhash"
	"github.com/btcsuite/btcd/wire"
	ecommon "github.com/ethereum/go-ethereum/common"
	ocommon "github.com/ontio/ontology/common"
	otypes "github.com/ontio/ontology/core/types"
	"github.com/polynetwork/poly/common"
	vconfig "github.com/polynetwork/poly/consensus/vbft/config"
	ccm "github.com/polynetwork/poly/native/service/cross_chain_manager"
	ccmcom "github.com/polynetwork/poly/native/service/cross_chain_manager/common"
	"github.com/polynetwork/poly/native/service/governance/neo3_state_manager"
	"github.com/polynetwork/poly/native/service/governance/relayer_manager"
	scm "github.com/polynetwork/poly/native/service/governance/side_chain_manager"
	hs "github.com/polynetwork/poly/native/service/header_sync"
	"github.com/polynetwork/poly/native/service/header_sync/bsc"
	hscom "github.com/polynetwork/poly/native/service/header_sync/common"
	"github.com/polynetwork/poly/native/service/utils"
	"time"

	"verifh/kit/nativekit"
	"verifh/kit/vio"
)

// the driver's own encoders
func myLE(v uint64, width int) []int {
	r := make([]int, width)
	for i := 0; i < width; i++ {
		r[i] = int(byte(v >> (8 * uint(i))))
	}
	return r
}

func myLEBytes(v uint64, width int) []byte {
	r := make([]byte, width)
	for i := 0; i < width; i++ {
		r[i] = byte(v >> (8 * uint(i)))
	}
	return r
}

type injProbe struct {
	contract string
	kind     string
	fields   []int    // indices (into the layout's parts) of the integer fields fed by the parameters, in parameter order
	base     []uint64 // base parameter values
	write    func(w *wWorld, p []uint64)
}

type injEvent struct {
	Ev       string `json:"ev"`
	Contract string `json:"contract"`
	Kind     string `json:"kind"`
	Field    int    `json:"field"`
	Why      string `json:"why"`
	P1       []int  `json:"p1"` // all parameters, each as width little-endian bytes (driver's encoder), concatenated
	P2       []int  `json:"p2"`
	Raw1     []int  `json:"raw1"`
	Raw2     []int  `json:"raw2"`
	F1       []int  `json:"f1"` // the bytes the written key carries at the integer fields
	F2       []int  `json:"f2"`
	V1       string `json:"v1"`
	V2       string `json:"v2"`
}

func partWidth(p kPart, varW int) int {
	switch p.K {
	case "c":
		return len(p.B)
	case "f":
		return p.N
	}
	return varW
}

// fitKind: does rest (key without namespace and contract) fit layout l?  returns the width of the Var part.
func fitKind(l *kLayout, rest []byte) (int, bool) {
	fixed, nv := 0, 0
	for _, p := range l.Parts {
		if p.K == "v" {
			nv++
		} else {
			fixed += partWidth(p, 0)
		}
	}
	w := len(rest) - fixed
	if w < 0 || (nv == 0 && w != 0) {
		return 0, false
	}
	off := 0
	for _, p := range l.Parts {
		if p.K == "c" {
			for i, b := range p.B {
				if int(rest[off+i]) != b {
					return 0, false
				}
			}
		}
		off += partWidth(p, w)
	}
	return w, true
}

func layoutByName(contract, kind string) *kLayout {
	for _, l := range keyLayouts() {
		if l.Contract == contract && l.Name == kind {
			l := l
			return &l
		}
	}
	panic("no layout " + contract + "/" + kind)
}

// writtenKeyOf runs the probe's operation for p in a fresh universe and returns the raw keys of the kind it wrote.
func (pr *injProbe) run(p []uint64) [][]byte {
	w := newWWorld()
	defer putSandbox(w.sb)
	base := w.sb.WriteSet()
	if pan := vio.Safe(func() { pr.write(w, p) }); pan != "" {
		w.sb.Cache.Reset()
	}
	l := layoutByName(pr.contract, pr.kind)
	ca := contractAddrs[pr.contract]
	var res [][]byte
	for _, k := range rawKeys(newWrites(base, w.sb.WriteSet())) {
		raw, _ := hex.DecodeString(k)
		if len(raw) < 21 || !bytes.Equal(raw[1:21], ca[:]) {
			continue
		}
		if _, ok := fitKind(l, raw[21:]); ok {
			res = append(res, raw)
		}
	}
	return res
}

func (pr *injProbe) fieldBytes(raw []byte) []int {
	l := layoutByName(pr.contract, pr.kind)
	rest := raw[21:]
	vw, _ := fitKind(l, rest)
	var out []int
	for _, fi := range pr.fields {
		off := 0
		for i := 0; i < fi; i++ {
			off += partWidth(l.Parts[i], vw)
		}
		for i := 0; i < l.Parts[fi].N; i++ {
			out = append(out, int(rest[off+i]))
		}
	}
	return out
}

func (pr *injProbe) paramBytes(p []uint64) []int {
	l := layoutByName(pr.contract, pr.kind)
	var out []int
	for i, fi := range pr.fields {
		out = append(out, myLE(p[i], l.Parts[fi].N)...)
	}
	return out
}

func ints(b []byte) []int {
	r := make([]int, len(b))
	for i, x := range b {
		r[i] = int(x)
	}
	return r
}

func run1(w *wWorld, h nativeHandler, wit common.Address, in []byte) {
	w.sb.Call(h, nativekit.Tx(wit, w.op), in)
}

func injProbes() []*injProbe {
	var ps []*injProbe
	add := func(c, kind string, fields []int, base []uint64, wr func(w *wWorld, p []uint64)) {
		ps = append(ps, &injProbe{contract: c, kind: kind, fields: fields, base: base, write: wr})
	}
	regSC := func(w *wWorld, id uint64) []byte {
		p := &scm.RegisterSideChainParam{Address: w.owner.Address, ChainId: id, Router: utils.ETH_ROUTER, Name: "x", BlocksToWait: 1, CCMCAddress: []byte{0xcc}}
		return ser(func(s *common.ZeroCopySink) { p.Serialization(s) })
	}
	chainid := func(a common.Address, id uint64) []byte {
		p := &scm.ChainidParam{Chainid: id, Address: a}
		return ser(p.Serialization)
	}
	putSC := func(w *wWorld, id uint64, router uint64, extra []byte) {
		w.putSideChainRec(&scm.SideChain{Address: w.owner.Address, ChainId: id, Router: router, Name: "c", BlocksToWait: 1, CCMCAddress: []byte{0xcc}, ExtraInfo: extra})
	}
	// ---- side chain manager
	add("scm", "sideChainApply", []int{1}, []uint64{8}, func(w *wWorld, p []uint64) { run1(w, scm.RegisterSideChain, w.owner.Address, regSC(w, p[0])) })
	add("scm", "sideChain", []int{1}, []uint64{8}, func(w *wWorld, p []uint64) {
		run1(w, scm.RegisterSideChain, w.owner.Address, regSC(w, p[0]))
		for _, v := range w.vals[:3] {
			run1(w, scm.ApproveRegisterSideChain, v.Address, chainid(v.Address, p[0]))
		}
	})
	add("scm", "updateSideChainRequest", []int{1}, []uint64{8}, func(w *wWorld, p []uint64) {
		putSC(w, p[0], utils.ETH_ROUTER, nil)
		run1(w, scm.UpdateSideChain, w.owner.Address, regSC(w, p[0]))
	})
	add("scm", "quitSideChainRequest", []int{1}, []uint64{8}, func(w *wWorld, p []uint64) {
		putSC(w, p[0], utils.ETH_ROUTER, nil)
		run1(w, scm.QuitSideChain, w.owner.Address, chainid(w.owner.Address, p[0]))
	})
	updFee := func(w *wWorld, p []uint64) {
		q := &scm.UpdateFeeParam{Address: w.vals[0].Address, ChainId: p[0], View: 0, Fee: big.NewInt(9)}
		run1(w, scm.UpdateFee, w.vals[0].Address, ser(q.Serialization))
	}
	add("scm", "feeInfo", []int{1}, []uint64{8}, updFee)
	add("scm", "assetBind", []int{1}, []uint64{8}, func(w *wWorld, p []uint64) {
		ri := &scm.RippleExtraInfo{Operator: w.owner.Address, Sequence: 1, Quorum: 1, SignerNum: 1, Pks: [][]byte{{2, 3}}, ReserveAmount: big.NewInt(5)}
		putSC(w, p[0], utils.RIPPLE_ROUTER, ser(ri.Serialization))
		q := &scm.RegisterAssetParam{OperatorAddress: w.owner.Address, ChainId: p[0], AssetMap: map[uint64][]byte{2: {0xaa}}, LockProxyMap: map[uint64][]byte{2: {0xbb}}}
		run1(w, scm.RegisterAsset, w.owner.Address, ser(q.Serialization))
	})
	// redeem registration at threshold: redeemBind(redeem chain, contract chain, key), redeemScript(chain, key), bindSignInfo(.., chain, .., chain)
	redeemFull := func(w *wWorld, p []uint64) {
		redeem, privs := redeemFixture()
		ca := []byte{0xaa, 0xbb}
		msg := catBytes(redeem, myLEBytes(p[0], 8), ca, myLEBytes(p[1], 8), myLEBytes(0, 8))
		q := &scm.RegisterRedeemParam{RedeemChainID: p[0], ContractChainID: p[1], Redeem: redeem, CVersion: 0, ContractAddress: ca,
			Signs: [][]byte{btcSign(privs[0], msg), btcSign(privs[2], msg)}}
		run1(w, scm.RegisterRedeem, w.stranger.Address, ser(q.Serialization))
	}
	add("scm", "redeemBind", []int{1, 2}, []uint64{1, 2}, redeemFull)
	add("scm", "redeemScript", []int{1}, []uint64{1, 2}, redeemFull)
	add("scm", "btcTxParam", []int{2}, []uint64{1}, func(w *wWorld, p []uint64) {
		redeem, privs := redeemFixture()
		pv, fr, mc := uint64(1), uint64(2), uint64(3000)
		msg := catBytes(redeem, myLEBytes(p[0], 8), myLEBytes(fr, 8), myLEBytes(mc, 8), myLEBytes(pv, 8))
		q := &scm.BtcTxParam{Redeem: redeem, RedeemChainId: p[0], Detial: &scm.BtcTxParamDetial{PVersion: pv, FeeRate: fr, MinChange: mc},
			Sigs: [][]byte{btcSign(privs[0], msg), btcSign(privs[1], msg)}}
		run1(w, scm.SetBtcTxParam, w.stranger.Address, ser(q.Serialization))
	})
	// ---- relayer manager / neo3 state manager: ids are counters; the counter record is seeded to the wanted value
	seedCounter := func(w *wWorld, contract common.Address, name string, v uint64) {
		w.rawPut(utils.ConcatKey(contract, []byte(name)), myLEBytes(v, 8))
	}
	relList := func(w *wWorld) []byte {
		q := &relayer_manager.RelayerListParam{AddressList: []common.Address{w.stranger.Address}, Address: w.owner.Address}
		return ser(q.Serialization)
	}
	add("rm", "relayerApply", []int{1}, []uint64{8}, func(w *wWorld, p []uint64) {
		seedCounter(w, utils.RelayerManagerContractAddress, relayer_manager.APPLY_ID, p[0])
		run1(w, relayer_manager.RegisterRelayer, w.owner.Address, relList(w))
	})
	add("rm", "relayerRemove", []int{1}, []uint64{8}, func(w *wWorld, p []uint64) {
		seedCounter(w, utils.RelayerManagerContractAddress, relayer_manager.REMOVE_ID, p[0])
		run1(w, relayer_manager.RemoveRelayer, w.owner.Address, relList(w))
	})
	svList := func(w *wWorld) []byte {
		q := &neo3_state_manager.StateValidatorListParam{StateValidators: []string{pkHex(w.extra)}, Address: w.owner.Address}
		return ser(q.Serialization)
	}
	add("n3", "stateValidatorApply", []int{1}, []uint64{8}, func(w *wWorld, p []uint64) {
		seedCounter(w, utils.Neo3StateManagerContractAddress, neo3_state_manager.STATE_VALIDATOR_APPLY_ID, p[0])
		run1(w, neo3_state_manager.RegisterStateValidator, w.owner.Address, svList(w))
	})
	add("n3", "stateValidatorRemove", []int{1}, []uint64{8}, func(w *wWorld, p []uint64) {
		seedCounter(w, utils.Neo3StateManagerContractAddress, neo3_state_manager.STATE_VALIDATOR_REMOVE_ID, p[0])
		run1(w, neo3_state_manager.RemoveStateValidator, w.owner.Address, svList(w))
	})
	// ---- cross chain manager
	add("ccm", "blackedChain", []int{1}, []uint64{8}, func(w *wWorld, p []uint64) {
		q := &ccmcom.BlackChainParam{ChainID: p[0]}
		run1(w, ccm.BlackChain, w.op, ser(q.Serialization))
	})
	// ---- header sync: the chain id field of every router's genesis records
	hsKinds := map[string][]string{}
	for kind, rts := range hsRouters {
		for _, r := range splitWords(rts) {
			hsKinds[r] = append(hsKinds[r], kind)
		}
	}
	install := func(w *wWorld, fx *routerFx, chain uint64, genesis []byte) {
		putSC(w, chain, fx.router, fx.extra)
		w.sb.Height = wBaseHeight + 10
		q := &hscom.SyncGenesisHeaderParam{ChainID: chain, GenesisHeader: genesis}
		run1(w, hs.SyncGenesisHeader, w.op, sinkBytes(q.Serialization))
	}
	for _, fx := range allRouters() {
		fx := fx
		for _, kind := range hsKinds[fx.name] {
			l := layoutByName("hs", kind)
			ci := -1
			for i, p := range l.Parts { // the chain id is the first 8-byte field
				if p.K == "f" && p.N == 8 {
					ci = i
					break
				}
			}
			if ci < 0 || kind == "ethCaches" || kind == "polygonSpan" || kind == "crossChainMsg" || kind == "currentMsgHeight" {
				continue
			}
			add("hs", kind, []int{ci}, []uint64{fx.chainID}, func(w *wWorld, p []uint64) { install(w, fx, p[0], fx.genesis("g1")) })
			ps[len(ps)-1].kind = kind
			probeRouter[ps[len(ps)-1]] = fx.name
		}
	}
	// heights: eth / bsc main chain (u64), btc / ont header index (u32)
	add("hs", "mainChain", []int{2}, []uint64{1000}, func(w *wWorld, p []uint64) {
		install(w, routerByName("eth"), 2, mustJSON(polyEthHeader(p[0], "g1", []byte("x"), ecommon.Address{1}, 1000000)))
	})
	probeRouter[ps[len(ps)-1]] = "eth:height"
	add("hs", "mainChain", []int{2}, []uint64{200}, func(w *wWorld, p []uint64) {
		_, addrs := evmKeys("bsc/g1", 3)
		g := gethHeader(p[0], "g1", posaExtra(addrs), addrs[0])
		install(w, routerByName("bsc"), 6, mustJSON(&bsc.GenesisHeader{Header: *g, PrevValidators: []bsc.HeightAndValidators{{Height: big.NewInt(0), Validators: addrs}}}))
	})
	probeRouter[ps[len(ps)-1]] = "bsc:height"
	add("hs", "headerIndex:height32", []int{2}, []uint64{2016}, func(w *wWorld, p []uint64) {
		var prev, mr chainhash.Hash
		h := wire.BlockHeader{Version: 2, PrevBlock: prev, MerkleRoot: mr, Timestamp: time.Unix(int64(baseTime), 0), Bits: 0x207fffff, Nonce: 1}
		var buf bytes.Buffer
		h.BtcEncode(&buf, wire.ProtocolVersion, wire.LatestEncoding)
		var ht [4]byte
		binary.BigEndian.PutUint32(ht[:], uint32(p[0]))
		install(w, routerByName("btc"), 1, append(buf.Bytes(), ht[:]...))
	})
	probeRouter[ps[len(ps)-1]] = "btc:height"
	add("hs", "headerIndex:height32", []int{2}, []uint64{7}, func(w *wWorld, p []uint64) {
		cfg := &vconfig.ChainConfig{}
		for i, a := range detAccounts("ontval/g1", 4) {
			cfg.Peers = append(cfg.Peers, &vconfig.PeerConfig{Index: uint32(i + 1), ID: vconfig.PubkeyID(a.PublicKey)})
		}
		h := &otypes.Header{Height: uint32(p[0]), Timestamp: uint32(baseTime), ConsensusPayload: mustJSON(&vconfig.VbftBlockInfo{NewChainConfig: cfg})}
		sink := ocommon.NewZeroCopySink(nil)
		h.Serialization(sink)
		install(w, routerByName("ont"), 3, sink.Bytes())
	})
	probeRouter[ps[len(ps)-1]] = "ont:height"
	return ps
}

var probeRouter = map[*injProbe]string{}

func splitWords(s string) []string {
	var r []string
	cur := ""
	for _, c := range s {
		if c == ' ' {
			if cur != "" {
				r = append(r, cur)
			}
			cur = ""
		} else {
			cur += string(c)
		}
	}
	if cur != "" {
		r = append(r, cur)
	}
	return r
}

func keysInject() {
	probes := injProbes()
	type job struct {
		pr    *injProbe
		field int
		why   string
		p1    []uint64
		p2    []uint64
	}
	var jobs []job
	for _, pr := range probes {
		l := layoutByName(pr.contract, pr.kind)
		for fi := range pr.fields {
			width := l.Parts[pr.fields[fi]].N
			mk := func(v uint64) []uint64 {
				q := append([]uint64{}, pr.base...)
				q[fi] = v
				return q
			}
			b := pr.base[fi]
			for k := 0; k < width; k++ {
				jobs = append(jobs, job{pr, fi, fmt.Sprintf("byte %d differs", k), mk(b), mk(b ^ (uint64(1) << (8 * uint(k))))})
			}
			if width == 8 {
				jobs = append(jobs, job{pr, fi, "upper half differs (+2^32)", mk(b), mk(b + (1 << 32))})
				jobs = append(jobs, job{pr, fi, "upper half differs (2^32+b vs 2^33+b)", mk(b + (1 << 32)), mk(b + (1 << 33))})
			}
		}
	}
	out := make([]*injEvent, len(jobs))
	skipped := make([]string, len(jobs))
	vio.ParMap(len(jobs), 8, func(i int) {
		j := jobs[i]
		k1, k2 := j.pr.run(j.p1), j.pr.run(j.p2)
		tag := j.pr.contract + "/" + j.pr.kind
		if r := probeRouter[j.pr]; r != "" {
			tag += "@" + r
		}
		if len(k1) == 0 || len(k1) != len(k2) {
			skipped[i] = fmt.Sprintf("%s %s: wrote %d / %d keys of the kind", tag, j.why, len(k1), len(k2))
			return
		}
		// several keys of the kind (zilliqa: tx and ds block under one kind, committee put + delete): the one whose integer
		// fields carry the parameters is the record in question; otherwise the first in byte order of each run
		pick := func(ks [][]byte, want []int) []byte {
			for _, k := range ks {
				if fmt.Sprint(j.pr.fieldBytes(k)) == fmt.Sprint(want) {
					return k
				}
			}
			return ks[0]
		}
		a, b := pick(k1, j.pr.paramBytes(j.p1)), pick(k2, j.pr.paramBytes(j.p2))
		out[i] = &injEvent{Ev: "pair", Contract: j.pr.contract, Kind: tag, Field: j.field, Why: j.why,
			P1: j.pr.paramBytes(j.p1), P2: j.pr.paramBytes(j.p2), Raw1: ints(a), Raw2: ints(b),
			F1: j.pr.fieldBytes(a), F2: j.pr.fieldBytes(b), V1: fmt.Sprint(j.p1), V2: fmt.Sprint(j.p2)}
	})
	n, sk := 0, 0
	for i := range jobs {
		if out[i] != nil {
			vio.Emit(out[i])
			n++
		} else {
			vio.Emit(map[string]interface{}{"skipped": skipped[i]})
			sk++
		}
	}
	vio.Emit(map[string]interface{}{"summary": true, "pairs": n, "skipped": sk, "probes": len(probes)})
}
