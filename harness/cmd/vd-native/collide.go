package main

// Reproduction of collisions that TLC predicts between record kinds: two REAL operations are run and the raw keys of their
// write sets are compared.

import (
	"encoding/binary"
	"encoding/hex"
	"encoding/json"
	"os"

	"github.com/btcsuite/btcd/btcec"
	"github.com/btcsuite/btcd/chaincfg"
	"github.com/btcsuite/btcd/txscript"
	"github.com/btcsuite/btcutil"
	"github.com/polynetwork/poly/common"
	"github.com/polynetwork/poly/native/service/governance/neo3_state_manager"
	nm "github.com/polynetwork/poly/native/service/governance/node_manager"
	"github.com/polynetwork/poly/native/service/governance/relayer_manager"
	scm "github.com/polynetwork/poly/native/service/governance/side_chain_manager"
	"github.com/polynetwork/poly/native/service/utils"

	"verifh/kit/nativekit"
	"verifh/kit/vio"
)

func u64le(v uint64) []byte {
	b := make([]byte, 8)
	binary.LittleEndian.PutUint64(b, v)
	return b
}

// collideRedeem: side_chain_manager.RegisterRedeem and SetBtcTxParam keep their signature sets under
// "bindSignInfo" . message with two different message shapes and no framing (F10).
func collideRedeem() []kWrite {
	res, _ := collideRedeemFull()
	return res
}

type redeemOutcome struct {
	KeyA, KeyB           []string
	ParamSetWithOneSig   bool // after A then B (one genuine signature each) the BTC tx parameters are installed (threshold 2)
	ParamSetByBAlone     bool // control: B alone with its one signature
	ErrA, ErrB, ErrBOnly string
}

// redeemFixture: a 2-of-3 multisig redeem script over seeded keys.
func redeemFixture() ([]byte, []*btcec.PrivateKey) {
	var privs []*btcec.PrivateKey
	var pubs []*btcutil.AddressPubKey
	for i := 0; i < 3; i++ {
		priv, pub := btcec.PrivKeyFromBytes(btcec.S256(), newDet("btcredeem/"+string(rune('a'+i))).Bytes(32))
		ap, err := btcutil.NewAddressPubKey(pub.SerializeCompressed(), &chaincfg.TestNet3Params)
		if err != nil {
			panic(err)
		}
		privs = append(privs, priv)
		pubs = append(pubs, ap)
	}
	redeem, err := txscript.MultiSigScript(pubs, 2)
	if err != nil {
		panic(err)
	}
	return redeem, privs
}

func btcSign(k *btcec.PrivateKey, msg []byte) []byte {
	sg, err := k.Sign(btcutil.Hash160(msg))
	if err != nil {
		panic(err)
	}
	return sg.Serialize()
}

func catBytes(parts ...[]byte) []byte {
	var r []byte
	for _, p := range parts {
		r = append(r, p...)
	}
	return r
}

func collideRedeemFull() ([]kWrite, *redeemOutcome) {
	var privs []*btcec.PrivateKey
	var pubs []*btcutil.AddressPubKey
	for i := 0; i < 3; i++ {
		priv, pub := btcec.PrivKeyFromBytes(btcec.S256(), newDet("btcredeem/"+string(rune('a'+i))).Bytes(32))
		ap, err := btcutil.NewAddressPubKey(pub.SerializeCompressed(), &chaincfg.TestNet3Params)
		if err != nil {
			panic(err)
		}
		privs = append(privs, priv)
		pubs = append(pubs, ap)
	}
	redeem, err := txscript.MultiSigScript(pubs, 2)
	if err != nil {
		panic(err)
	}
	rk := btcutil.Hash160(redeem)
	const redeemChain = uint64(1)
	pv, fr, mc := uint64(1), uint64(2), uint64(0x0000000100000abc)
	// B's message tail: varuint(pv) varuint(fr) varuint(mc) = 01 02 ff <mc little endian>
	contractAddr := []byte{byte(pv), byte(fr), 0xff}
	contractChain := mc
	sign := func(k *btcec.PrivateKey, msg []byte) []byte {
		sg, err := k.Sign(btcutil.Hash160(msg))
		if err != nil {
			panic(err)
		}
		return sg.Serialize()
	}
	cat := func(parts ...[]byte) []byte {
		var r []byte
		for _, p := range parts {
			r = append(r, p...)
		}
		return r
	}
	pa := &scm.RegisterRedeemParam{RedeemChainID: redeemChain, ContractChainID: contractChain, Redeem: redeem, CVersion: 0, ContractAddress: contractAddr,
		Signs: [][]byte{sign(privs[0], cat(redeem, u64le(redeemChain), contractAddr, u64le(contractChain), u64le(0)))}}
	pb := &scm.BtcTxParam{Redeem: redeem, RedeemChainId: redeemChain, Detial: &scm.BtcTxParamDetial{PVersion: pv, FeeRate: fr, MinChange: mc},
		Sigs: [][]byte{sign(privs[1], cat(redeem, u64le(redeemChain), u64le(fr), u64le(mc), u64le(pv)))}}
	inA, inB := ser(pa.Serialization), ser(pb.Serialization)
	out := &redeemOutcome{}
	paramSet := func(w *wWorld) bool {
		ns := w.sb.Service(nativekit.Tx(), nil)
		d, err := scm.GetBtcTxParam(ns, rk, redeemChain)
		return err == nil && d != nil
	}
	bindKeys := func(ws map[string]string) []string {
		var ks []string
		// whatever the namespace byte is: contract address + constant
		pre := hex.EncodeToString(append(append([]byte{}, utils.SideChainManagerContractAddress[:]...), []byte(scm.BIND_SIGN_INFO)...))
		for k := range ws {
			if len(k) >= 2+len(pre) && k[2:2+len(pre)] == pre {
				ks = append(ks, k)
			}
		}
		return ks
	}
	// A then B on one universe
	w := newWWorld()
	base := w.sb.WriteSet()
	if _, _, err := w.sb.Call(scm.RegisterRedeem, nativekit.Tx(w.stranger.Address), inA); err != nil {
		out.ErrA = err.Error()
	}
	wa := newWrites(base, w.sb.WriteSet())
	out.KeyA = bindKeys(wa)
	mid := w.sb.WriteSet()
	if _, _, err := w.sb.Call(scm.SetBtcTxParam, nativekit.Tx(w.stranger.Address), inB); err != nil {
		out.ErrB = err.Error()
	}
	wb := newWrites(mid, w.sb.WriteSet())
	out.KeyB = bindKeys(wb)
	out.ParamSetWithOneSig = paramSet(w)
	putSandbox(w.sb)
	// control: B alone
	w2 := newWWorld()
	if _, _, err := w2.sb.Call(scm.SetBtcTxParam, nativekit.Tx(w2.stranger.Address), inB); err != nil {
		out.ErrBOnly = err.Error()
	}
	out.ParamSetByBAlone = paramSet(w2)
	putSandbox(w2.sb)
	// full threshold: two genuine signatures install the contract binding and the redeem script
	w3 := newWWorld()
	base3 := w3.sb.WriteSet()
	pfull := &scm.RegisterRedeemParam{RedeemChainID: redeemChain, ContractChainID: 2, Redeem: redeem, CVersion: 0, ContractAddress: []byte{0xaa, 0xbb},
		Signs: [][]byte{sign(privs[0], cat(redeem, u64le(redeemChain), []byte{0xaa, 0xbb}, u64le(2), u64le(0))),
			sign(privs[2], cat(redeem, u64le(redeemChain), []byte{0xaa, 0xbb}, u64le(2), u64le(0)))}}
	w3.sb.Call(scm.RegisterRedeem, nativekit.Tx(w3.stranger.Address), ser(pfull.Serialization))
	wfull := newWrites(base3, w3.sb.WriteSet())
	putSandbox(w3.sb)
	var res []kWrite
	for k := range wfull {
		res = append(res, kWrite{Op: "scm.registerRedeem", Raw: k})
	}
	for k := range wa {
		res = append(res, kWrite{Op: "scm.registerRedeem", Raw: k})
	}
	for k := range wb {
		res = append(res, kWrite{Op: "scm.setBtcTxParam", Raw: k})
	}
	return res, out
}

// chain-id keyed record kinds of the governance contracts: the writer runs the real operation(s) that create the record
// for the given 8-byte id and returns the raw keys written.
func writerFor(name string) func(w *wWorld, id uint64) {
	regSC := func(w *wWorld, id uint64) []byte {
		p := &scm.RegisterSideChainParam{Address: w.owner.Address, ChainId: id, Router: utils.ETH_ROUTER, Name: "x", BlocksToWait: 1, CCMCAddress: []byte{0xcc}}
		return ser(func(s *common.ZeroCopySink) { p.Serialization(s) })
	}
	chainid := func(a common.Address, id uint64) []byte {
		p := &scm.ChainidParam{Chainid: id, Address: a}
		return ser(p.Serialization)
	}
	approve3 := func(w *wWorld, h func(a common.Address) error) {
		for _, v := range w.vals[:3] {
			h(v.Address)
		}
	}
	call := func(w *wWorld, h func(w *wWorld, wit common.Address, in []byte) error, wit common.Address, in []byte) {
		h(w, wit, in)
	}
	_ = call
	run := func(w *wWorld, h nativeHandler, wit common.Address, in []byte) error {
		_, _, err := w.sb.Call(h, nativekit.Tx(wit), in)
		return err
	}
	switch name {
	case "sideChainApply":
		return func(w *wWorld, id uint64) { run(w, scm.RegisterSideChain, w.owner.Address, regSC(w, id)) }
	case "sideChain":
		return func(w *wWorld, id uint64) {
			run(w, scm.RegisterSideChain, w.owner.Address, regSC(w, id))
			approve3(w, func(a common.Address) error { return run(w, scm.ApproveRegisterSideChain, a, chainid(a, id)) })
		}
	case "updateSideChainRequest":
		return func(w *wWorld, id uint64) {
			w.putSideChainRec(&scm.SideChain{Address: w.owner.Address, ChainId: id, Router: utils.ETH_ROUTER, Name: "c", BlocksToWait: 1, CCMCAddress: []byte{0xcc}})
			run(w, scm.UpdateSideChain, w.owner.Address, regSC(w, id))
		}
	case "quitSideChainRequest":
		return func(w *wWorld, id uint64) {
			w.putSideChainRec(&scm.SideChain{Address: w.owner.Address, ChainId: id, Router: utils.ETH_ROUTER, Name: "c", BlocksToWait: 1, CCMCAddress: []byte{0xcc}})
			run(w, scm.QuitSideChain, w.owner.Address, chainid(w.owner.Address, id))
		}
	case "relayerApply", "relayerRemove": // ids are counters starting at 0
		return func(w *wWorld, id uint64) {
			p := &relayer_manager.RelayerListParam{AddressList: []common.Address{w.stranger.Address}, Address: w.owner.Address}
			h := nativeHandler(relayer_manager.RegisterRelayer)
			if name == "relayerRemove" {
				h = relayer_manager.RemoveRelayer
			}
			for i := uint64(0); i <= id && i < 4; i++ {
				run(w, h, w.owner.Address, ser(p.Serialization))
			}
		}
	case "stateValidatorApply", "stateValidatorRemove":
		return func(w *wWorld, id uint64) {
			p := &neo3_state_manager.StateValidatorListParam{StateValidators: []string{pkHex(w.extra)}, Address: w.owner.Address}
			h := nativeHandler(neo3_state_manager.RegisterStateValidator)
			if name == "stateValidatorRemove" {
				h = neo3_state_manager.RemoveStateValidator
			}
			for i := uint64(0); i <= id && i < 4; i++ {
				run(w, h, w.owner.Address, ser(p.Serialization))
			}
		}
	}
	_ = nm.PEER_POOL
	return nil
}

type collideReq struct {
	A        string `json:"a"`
	B        string `json:"b"`
	Contract string `json:"contract"`
	Key      []int  `json:"key"` // merged cells of the common key (-1: free byte)
}

type collideRes struct {
	A          string      `json:"a"`
	B          string      `json:"b"`
	Reproduced bool        `json:"reproduced"`
	NoRecipe   bool        `json:"norecipe,omitempty"`
	Common     []string    `json:"common,omitempty"`
	Detail     interface{} `json:"detail,omitempty"`
}

func keysCollide() {
	dec := json.NewDecoder(os.Stdin)
	for dec.More() {
		var rq collideReq
		if err := dec.Decode(&rq); err != nil {
			vio.Fatal("bad collide request: %v", err)
		}
		rs := collideRes{A: rq.A, B: rq.B}
		switch {
		case rq.A == "bindSignInfo:registerRedeem" && rq.B == "bindSignInfo:setBtcTxParam", rq.B == "bindSignInfo:registerRedeem" && rq.A == "bindSignInfo:setBtcTxParam":
			_, out := collideRedeemFull()
			rs.Common = intersect(out.KeyA, out.KeyB)
			rs.Reproduced = len(rs.Common) > 0
			rs.Detail = out
		default:
			wa, wb := writerFor(rq.A), writerFor(rq.B)
			if wa == nil || wb == nil {
				rs.NoRecipe = true
				break
			}
			// the last 8 cells are the id field of both kinds; free bytes become 0 except the lowest, 1
			id := uint64(0)
			n := len(rq.Key)
			for i := 0; i < 8 && n >= 8; i++ {
				c := rq.Key[n-8+i]
				if c < 0 {
					c = 0
				}
				id |= uint64(c) << (8 * uint(i))
			}
			w1 := newWWorld()
			b1 := w1.sb.WriteSet()
			wa(w1, id)
			k1 := rawKeys(newWrites(b1, w1.sb.WriteSet()))
			putSandbox(w1.sb)
			w2 := newWWorld()
			b2 := w2.sb.WriteSet()
			wb(w2, id)
			k2 := rawKeys(newWrites(b2, w2.sb.WriteSet()))
			putSandbox(w2.sb)
			// a common key that is not one of the shared bookkeeping records (id counters are written by both on purpose)
			ca := contractAddrs[rq.Contract]
			want := hex.EncodeToString(ca[:])
			for _, k := range intersect(k1, k2) {
				if len(k) > 2+len(want) && k[2:2+len(want)] == want && cellsMatch(rq.Key, k[2+len(want):]) {
					rs.Common = append(rs.Common, k)
				}
			}
			rs.Reproduced = len(rs.Common) > 0
			rs.Detail = map[string]interface{}{"id": id, "written_a": k1, "written_b": k2}
		}
		vio.Emit(rs)
	}
}

func cellsMatch(cells []int, restHex string) bool {
	b, err := hex.DecodeString(restHex)
	if err != nil || len(b) != len(cells) {
		return false
	}
	for i, c := range cells {
		if c >= 0 && int(b[i]) != c {
			return false
		}
	}
	return true
}

func intersect(a, b []string) []string {
	m := map[string]bool{}
	for _, x := range a {
		m[x] = true
	}
	var r []string
	for _, x := range b {
		if m[x] {
			r = append(r, x)
		}
	}
	return r
}
