// vd-txexec: drivers for transaction execution (C15 atomicity, C16 determinism).
//
//	replay          stdin: ROW lines of spec/TxExec.tla; every block is executed by the real
//	                LedgerStoreImp.ExecuteBlock on a real on-disk ledger whose state is the row's prior state.
//	chain N L       N random chains of L probe blocks each (taken from stdin rows) executed AND submitted; the
//	                observation is taken from the execute result and from the persisted state / event store.
//	c16-run DIR     executes every scenario block found in DIR (or creates them on first use) R times and logs
//	                one exec event per execution (state id, block id, result digest).
package main

import (
	"os"
	"runtime/pprof"
	"strconv"

	"verifh/kit/vio"
)

func atoi(s string) int {
	n, err := strconv.Atoi(s)
	if err != nil {
		vio.Fatal("bad number %q", s)
	}
	return n
}

func main() {
	defer vio.Flush()
	if pf := os.Getenv("VD_CPUPROF"); pf != "" {
		if f, err := os.Create(pf); err == nil {
			pprof.StartCPUProfile(f)
			defer pprof.StopCPUProfile()
		}
	}
	if len(os.Args) < 2 {
		vio.Fatal("usage: vd-txexec <cmd> ...")
	}
	switch os.Args[1] {
	case "replay":
		n := 0
		if len(os.Args) > 2 {
			n = atoi(os.Args[2])
		}
		replay(n)
	case "chain":
		chain(atoi(os.Args[2]), atoi(os.Args[3]))
	case "c16-run":
		c16Run(os.Args[2], os.Args[3], atoi(os.Args[4]))
	default:
		vio.Fatal("unknown command %s", os.Args[1])
	}
}
