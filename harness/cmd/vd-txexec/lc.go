package main

// Synthetic side chains the real light clients accept (recipes bsc_test / eth_forks_test of the design round):
// a BSC chain with real secp256k1 seals and an account/storage trie for one deposit, an Ethereum chain whose
// Ethash seal is waved through by eth.VerifSealHook (everything else of the header rules is real).

import (
	"crypto/ecdsa"
	"encoding/json"
	"math/big"
	"time"

	"github.com/btcsuite/btcd/btcec"
	"github.com/btcsuite/btcd/chaincfg"
	"github.com/btcsuite/btcd/txscript"
	"github.com/btcsuite/btcutil"
	ecommon "github.com/ethereum/go-ethereum/common"
	"github.com/ethereum/go-ethereum/common/hexutil"
	etypes "github.com/ethereum/go-ethereum/core/types"
	"github.com/ethereum/go-ethereum/crypto"
	"github.com/ethereum/go-ethereum/ethdb/memorydb"
	"github.com/ethereum/go-ethereum/rlp"
	"github.com/ethereum/go-ethereum/trie"
	ocommon "github.com/ontio/ontology/common"
	otypes "github.com/ontio/ontology/core/types"
	"github.com/polynetwork/poly/account"
	"github.com/polynetwork/poly/common"
	vconfig "github.com/polynetwork/poly/consensus/vbft/config"
	"github.com/polynetwork/poly/core/types"
	scom "github.com/polynetwork/poly/native/service/cross_chain_manager/common"
	ethp "github.com/polynetwork/poly/native/service/cross_chain_manager/eth"
	scm "github.com/polynetwork/poly/native/service/governance/side_chain_manager"
	"github.com/polynetwork/poly/native/service/header_sync/bsc"
	"github.com/polynetwork/poly/native/service/header_sync/eth"
	"github.com/polynetwork/poly/native/service/utils"

	"verifh/kit/vio"
)

const bscChainID = 56

func bytesOf(b byte, n int) []byte {
	r := make([]byte, n)
	for i := range r {
		r[i] = b
	}
	return r
}

// ontGenesis: an Ontology header whose consensus payload announces n peers (stored as a peer map by the ont light client).
func ontGenesis(n int) []byte {
	cfg := &vconfig.ChainConfig{}
	for i := 0; i < n; i++ {
		a := account.NewAccount("")
		cfg.Peers = append(cfg.Peers, &vconfig.PeerConfig{Index: uint32(i + 1), ID: vconfig.PubkeyID(a.PublicKey)})
	}
	payload, _ := json.Marshal(&vconfig.VbftBlockInfo{NewChainConfig: cfg})
	h := &otypes.Header{Height: 0, ConsensusPayload: payload}
	sink := ocommon.NewZeroCopySink(nil)
	h.Serialization(sink)
	return sink.Bytes()
}

// redeem: a BTC m-of-n multisig redeem script with its keys (side_chain_manager registerRedeem / setBtcTxParam).
type redeem struct {
	keys   []*btcec.PrivateKey
	script []byte
}

func newRedeem(n, m int) *redeem {
	r := &redeem{}
	var pubs []*btcutil.AddressPubKey
	for i := 0; i < n; i++ {
		k, err := btcec.NewPrivateKey(btcec.S256())
		vio.Must(err)
		r.keys = append(r.keys, k)
		ap, err := btcutil.NewAddressPubKey(k.PubKey().SerializeCompressed(), &chaincfg.TestNet3Params)
		vio.Must(err)
		pubs = append(pubs, ap)
	}
	s, err := txscript.MultiSigScript(pubs, m)
	vio.Must(err)
	r.script = s
	return r
}

func (r *redeem) sign(hash []byte, who ...int) [][]byte {
	var out [][]byte
	for _, i := range who {
		sig, err := r.keys[i].Sign(hash)
		vio.Must(err)
		out = append(out, sig.Serialize())
	}
	return out
}

func (r *redeem) registerArgs(who ...int) []byte {
	contract := bytesOf(0xc7, 20)
	cat := append([]byte{}, r.script...)
	cat = append(cat, utils.GetUint64Bytes(1)...)
	cat = append(cat, contract...)
	cat = append(cat, utils.GetUint64Bytes(2)...)
	cat = append(cat, utils.GetUint64Bytes(1)...)
	p := &scm.RegisterRedeemParam{RedeemChainID: 1, ContractChainID: 2, Redeem: r.script, CVersion: 1, ContractAddress: contract,
		Signs: r.sign(btcutil.Hash160(cat), who...)}
	s := common.NewZeroCopySink(nil)
	p.Serialization(s)
	return s.Bytes()
}

func (r *redeem) txParamArgs(who ...int) []byte {
	d := &scm.BtcTxParamDetial{PVersion: 1, FeeRate: 10, MinChange: 5000}
	cat := append([]byte{}, r.script...)
	cat = append(cat, utils.GetUint64Bytes(1)...)
	cat = append(cat, utils.GetUint64Bytes(d.FeeRate)...)
	cat = append(cat, utils.GetUint64Bytes(d.MinChange)...)
	cat = append(cat, utils.GetUint64Bytes(d.PVersion)...)
	p := &scm.BtcTxParam{Redeem: r.script, RedeemChainId: 1, Sigs: r.sign(btcutil.Hash160(cat), who...), Detial: d}
	s := common.NewZeroCopySink(nil)
	p.Serialization(s)
	return s.Bytes()
}

func hdrJSON(h interface{}) []byte {
	b, err := json.Marshal(h)
	vio.Must(err)
	return b
}

type bscChain struct {
	keys    []*ecdsa.PrivateKey
	addrs   []ecommon.Address
	base    uint64
	gen     *etypes.Header
	tip     *etypes.Header
	ccmc    ecommon.Address
	msg     []byte
	proof   []byte
	accRoot ecommon.Hash
}

func (c *bscChain) seal(h *etypes.Header, k *ecdsa.PrivateKey) {
	sig, err := crypto.Sign(bsc.SealHash(h, big.NewInt(bscChainID)).Bytes(), k)
	vio.Must(err)
	copy(h.Extra[len(h.Extra)-65:], sig)
}

func (c *bscChain) mk(num uint64, parent, root ecommon.Hash, withVals bool, tm uint64) *etypes.Header {
	signer := int(num % uint64(len(c.keys)))
	ex := make([]byte, 32)
	if withVals {
		for _, a := range c.addrs {
			ex = append(ex, a.Bytes()...)
		}
	}
	ex = append(ex, make([]byte, 65)...)
	if tm == 0 {
		tm = c.base + num
	}
	h := &etypes.Header{ParentHash: parent, UncleHash: etypes.CalcUncleHash(nil), Coinbase: c.addrs[signer], Root: root,
		Number: new(big.Int).SetUint64(num), GasLimit: 30000000, Time: tm, Extra: ex, Difficulty: big.NewInt(2)}
	c.seal(h, c.keys[signer])
	return h
}

func newBscChain(n int) *bscChain {
	c := &bscChain{base: uint64(time.Now().Unix()) - 1000, ccmc: ecommon.HexToAddress("0x00000000000000000000000000000000000000cc")}
	for i := 0; i < n; i++ {
		k, err := crypto.GenerateKey()
		vio.Must(err)
		c.keys = append(c.keys, k)
		c.addrs = append(c.addrs, crypto.PubkeyToAddress(k.PublicKey))
	}
	c.buildDeposit()
	c.gen = c.mk(200, ecommon.Hash{}, ecommon.Hash{}, true, 0)
	c.tip = c.gen
	return c
}

func (c *bscChain) genesisJSON() []byte {
	gh := bsc.GenesisHeader{Header: *c.gen, PrevValidators: []bsc.HeightAndValidators{{Height: big.NewInt(0), Validators: c.addrs}}}
	return hdrJSON(&gh)
}

// next extends the chain by one in-turn header; header 201 carries the deposit's state root; tm = 0: base + number.
func (c *bscChain) next(tm uint64) *etypes.Header {
	num := c.tip.Number.Uint64() + 1
	root := ecommon.Hash{}
	if num == 201 {
		root = c.accRoot
	}
	h := c.mk(num, c.tip.Hash(), root, false, tm)
	c.tip = h
	return h
}

func proofOf(tr *trie.Trie, key []byte) []string {
	pdb := memorydb.New()
	vio.Must(tr.Prove(key, 0, pdb))
	var out []string
	it := pdb.NewIterator(nil, nil)
	for it.Next() {
		out = append(out, hexutil.Encode(it.Value()))
	}
	return out
}

func (c *bscChain) buildDeposit() {
	msg := &scom.MakeTxParam{TxHash: []byte{1}, CrossChainID: []byte{7, 7}, FromContractAddress: []byte{9}, ToChainID: 2,
		ToContractAddress: []byte{8}, Method: "unlock", Args: []byte{1, 2, 3}}
	ms := common.NewZeroCopySink(nil)
	msg.Serialization(ms)
	c.msg = ms.Bytes()
	tdb := trie.NewDatabase(memorydb.New())
	st, _ := trie.New(ecommon.Hash{}, tdb)
	slot := ecommon.HexToHash("0x01")
	valEnc, _ := rlp.EncodeToBytes(crypto.Keccak256(c.msg))
	st.Update(crypto.Keccak256(slot.Bytes()), valEnc)
	st.Update(crypto.Keccak256(ecommon.HexToHash("0x02").Bytes()), valEnc)
	sroot, err := st.Commit(nil)
	vio.Must(err)
	acc := &ethp.ProofAccount{Nounce: big.NewInt(1), Balance: big.NewInt(0), Storage: sroot, Codehash: ecommon.HexToHash("0xaa")}
	accEnc, _ := rlp.EncodeToBytes(acc)
	at, _ := trie.New(ecommon.Hash{}, tdb)
	at.Update(crypto.Keccak256(c.ccmc.Bytes()), accEnc)
	at.Update(crypto.Keccak256([]byte("other")), accEnc)
	aroot, err := at.Commit(nil)
	vio.Must(err)
	c.accRoot = aroot
	ep := &ethp.ETHProof{Address: c.ccmc.Hex(), Balance: "0x0", CodeHash: acc.Codehash.Hex(), Nonce: "0x1", StorageHash: sroot.Hex(),
		AccountProof:  proofOf(at, crypto.Keccak256(c.ccmc.Bytes())),
		StorageProofs: []ethp.StorageProof{{Key: slot.Hex(), Proof: proofOf(st, crypto.Keccak256(slot.Bytes()))}}}
	c.proof, _ = json.Marshal(ep)
}

// importTx returns a maker of ImportOuterTransfer transactions for the deposit proven at the given height.
func (c *bscChain) importTx(n *natCtx, relayer *account.Account, height uint32) func(k int) *types.Transaction {
	return func(k int) *types.Transaction {
		imp := &scom.EntranceParam{SourceChainID: 6, Height: height, Proof: c.proof, RelayerAddress: relayer.Address[:], Extra: c.msg}
		s := common.NewZeroCopySink(nil)
		imp.Serialization(s)
		return n.tx(utils.CrossChainManagerContractAddress, scom.IMPORT_OUTER_TRANSFER_NAME, s.Bytes(), relayer)
	}
}

// ---- ethereum ---------------------------------------------------------------------------------------------------

type ethChain struct{ genesis *eth.Header }

func newEthChain() *ethChain {
	base := uint64(time.Now().Unix()) - 100000
	return &ethChain{genesis: &eth.Header{UncleHash: etypes.EmptyUncleHash, Difficulty: big.NewInt(1000000), Number: big.NewInt(1000),
		GasLimit: 10000000, Time: base, Extra: []byte{}}}
}

func (c *ethChain) genesisJSON() []byte { return hdrJSON(c.genesis) }

// pre-London difficulty rule, far below the bomb
func diffNext(parentDiff int64, parentTime, tm uint64) *big.Int {
	x := int64(1) - int64((tm-parentTime)/9)
	if x < -99 {
		x = -99
	}
	d := parentDiff + parentDiff/2048*x
	if d < 131072 {
		d = 131072
	}
	return big.NewInt(d)
}

func (c *ethChain) childAt(parent *eth.Header, tm uint64, salt byte) *eth.Header {
	h := &eth.Header{ParentHash: parent.Hash(), UncleHash: etypes.EmptyUncleHash, Number: new(big.Int).Add(parent.Number, big.NewInt(1)),
		GasLimit: parent.GasLimit, Time: tm, Extra: []byte{salt}, Coinbase: ecommon.Address{salt}}
	h.Difficulty = diffNext(parent.Difficulty.Int64(), parent.Time, tm)
	return h
}

func (c *ethChain) child(parent *eth.Header, dt uint64, salt byte) *eth.Header {
	return c.childAt(parent, parent.Time+dt, salt)
}

// ---- ethereum, London era (main-net numbering: London from 12 965 000, Arrow Glacier not before 13 773 000) ------

type londonChain struct{ genesis *eth.Header }

func newLondonChain() *londonChain {
	base := uint64(time.Now().Unix()) - 200000
	return &londonChain{genesis: &eth.Header{UncleHash: etypes.EmptyUncleHash, Difficulty: big.NewInt(8000000000000000), Number: big.NewInt(13000000),
		GasLimit: 30000000, GasUsed: 15000000, Time: base, Extra: []byte{}, BaseFee: big.NewInt(1000000000)}}
}

func (c *londonChain) genesisJSON() []byte { return hdrJSON(c.genesis) }

// London difficulty rule (EIP-3554: bomb delayed by 9 700 000), written independently of poly's code
func londonDiff(parent *eth.Header, tm uint64) *big.Int {
	x := int64(1) - int64((tm-parent.Time)/9)
	if x < -99 {
		x = -99
	}
	d := new(big.Int).Div(parent.Difficulty, big.NewInt(2048))
	d.Mul(d, big.NewInt(x))
	d.Add(d, parent.Difficulty)
	if d.Cmp(big.NewInt(131072)) < 0 {
		d.SetInt64(131072)
	}
	fake := new(big.Int).Sub(parent.Number, big.NewInt(9699999))
	if fake.Sign() > 0 {
		period := new(big.Int).Div(fake, big.NewInt(100000)).Int64()
		if period > 1 {
			d.Add(d, new(big.Int).Lsh(big.NewInt(1), uint(period-2)))
		}
	}
	return d
}

// child keeps gas limit, half-full blocks (base fee unchanged) and no uncles
func (c *londonChain) child(parent *eth.Header, dt uint64) *eth.Header {
	h := &eth.Header{ParentHash: parent.Hash(), UncleHash: etypes.EmptyUncleHash, Number: new(big.Int).Add(parent.Number, big.NewInt(1)),
		GasLimit: parent.GasLimit, GasUsed: parent.GasLimit / 2, Time: parent.Time + dt, Extra: []byte{7}, BaseFee: new(big.Int).Set(parent.BaseFee)}
	h.Difficulty = londonDiff(parent, h.Time)
	return h
}
