package main

import (
	"bytes"
	"encoding/json"
	"fmt"
	"os"
	"path/filepath"
	"runtime"
	"sort"
	"strconv"
	"strings"
	"sync"

	"github.com/polynetwork/poly/account"
	"github.com/polynetwork/poly/common"
	"github.com/polynetwork/poly/common/config"
	"github.com/polynetwork/poly/common/log"
	cstates "github.com/polynetwork/poly/core/states"
	"github.com/polynetwork/poly/core/store"
	"github.com/polynetwork/poly/core/types"
	"github.com/polynetwork/poly/merkle"
	"github.com/polynetwork/poly/native/event"

	"verifh/kit/ledgerkit"
	"verifh/kit/vio"
)

// ---- model-side data (spec/TxExec.tla) -------------------------------------------------------------------------

type mStep struct {
	Op    string  `json:"op"`
	K     string  `json:"k"`
	N     int     `json:"n"`
	Sub   []mStep `json:"sub"`
	Catch bool    `json:"catch"`
}
type kvEnt struct {
	C int    `json:"c"`
	K string `json:"k"`
	V []int  `json:"v"`
}
type rdEnt struct {
	ID []int `json:"id"`
	V  []int `json:"v"`
}
type txObs struct {
	Ok bool    `json:"ok"`
	Nt [][]int `json:"nt"`
	Rd []rdEnt `json:"rd"`
}
type blockObs struct {
	Txs []txObs `json:"txs"`
	Xh  [][]int `json:"xh"`
	Ws  []kvEnt `json:"ws"`
}
type row struct {
	Blk   [][]mStep       `json:"blk"`
	Prior []kvEnt         `json:"prior"`
	Obs   blockObs        `json:"obs"`
	Viol  [][]interface{} `json:"viol"`
}

func idStr(tag string, id []int) string {
	p := make([]string, len(id))
	for i, x := range id {
		p[i] = strconv.Itoa(x)
	}
	return tag + strings.Join(p, ".")
}

func cat(pre []int, i int) []int {
	r := make([]int, len(pre)+1)
	copy(r, pre)
	r[len(pre)] = i
	return r
}

// conc turns a model script into a probe script; every effect carries its step id as payload.
func conc(steps []mStep, pre []int, tag string, ids map[string][]int) []ledgerkit.Step {
	out := make([]ledgerkit.Step, 0, len(steps))
	for i, s := range steps {
		id := cat(pre, i+1)
		is := idStr(tag, id)
		ids[is] = id
		switch s.Op {
		case "put":
			out = append(out, ledgerkit.Step{Op: "put", K: s.K, V: is})
		case "del", "get":
			out = append(out, ledgerkit.Step{Op: s.Op, K: s.K})
		case "rec", "notify":
			out = append(out, ledgerkit.Step{Op: s.Op, K: is})
		case "fail":
			out = append(out, ledgerkit.Step{Op: "fail"})
		case "call":
			out = append(out, ledgerkit.Step{Op: "call", Steps: conc(s.Sub, id, tag, ids), Catch: s.Catch})
		default:
			panic("step not executable by the probe: " + s.Op)
		}
	}
	return out
}

// execGets lists, in execution order, the ids of the get steps that the script's control flow reaches.
func execGets(steps []mStep, pre []int, acc *[][]int) (aborted bool) {
	for i, s := range steps {
		id := cat(pre, i+1)
		switch s.Op {
		case "get":
			*acc = append(*acc, id)
		case "fail":
			return true
		case "call":
			if execGets(s.Sub, id, acc) && !s.Catch {
				return true
			}
		}
	}
	return false
}

// ---- read log ---------------------------------------------------------------------------------------------------

type readEnt struct{ k, v string }

var (
	readMu  sync.Mutex
	readLog = map[string][]readEnt{}
)

func installReadLog() {
	ledgerkit.ProbeReadLog = func(tx, key, val string) {
		readMu.Lock()
		readLog[tx] = append(readLog[tx], readEnt{key, val})
		readMu.Unlock()
	}
}

func takeReads(tx string) []readEnt {
	readMu.Lock()
	r := readLog[tx]
	delete(readLog, tx)
	readMu.Unlock()
	return r
}

// ---- ledgers ----------------------------------------------------------------------------------------------------

var openMu sync.Mutex

func quietPoly() {
	log.InitLog(log.FatalLog)
	config.DefConfig.Common.EnableEventLog = true
}

type probeLedger struct {
	lg     *ledgerkit.Ledger
	intern map[string]int
	nonce  uint32
}

func priorSig(p []kvEnt) string {
	var s []string
	for _, e := range p {
		s = append(s, fmt.Sprintf("%d/%s", e.C, e.K))
	}
	sort.Strings(s)
	return strings.Join(s, ",")
}

// newProbeLedger opens a fresh real ledger (solo mode, one bookkeeper) and commits one block that installs prior.
func newProbeLedger(dir string, accts []*account.Account, prior []kvEnt) *probeLedger {
	openMu.Lock()
	defer openMu.Unlock()
	os.RemoveAll(dir)
	lg, err := ledgerkit.Open(dir, accts, false)
	vio.Must(err)
	pl := &probeLedger{lg: lg, intern: map[string]int{}, nonce: 1 << 20}
	if len(prior) > 0 {
		var top, sub []ledgerkit.Step
		for _, e := range prior {
			st := ledgerkit.Step{Op: "put", K: e.K, V: idStr("", e.V)}
			if e.C == 1 {
				top = append(top, st)
			} else {
				sub = append(sub, st)
			}
		}
		if len(sub) > 0 {
			top = append(top, ledgerkit.Step{Op: "call", Steps: sub})
		}
		b := lg.Build([]*types.Transaction{ledgerkit.ProbeTx(top, 7)}, nil)
		res, err := lg.Commit(b)
		vio.Must(err)
		if len(res.Notify) != 1 || res.Notify[0].State != event.CONTRACT_STATE_SUCCESS {
			vio.Fatal("prior-state block did not execute")
		}
		for _, e := range prior {
			if got := pl.readState(e.C, e.K); got != idStr("", e.V) {
				vio.Fatal("prior state not installed: %d/%s = %q", e.C, e.K, got)
			}
		}
	}
	return pl
}

func probeAddr(c int) common.Address {
	if c == 1 {
		return ledgerkit.ProbeAddr
	}
	return ledgerkit.Probe2Addr
}

func (pl *probeLedger) readState(c int, k string) string {
	it, err := pl.lg.L.GetStorageItem(&cstates.StorageKey{ContractAddress: probeAddr(c), Key: []byte(k)})
	if err != nil || it == nil {
		return "<nil>"
	}
	return string(it.Value)
}

// parseVal maps a stored / logged value string to the model's value encoding.
func (pl *probeLedger) parseVal(tag, s string) []int {
	if s == "<nil>" {
		return []int{0}
	}
	if strings.HasPrefix(s, tag) {
		var out []int
		ok := true
		for _, p := range strings.Split(s[len(tag):], ".") {
			n, err := strconv.Atoi(p)
			if err != nil {
				ok = false
				break
			}
			out = append(out, n)
		}
		if ok && len(out) >= 2 {
			return out
		}
	}
	n, ok := pl.intern[s]
	if !ok {
		n = len(pl.intern) + 1
		pl.intern[s] = n
	}
	return []int{0, n}
}

type execOut struct {
	Obs     blockObs `json:"obs"`
	Digest  string   `json:"digest"`
	Panic   string   `json:"panic,omitempty"`
	Err     string   `json:"err,omitempty"`
	block   *types.Block
	result  store.ExecuteResult
	txs     []*types.Transaction
	foreign bool
}

// buildBlock makes the real block for a model block (unsigned unless sign).
func (pl *probeLedger) buildBlock(blk [][]mStep, tag string, sign bool) (*types.Block, []*types.Transaction, map[string][]int) {
	ids := map[string][]int{}
	var txs []*types.Transaction
	for t, script := range blk {
		pl.nonce++
		txs = append(txs, ledgerkit.ProbeTx(conc(script, []int{t + 1}, tag, ids), pl.nonce))
	}
	return pl.lg.Build(txs, &ledgerkit.BlockOpts{NoSign: !sign}), txs, ids
}

// observe projects an ExecuteResult (plus the probe's read log) onto the model's observation alphabet.
func (pl *probeLedger) observe(blk [][]mStep, tag string, txs []*types.Transaction, ids map[string][]int, res store.ExecuteResult) (blockObs, bool) {
	foreign := false
	obs := blockObs{Txs: make([]txObs, 0, len(blk)), Xh: make([][]int, 0), Ws: make([]kvEnt, 0)}
	for t, n := range res.Notify {
		o := txObs{Nt: make([][]int, 0), Rd: make([]rdEnt, 0)}
		if n != nil {
			o.Ok = n.State == event.CONTRACT_STATE_SUCCESS
			for _, ne := range n.Notify {
				id := []int{99, 0}
				if st, ok := ne.States.([]interface{}); ok && len(st) == 1 {
					if s, ok := st[0].(string); ok {
						if v, ok := ids[s]; ok {
							id = v
						}
					}
				}
				o.Nt = append(o.Nt, id)
			}
		}
		if t < len(txs) {
			h := txs[t].Hash()
			if n != nil && n.TxHash != h {
				foreign = true
			}
			var want [][]int
			execGets(blk[t], []int{t + 1}, &want)
			for j, r := range takeReads(h.ToHexString()) {
				id := []int{0, 0}
				if j < len(want) {
					id = want[j]
				}
				o.Rd = append(o.Rd, rdEnt{ID: id, V: pl.parseVal(tag, r.v)})
			}
		}
		obs.Txs = append(obs.Txs, o)
	}
	byHash := map[common.Uint256][]int{}
	for s, id := range ids {
		byHash[merkle.HashLeaf([]byte(s))] = id
	}
	for _, h := range res.CrossHashes {
		if id, ok := byHash[h]; ok {
			obs.Xh = append(obs.Xh, id)
		} else {
			obs.Xh = append(obs.Xh, []int{99, 0})
		}
	}
	if res.WriteSet != nil {
		res.WriteSet.ForEach(func(key, val []byte) {
			e := kvEnt{C: 0, K: "?" + vio.Hex(key)}
			if len(key) >= 21 && key[0] == 0x05 {
				var a common.Address
				copy(a[:], key[1:21])
				if a == ledgerkit.ProbeAddr {
					e.C, e.K = 1, string(key[21:])
				} else if a == ledgerkit.Probe2Addr {
					e.C, e.K = 2, string(key[21:])
				}
			}
			if len(val) == 0 {
				e.V = []int{0}
			} else if v, err := cstates.GetValueFromRawStorageItem(val); err == nil {
				e.V = pl.parseVal(tag, string(v))
			} else {
				e.V = []int{99, 1}
			}
			obs.Ws = append(obs.Ws, e)
		})
	}
	return obs, foreign
}

// resultDigest hashes everything ExecuteResult carries (C16's "result digest").
func resultDigest(res store.ExecuteResult) string {
	var b bytes.Buffer
	b.Write(res.Hash[:])
	b.Write(res.MerkleRoot[:])
	b.Write(res.CrossStatesRoot[:])
	for _, h := range res.CrossHashes {
		b.Write(h[:])
	}
	b.WriteString("|ws|")
	if res.WriteSet != nil {
		res.WriteSet.ForEach(func(k, v []byte) {
			fmt.Fprintf(&b, "%d:%x=%d:%x;", len(k), k, len(v), v)
		})
	}
	b.WriteString("|ev|")
	for _, n := range res.Notify {
		if n == nil {
			b.WriteString("nil;")
			continue
		}
		fmt.Fprintf(&b, "%x/%d/%d[", n.TxHash[:], n.State, len(n.Notify))
		for _, e := range n.Notify {
			js, _ := json.Marshal(e.States)
			fmt.Fprintf(&b, "%x:%s,", e.ContractAddress[:], js)
		}
		b.WriteString("];")
	}
	h := common.Uint256(sha256of(b.Bytes()))
	return h.ToHexString()
}

func (pl *probeLedger) exec(blk [][]mStep, tag string, sign bool) (out execOut) {
	b, txs, ids := pl.buildBlock(blk, tag, sign)
	out.block, out.txs = b, txs
	var res store.ExecuteResult
	var err error
	if p := vio.Safe(func() { res, err = pl.lg.L.ExecuteBlock(b) }); p != "" {
		out.Panic = p
		return
	}
	if err != nil {
		out.Err = err.Error()
		return
	}
	out.result = res
	out.Obs, out.foreign = pl.observe(blk, tag, txs, ids, res)
	out.Digest = resultDigest(res)
	return
}

// ---- replay -----------------------------------------------------------------------------------------------------

func workers() int {
	w := runtime.GOMAXPROCS(0)
	if v, err := strconv.Atoi(os.Getenv("VERIF_WORKERS")); err == nil && v > 0 {
		w = v
	}
	if w > 12 {
		w = 12
	}
	if w < 1 {
		w = 1
	}
	return w
}

func outDir(name string) string {
	base := os.Getenv("VERIF_OUT")
	if base == "" {
		base = "."
	}
	return filepath.Join(base, name)
}

// readRows accepts plain NDJSON rows or raw TLC output (lines <<"ROW", "...">> with TLA+ string escapes).
func readRows() []row {
	var rows []row
	const pre = `<<"ROW", "`
	for _, ln := range vio.ReadLines() {
		b := []byte(ln)
		if bytes.HasPrefix(b, []byte(pre)) && bytes.HasSuffix(b, []byte(`">>`)) {
			b = b[len(pre) : len(b)-3]
			u := make([]byte, 0, len(b))
			for i := 0; i < len(b); i++ {
				if b[i] == '\\' && i+1 < len(b) {
					i++
					switch b[i] {
					case 'n':
						u = append(u, '\n')
					case 't':
						u = append(u, '\t')
					default:
						u = append(u, b[i])
					}
					continue
				}
				u = append(u, b[i])
			}
			b = u
		} else if len(b) == 0 || b[0] != '{' {
			continue
		}
		var r row
		if err := json.Unmarshal(b, &r); err != nil {
			vio.Fatal("bad row %d: %v", len(rows), err)
		}
		rows = append(rows, r)
	}
	return rows
}

func normObs(o blockObs) blockObs {
	sort.Slice(o.Ws, func(i, j int) bool {
		if o.Ws[i].C != o.Ws[j].C {
			return o.Ws[i].C < o.Ws[j].C
		}
		return o.Ws[i].K < o.Ws[j].K
	})
	if o.Txs == nil {
		o.Txs = []txObs{}
	}
	if o.Xh == nil {
		o.Xh = [][]int{}
	}
	if o.Ws == nil {
		o.Ws = []kvEnt{}
	}
	return o
}

func scriptFails(s []mStep) bool {
	for _, st := range s {
		if st.Op == "fail" || (st.Op == "call" && !st.Catch && scriptFails(st.Sub)) {
			return true
		}
	}
	return false
}
func hasCall(s []mStep) bool {
	for _, st := range s {
		if st.Op == "call" {
			return true
		}
	}
	return false
}
func hasCaught(s []mStep) bool {
	for _, st := range s {
		if st.Op == "call" && ((st.Catch && scriptFails(st.Sub)) || hasCaught(st.Sub)) {
			return true
		}
	}
	return false
}

// context names the shape of the transaction a violated clause is attributed to (tx = 0: the whole block).
func context(blk [][]mStep, tx int) string {
	pick := blk
	if tx >= 1 && tx <= len(blk) {
		pick = blk[tx-1 : tx]
	}
	c := "flat"
	for _, s := range pick {
		if hasCaught(s) {
			return "caught-nested-failure"
		}
		if hasCall(s) {
			c = "nested"
		}
	}
	return c
}

func violKeys(blk [][]mStep, viol [][]interface{}) []string {
	seen := map[string]bool{}
	var ks []string
	for _, v := range viol {
		if len(v) != 2 {
			continue
		}
		cl, _ := v[0].(string)
		tx, _ := v[1].(float64)
		k := cl + ":" + context(blk, int(tx))
		if !seen[k] {
			seen[k] = true
			ks = append(ks, k)
		}
	}
	sort.Strings(ks)
	return ks
}

func replay(nSample int) {
	quietPoly()
	ledgerkit.RegisterProbe()
	installReadLog()
	rows := readRows()
	accts := ledgerkit.LoadOrCreateAccounts(outDir("txexec-keys"), 1)
	w := workers()
	type wstate struct{ byPrior map[string]*probeLedger }
	ws := make([]*wstate, w)
	for k := range ws {
		ws[k] = &wstate{byPrior: map[string]*probeLedger{}}
	}
	sample := map[int]bool{}
	rng := vio.NewRNG(vio.Seed() + 77)
	for len(sample) < nSample && len(sample) < len(rows) {
		sample[rng.Intn(len(rows))] = true
	}
	type class struct {
		Count   int         `json:"count"`
		Example interface{} `json:"example"`
	}
	var mu sync.Mutex
	distinct := map[[32]byte]bool{}
	nontrivial := map[[32]byte]bool{}
	classes := map[string]*class{}
	matched, mismatched := 0, 0
	var wg sync.WaitGroup
	for k := 0; k < w; k++ {
		wg.Add(1)
		go func(k int) {
			defer wg.Done()
			for i := k; i < len(rows); i += w {
				r := rows[i]
				sig := priorSig(r.Prior)
				pl := ws[k].byPrior[sig]
				if pl == nil {
					pl = newProbeLedger(outDir(fmt.Sprintf("txexec-w%d-%d", k, len(ws[k].byPrior))), accts, r.Prior)
					pl.nonce = uint32(k+1) << 24
					ws[k].byPrior[sig] = pl
				}
				o := pl.exec(r.Blk, "", false)
				real := normObs(o.Obs)
				pred := normObs(r.Obs)
				js, _ := json.Marshal(real)
				jp, _ := json.Marshal(pred)
				eq := bytes.Equal(js, jp) && o.Panic == "" && o.Err == "" && !o.foreign
				bj, _ := json.Marshal(r.Blk)
				full := map[string]interface{}{"i": i, "blk": r.Blk, "prior": r.Prior, "pred": pred, "obs": real, "viol": r.Viol,
					"digest": o.Digest, "panic": o.Panic, "err": o.Err, "foreign": o.foreign}
				nt := false
				for _, s := range r.Blk {
					if scriptFails(s) || hasCall(s) {
						nt = true
					}
				}
				mu.Lock()
				distinct[sha256of(js)] = true
				if nt {
					nontrivial[sha256of(append(bj, js...))] = true
				}
				if eq {
					matched++
					for _, key := range violKeys(r.Blk, r.Viol) {
						c := classes[key]
						if c == nil {
							c = &class{Example: full}
							classes[key] = c
						}
						c.Count++
					}
				} else {
					mismatched++
				}
				mu.Unlock()
				if !eq {
					full["mismatch"] = true
					vio.Emit(full)
				} else if sample[i] {
					full["sample"] = true
					vio.Emit(full)
				}
			}
		}(k)
	}
	wg.Wait()
	for _, s := range ws {
		for _, pl := range s.byPrior {
			pl.lg.L.Close()
		}
	}
	for key, c := range classes {
		vio.Emit(map[string]interface{}{"class": key, "count": c.Count, "example": c.Example})
	}
	vio.Emit(map[string]interface{}{"summary": true, "rows": len(rows), "matched": matched, "mismatched": mismatched,
		"distinct_obs": len(distinct), "distinct_nontrivial": len(nontrivial), "workers": w})
}

// ---- chains: execute + submit, observe the persisted state and events --------------------------------------------

// chain reads rows from stdin and builds n chains of l consecutive blocks (seeded choice); every block is executed,
// submitted, and the observation carries the real prior projection, the post projection and whether the event store
// returns what the execute result announced.
func chain(n, l int) {
	quietPoly()
	ledgerkit.RegisterProbe()
	installReadLog()
	rows := readRows()
	if len(rows) == 0 {
		vio.Fatal("no rows")
	}
	accts := ledgerkit.LoadOrCreateAccounts(outDir("txexec-keys"), 1)
	keys := map[string]bool{}
	var walk func(s []mStep)
	walk = func(s []mStep) {
		for _, st := range s {
			if st.K != "" && (st.Op == "put" || st.Op == "del" || st.Op == "get") {
				keys[st.K] = true
			}
			walk(st.Sub)
		}
	}
	for _, r := range rows {
		for _, tx := range r.Blk {
			walk(tx)
		}
	}
	var ks []string
	for k := range keys {
		ks = append(ks, k)
	}
	sort.Strings(ks)
	w := workers()
	if w > n {
		w = n
	}
	var wg sync.WaitGroup
	for k := 0; k < w; k++ {
		wg.Add(1)
		go func(k int) {
			defer wg.Done()
			rng := vio.NewRNG(vio.Seed()*1000003 + uint64(k))
			pl := newProbeLedger(outDir(fmt.Sprintf("txexec-chain%d", k)), accts, nil)
			pl.nonce = uint32(k+1) << 24
			project := func(tag string) []kvEnt {
				out := make([]kvEnt, 0)
				for c := 1; c <= 2; c++ {
					for _, key := range ks {
						if s := pl.readState(c, key); s != "<nil>" {
							out = append(out, kvEnt{C: c, K: key, V: pl.parseVal(tag, s)})
						}
					}
				}
				return out
			}
			for ci := k; ci < n; ci += w {
				for bi := 0; bi < l; bi++ {
					r := rows[rng.Intn(len(rows))]
					h := pl.lg.L.GetCurrentBlockHeight() + 1
					tag := fmt.Sprintf("b%d:", h)
					pl.intern = map[string]int{}
					prior := project(tag)
					o := pl.exec(r.Blk, tag, true)
					ev := map[string]interface{}{"chain": ci, "pos": bi, "height": h, "blk": r.Blk, "prior": prior, "obs": o.Obs,
						"panic": o.Panic, "err": o.Err, "foreign": o.foreign}
					if o.Panic == "" && o.Err == "" {
						if err := pl.lg.L.SubmitBlock(o.block, o.result); err != nil {
							ev["err"] = "submit: " + err.Error()
						} else {
							ev["post"] = project(tag)
							ev["evok"] = pl.eventsPersisted(o)
						}
					}
					vio.Emit(ev)
				}
			}
			pl.lg.L.Close()
		}(k)
	}
	wg.Wait()
	vio.Emit(map[string]interface{}{"summary": true, "chains": n, "len": l})
}

// eventsPersisted compares what the event store returns for every transaction with what ExecuteResult carried.
func (pl *probeLedger) eventsPersisted(o execOut) bool {
	for t, tx := range o.txs {
		got, err := pl.lg.L.GetEventNotifyByTx(tx.Hash())
		if err != nil || got == nil || t >= len(o.result.Notify) {
			return false
		}
		want := o.result.Notify[t]
		if got.State != want.State || len(got.Notify) != len(want.Notify) || got.TxHash != want.TxHash {
			return false
		}
		for i := range got.Notify {
			a, _ := json.Marshal(got.Notify[i].States)
			b, _ := json.Marshal(want.Notify[i].States)
			if !bytes.Equal(a, b) || got.Notify[i].ContractAddress != want.Notify[i].ContractAddress {
				return false
			}
		}
	}
	return true
}
