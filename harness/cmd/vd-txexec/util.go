package main

import "crypto/sha256"

func sha256of(b []byte) [32]byte { return sha256.Sum256(b) }
