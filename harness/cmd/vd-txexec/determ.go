package main

func c16Run(dir, mode string, r int) {}
