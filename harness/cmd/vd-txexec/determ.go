package main

// C16: the same block on the same prior state, executed repeatedly - in this process, in a second process with
// another GOMAXPROCS, and later in time.  Process A ("create") builds the scenarios: it extends real ledgers block by
// block, executes every candidate block R times before (possibly) submitting it, and writes the serialized blocks to
// DIR/scenarios.json.  Process B ("again") opens fresh ledgers from the same keys (so the same genesis), reads the very
// same blocks back and does the same.  A state is named by the hash of the block it was reached by (the header chain
// commits to the whole input history), a block by its hash; the result digest covers everything in ExecuteResult.

import (
	"encoding/hex"
	"encoding/json"
	"fmt"
	"math/big"
	"os"
	"path/filepath"
	"runtime"
	"time"

	"github.com/ontio/ontology-crypto/keypair"
	"github.com/polynetwork/poly/account"
	"github.com/polynetwork/poly/common"
	"github.com/polynetwork/poly/common/config"
	vconfig "github.com/polynetwork/poly/consensus/vbft/config"
	"github.com/polynetwork/poly/core/store"
	"github.com/polynetwork/poly/core/types"
	"github.com/polynetwork/poly/native/event"
	_ "github.com/polynetwork/poly/native/service"
	nm "github.com/polynetwork/poly/native/service/governance/node_manager"
	rm "github.com/polynetwork/poly/native/service/governance/relayer_manager"
	scm "github.com/polynetwork/poly/native/service/governance/side_chain_manager"
	sigm "github.com/polynetwork/poly/native/service/governance/signature_manager"
	hscom "github.com/polynetwork/poly/native/service/header_sync/common"
	"github.com/polynetwork/poly/native/service/header_sync/eth"
	"github.com/polynetwork/poly/native/service/utils"

	"verifh/kit/ledgerkit"
	"verifh/kit/vio"
)

type scStep struct {
	Label  string `json:"label"`
	Block  string `json:"block"`  // hex of the serialized block
	Commit bool   `json:"commit"` // submit after the executions
	Wall   string `json:"wall"`   // router name when the block carries a header dated in the future
	Expect string `json:"expect"` // "ok": every transaction must succeed when the block is built (guards the scenario itself)
	Reps   int    `json:"reps"`   // minimum number of in-process executions (map iteration order is re-randomised per iteration)
}
type scenario struct {
	Name  string   `json:"name"`
	Vbft  bool     `json:"vbft"`
	Keys  int      `json:"keys"`
	Steps []scStep `json:"steps"`
}
type scenFile struct {
	NotBefore int64      `json:"not_before"`
	Scenarios []scenario `json:"scenarios"`
}

type c16ctx struct {
	dir  string
	proc string
	r    int
}

func (c *c16ctx) logExec(sc, label, wall string, stateID, blockID common.Uint256, res store.ExecuteResult, err error, pan string, k int) {
	d := "panic:" + pan
	if pan == "" {
		if err != nil {
			d = "error" // the error text is not part of the observation
		} else {
			d = resultDigest(res)
		}
	}
	states := make([]int, 0)
	for _, n := range res.Notify {
		if n != nil {
			states = append(states, int(n.State))
		}
	}
	vio.Emit(map[string]interface{}{"ev": "exec", "s": sc + ":" + stateID.ToHexString(), "b": blockID.ToHexString(), "d": d,
		"scen": sc, "label": label, "wall": wall, "proc": c.proc, "gomaxprocs": runtime.GOMAXPROCS(0), "rep": k,
		"unix": time.Now().Unix(), "txstates": states})
}

// runStep executes the block R times on the ledger's current state, then submits it if asked.
func (c *c16ctx) runStep(lg *ledgerkit.Ledger, sc string, st scStep, b *types.Block) {
	stateID := lg.L.GetCurrentBlockHash()
	var last store.ExecuteResult
	reps := c.r
	if st.Reps > reps {
		reps = st.Reps
	}
	for k := 0; k < reps; k++ {
		var res store.ExecuteResult
		var err error
		pan := vio.Safe(func() { res, err = lg.L.ExecuteBlock(b) })
		c.logExec(sc, st.Label, st.Wall, stateID, b.Hash(), res, err, pan, k)
		if pan != "" || err != nil {
			vio.Fatal("scenario %s step %s: execute failed: %v %s", sc, st.Label, err, pan)
		}
		last = res
	}
	if st.Expect == "ok" && c.proc == "A" {
		// a transaction the scenario author expected to succeed failed: that is recorded, not an infrastructure error
		// (failing the same way every time is no C16 matter; the digests are what is compared)
		for i, n := range last.Notify {
			if n.State != event.CONTRACT_STATE_SUCCESS {
				vio.Emit(map[string]interface{}{"unexpected_failure": true, "scen": sc, "label": st.Label, "tx": i})
			}
		}
	}
	if st.Commit {
		if err := lg.L.SubmitBlock(b, last); err != nil {
			vio.Fatal("scenario %s step %s: submit: %v", sc, st.Label, err)
		}
	}
}

func blockHex(b *types.Block) string {
	sink := common.NewZeroCopySink(nil)
	vio.Must(b.Serialization(sink))
	return hex.EncodeToString(sink.Bytes())
}

func c16Run(dir, mode string, r int) {
	quietPoly()
	config.EXTRA_INFO_HEIGHT_FORK_CHECK = false // SideChain codecs would otherwise read the global ledger.DefLedger (nil here)
	eth.VerifSealHook = func(h *eth.Header) (bool, error) { return true, nil }
	ledgerkit.RegisterProbe()
	vio.Must(os.MkdirAll(dir, 0755))
	file := filepath.Join(dir, "scenarios.json")
	switch mode {
	case "create":
		c := &c16ctx{dir: dir, proc: "A", r: r}
		sf := &scenFile{}
		rows := readRows()
		sf.Scenarios = append(sf.Scenarios, c.createProbe(rows))
		nat, notBefore := c.createNative()
		sf.Scenarios = append(sf.Scenarios, nat)
		sf.NotBefore = notBefore
		b, _ := json.Marshal(sf)
		vio.Must(os.WriteFile(file, b, 0644))
		vio.Emit(map[string]interface{}{"info": true, "not_before": notBefore, "now": time.Now().Unix()})
	default: // "again:<tag>"
		c := &c16ctx{dir: dir, proc: mode, r: r}
		raw, err := os.ReadFile(file)
		vio.Must(err)
		var sf scenFile
		vio.Must(json.Unmarshal(raw, &sf))
		for time.Now().Unix() < sf.NotBefore {
			time.Sleep(200 * time.Millisecond)
		}
		for _, sc := range sf.Scenarios {
			accts := ledgerkit.LoadOrCreateAccounts(filepath.Join(dir, "keys-"+sc.Name), sc.Keys)
			ldir := filepath.Join(dir, mode+"-"+sc.Name)
			os.RemoveAll(ldir)
			lg, err := ledgerkit.Open(ldir, accts, sc.Vbft)
			vio.Must(err)
			for _, st := range sc.Steps {
				raw, err := hex.DecodeString(st.Block)
				vio.Must(err)
				b, err := types.BlockFromRawBytes(raw)
				vio.Must(err)
				c.runStep(lg, sc.Name, st, b)
			}
			lg.L.Close()
		}
	}
}

// ---- probe scenario ---------------------------------------------------------------------------------------------

func (c *c16ctx) createProbe(rows []row) scenario {
	sc := scenario{Name: "probe", Vbft: false, Keys: 1}
	accts := ledgerkit.LoadOrCreateAccounts(filepath.Join(c.dir, "keys-probe"), 1)
	ldir := filepath.Join(c.dir, "A-probe")
	os.RemoveAll(ldir)
	lg, err := ledgerkit.Open(ldir, accts, false)
	vio.Must(err)
	pl := &probeLedger{lg: lg, intern: map[string]int{}, nonce: 5 << 24}
	add := func(st scStep, b *types.Block) {
		st.Block = blockHex(b)
		sc.Steps = append(sc.Steps, st)
		c.runStep(lg, sc.Name, st, b)
	}
	// prior state as in the rows, then every row as a candidate on that state; every 8th candidate is submitted so that
	// later candidates run on states produced by earlier ones
	if len(rows) > 0 && len(rows[0].Prior) > 0 {
		var top, sub []ledgerkit.Step
		for _, e := range rows[0].Prior {
			s := ledgerkit.Step{Op: "put", K: e.K, V: idStr("", e.V)}
			if e.C == 1 {
				top = append(top, s)
			} else {
				sub = append(sub, s)
			}
		}
		if len(sub) > 0 {
			top = append(top, ledgerkit.Step{Op: "call", Steps: sub})
		}
		add(scStep{Label: "prior", Commit: true, Expect: "ok"}, lg.Build([]*types.Transaction{ledgerkit.ProbeTx(top, 7)}, nil))
	}
	for i, r := range rows {
		commit := i%8 == 7
		tag := fmt.Sprintf("r%d:", i)
		b, _, _ := pl.buildBlock(r.Blk, tag, commit)
		add(scStep{Label: fmt.Sprintf("row%d", i), Commit: commit}, b)
	}
	lg.L.Close()
	return sc
}

// ---- native-contract scenario (vbft ledger, 4 validators) -------------------------------------------------------

type natCtx struct {
	lg    *ledgerkit.Ledger
	accts []*account.Account
	nonce uint32
}

func (n *natCtx) pubkeys() []keypair.PublicKey {
	var r []keypair.PublicKey
	for _, a := range n.accts {
		r = append(r, a.PublicKey)
	}
	return r
}

func (n *natCtx) tx(contract common.Address, method string, args []byte, signer *account.Account) *types.Transaction {
	n.nonce++
	t := ledgerkit.InvokeTx(contract, method, args, n.nonce)
	if signer != nil {
		var err error
		t, err = ledgerkit.SignTx(t, signer)
		vio.Must(err)
	}
	return t
}

// opTx is signed by the consensus operator (multi-signature address of the validators, m = n - (n-1)/3).
func (n *natCtx) opTx(contract common.Address, method string, args []byte) *types.Transaction {
	n.nonce++
	t := ledgerkit.InvokeTx(contract, method, args, n.nonce)
	m := len(n.accts) - (len(n.accts)-1)/3
	t, err := ledgerkit.MultiSignTx(t, n.pubkeys(), uint16(m), n.accts[:m])
	vio.Must(err)
	return t
}

func ser(f func(*common.ZeroCopySink)) []byte {
	s := common.NewZeroCopySink(nil)
	f(s)
	return s.Bytes()
}

func (c *c16ctx) createNative() (scenario, int64) {
	sc := scenario{Name: "native", Vbft: true, Keys: 4}
	accts := ledgerkit.LoadOrCreateAccounts(filepath.Join(c.dir, "keys-native"), 4)
	ldir := filepath.Join(c.dir, "A-native")
	os.RemoveAll(ldir)
	lg, err := ledgerkit.Open(ldir, accts, true)
	vio.Must(err)
	n := &natCtx{lg: lg, accts: accts, nonce: 9 << 24}
	var blockTime *uint32 // nil: the synthetic default (genesis time + height)
	add := func(label string, commit bool, wall, expect string, txs ...*types.Transaction) {
		var opts *ledgerkit.BlockOpts
		if blockTime != nil {
			opts = &ledgerkit.BlockOpts{Timestamp: blockTime}
		}
		b := lg.Build(txs, opts)
		st := scStep{Label: label, Commit: commit, Wall: wall, Expect: expect, Block: blockHex(b), Reps: nativeReps}
		sc.Steps = append(sc.Steps, st)
		c.runStep(lg, sc.Name, st, b)
	}
	// deterministic outsiders (keys derived from fixed seeds would need a seeded generator; fresh keys are fine because
	// process B reads the finished blocks)
	cand := account.NewAccount("")
	owner := account.NewAccount("")
	relayer := account.NewAccount("")

	// governance: candidate registration and approvals (pool map grows to 5), black-listing attempt by a non-validator
	regArgs := ser(func(s *common.ZeroCopySink) {
		(&nm.RegisterPeerParam{PeerPubkey: vconfig.PubkeyID(cand.PublicKey), Address: cand.Address}).Serialization(s)
	})
	add("gov:register-candidate", true, "", "ok", n.tx(utils.NodeManagerContractAddress, nm.REGISTER_CANDIDATE, regArgs, cand))
	var appr []*types.Transaction
	for _, a := range accts[:3] {
		args := ser(func(s *common.ZeroCopySink) {
			(&nm.PeerParam{PeerPubkey: vconfig.PubkeyID(cand.PublicKey), Address: a.Address}).Serialization(s)
		})
		appr = append(appr, n.tx(utils.NodeManagerContractAddress, nm.APPROVE_CANDIDATE, args, a))
	}
	// a failing transaction in the middle (approval by an outsider) keeps C15-style mixing in the block
	bad := ser(func(s *common.ZeroCopySink) {
		(&nm.PeerParam{PeerPubkey: vconfig.PubkeyID(cand.PublicKey), Address: owner.Address}).Serialization(s)
	})
	// the approvals are spread over two blocks so that the half-collected signer set is part of a block's final write set
	add("gov:approve-candidate-x2+outsider", true, "", "", appr[0], n.tx(utils.NodeManagerContractAddress, nm.APPROVE_CANDIDATE, bad, owner), appr[1])
	add("gov:approve-candidate-final", true, "", "ok", appr[2])

	// side chains bsc (6) and eth (2): registration by an owner, approval by three validators
	bscExtra, _ := json.Marshal(map[string]interface{}{"ChainID": bscChainID})
	ccmc := make([]byte, 20)
	ccmc[19] = 0xcc
	regSC := func(id, router uint64, name string, extra []byte) *types.Transaction {
		p := &scm.RegisterSideChainParam{Address: owner.Address, ChainId: id, Router: router, Name: name, BlocksToWait: 1, CCMCAddress: ccmc, ExtraInfo: extra}
		s := common.NewZeroCopySink(nil)
		vio.Must(p.Serialization(s))
		return n.tx(utils.SideChainManagerContractAddress, scm.REGISTER_SIDE_CHAIN, s.Bytes(), owner)
	}
	add("sc:register-bsc+eth", true, "", "ok", regSC(6, utils.BSC_ROUTER, "bsc", bscExtra), regSC(2, utils.ETH_ROUTER, "eth", nil))
	var apSC, apSC2 []*types.Transaction
	for _, id := range []uint64{6, 2} {
		for i, a := range accts[:3] {
			args := ser(func(s *common.ZeroCopySink) { (&scm.ChainidParam{Chainid: id, Address: a.Address}).Serialization(s) })
			t := n.tx(utils.SideChainManagerContractAddress, scm.APPROVE_REGISTER_SIDE_CHAIN, args, a)
			if i < 2 {
				apSC = append(apSC, t)
			} else {
				apSC2 = append(apSC2, t)
			}
		}
	}
	add("sc:approve-x4", true, "", "ok", apSC...)
	add("sc:approve-final-x2", true, "", "ok", apSC2...)
	// fee votes of three validators (fee-info map and vote-info map with three entries): the stored record carries NativeService.GetTime() (the block timestamp) and a map
	var fees []*types.Transaction
	for i, a := range accts[:3] {
		p := &scm.UpdateFeeParam{Address: a.Address, ChainId: 6, View: 0, Fee: big.NewInt(int64(10 + 20*i))}
		fees = append(fees, n.tx(utils.SideChainManagerContractAddress, scm.UPDATE_FEE, ser(p.Serialization), a))
	}
	add("sc:update-fee-x3", true, "", "ok", fees...)

	// relayer registration + approvals
	relArgs := ser(func(s *common.ZeroCopySink) {
		(&rm.RelayerListParam{AddressList: []common.Address{relayer.Address, cand.Address}, Address: owner.Address}).Serialization(s)
	})
	add("rel:register", true, "", "ok", n.tx(utils.RelayerManagerContractAddress, rm.REGISTER_RELAYER, relArgs, owner))
	var apRel []*types.Transaction
	for _, a := range accts[:3] {
		args := ser(func(s *common.ZeroCopySink) { (&rm.ApproveRelayerParam{ID: 0, Address: a.Address}).Serialization(s) })
		apRel = append(apRel, n.tx(utils.RelayerManagerContractAddress, rm.APPROVE_REGISTER_RELAYER, args, a))
	}
	add("rel:approve-x2", true, "", "ok", apRel[:2]...)
	add("rel:approve-final", true, "", "ok", apRel[2])

	// ---- records that are serialised from Go maps, each written with several entries --------------------------------
	// ripple (223) and ont (3) side chains
	rex := &scm.RippleExtraInfo{Operator: owner.Address, Sequence: 1, Quorum: 2, SignerNum: 3, Pks: [][]byte{{1}, {2}, {3}}, ReserveAmount: big.NewInt(20000000)}
	add("sc2:register-ripple+ont+eth2", true, "", "ok", regSC(223, utils.RIPPLE_ROUTER, "ripple", ser(rex.Serialization)), regSC(3, utils.ONT_ROUTER, "ont", nil),
		regSC(102, utils.ETH_ROUTER, "eth-london", nil))
	var ap2a, ap2b []*types.Transaction
	for _, id := range []uint64{223, 3, 102} {
		for i, a := range accts[:3] {
			args := ser(func(s *common.ZeroCopySink) { (&scm.ChainidParam{Chainid: id, Address: a.Address}).Serialization(s) })
			t := n.tx(utils.SideChainManagerContractAddress, scm.APPROVE_REGISTER_SIDE_CHAIN, args, a)
			if i < 2 {
				ap2a = append(ap2a, t)
			} else {
				ap2b = append(ap2b, t)
			}
		}
	}
	add("sc2:approve-x6", true, "", "ok", ap2a...)
	add("sc2:approve-final-x3", true, "", "ok", ap2b...)
	// AssetBind: asset map and lock-proxy map with six entries, then a second registration that merges three more
	asset := func(targets ...uint64) *types.Transaction {
		p := &scm.RegisterAssetParam{OperatorAddress: owner.Address, ChainId: 223, AssetMap: map[uint64][]byte{}, LockProxyMap: map[uint64][]byte{}}
		for _, t := range targets {
			p.AssetMap[t] = bytesOf(byte(t), 20)
			p.LockProxyMap[t] = bytesOf(byte(t)^0xff, 20)
		}
		return n.tx(utils.SideChainManagerContractAddress, scm.REGISTER_ASSET, ser(p.Serialization), owner)
	}
	add("asset:register-6-targets", true, "", "ok", asset(2, 6, 7, 12, 17, 79))
	add("asset:register-3-more", true, "", "ok", asset(10, 19, 6))
	// signature manager: signature sets of two, then the third signer
	addSig := func(a *account.Account, subject string) *types.Transaction {
		p := &sigm.AddSignatureParam{Address: a.Address, SideChainID: 223, Subject: []byte(subject), Signature: append([]byte("sig-of-"), a.Address[:]...)}
		return n.tx(utils.SignatureManagerContractAddress, sigm.ADD_SIGNATURE, ser(p.Serialization), a)
	}
	add("sig:add-signature-x2+x2", true, "", "ok", addSig(accts[0], "subject-1"), addSig(accts[1], "subject-1"), addSig(accts[3], "subject-2"), addSig(accts[2], "subject-2"))
	add("sig:add-signature-third", true, "", "ok", addSig(accts[2], "subject-1"))
	// BTC redeem registration and transaction parameters: signature maps keyed by the signers' addresses (3-of-4 redeem)
	rd := newRedeem(4, 3)
	add("btc:register-redeem-2-sigs", true, "", "ok", n.tx(utils.SideChainManagerContractAddress, scm.REGISTER_REDEEM, rd.registerArgs(0, 1), relayer))
	add("btc:register-redeem-2-more", true, "", "ok", n.tx(utils.SideChainManagerContractAddress, scm.REGISTER_REDEEM, rd.registerArgs(2, 3), relayer))
	add("btc:set-tx-param-2-sigs", true, "", "ok", n.tx(utils.SideChainManagerContractAddress, scm.SET_BTC_TX_PARAM, rd.txParamArgs(3, 1), relayer))
	add("btc:set-tx-param-third", true, "", "ok", n.tx(utils.SideChainManagerContractAddress, scm.SET_BTC_TX_PARAM, rd.txParamArgs(0), relayer))

	// light clients: trust roots (operator witness), header batches, a reorganisation on eth
	bc := newBscChain(3)
	syncGen := func(id uint64, hdr []byte) *types.Transaction {
		args := ser(func(s *common.ZeroCopySink) {
			(&hscom.SyncGenesisHeaderParam{ChainID: id, GenesisHeader: hdr}).Serialization(s)
		})
		return n.opTx(utils.HeaderSyncContractAddress, hscom.SYNC_GENESIS_HEADER, args)
	}
	syncHdr := func(id uint64, hdrs ...[]byte) *types.Transaction {
		args := ser(func(s *common.ZeroCopySink) {
			(&hscom.SyncBlockHeaderParam{ChainID: id, Address: relayer.Address, Headers: hdrs}).Serialization(s)
		})
		return n.tx(utils.HeaderSyncContractAddress, hscom.SYNC_BLOCK_HEADER, args, relayer)
	}
	ec := newEthChain()
	add("lc:genesis-bsc+eth", true, "", "ok", syncGen(6, bc.genesisJSON()), syncGen(2, ec.genesisJSON()))
	add("lc:genesis-ont-5-peers", true, "", "ok", syncGen(3, ontGenesis(5)))
	lon := newLondonChain()
	add("lc:genesis-eth-london", true, "", "ok", syncGen(102, lon.genesisJSON()))
	h201, h202 := bc.next(0), bc.next(0)
	a1 := ec.child(ec.genesis, 20, 1)
	a2 := ec.child(a1, 20, 1)
	add("lc:headers-bsc-201-202+eth-a1-a2", true, "", "ok", syncHdr(6, hdrJSON(h201), hdrJSON(h202)), syncHdr(2, hdrJSON(a1), hdrJSON(a2)))
	b1 := ec.child(ec.genesis, 1, 2)
	b2 := ec.child(b1, 1, 2)
	add("lc:eth-reorg-b1-b2", true, "", "ok", syncHdr(2, hdrJSON(b1)), syncHdr(2, hdrJSON(b2)))
	// headers 1000 s after their parent (the difficulty adjustment is clamped at -99) followed by an ordinary one, under the
	// pre-London and under the London difficulty rule: repeated execution in one process must not depend on what that
	// process computed before
	g1 := ec.child(b2, 1000, 4)
	g2 := ec.child(g1, 15, 4)
	add("lc:eth-header-gap-1000s", true, "", "ok", syncHdr(2, hdrJSON(g1)))
	add("lc:eth-header-after-gap", true, "", "ok", syncHdr(2, hdrJSON(g2)))
	l1 := lon.child(lon.genesis, 1000)
	l2 := lon.child(l1, 13)
	add("lc:eth-london-header-gap-1000s", true, "", "ok", syncHdr(102, hdrJSON(l1)))
	add("lc:eth-london-header-after-gap", true, "", "ok", syncHdr(102, hdrJSON(l2)))
	// a deposit proven against bsc header 201 (state root = root of the synthetic account trie), then its replay
	imp := bc.importTx(n, relayer, 201)
	add("ccm:import-bsc", true, "", "ok", imp(1))
	add("ccm:import-bsc-replayed", false, "", "", imp(2))

	// wall clock against contract time constants: block timestamps anchored at the real current time so that a constant is
	// straddled between the executions of process A and the later ones.  The only contract path that reads GetTime() is
	// the fee vote round (UPDATE_FEE_TIMEOUT = 300 s): the round on chain 2 is opened by a block dated
	// T0 = now - (300 s - 5 s); the second vote comes in a block dated T0 + 1 s.  By block time the round is 1 s old
	// whenever the block is executed; by the wall clock it is 295 s old in process A and more than 300 s old afterwards.
	feeVote := func(a *account.Account, fee int64) *types.Transaction {
		p := &scm.UpdateFeeParam{Address: a.Address, ChainId: 2, View: 0, Fee: big.NewInt(fee)}
		return n.tx(utils.SideChainManagerContractAddress, scm.UPDATE_FEE, ser(p.Serialization), a)
	}
	now0 := time.Now().Unix()
	t0 := uint32(now0 - (int64(scm.UPDATE_FEE_TIMEOUT) - feeStraddle))
	blockTime = &t0
	add("sc:fee-round-opened-at-now-295s", true, "", "ok", feeVote(accts[0], 40))
	t1 := t0 + 1
	blockTime = &t1
	add("sc:fee-second-vote-straddling-timeout", false, "native:sc:fee-second-vote-straddling-timeout", "ok", feeVote(accts[1], 60))
	blockTime = nil
	notBefore0 := now0 + feeStraddle + 2

	// wall clock: headers dated in the future, executed now and (by the other processes) a few seconds later.
	// bsc accepts header.Time <= now; eth accepts header.Time <= now + 15 s.
	now := time.Now().Unix()
	notBefore := now + futureDelta + 2
	if notBefore0 > notBefore {
		notBefore = notBefore0
	}
	h203 := bc.next(uint64(now + futureDelta))
	add("wall:bsc-header-dated-now+4s", false, "bsc", "", syncHdr(6, hdrJSON(h203)))
	now = time.Now().Unix()
	c1 := ec.childAt(g2, uint64(now+15+futureDelta), 3)
	if now+futureDelta+2 > notBefore {
		notBefore = now + futureDelta + 2
	}
	add("wall:eth-header-dated-now+15s+4s", false, "eth", "", syncHdr(2, hdrJSON(c1)))
	lg.L.Close()
	return sc, notBefore
}

const futureDelta = 4

// seconds left, when the scenario is built, until the open fee vote round is UPDATE_FEE_TIMEOUT old by the wall clock
const feeStraddle = 5

// every native-contract block is executed at least this often in each process: records serialised from Go maps show an
// order dependence only across iterations
const nativeReps = 20
