package main

import (
	"encoding/json"
	"fmt"
	"os"
	"strings"
	"sync"
	"time"

	"github.com/ontio/ontology-crypto/keypair"
	"github.com/ontio/ontology-eventbus/actor"
	"github.com/polynetwork/poly/account"
	"github.com/polynetwork/poly/common"
	"github.com/polynetwork/poly/common/config"
	vconfig "github.com/polynetwork/poly/consensus/vbft/config"
	"github.com/polynetwork/poly/core/genesis"
	"github.com/polynetwork/poly/core/ledger"
	"github.com/polynetwork/poly/core/store/ledgerstore"
	"github.com/polynetwork/poly/core/types"
	"github.com/polynetwork/poly/errors"
	"github.com/polynetwork/poly/events/message"
	_ "github.com/polynetwork/poly/native/service"
	tc "github.com/polynetwork/poly/txnpool/common"
	tp "github.com/polynetwork/poly/txnpool/proc"
	vt "github.com/polynetwork/poly/validator/types"
	"verifh/kit/ledgerkit"
	"verifh/kit/vio"
)

// ---------------------------------------------------------------- ledger installed as ledger.DefLedger

// openDefLedger creates a real on-disk ledger (vbft genesis with accts as consensus peers) and installs it as
// ledger.DefLedger, which is where the pool's sender test reads the relayer registry and the peer pool.
func openDefLedger(dir string, accts []*account.Account) *ledgerkit.Ledger {
	var bks []keypair.PublicKey
	cfg := &config.VBFTConfig{BlockMsgDelay: 10000, HashMsgDelay: 10000, PeerHandshakeTimeout: 10, MaxBlockChangeView: 1000,
		VrfValue: strings.Repeat("ab", 64), VrfProof: strings.Repeat("cd", 64)}
	for i, a := range accts {
		bks = append(bks, a.PublicKey)
		cfg.Peers = append(cfg.Peers, &config.VBFTPeerInfo{Index: uint32(i + 1), PeerPubkey: vconfig.PubkeyID(a.PublicKey), Address: a.Address.ToBase58()})
	}
	config.DefConfig.Genesis.ConsensusType = "vbft"
	config.DefConfig.Genesis.VBFT = cfg
	gb, err := genesis.BuildGenesisBlock(bks, config.DefConfig.Genesis)
	if err != nil {
		vio.Fatal("genesis: %v", err)
	}
	l, err := ledger.NewLedger(dir)
	if err != nil {
		vio.Fatal("NewLedger: %v", err)
	}
	if err := l.Init(bks, gb); err != nil {
		vio.Fatal("ledger init: %v", err)
	}
	ledger.DefLedger = l
	return &ledgerkit.Ledger{L: l.GetStore().(*ledgerstore.LedgerStoreImp), Dir: dir, Genesis: gb, Accts: accts, Vbft: true}
}

func scratchDir(prefix string) string {
	d, err := os.MkdirTemp(".", prefix)
	if err != nil {
		vio.Fatal("mkdir: %v", err)
	}
	return d
}

// ---------------------------------------------------------------- stimuli / observations (spec/TraceTxPoolSrv.tla)

type step struct {
	Op  string   `json:"op"`
	T   string   `json:"t"`
	Src string   `json:"src"`
	Typ string   `json:"typ"`
	H   int      `json:"h"`
	Err string   `json:"err"`
	By  bool     `json:"by"`
	Ts  []string `json:"ts"`
	Obs *obs     `json:"obs,omitempty"`
}
type res struct {
	T   string `json:"t"`
	H   int    `json:"h"`
	Err string `json:"err"`
}
type msg struct {
	K   string `json:"k"`
	T   string `json:"t"`
	Err string `json:"err"`
	Res []res  `json:"res"`
}
type obs struct {
	Pool   []ent    `json:"pool"`
	N      int      `json:"n"`
	Pend   []string `json:"pend"`
	Used   int      `json:"used"`
	Height int      `json:"height"`
	Out    []msg    `json:"out"`
}
type scenario struct {
	Steps []*step `json:"steps"`
	Over  bool    `json:"over"`
	Id    int     `json:"id"`
	Slow  bool    `json:"slow,omitempty"`
}

func errClass(e errors.ErrCode) string {
	switch e {
	case errors.ErrNoError:
		return "ok"
	case errors.ErrDuplicateInput:
		return "dup"
	case errors.ErrTxPoolFull:
		return "full"
	case errors.ErrDoubleSpend:
		return "dspend"
	case errors.ErrVerifySignature:
		return "bad"
	case errors.ErrUnknown:
		return "unknown"
	}
	return fmt.Sprintf("code%d", int(e))
}
func errCode(c string) errors.ErrCode {
	switch c {
	case "ok":
		return errors.ErrNoError
	case "bad":
		return errors.ErrVerifySignature
	}
	vio.Fatal("no error code for class %q", c)
	return 0
}

// ---------------------------------------------------------------- the real server with stub validators / consensus

type collector struct {
	mu  sync.Mutex
	out []msg
	wid map[string]uint8 // tx name -> worker id seen in the last CheckTx
	n   int
}

func (c *collector) add(m msg) {
	if m.Res == nil {
		m.Res = []res{}
	}
	c.mu.Lock()
	c.out = append(c.out, m)
	c.n++
	c.mu.Unlock()
}
func (c *collector) take() []msg {
	c.mu.Lock()
	o := c.out
	c.out = nil
	c.mu.Unlock()
	if o == nil {
		o = []msg{}
	}
	return o
}
func (c *collector) count() int { c.mu.Lock(); defer c.mu.Unlock(); return c.n }

type stubValidator struct {
	typ string
	u   *universe
	col *collector
}

func (v *stubValidator) Receive(ctx actor.Context) {
	if m, ok := ctx.Message().(*vt.CheckTx); ok {
		name := v.u.name(m.Tx)
		v.col.mu.Lock()
		v.col.wid[name] = m.WorkerId
		v.col.mu.Unlock()
		v.col.add(msg{K: "req", T: name, Err: v.typ})
	}
}

type stubConsensus struct {
	u   *universe
	col *collector
}

func (c *stubConsensus) Receive(ctx actor.Context) {
	switch m := ctx.Message().(type) {
	case *tc.GetTxnPoolRsp:
		o := msg{K: "pool"}
		for _, e := range m.TxnPool {
			if n := c.u.name(e.Tx); !strings.HasPrefix(n, "?") {
				o.Res = append(o.Res, res{T: n, H: statefulHeight(e.Attrs), Err: ""})
			} else {
				o.Res = append(o.Res, res{T: "filler", H: statefulHeight(e.Attrs), Err: ""})
			}
		}
		c.col.add(o)
	case *tc.VerifyBlockRsp:
		o := msg{K: "blk"}
		for _, r := range m.TxnPool {
			o.Res = append(o.Res, res{T: c.u.name(r.Tx), H: int(r.Height), Err: errClass(r.ErrCode)})
		}
		c.col.add(o)
	}
}

func spawn(a actor.Actor) *actor.PID {
	return actor.Spawn(actor.FromProducer(func() actor.Actor { return a }))
}

type rig struct {
	s                       *tp.TXPoolServer
	u                       *universe
	col                     *collector
	txPid, poolPid, rspPid  *actor.PID
	slPid, sfPid, consPid   *actor.PID
	chans                   map[string][]chan *tc.TxResult
	base                    int
	slow                    bool
	rspSent                 uint64
}

func newRig(u *universe, preexec bool, fillers []*tc.TXEntry, slow bool) *rig {
	r := &rig{u: u, col: &collector{wid: map[string]uint8{}}, chans: map[string][]chan *tc.TxResult{}, base: len(fillers), slow: slow}
	r.s = tp.NewTxPoolServer(tc.MAX_WORKER_NUM, !preexec, true)
	r.rspPid = spawn(tp.NewVerifyRspActor(r.s))
	r.s.RegisterActor(tc.VerifyRspActor, r.rspPid)
	r.poolPid = spawn(tp.NewTxPoolActor(r.s))
	r.s.RegisterActor(tc.TxPoolActor, r.poolPid)
	r.txPid = spawn(tp.NewTxActor(r.s))
	r.s.RegisterActor(tc.TxActor, r.txPid)
	r.slPid = spawn(&stubValidator{"sl", u, r.col})
	r.sfPid = spawn(&stubValidator{"sf", u, r.col})
	r.consPid = spawn(&stubConsensus{u, r.col})
	r.rspPid.Tell(&vt.RegisterValidator{Sender: r.slPid, Type: vt.Stateless, Id: "sl"})
	r.rspPid.Tell(&vt.RegisterValidator{Sender: r.sfPid, Type: vt.Stateful, Id: "sf"})
	p := r.s.VerifTxPool()
	for _, e := range fillers {
		p.AddTxList(e)
	}
	// the registrations are handled asynchronously: wait until a probe request reaches both validators
	deadline := time.Now().Add(10 * time.Second)
	for {
		if st := r.stats(); st != nil {
			break
		}
		if time.Now().After(deadline) {
			vio.Fatal("server did not answer")
		}
	}
	r.barrierRsp()
	return r
}

func (r *rig) stop() {
	r.s.Stop()
	for _, p := range []*actor.PID{r.slPid, r.sfPid, r.consPid} {
		p.Stop()
	}
}

// stats: request/response on the TxActor mailbox (also a FIFO barrier for that actor)
func (r *rig) stats() []uint64 {
	f := r.txPid.RequestFuture(&tc.GetTxnStats{}, 20*time.Second)
	v, err := f.Result()
	if err != nil {
		vio.Fatal("tx actor did not answer: %v", err)
	}
	return v.(*tc.GetTxnStatsRsp).Count
}

// barrierPool: FIFO barrier for the TxPoolActor mailbox
func (r *rig) barrierPool() {
	f := r.poolPid.RequestFuture(&tc.GetPendingTxnReq{ByCount: false}, 20*time.Second)
	if _, err := f.Result(); err != nil {
		vio.Fatal("pool actor did not answer: %v", err)
	}
}

// barrierRsp: FIFO barrier for the VerifyRspActor mailbox. The actor answers nothing by itself, so a throw-away
// validator of an unused verify type is registered and unregistered; the UnRegisterAck comes back when both
// messages (and everything sent before them) have been handled.
type ackActor struct{ ch chan struct{} }

func (a *ackActor) Receive(ctx actor.Context) {
	if _, ok := ctx.Message().(*vt.UnRegisterAck); ok {
		select {
		case a.ch <- struct{}{}:
		default:
		}
	}
}
func (r *rig) barrierRsp() {
	a := &ackActor{ch: make(chan struct{}, 1)}
	pid := spawn(a)
	r.rspPid.Tell(&vt.RegisterValidator{Sender: pid, Type: vt.VerifyType(9), Id: "barrier"})
	r.rspPid.Tell(&vt.UnRegisterValidator{Type: vt.VerifyType(9), Id: "barrier"})
	select {
	case <-a.ch:
	case <-time.After(20 * time.Second):
		vio.Fatal("verify-rsp actor did not answer")
	}
	pid.Stop()
}

type quiet struct {
	queued, verifying, pending, msgs, slots, count int
}

func (r *rig) snapshot() quiet {
	q, v := r.s.VerifBacklog()
	return quiet{q, v, len(r.s.VerifPendingHashes()), r.col.count(), r.s.VerifSlots(), r.s.VerifTxPool().GetTransactionCount()}
}

// settle waits until nothing is queued, every pending transaction is with a worker, and nothing moved for a while.
func (r *rig) settle() {
	pause := 400 * time.Microsecond
	need := 5
	if r.slow {
		pause, need = 5*time.Millisecond, 8
	}
	deadline := time.Now().Add(30 * time.Second)
	last := r.snapshot()
	stable := 0
	for stable < need {
		time.Sleep(pause)
		cur := r.snapshot()
		if cur == last && cur.queued == 0 && cur.verifying == cur.pending {
			stable++
		} else {
			stable = 0
		}
		last = cur
		if time.Now().After(deadline) {
			vio.Fatal("server did not become quiet: %+v", cur)
		}
	}
}

func (r *rig) observe() *obs {
	o := &obs{Pool: []ent{}, Pend: []string{}}
	p := r.s.VerifTxPool()
	o.N = p.GetTransactionCount() - r.base
	if r.base == 0 {
		txs, _ := p.GetTxPool(false, 0)
		for _, e := range txs {
			o.Pool = append(o.Pool, ent{r.u.name(e.Tx), statefulHeight(e.Attrs), hasStateless(e.Attrs)})
		}
	} else {
		for _, tx := range r.u.txs {
			if st := p.GetTxStatus(tx.Hash()); st != nil {
				o.Pool = append(o.Pool, ent{r.u.name(tx), statefulHeight(st.Attrs), hasStateless(st.Attrs)})
			}
		}
	}
	for _, h := range r.s.VerifPendingHashes() {
		n, ok := r.u.names[h]
		if !ok {
			n = "filler"
		}
		o.Pend = append(o.Pend, n)
	}
	o.Used = tc.MAX_LIMITATION - r.s.VerifSlots()
	o.Height = int(r.s.VerifHeight())
	// replies on the submitters' channels
	for name, chs := range r.chans {
		for _, ch := range chs {
			select {
			case tr := <-ch:
				r.col.add(msg{K: "reply", T: name, Err: errClass(tr.Err)})
			default:
			}
		}
	}
	o.Out = r.col.take()
	return o
}

func (r *rig) do(st *step) {
	switch st.Op {
	case "admit":
		ch := make(chan *tc.TxResult, 1)
		r.chans[st.T] = append(r.chans[st.T], ch)
		sender := tc.HttpSender
		if st.Src == "net" {
			sender = tc.NetSender
		}
		r.txPid.Tell(&tc.TxReq{Tx: r.u.tx(st.T), Sender: sender, TxResultCh: ch})
		r.stats()
	case "rsp":
		typ := vt.Stateless
		if st.Typ == "sf" {
			typ = vt.Stateful
		}
		r.col.mu.Lock()
		wid := r.col.wid[st.T]
		r.col.mu.Unlock()
		r.rspPid.Tell(&vt.CheckResponse{WorkerId: wid, Type: typ, Hash: r.u.tx(st.T).Hash(), Height: uint32(st.H), ErrCode: errCode(st.Err)})
		r.barrierRsp()
	case "getpool":
		before := r.col.count()
		r.poolPid.Request(&tc.GetTxnPoolReq{ByCount: st.By, Height: uint32(st.H)}, r.consPid)
		r.barrierPool()
		deadline := time.Now().Add(20 * time.Second)
		for r.col.count() == before { // the answer to consensus
			time.Sleep(100 * time.Microsecond)
			if time.Now().After(deadline) {
				vio.Fatal("no GetTxnPoolRsp")
			}
		}
	case "verifyblock":
		r.poolPid.Request(&tc.VerifyBlockReq{Height: uint32(st.H), Txs: r.u.list(st.Ts)}, r.consPid)
		r.barrierPool()
	case "blocksaved":
		b := &types.Block{Header: &types.Header{Height: 1}, Transactions: r.u.list(st.Ts)}
		r.poolPid.Tell(&message.SaveBlockCompleteMsg{Block: b})
		r.barrierPool()
	default:
		vio.Fatal("unknown step %q", st.Op)
	}
	r.settle()
	st.Obs = r.observe()
}

// ---------------------------------------------------------------- srv-run

type srvEnv struct {
	u       *universe
	fillers []*tc.TXEntry
	preexec bool
}

var srvLedgerOnce sync.Once

func signedUniverse(n int, signer *account.Account) *universe {
	u := &universe{names: map[common.Uint256]string{}}
	for i := 1; i <= n; i++ {
		tx := genesis.NewInvokeTransaction([]byte(fmt.Sprintf("verif-srv-%d", i)), uint32(7000+i))
		stx, err := ledgerkit.SignTx(tx, signer)
		if err != nil {
			vio.Fatal("sign: %v", err)
		}
		u.txs = append(u.txs, stx)
		u.names[stx.Hash()] = fmt.Sprintf("t%d", i)
	}
	return u
}

// srvRun args: <preexec 0|1> <cap (0: no fillers; c: MAX_CAPACITY-c real filler entries)> <maxtx>
func srvRun(args []string) {
	if len(args) < 3 {
		vio.Fatal("usage: vd-pool srv-run <preexec> <cap> <maxtx>")
	}
	preexec := args[0] == "1"
	capModel := atoi(args[1])
	config.DefConfig.Consensus.MaxTxInBlock = uint(atoi(args[2]))
	accts := ledgerkit.LoadOrCreateAccounts("pool-keys.txt", 4)
	dir := scratchDir("pool-ledger-")
	defer os.RemoveAll(dir)
	lg := openDefLedger(dir, accts)
	defer lg.L.Close()
	u := signedUniverse(4, accts[0])
	var fillers []*tc.TXEntry
	if capModel > 0 {
		n := tc.MAX_CAPACITY - capModel
		fillers = make([]*tc.TXEntry, 0, n)
		for i := 0; i < n; i++ {
			tx := genesis.NewInvokeTransaction([]byte("filler"), uint32(1000000+i))
			fillers = append(fillers, entry(tx, 1<<30, true, 0))
		}
	}
	lines := vio.ReadLines()
	var mu sync.Mutex
	events := 0
	vio.ParMap(len(lines), parallelism(capModel > 0), func(i int) {
		var sc scenario
		if err := json.Unmarshal(lines[i], &sc); err != nil {
			vio.Fatal("bad input line %d: %v", i, err)
		}
		r := newRig(u, preexec, fillers, sc.Slow)
		for _, st := range sc.Steps {
			if st.Ts == nil {
				st.Ts = []string{}
			}
			r.do(st)
		}
		r.stop()
		if sc.Id == 0 {
			sc.Id = i + 1
		}
		mu.Lock()
		events += len(sc.Steps)
		mu.Unlock()
		vio.Emit(&sc)
	})
	vio.Emit(map[string]interface{}{"summary": true, "scenarios": len(lines), "events": events, "fillers": len(fillers)})
}

func parallelism(heavy bool) int {
	w := 8
	if s := os.Getenv("VERIF_WORKERS"); s != "" {
		w = atoi(s)
	}
	if heavy && w > 4 {
		w = 4
	}
	return w
}
