package main

import (
	"fmt"

	"github.com/polynetwork/poly/common"
	"github.com/polynetwork/poly/core/types"
	"github.com/polynetwork/poly/errors"
	tc "github.com/polynetwork/poly/txnpool/common"
	vt "github.com/polynetwork/poly/validator/types"
	"verifh/kit/vio"
)

// ent is a pool entry as the specification sees it: hash name and the height of the stateful verification.
type ent struct {
	T  string `json:"t"`
	H  int    `json:"h"`  // height of the stateful verification, -1 if the entry carries none
	Sl bool   `json:"sl"` // the entry carries a stateless verification result
}

// universe: real transactions t1..tn
type universe struct {
	txs   []*types.Transaction
	names map[common.Uint256]string
}

func (u *universe) tx(name string) *types.Transaction {
	var i int
	fmt.Sscanf(name, "t%d", &i)
	if i < 1 || i > len(u.txs) {
		vio.Fatal("unknown transaction name %q", name)
	}
	return u.txs[i-1]
}
func (u *universe) name(tx *types.Transaction) string {
	if tx == nil {
		return "nil"
	}
	if n, ok := u.names[tx.Hash()]; ok {
		return n
	}
	h := tx.Hash()
	return "?" + h.ToHexString()[:8]
}
func (u *universe) list(names []string) []*types.Transaction {
	r := make([]*types.Transaction, 0, len(names))
	for _, n := range names {
		r = append(r, u.tx(n))
	}
	return r
}

// entry builds a pool entry verified statelessly (height slH) and statefully at height h; the attribute order varies.
func entry(tx *types.Transaction, h int, slFirst bool, slH uint32) *tc.TXEntry {
	sl := &tc.TXAttr{Height: slH, Type: vt.Stateless, ErrCode: errors.ErrNoError}
	sf := &tc.TXAttr{Height: uint32(h), Type: vt.Stateful, ErrCode: errors.ErrNoError}
	if slFirst {
		return &tc.TXEntry{Tx: tx, Attrs: []*tc.TXAttr{sl, sf}}
	}
	return &tc.TXEntry{Tx: tx, Attrs: []*tc.TXAttr{sf, sl}}
}

func hasStateless(attrs []*tc.TXAttr) bool {
	for _, a := range attrs {
		if a.Type == vt.Stateless && a.ErrCode == errors.ErrNoError {
			return true
		}
	}
	return false
}

func statefulHeight(attrs []*tc.TXAttr) int {
	for _, a := range attrs {
		if a.Type == vt.Stateful && a.ErrCode == errors.ErrNoError {
			return int(a.Height)
		}
	}
	return -1
}
