package main

func srvRun(a []string)    {}
func senderRun(a []string) {}
