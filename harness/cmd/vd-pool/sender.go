package main

import (
	"encoding/hex"
	"encoding/json"
	"os"
	"sort"
	"strings"
	"time"

	"github.com/ontio/ontology-crypto/keypair"
	"github.com/polynetwork/poly/account"
	"github.com/polynetwork/poly/common"
	"github.com/polynetwork/poly/core/genesis"
	"github.com/polynetwork/poly/core/ledger"
	"github.com/polynetwork/poly/core/signature"
	"github.com/polynetwork/poly/core/types"
	"github.com/polynetwork/poly/native/service/governance/node_manager"
	"github.com/polynetwork/poly/native/service/governance/relayer_manager"
	"github.com/polynetwork/poly/native/service/utils"
	tc "github.com/polynetwork/poly/txnpool/common"
	tp "github.com/polynetwork/poly/txnpool/proc"
	"verifh/kit/ledgerkit"
	"verifh/kit/vio"
)

// C36: sender admission. Every ledger action of a TLC-generated behaviour is one real block with one real
// contract transaction (relayer_manager / node_manager) on a real ledger installed as ledger.DefLedger; after
// every action the pool's sender test is probed with all signer sets over the alphabet below.

var senderBase = []string{"r1", "r2", "v1", "c1", "op0", "op1", "opm", "x"} // bit i of a mask = senderBase[i] signs

type sstep struct {
	Op  string   `json:"op"`
	L   []string `json:"l"`
	Id  int      `json:"id"`
	A   string   `json:"a"`
	Obs *sobs    `json:"obs,omitempty"`
}
type sobs struct {
	Acc   []int    `json:"acc"`   // masks accepted by isValidSender (after updatePermittedAddrMap)
	Acc2  []int    `json:"acc2"`  // masks of Sample accepted on the TxReq path of the real TxActor
	Rej2  []int    `json:"rej2"`  // masks of Sample refused on the TxReq path
	Reg   []string `json:"reg"`   // relayers registered in the ledger now (read from storage)
	Peers []string `json:"peers"` // keys of the peer pool map in the ledger now
	Perm  []string `json:"perm"`  // the process-wide permitted map
	TxOk  bool     `json:"txok"`  // the action's contract transaction succeeded
}
type sbehaviour struct {
	Steps []*sstep `json:"steps"`
	Id    int      `json:"id"`
}

type senderWorld struct {
	lg     *ledgerkit.Ledger
	dir    string
	accts  map[string]*account.Account // v1..v4, r1, r2, c1, x
	vals   []*account.Account
	names  map[common.Address]string
	probes []*types.Transaction // index = mask
	nonce  uint32
}

func multiSig(tx *types.Transaction, keys []keypair.PublicKey, m uint16, signers []*account.Account) {
	h := tx.Hash()
	var sigs [][]byte
	for _, a := range signers[:m] {
		s, err := signature.Sign(a, h[:])
		if err != nil {
			vio.Fatal("sign: %v", err)
		}
		sigs = append(sigs, s)
	}
	tx.Sigs = append(tx.Sigs, types.Sig{PubKeys: keys, M: m, SigData: sigs})
}

// probeTx builds a real transaction whose witnesses are the addresses selected by mask.
func (w *senderWorld) probeTx(mask int, nonce uint32) *types.Transaction {
	tx := genesis.NewInvokeTransaction([]byte("probe"), nonce)
	var vk []keypair.PublicKey
	for _, v := range w.vals {
		vk = append(vk, v.PublicKey)
	}
	vk1 := append(append([]keypair.PublicKey{}, vk...), w.accts["c1"].PublicKey)
	all1 := append(append([]*account.Account{}, w.vals...), w.accts["c1"])
	for i, name := range senderBase {
		if mask&(1<<uint(i)) == 0 {
			continue
		}
		switch name {
		case "op0":
			multiSig(tx, vk, uint16(len(vk)-(len(vk)-1)/3), w.vals)
		case "op1":
			multiSig(tx, vk1, uint16(len(vk1)-(len(vk1)-1)/3), all1)
		case "opm":
			multiSig(tx, vk, 1, w.vals)
		default:
			multiSig(tx, []keypair.PublicKey{w.accts[name].PublicKey}, 1, []*account.Account{w.accts[name]})
		}
	}
	if mask == 0 {
		return tx
	}
	r, err := ledgerkit.Reparse(tx)
	if err != nil {
		vio.Fatal("reparse probe %d: %v", mask, err)
	}
	return r
}

func newSenderWorld(keys []*account.Account) *senderWorld {
	w := &senderWorld{accts: map[string]*account.Account{}, names: map[common.Address]string{}}
	w.dir = scratchDir("sender-ledger-")
	w.vals = keys[:4]
	for i, n := range []string{"v1", "v2", "v3", "v4", "r1", "r2", "c1", "x"} {
		w.accts[n] = keys[i]
		w.names[keys[i].Address] = n
	}
	w.lg = openDefLedger(w.dir, w.vals)
	var vk []keypair.PublicKey
	for _, v := range w.vals {
		vk = append(vk, v.PublicKey)
	}
	op0, _ := types.AddressFromBookkeepers(vk)
	op1, _ := types.AddressFromBookkeepers(append(append([]keypair.PublicKey{}, vk...), w.accts["c1"].PublicKey))
	opm, _ := types.AddressFromMultiPubKeys(vk, 1)
	w.names[op0], w.names[op1], w.names[opm] = "op0", "op1", "opm"
	return w
}

func (w *senderWorld) close() {
	w.lg.L.Close()
	ledger.DefLedger = nil
	os.RemoveAll(w.dir)
}

func (w *senderWorld) name(a common.Address) string {
	if n, ok := w.names[a]; ok {
		return n
	}
	return "?" + a.ToHexString()[:8]
}

// block commits one block with one contract transaction signed by signer; reports whether the transaction succeeded.
func (w *senderWorld) block(contract common.Address, method string, args []byte, signer *account.Account) bool {
	w.nonce++
	tx, err := ledgerkit.SignTx(ledgerkit.InvokeTx(contract, method, args, 500000+w.nonce), signer)
	if err != nil {
		vio.Fatal("sign: %v", err)
	}
	b := w.lg.Build([]*types.Transaction{tx}, nil)
	if _, err := w.lg.Commit(b); err != nil {
		vio.Fatal("commit block: %v", err)
	}
	ev, err := w.lg.L.GetEventNotifyByTx(tx.Hash())
	if err != nil || ev == nil {
		return false
	}
	return ev.State == 1
}

func (w *senderWorld) addrList(l []string) []common.Address {
	var r []common.Address
	for _, n := range l {
		r = append(r, w.accts[n].Address)
	}
	return r
}

func (w *senderWorld) act(st *sstep) bool {
	sink := common.NewZeroCopySink(nil)
	switch st.Op {
	case "register", "remove":
		(&relayer_manager.RelayerListParam{AddressList: w.addrList(st.L), Address: w.accts["x"].Address}).Serialization(sink)
		m := relayer_manager.REGISTER_RELAYER
		if st.Op == "remove" {
			m = relayer_manager.REMOVE_RELAYER
		}
		return w.block(utils.RelayerManagerContractAddress, m, sink.Bytes(), w.accts["x"])
	case "approvereg", "approverem":
		(&relayer_manager.ApproveRelayerParam{ID: uint64(st.Id), Address: w.accts[st.A].Address}).Serialization(sink)
		m := relayer_manager.APPROVE_REGISTER_RELAYER
		if st.Op == "approverem" {
			m = relayer_manager.APPROVE_REMOVE_RELAYER
		}
		return w.block(utils.RelayerManagerContractAddress, m, sink.Bytes(), w.accts[st.A])
	case "candreg":
		c := w.accts[st.A]
		(&node_manager.RegisterPeerParam{PeerPubkey: hex.EncodeToString(keypair.SerializePublicKey(c.PublicKey)), Address: c.Address}).Serialization(sink)
		return w.block(utils.NodeManagerContractAddress, node_manager.REGISTER_CANDIDATE, sink.Bytes(), c)
	case "candapprove":
		p := strings.SplitN(st.A, "/", 2)
		c, v := w.accts[p[0]], w.accts[p[1]]
		(&node_manager.PeerParam{PeerPubkey: hex.EncodeToString(keypair.SerializePublicKey(c.PublicKey)), Address: v.Address}).Serialization(sink)
		return w.block(utils.NodeManagerContractAddress, node_manager.APPROVE_CANDIDATE, sink.Bytes(), v)
	case "age":
		if tp.VerifLastRefresh() != 0 {
			tp.VerifSetLastRefresh(1) // long ago
		}
	case "restart":
		tp.VerifRestartPermitted()
	case "probe":
	default:
		vio.Fatal("unknown sender step %q", st.Op)
	}
	return true
}

var senderSample = []int{0, 1, 2, 4, 8, 16, 32, 64, 128, 1 | 128, 2 | 64, 4 | 128, 3}

func (w *senderWorld) observe(ta *tp.TxActor, r *rig, txok bool) *sobs {
	o := &sobs{Acc: []int{}, Acc2: []int{}, Rej2: []int{}, Reg: []string{}, Peers: []string{}, Perm: []string{}, TxOk: txok}
	// what handleTransaction does first
	if err := tp.VerifUpdatePermittedAddrMap(); err != nil {
		vio.Fatal("updatePermittedAddrMap: %v", err)
	}
	if tp.VerifLastRefresh() != 0 {
		tp.VerifSetLastRefresh(time.Now().Unix() + 3600) // no spontaneous refresh while the behaviour runs (slow machine)
	}
	for mask, tx := range w.probes {
		var err error
		if p := vio.Safe(func() { err = ta.VerifIsValidSender(tx) }); p != "" {
			vio.Fatal("isValidSender panicked on mask %d: %s", mask, p)
		}
		if err == nil {
			o.Acc = append(o.Acc, mask)
		}
	}
	// the TxReq path of the real actor, fresh transactions
	type sent struct {
		mask int
		tx   *types.Transaction
		ch   chan *tc.TxResult
	}
	var ss []sent
	for _, mask := range senderSample {
		w.nonce++
		s := sent{mask, w.probeTx(mask, 900000+w.nonce), make(chan *tc.TxResult, 1)}
		ss = append(ss, s)
		r.txPid.Tell(&tc.TxReq{Tx: s.tx, Sender: tc.HttpSender, TxResultCh: s.ch})
	}
	r.stats() // FIFO barrier: all requests handled
	pend := map[common.Uint256]bool{}
	for _, h := range r.s.VerifPendingHashes() {
		pend[h] = true
	}
	for _, s := range ss {
		refused := false
		select {
		case <-s.ch:
			refused = true
		default:
		}
		if pend[s.tx.Hash()] && !refused {
			o.Acc2 = append(o.Acc2, s.mask)
		} else {
			o.Rej2 = append(o.Rej2, s.mask)
		}
	}
	if tp.VerifLastRefresh() != 0 {
		tp.VerifSetLastRefresh(time.Now().Unix() + 3600)
	}
	// ground truth from the ledger
	for _, n := range []string{"r1", "r2"} {
		a := w.accts[n].Address
		v, _ := ledger.DefLedger.GetStorageItem(utils.RelayerManagerContractAddress, append([]byte(relayer_manager.RELAYER), a[:]...))
		if len(v) > 0 {
			o.Reg = append(o.Reg, n)
		}
	}
	gv, err := ledger.DefLedger.GetStorageItem(utils.NodeManagerContractAddress, []byte(node_manager.GOVERNANCE_VIEW))
	if err != nil {
		vio.Fatal("governance view: %v", err)
	}
	view := new(node_manager.GovernanceView)
	if err := view.Deserialization(common.NewZeroCopySource(gv)); err != nil {
		vio.Fatal("governance view: %v", err)
	}
	pm, err := ledger.DefLedger.GetStorageItem(utils.NodeManagerContractAddress, append([]byte(node_manager.PEER_POOL), utils.GetUint32Bytes(view.View)...))
	if err != nil {
		vio.Fatal("peer pool: %v", err)
	}
	m := &node_manager.PeerPoolMap{PeerPoolMap: map[string]*node_manager.PeerPoolItem{}}
	if err := m.Deserialization(common.NewZeroCopySource(pm)); err != nil {
		vio.Fatal("peer pool: %v", err)
	}
	for k := range m.PeerPoolMap {
		kb, _ := hex.DecodeString(k)
		pk, err := keypair.DeserializePublicKey(kb)
		if err != nil {
			vio.Fatal("peer key: %v", err)
		}
		o.Peers = append(o.Peers, w.name(types.AddressFromPubKey(pk)))
	}
	for _, a := range tp.VerifPermittedAddrs() {
		o.Perm = append(o.Perm, w.name(a))
	}
	sort.Strings(o.Peers)
	sort.Strings(o.Perm)
	return o
}

// senderRun: stdin = behaviours {"steps":[{op,l,id,a}]}; every behaviour runs on a fresh real ledger.
func senderRun(args []string) {
	keys := ledgerkit.LoadOrCreateAccounts("sender-keys.txt", 8)
	lines := vio.ReadLines()
	events := 0
	var probes []*types.Transaction
	for i, ln := range lines {
		var bh sbehaviour
		if err := json.Unmarshal(ln, &bh); err != nil {
			vio.Fatal("bad input line %d: %v", i, err)
		}
		w := newSenderWorld(keys)
		if probes == nil {
			for mask := 0; mask < 1<<uint(len(senderBase)); mask++ {
				probes = append(probes, w.probeTx(mask, uint32(800000+mask)))
			}
		}
		w.probes = probes
		tp.VerifRestartPermitted()
		u := &universe{names: map[common.Uint256]string{}}
		r := newRig(u, false, nil, false)
		ta := tp.NewTxActor(r.s)
		first := &sstep{Op: "init", L: []string{}}
		first.Obs = w.observe(ta, r, true)
		steps := []*sstep{first}
		for _, st := range bh.Steps {
			if st.L == nil {
				st.L = []string{}
			}
			ok := w.act(st)
			st.Obs = w.observe(ta, r, ok)
			steps = append(steps, st)
		}
		bh.Steps = steps
		r.stop()
		w.close()
		if bh.Id == 0 {
			bh.Id = i + 1
		}
		events += len(steps)
		vio.Emit(&bh)
	}
	vio.Emit(map[string]interface{}{"summary": true, "behaviours": len(lines), "events": events})
}
