// vd-pool: drivers for the transaction pool server (C37 pipeline, capacity) and sender admission (C36).
// The pool object itself (edges, concurrent histories) is driven by the light binary vd-poollin.
package main

import (
	"os"
	"strconv"

	"github.com/polynetwork/poly/common/log"
	"verifh/kit/vio"
)

func atoi(s string) int {
	n, err := strconv.Atoi(s)
	if err != nil {
		vio.Fatal("bad number %q", s)
	}
	return n
}

func main() {
	defer vio.Flush()
	if len(os.Args) < 2 {
		vio.Fatal("usage: vd-pool <cmd> ...")
	}
	log.InitLog(log.ErrorLog)
	switch os.Args[1] {
	case "srv-run": // <mode>; stdin: {"steps":[...]} lines
		srvRun(os.Args[2:])
	case "sender": // C36
		senderRun(os.Args[2:])
	default:
		vio.Fatal("unknown command %s", os.Args[1])
	}
}
