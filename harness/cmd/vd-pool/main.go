// vd-pool: drivers for the transaction pool (C37 pool bookkeeping under concurrency, C36 sender admission).
package main

import (
	"os"
	"strconv"

	"github.com/polynetwork/poly/common/log"
	"verifh/kit/vio"
)

func atoi(s string) int {
	n, err := strconv.Atoi(s)
	if err != nil {
		vio.Fatal("bad number %q", s)
	}
	return n
}

func main() {
	defer vio.Flush()
	if len(os.Args) < 2 {
		vio.Fatal("usage: vd-pool <cmd> ...")
	}
	log.InitLog(log.ErrorLog)
	switch os.Args[1] {
	case "lin-record": // <histories> <goroutines> <ops per goroutine> <maxtx> [hot]
		linRecord(atoi(os.Args[2]), atoi(os.Args[3]), atoi(os.Args[4]), atoi(os.Args[5]), len(os.Args) > 6 && os.Args[6] == "hot")
	case "seq-run": // <maxtx>; stdin: {"calls":[...]} lines
		seqRun(atoi(os.Args[2]))
	case "srv-run": // <mode>; stdin: {"steps":[...]} lines
		srvRun(os.Args[2:])
	case "sender": // C36
		senderRun(os.Args[2:])
	default:
		vio.Fatal("unknown command %s", os.Args[1])
	}
}
