package main

// quorum router (C23 only): the deposit claim carries the Istanbul header; the handler checks its proposer seal and
// committed seals against the tracked validator set, then the MPT proofs against the header's state root.

import (
	"crypto/ecdsa"
	"encoding/json"
	"math/big"

	ecommon "github.com/ethereum/go-ethereum/common"
	etypes "github.com/ethereum/go-ethereum/core/types"
	"github.com/ethereum/go-ethereum/crypto"
	"github.com/ethereum/go-ethereum/rlp"
	"github.com/polynetwork/poly/account"
	"github.com/polynetwork/poly/common"
	"github.com/polynetwork/poly/native"
	scom "github.com/polynetwork/poly/native/service/cross_chain_manager/common"
	ccquorum "github.com/polynetwork/poly/native/service/cross_chain_manager/quorum"
	scm "github.com/polynetwork/poly/native/service/governance/side_chain_manager"
	hs "github.com/polynetwork/poly/native/service/header_sync"
	hscom "github.com/polynetwork/poly/native/service/header_sync/common"
	hquorum "github.com/polynetwork/poly/native/service/header_sync/quorum"
	"github.com/polynetwork/poly/native/service/utils"

	"verifh/kit/nativekit"
	"verifh/kit/vio"
)

func init() {
	routers["quorum"] = &Router{Name: "quorum", ID: utils.QUORUM_ROUTER, Family: "quorum",
		Deposit: func(ns *native.NativeService) (*scom.MakeTxParam, error) {
			return ccquorum.NewQuorumHandler().MakeDepositProposal(ns)
		}}
}

type quorumChain struct {
	seed uint64
	w    *World // only for keys
	sb   *nativekit.Sandbox
	vals []string
}

// istanbulHeader builds a header at height h with the given state root, proposer seal by `proposer`, committed seals by
// `committers`; extra = vanity(32) | rlp(IstanbulExtra{validators, seal, committedSeals}).
func (c *quorumChain) istanbulHeader(h uint64, root ecommon.Hash, validators []string, proposer string, committers []string) *etypes.Header {
	var vs []ecommon.Address
	for _, n := range validators {
		vs = append(vs, c.w.Addr[n])
	}
	hd := &etypes.Header{UncleHash: etypes.CalcUncleHash(nil), Root: root, Number: new(big.Int).SetUint64(h), GasLimit: gasLimit0, Time: timeBase + h,
		Difficulty: big.NewInt(1), MixDigest: hquorum.IstanbulDigest, Coinbase: c.w.Addr[proposer]}
	setExtra := func(seal []byte, cs [][]byte) {
		payload, err := rlp.EncodeToBytes(&hquorum.IstanbulExtra{Validators: vs, Seal: seal, CommittedSeal: cs})
		vio.Must(err)
		hd.Extra = append(make([]byte, 32), payload...)
	}
	setExtra([]byte{}, [][]byte{})
	// proposer seal: signature over keccak(rlp(header with empty seal and no committed seals))
	filtered := hquorum.IstanbulFilteredHeader(hd, false)
	enc, err := rlp.EncodeToBytes(filtered)
	vio.Must(err)
	sigHash := crypto.Keccak256(enc)
	seal, err := crypto.Sign(crypto.Keccak256(sigHash), c.w.Keys[proposer])
	vio.Must(err)
	setExtra(seal, [][]byte{})
	// committed seals: signatures over keccak(headerHash || 0x02)
	hh := hquorum.GetQuorumHeaderHash(hd)
	var cs [][]byte
	for _, n := range committers {
		s, err := crypto.Sign(crypto.Keccak256(hquorum.PrepareCommittedSeal(hh)), c.w.Keys[n])
		vio.Must(err)
		cs = append(cs, s)
	}
	setExtra(seal, cs)
	return hd
}

func (c *quorumChain) Install(ccm ecommon.Address, wait uint64, roots map[uint64]ecommon.Hash, g0, best, forkAt uint64, forkRoot ecommon.Hash) *nativekit.Sandbox {
	c.w = &World{Keys: map[string]*ecdsa.PrivateKey{}, Addr: map[string]ecommon.Address{}}
	c.w.makeKeys(c.seed)
	c.vals = []string{"a", "b", "c", "d"} // F = ceil(4/3) - 1 = 1: proposer seal + at least one committed seal
	sb := nativekit.New()
	sb.Height = sandboxBlock
	sb.SeedValidators([]*account.Account{opAccount}, 1)
	ns := sb.Service(nativekit.Tx(), nil)
	vio.Must(scm.PutSideChain(ns, &scm.SideChain{ChainId: sideChainID, Router: utils.QUORUM_ROUTER, Name: "quorum", BlocksToWait: wait, CCMCAddress: ccm.Bytes()}))
	sb.Cache.Commit()
	c.sb = sb
	g := c.istanbulHeader(g0, roots[g0], c.vals, "a", []string{"b", "c"})
	gb, err := json.Marshal(g)
	vio.Must(err)
	p := &hscom.SyncGenesisHeaderParam{ChainID: sideChainID, GenesisHeader: gb}
	sink := common.NewZeroCopySink(nil)
	p.Serialization(sink)
	if _, _, err := sb.Call(hs.SyncGenesisHeader, nativekit.Tx(opAccount.Address), sink.Bytes()); err != nil {
		vio.Fatal("quorum genesis install failed: %v", err)
	}
	return sb
}

func (c *quorumChain) CanonRoot(h uint64) (ecommon.Hash, bool) { return ecommon.Hash{}, false }

// ClaimHeader: the header a claim of world w at height h travels with.
func (c *quorumChain) ClaimHeader(h uint64, world string, root ecommon.Hash) []byte {
	var hd *etypes.Header
	switch world {
	case "fork": // sealed and committed by keys outside the tracked validator set
		hd = c.istanbulHeader(h, root, c.vals, "x", []string{"y"})
	case "unknown": // proposer seal of a validator, no committed seal
		hd = c.istanbulHeader(h, root, c.vals, "a", nil)
	default:
		hd = c.istanbulHeader(h, root, c.vals, "a", []string{"b", "c"})
	}
	b, err := json.Marshal(hd)
	vio.Must(err)
	return b
}
