package main

import (
	"verifh/kit/vio"
)

// posaSmoke: valid chain on configuration F (sets a,b,c everywhere), genesis 200 signed by c.
func posaSmoke(router string) {
	r := routerByName(router)
	rp := newReplayer(r, "F", vio.Seed())
	// 201 % 3 = 0 -> a in turn
	steps := []Step{
		{X: Sub{P: nil, S: "a", D: 2, A: 0, F: "ok"}, Out: "store"},
		{X: Sub{P: []Elem{{"a", 2, 0}}, S: "b", D: 2, A: 0, F: "ok"}, Out: "store"},
		{X: Sub{P: []Elem{{"a", 2, 0}}, S: "c", D: 1, A: 0, F: "ok"}, Out: "store"},
		{X: Sub{P: []Elem{{"a", 2, 0}, {"b", 2, 0}}, S: "b", D: 1, A: 0, F: "ok"}, Out: "reject"},
		{X: Sub{P: []Elem{{"a", 2, 0}, {"b", 2, 0}}, S: "x", D: 1, A: 0, F: "ok"}, Out: "reject"},
		{X: Sub{P: []Elem{{"a", 2, 0}, {"b", 2, 0}}, S: "c", D: 2, A: 0, F: "mix"}, Out: "reject"},
	}
	for _, st := range steps {
		before := rp.w.dumpHS()
		_, obs := rp.apply(st, true, before)
		vio.Emit(map[string]interface{}{"x": st.X, "obs": obs})
	}
}
