package main

// chain drivers for the C23 table: fill a router's header store with a canonical chain carrying given state roots.

import (
	ecommon "github.com/ethereum/go-ethereum/common"
	etypes "github.com/ethereum/go-ethereum/core/types"

	"verifh/kit/nativekit"
	"verifh/kit/vio"
)

type posaChain struct {
	r    *Router
	seed uint64
	w    *World
}

func newChainDriver(r *Router, seed uint64) chainDriver {
	switch r.Family {
	case "bsc", "heco", "pixie":
		return &posaChain{r: r, seed: seed}
	case "eth":
		return &ethChain{seed: seed}
	}
	vio.Fatal("no chain driver for router %s", r.Name)
	return nil
}

// Install: validators a,b,c in both genesis lists (configuration F), every canonical header sealed in turn
// (difficulty 2), the fork header sealed out of turn (difficulty 1) by the validator that is neither in turn nor recent.
func (c *posaChain) Install(ccm ecommon.Address, wait uint64, roots map[uint64]ecommon.Hash, g0, best, forkAt uint64, forkRoot ecommon.Hash) *nativekit.Sandbox {
	cfg := chainCfgs["F"]
	cfg.G0 = g0
	names := cfg.Sets[1]
	cfg.GenesisSigner = names[g0%3]
	w := NewWorldCCM(c.r, cfg, c.seed, wait, roots[g0], ccm)
	c.w = w
	parent := w.Genesis
	var forkParent *etypes.Header
	for h := g0 + 1; h <= best; h++ {
		if h == forkAt {
			forkParent = parent
		}
		hd := w.Build(parent, Elem{S: names[h%3], D: 2, A: 0}, "ok", roots[h])
		o := w.Submit(hd, true, w.dumpHS(), 0)
		if !o.Stored || o.CH != h {
			vio.Fatal("chain driver %s: canonical header %d not stored: %+v", c.r.Name, h, o)
		}
		parent = hd
	}
	if forkParent != nil {
		fh := w.Build(forkParent, Elem{S: names[(forkAt+1)%3], D: 1, A: 0}, "ok", forkRoot)
		o := w.Submit(fh, true, w.dumpHS(), 0)
		if !o.Stored || o.CH != best {
			vio.Fatal("chain driver %s: fork header not stored as a side branch: %+v", c.r.Name, o)
		}
	}
	return w.SB
}

func (c *posaChain) CanonRoot(h uint64) (ecommon.Hash, bool) {
	ns := c.w.SB.Service(nativekit.Tx(), nil)
	_, root, ok, err := c.r.CanonHeader(ns, sideChainID, h)
	vio.Must(err)
	return root, ok
}

type ethChain struct{ seed uint64 }

func (c *ethChain) Install(ccm ecommon.Address, wait uint64, roots map[uint64]ecommon.Hash, g0, best, forkAt uint64, forkRoot ecommon.Hash) *nativekit.Sandbox {
	vio.Fatal("eth chain driver not built yet")
	return nil
}
func (c *ethChain) CanonRoot(h uint64) (ecommon.Hash, bool) { return ecommon.Hash{}, false }
