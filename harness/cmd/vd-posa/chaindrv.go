package main

// chain drivers for the C23 table: fill a router's header store with a canonical chain carrying given state roots.

import (
	"encoding/json"
	"math/big"

	ecommon "github.com/ethereum/go-ethereum/common"
	etypes "github.com/ethereum/go-ethereum/core/types"
	"github.com/polynetwork/poly/account"
	"github.com/polynetwork/poly/common"
	scm "github.com/polynetwork/poly/native/service/governance/side_chain_manager"
	hs "github.com/polynetwork/poly/native/service/header_sync"
	hscom "github.com/polynetwork/poly/native/service/header_sync/common"
	heth "github.com/polynetwork/poly/native/service/header_sync/eth"
	"github.com/polynetwork/poly/native/service/utils"

	"verifh/kit/nativekit"
	"verifh/kit/vio"
)

type posaChain struct {
	r    *Router
	seed uint64
	w    *World
}

func newChainDriver(r *Router, seed uint64) chainDriver {
	switch r.Family {
	case "bsc", "heco", "pixie", "clique", "bor":
		return &posaChain{r: r, seed: seed}
	case "eth":
		return &ethChain{seed: seed}
	case "quorum":
		return &quorumChain{seed: seed}
	}
	vio.Fatal("no chain driver for router %s", r.Name)
	return nil
}

// Install: validators a,b,c in both genesis lists (configuration F), every canonical header sealed in turn
// (difficulty 2), the fork header sealed out of turn (difficulty 1) by the validator that is neither in turn nor recent.
func (c *posaChain) Install(ccm ecommon.Address, wait uint64, roots map[uint64]ecommon.Hash, g0, best, forkAt uint64, forkRoot ecommon.Hash) *nativekit.Sandbox {
	cfg := chainCfgs["F"]
	cfg.G0 = g0
	cfg.Epoch = 100 // clique: no checkpoint inside the synthetic chain (g0 must be a multiple of 100 for msc)
	names := cfg.Sets[1]
	cfg.GenesisSigner = names[g0%3]
	w := NewWorldCCM(c.r, cfg, c.seed, wait, roots[g0], ccm)
	c.w = w
	parent := w.Genesis
	var forkParent *etypes.Header
	for h := g0 + 1; h <= best; h++ {
		if h == forkAt {
			forkParent = parent
		}
		el := Elem{S: names[h%3], D: 2, A: 0}
		if c.r.Family == "bor" { // the proposer of the sprint seals every canonical header with difficulty |V|
			el = Elem{S: cfg.GenesisSigner, D: 3, A: 0}
		}
		hd := w.Build(parent, el, "ok", roots[h])
		o := w.Submit(hd, true, w.dumpHS(), 0)
		if !o.Stored || o.CH != h {
			vio.Fatal("chain driver %s: canonical header %d not stored: %+v", c.r.Name, h, o)
		}
		parent = hd
	}
	if forkParent != nil {
		fe := Elem{S: names[(forkAt+1)%3], D: 1, A: 0}
		if c.r.Family == "bor" { // first backup producer: succession 1, difficulty |V| - 1
			fe = Elem{S: names[(g0%3+1)%3], D: 2, A: 0}
		}
		fh := w.Build(forkParent, fe, "ok", forkRoot)
		o := w.Submit(fh, true, w.dumpHS(), 0)
		if !o.Stored || o.CH != best {
			vio.Fatal("chain driver %s: fork header not stored as a side branch: %+v", c.r.Name, o)
		}
	}
	return w.SB
}

func (c *posaChain) CanonRoot(h uint64) (ecommon.Hash, bool) {
	ns := c.w.SB.Service(nativekit.Tx(), nil)
	_, root, ok, err := c.r.CanonHeader(ns, sideChainID, h)
	vio.Must(err)
	return root, ok
}

type ethChain struct {
	seed uint64
	sb   *nativekit.Sandbox
}

// pre-London difficulty rule (no uncles, far below the bomb), written independently of poly's code
func ethDiffNext(parentDiff int64, parentTime, t uint64) *big.Int {
	x := int64(1) - int64((t-parentTime)/9)
	if x < -99 {
		x = -99
	}
	d := parentDiff + parentDiff/2048*x
	if d < 131072 {
		d = 131072
	}
	return big.NewInt(d)
}

// Install: Ethash seals cannot be mined offline, so the seal decision (and only it) is taken by the verif hook;
// canonical blocks 10 s apart, the fork block 25 s after its parent (lower difficulty => stays a side branch).
func (c *ethChain) Install(ccm ecommon.Address, wait uint64, roots map[uint64]ecommon.Hash, g0, best, forkAt uint64, forkRoot ecommon.Hash) *nativekit.Sandbox {
	heth.VerifSealHook = func(h *heth.Header) (bool, error) { return true, nil }
	sb := nativekit.New()
	sb.Height = sandboxBlock
	sb.SeedValidators([]*account.Account{opAccount}, 1)
	ns := sb.Service(nativekit.Tx(), nil)
	vio.Must(scm.PutSideChain(ns, &scm.SideChain{ChainId: sideChainID, Router: utils.ETH_ROUTER, Name: "eth", BlocksToWait: wait, CCMCAddress: ccm.Bytes()}))
	sb.Cache.Commit()
	c.sb = sb
	g := &heth.Header{UncleHash: etypes.EmptyUncleHash, Difficulty: big.NewInt(1000000), Number: new(big.Int).SetUint64(g0), GasLimit: 10000000,
		Time: timeBase, Extra: []byte{}, Root: roots[g0]}
	gb, err := json.Marshal(g)
	vio.Must(err)
	p := &hscom.SyncGenesisHeaderParam{ChainID: sideChainID, GenesisHeader: gb}
	sink := common.NewZeroCopySink(nil)
	p.Serialization(sink)
	if _, _, err := sb.Call(hs.SyncGenesisHeader, nativekit.Tx(opAccount.Address), sink.Bytes()); err != nil {
		vio.Fatal("eth genesis install failed: %v", err)
	}
	child := func(parent *heth.Header, dt uint64, root ecommon.Hash, salt byte) *heth.Header {
		h := &heth.Header{ParentHash: parent.Hash(), UncleHash: etypes.EmptyUncleHash, Number: new(big.Int).Add(parent.Number, big.NewInt(1)),
			GasLimit: parent.GasLimit, Time: parent.Time + dt, Extra: []byte{salt}, Coinbase: ecommon.Address{salt}, Root: root}
		h.Difficulty = ethDiffNext(parent.Difficulty.Int64(), parent.Time, h.Time)
		return h
	}
	sync := func(h *heth.Header) {
		b, err := json.Marshal(h)
		vio.Must(err)
		sp := &hscom.SyncBlockHeaderParam{ChainID: sideChainID, Address: opAccount.Address, Headers: [][]byte{b}}
		s := common.NewZeroCopySink(nil)
		sp.Serialization(s)
		if _, _, err := sb.Call(hs.SyncBlockHeader, nativekit.Tx(opAccount.Address), s.Bytes()); err != nil {
			vio.Fatal("eth chain driver: header %d refused: %v", h.Number.Uint64(), err)
		}
	}
	parent := g
	var forkParent *heth.Header
	for h := g0 + 1; h <= best; h++ {
		if h == forkAt {
			forkParent = parent
		}
		hd := child(parent, 10, roots[h], 1)
		sync(hd)
		parent = hd
	}
	if forkParent != nil {
		sync(child(forkParent, 25, forkRoot, 2))
	}
	ns = sb.Service(nativekit.Tx(), nil)
	cur, _, err := heth.GetCurrentHeader(ns, sideChainID)
	vio.Must(err)
	if cur.Hash() != parent.Hash() {
		vio.Fatal("eth chain driver: canonical head is not the intended one")
	}
	return sb
}

func (c *ethChain) CanonRoot(h uint64) (ecommon.Hash, bool) {
	ns := c.sb.Service(nativekit.Tx(), nil)
	hd, _, err := heth.GetHeaderByHeight(ns, h, sideChainID)
	if err != nil {
		return ecommon.Hash{}, false
	}
	return hd.Root, true
}
