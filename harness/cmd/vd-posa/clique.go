package main

// msc router: Clique (go-ethereum consensus/clique rules as re-implemented in header_sync/msc).
//   extra = vanity(32) | [sorted signer addresses on checkpoint headers (number % Epoch == 0)] | seal(65)
//   coinbase/nonce = vote (target, 0xff..ff authorize / 0x00..00 drop); coinbase zero = no vote

import (
	ecommon "github.com/ethereum/go-ethereum/common"
	"github.com/ethereum/go-ethereum/consensus/clique"
	etypes "github.com/ethereum/go-ethereum/core/types"
	"github.com/polynetwork/poly/native"
	scom "github.com/polynetwork/poly/native/service/cross_chain_manager/common"
	ccmsc "github.com/polynetwork/poly/native/service/cross_chain_manager/msc"
	"github.com/polynetwork/poly/native/service/header_sync/msc"
	"github.com/polynetwork/poly/native/service/utils"

	"verifh/kit/vio"
)

func init() {
	routers["msc"] = &Router{Name: "msc", ID: utils.MSC_ROUTER, Family: "clique",
		SealHash:    func(h *etypes.Header) ecommon.Hash { return clique.SealHash(h) },
		CanonHeight: msc.GetCanonicalHeight,
		CanonHeader: func(ns *native.NativeService, c, h uint64) (ecommon.Hash, ecommon.Hash, bool, error) {
			x, err := msc.GetCanonicalHeader(ns, c, h)
			if err != nil || x == nil {
				return ecommon.Hash{}, ecommon.Hash{}, false, err
			}
			return x.Header.Hash(), x.Header.Root, true, nil
		},
		Deposit: func(ns *native.NativeService) (*scom.MakeTxParam, error) {
			return ccmsc.NewHandler().MakeDepositProposal(ns)
		},
		NoRule: map[string]bool{"gaslimit": true, "gasused": true, "coinbase": true}}
}

// mscSmoke: does the real msc SyncBlockHeader store a header sealed by a key outside the signer set?
func mscSmoke() {
	w := NewWorld(routers["msc"], chainCfgs["C"], vio.Seed(), 1, ecommon.Hash{})
	try := func(parent *etypes.Header, e Elem, label string) *etypes.Header {
		h := w.Build(parent, e, "ok", ecommon.Hash{})
		o := w.Submit(h, true, w.dumpHS(), 2)
		vio.Emit(map[string]interface{}{"case": label, "elem": e, "obs": o})
		return h
	}
	try(w.Genesis, Elem{S: "x", D: 2}, "outsider x seals 201 with difficulty 2")
	hx := try(w.Genesis, Elem{S: "x", D: 1}, "outsider x seals 201 with difficulty 1")
	try(hx, Elem{S: "y", D: 1}, "outsider y seals 202 on top of it")
	try(w.Genesis, Elem{S: "a", D: 2}, "in-turn signer a seals 201 with difficulty 2")
}
