package main

// polygon bor router, driven inside one sprint (Sprint is set far beyond the synthetic heights, so no sprint-end span
// validation and no proposer rotation happens): validators and proposer are those of the genesis snapshot.

import (
	ecommon "github.com/ethereum/go-ethereum/common"
	etypes "github.com/ethereum/go-ethereum/core/types"
	cstates "github.com/polynetwork/poly/core/states"
	"github.com/polynetwork/poly/native"
	scom "github.com/polynetwork/poly/native/service/cross_chain_manager/common"
	ccbor "github.com/polynetwork/poly/native/service/cross_chain_manager/polygon"
	hscom "github.com/polynetwork/poly/native/service/header_sync/common"
	heth "github.com/polynetwork/poly/native/service/header_sync/eth"
	"github.com/polynetwork/poly/native/service/header_sync/polygon"
	polygonTypes "github.com/polynetwork/poly/native/service/header_sync/polygon/types"
	"github.com/polynetwork/poly/native/service/utils"

	"verifh/kit/nativekit"
	"verifh/kit/vio"
)

const (
	borSprint        = uint64(1) << 40
	borBackup        = uint64(2)
	borProducerDelay = uint64(3)
)

// the seal hash of bor needs a NativeService (it reads the block height for a test-net fix)
var borNS *native.NativeService

func init() {
	sb := nativekit.New()
	sb.Height = sandboxBlock
	borNS = sb.Service(nativekit.Tx(), nil)
	routers["bor"] = &Router{Name: "bor", ID: utils.POLYGON_BOR_ROUTER, Family: "bor",
		SealHash:    func(h *etypes.Header) ecommon.Hash { return polygon.SealHash(borNS, heth.To1559(h)) },
		CanonHeight: polygon.GetCanonicalHeight,
		CanonHeader: func(ns *native.NativeService, c, h uint64) (ecommon.Hash, ecommon.Hash, bool, error) {
			x, err := polygon.GetCanonicalHeader(ns, c, h)
			if err != nil || x == nil {
				return ecommon.Hash{}, ecommon.Hash{}, false, err
			}
			return x.HeaderWithOptionalSnap.Header.Hash(), x.HeaderWithOptionalSnap.Header.Root, true, nil
		},
		Deposit: func(ns *native.NativeService) (*scom.MakeTxParam, error) {
			return ccbor.NewHandler().MakeDepositProposal(ns)
		},
		NoRule: map[string]bool{"gaslimit": true, "gasused": true, "coinbase": true, "diff0": true, "diff3": true}}
}

// seedBorSpan writes the span record that an earlier proof-carrying sprint-end header would have left in the header-sync
// storage (putSpan is unexported; the heimdall proof that normally brings the span is outside this adapter): blocks
// [G0, SpanEnd], selected producers = the genesis validators, voting power 10.
func (w *World) seedBorSpan() {
	span := &polygon.Span{ID: 1, StartBlock: w.Cfg.G0, EndBlock: w.Cfg.SpanEnd, BorChainId: "56"}
	for i, n := range w.Cfg.Sets[1] {
		span.SelectedProducers = append(span.SelectedProducers, polygon.Validator{ID: uint64(i + 1), Address: w.Addr[n], VotingPower: 10})
	}
	b, err := polygonTypes.NewCDC().MarshalBinaryBare(span)
	vio.Must(err)
	w.SB.Cache.Put(utils.ConcatKey(utils.HeaderSyncContractAddress, []byte(hscom.POLYGON_SPAN), utils.GetUint64Bytes(sideChainID)), cstates.GenRawStorageItem(b))
	w.SB.Cache.Commit()
}

// borSuccession: distance of signer s from the proposer in the address-ordered validator list (-1: not a validator)
func (w *World) borSuccession(s string) int {
	names := w.Cfg.Sets[1]
	pi, si := -1, -1
	for i, n := range names {
		if n == w.Cfg.GenesisSigner {
			pi = i
		}
		if n == s {
			si = i
		}
	}
	if si < 0 || pi < 0 {
		return -1
	}
	return (si - pi + len(names)) % len(names)
}

func (w *World) borGenesisJSON(g *etypes.Header) map[string]interface{} {
	var vals []map[string]interface{}
	var prop map[string]interface{}
	for i, n := range w.Cfg.Sets[1] {
		v := map[string]interface{}{"ID": i + 1, "signer": w.Addr[n], "power": 10, "accum": 0}
		vals = append(vals, v)
		if n == w.Cfg.GenesisSigner {
			prop = v
		}
	}
	return map[string]interface{}{"Header": g, "Snapshot": map[string]interface{}{"hash": g.Hash(),
		"validatorSet": map[string]interface{}{"validators": vals, "proposer": prop}}}
}
