// vd-posa: drivers for the PoSA light clients (C29) and the EVM-family deposit proofs (C23).
package main

import (
	"os"

	"verifh/kit/vio"
)

func main() {
	defer vio.Flush()
	if len(os.Args) < 2 {
		vio.Fatal("usage: vd-posa <cmd> ...")
	}
	switch os.Args[1] {
	case "posa-replay": // <router> <chaincfg> ; stdin: EDGE / TRACE lines of PoSA.tla
		posaReplay(os.Args[2], os.Args[3])
	case "posa-smoke": // <router> : a hand-written valid chain, prints observations (development aid)
		posaSmoke(os.Args[2])
	case "msc-smoke":
		mscSmoke()
	case "proof-table": // <router> <g0> <best> <wait> <forkAt> <depositAt> <variants> ; stdin: ROW lines of EvmProof.tla
		proofTable(os.Args[2:])
	default:
		vio.Fatal("unknown command %s", os.Args[1])
	}
}
