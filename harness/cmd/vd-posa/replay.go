package main

// C29: replay of PoSA.tla edges (P-EDGE) and simulated behaviours (P-REPLAY) on the real SyncBlockHeader.

import (
	"encoding/json"
	"fmt"
	"runtime"
	"strings"
	"sync"

	ecommon "github.com/ethereum/go-ethereum/common"
	etypes "github.com/ethereum/go-ethereum/core/types"

	"verifh/kit/vio"
)

type Sub struct {
	P []Elem `json:"p"`
	S string `json:"s"`
	D int    `json:"d"`
	A int    `json:"a"`
	F string `json:"f"`
}

type Mon struct {
	Par bool `json:"par"` // parent stored
	Fmt bool `json:"fmt"` // fixed-format fields well formed
	Mem bool `json:"mem"` // signer in the validator list in effect
	Rec bool `json:"rec"` // signer sealed within the recent window
	Dif bool `json:"dif"` // difficulty matches turn
}

func (m Mon) Allowed() bool { return m.Par && m.Fmt && m.Mem && !m.Rec && m.Dif }
func (m Mon) Broken() string {
	var s []string
	if !m.Par {
		s = append(s, "parent-not-stored")
	}
	if !m.Fmt {
		s = append(s, "malformed")
	}
	if !m.Mem {
		s = append(s, "signer-not-in-set")
	}
	if m.Rec {
		s = append(s, "recent-signer")
	}
	if !m.Dif {
		s = append(s, "difficulty-turn")
	}
	return strings.Join(s, "+")
}

type Step struct {
	// Light: a history step of an edge - only the submission is known, and that the model stores it
	Light bool       `json:"-"`
	X     Sub        `json:"x"`
	Out   string     `json:"out"`
	Mon   Mon        `json:"mon"`
	Ch    uint64     `json:"ch"`
	Canon [][][]Elem `json:"canon"`
	Above []uint64   `json:"above"`
}

type Edge struct {
	H []Step `json:"h"`
	E Step   `json:"e"`
}

type Finding struct {
	Kind   string      `json:"kind"` // "violation" | "drift" | "panic"
	Key    string      `json:"key"`
	Router string      `json:"router"`
	Cfg    string      `json:"cfg"`
	Detail interface{} `json:"detail"`
	Hist   []Step      `json:"hist"`
	Step   Step        `json:"step"`
	Obs    Obs         `json:"obs"`

	asPredicted bool
}

type replayer struct {
	w      *World
	stored map[string]int // observed stored path key -> total difficulty
	router string
	cfg    string
}

func newReplayer(r *Router, cfgName string, seed uint64) *replayer {
	cfg, ok := chainCfgs[cfgName]
	if !ok {
		vio.Fatal("unknown chain cfg %q", cfgName)
	}
	w := NewWorld(r, cfg, seed, 1, ecommon.Hash{})
	return &replayer{w: w, stored: map[string]int{"": 2}, router: r.Name, cfg: cfgName}
}

// headerFor returns (building if necessary, without submitting) the well-formed header of a path.
func (rp *replayer) headerFor(p []Elem) *etypes.Header {
	k := pathKey(p)
	if h, ok := rp.w.Hdr[k]; ok {
		return h
	}
	parent := rp.headerFor(p[:len(p)-1])
	h := rp.w.Build(parent, p[len(p)-1], "ok", ecommon.Hash{})
	rp.w.Hdr[k] = h
	rp.w.ByHash[h.Hash()] = k
	return h
}

func tdOf(p []Elem) int {
	t := 2
	for _, e := range p {
		t += e.D
	}
	return t
}

// apply executes one submission; returns nil if the observation equals the prediction.
func (rp *replayer) apply(st Step, commit bool, before map[string]string) (*Finding, Obs) {
	x := st.X
	parent := rp.headerFor(x.P)
	el := Elem{S: x.S, D: x.D, A: x.A}
	var h *etypes.Header
	full := append(append([]Elem{}, x.P...), el)
	key := pathKey(full)
	if x.F == "ok" {
		h = rp.headerFor(full)
	} else {
		h = rp.w.Build(parent, el, x.F, ecommon.Hash{})
	}
	obs := rp.w.Submit(h, commit, before, 3)
	mk := func(kind, k string, detail interface{}) *Finding {
		return &Finding{Kind: kind, Key: fmt.Sprintf("router=%s:%s", rp.router, k), Router: rp.router, Cfg: rp.cfg, Detail: detail, Step: st, Obs: obs}
	}
	if obs.Panic != "" {
		return mk("panic", "panic-in-SyncBlockHeader", obs.Panic), obs
	}
	if st.Light { // judged as an edge of its own elsewhere; here it only has to bring about the source state
		if !obs.Stored {
			return mk("drift", "drift:history-step-not-stored", obs.Err), obs
		}
		if commit {
			rp.stored[key] = tdOf(full)
		}
		return nil, obs
	}
	// ---- monitor, evaluated on what the implementation did --------------------------------------
	if obs.Stored && !st.Mon.Allowed() {
		what := st.Mon.Broken()
		if x.F != "ok" {
			what = "malformed:" + x.F
		}
		f := mk("violation", "stored:"+what, "a header was stored that C29 forbids")
		f.asPredicted = st.Out == "store" && st.Ch == obs.CH
		if obs.Stored && commit {
			rp.stored[key] = tdOf(full)
		}
		return f, obs
	}
	storedNow := map[string]int{}
	for k, v := range rp.stored {
		storedNow[k] = v
	}
	if obs.Stored {
		storedNow[key] = tdOf(full)
	}
	if v := rp.canonMonitor(obs, storedNow); v != "" {
		return mk("violation", "canon:"+v, map[string]interface{}{"stored_td": storedNow}), obs
	}
	if obs.Stored && commit {
		rp.stored[key] = tdOf(full)
	}
	// ---- prediction ---------------------------------------------------------------------------
	var diffs []string
	if (st.Out == "store") != obs.Stored {
		diffs = append(diffs, fmt.Sprintf("stored: predicted %v (%s), observed %v", st.Out == "store", st.Out, obs.Stored))
	} else {
		if (st.Out == "reject") != (obs.Err != "") {
			diffs = append(diffs, fmt.Sprintf("error return: predicted outcome %s, observed err=%q", st.Out, obs.Err))
		}
		if st.Ch != obs.CH {
			diffs = append(diffs, fmt.Sprintf("canonical height: predicted %d observed %d", st.Ch, obs.CH))
		}
		var pc []string
		for _, c := range st.Canon {
			if len(c) == 1 {
				pc = append(pc, pathKey(c[0]))
			} else {
				pc = append(pc, "-")
			}
		}
		if strings.Join(pc, ",") != strings.Join(obs.Canon, ",") {
			diffs = append(diffs, fmt.Sprintf("canonical chain: predicted %v observed %v", pc, obs.Canon))
		}
		if fmt.Sprint(st.Above) != fmt.Sprint(obs.Above) && !(len(st.Above) == 0 && len(obs.Above) == 0) {
			diffs = append(diffs, fmt.Sprintf("assignments above the head: predicted %v observed %v", st.Above, obs.Above))
		}
	}
	if len(diffs) > 0 {
		return mk("drift", "drift:"+st.Out, diffs), obs
	}
	return nil, obs
}

// canonMonitor: "the canonical chain always follows the highest total difficulty" on the observed state.
func (rp *replayer) canonMonitor(o Obs, stored map[string]int) string {
	g0 := rp.w.Cfg.G0
	if o.CH < g0 || uint64(len(o.Canon)) != o.CH-g0+1 {
		return "height-out-of-range"
	}
	head := o.Canon[len(o.Canon)-1]
	htd, ok := stored[head]
	if !ok {
		return "head-not-a-stored-header"
	}
	for _, td := range stored {
		if td > htd {
			return "head-not-highest-total-difficulty"
		}
	}
	// canon[i] must be the ancestor of head at that height: path keys are "/e1/e2..." so ancestors are prefixes by element
	parts := strings.Split(head, "/") // parts[0] == ""
	if len(parts)-1 != len(o.Canon)-1 {
		return "head-height-mismatch"
	}
	for i := range o.Canon {
		want := strings.Join(parts[:i+1], "/")
		if o.Canon[i] != want {
			return "canonical-chain-not-the-ancestors-of-the-head"
		}
	}
	return ""
}

type group struct {
	hist  []Step
	edges []Step
}

type summary struct {
	Summary    bool           `json:"summary"`
	Router     string         `json:"router"`
	Cfg        string         `json:"cfg"`
	Groups     int            `json:"groups"`
	Edges      int            `json:"edges"`
	Steps      int            `json:"steps"`
	Stored     int            `json:"stored"`
	Rejected   int            `json:"rejected"`
	Skipped    int            `json:"skipped"`
	Nontrivial int            `json:"nontrivial"`
	Drift      int            `json:"drift"`
	Violations int            `json:"violations"`
	Panics     int            `json:"panics"`
	ByOutcome  map[string]int `json:"by_outcome"`
	Abandoned  int            `json:"abandoned"`
	NoRule     int            `json:"skipped_no_rule"`
}

// posaReplay: stdin = EDGE objects ({h,e}) and/or TRACE objects (arrays of steps).
func posaReplay(routerName, cfgName string) {
	r := routerByName(routerName)
	lines := vio.ReadLines()
	var order []string
	norule := 0
	groups := map[string]*group{}
	for _, ln := range lines {
		if len(ln) > 0 && ln[0] == '[' { // TRACE: whole behaviour
			var tr []Step
			vio.Must(json.Unmarshal(ln, &tr))
			k := fmt.Sprintf("trace-%d", len(order))
			groups[k] = &group{hist: tr}
			order = append(order, k)
			continue
		}
		var raw struct {
			H json.RawMessage `json:"h"`
			E Step            `json:"e"`
		}
		vio.Must(json.Unmarshal(ln, &raw))
		if r.NoRule[raw.E.X.F] { // this router's code has no such rule (listed as uncovered, not judged)
			norule++
			continue
		}
		k := string(raw.H)
		g, ok := groups[k]
		if !ok {
			g = &group{}
			var xs []Sub
			vio.Must(json.Unmarshal(raw.H, &xs))
			for _, x := range xs {
				g.hist = append(g.hist, Step{Light: true, X: x, Out: "store"})
			}
			groups[k] = g
			order = append(order, k)
		}
		g.edges = append(g.edges, raw.E)
	}
	sum := summary{Summary: true, Router: r.Name, Cfg: cfgName, Groups: len(order), ByOutcome: map[string]int{}}
	nontriv := map[string]bool{}
	var mu sync.Mutex
	seed := vio.Seed()
	vio.ParMap(len(order), runtime.NumCPU(), func(i int) {
		g := groups[order[i]]
		rp := newReplayer(r, cfgName, seed)
		var local []*Finding
		steps, edges, abandoned := 0, 0, 0
		out := map[string]int{}
		nt := []string{}
		count := func(st Step, hk string) {
			out[st.Out]++
			if st.Out == "store" || (st.Out == "reject" && st.X.F == "ok") {
				b, _ := json.Marshal(st.X)
				nt = append(nt, hk+"|"+string(b)+"|"+st.Out)
			}
		}
		ok := true
		for j, st := range g.hist {
			before := rp.w.dumpHS()
			f, _ := rp.apply(st, true, before)
			steps++
			if len(g.edges) == 0 {
				count(st, pathSetKey(rp.stored))
			}
			if f != nil {
				f.Hist = g.hist[:j]
				local = append(local, f)
				if f.Kind == "violation" && f.asPredicted {
					continue // the implementation-shaped model predicted this (a named deviation): the source state is the intended one
				}
				ok = false
				abandoned = len(g.edges)
				break
			}
		}
		if ok && len(g.edges) > 0 {
			before := rp.w.dumpHS()
			hk := pathSetKey(rp.stored)
			for _, st := range g.edges {
				f, _ := rp.apply(st, false, before)
				edges++
				count(st, hk)
				if f != nil {
					f.Hist = g.hist
					local = append(local, f)
				}
			}
		}
		mu.Lock()
		sum.Steps += steps
		sum.Edges += edges
		sum.Abandoned += abandoned
		for k, v := range out {
			sum.ByOutcome[k] += v
		}
		for _, k := range nt {
			nontriv[k] = true
		}
		for _, f := range local {
			switch f.Kind {
			case "violation":
				sum.Violations++
			case "drift":
				sum.Drift++
			case "panic":
				sum.Panics++
			}
		}
		mu.Unlock()
		for _, f := range local {
			vio.Emit(f)
		}
	})
	sum.Stored = sum.ByOutcome["store"]
	sum.Rejected = sum.ByOutcome["reject"]
	sum.Skipped = sum.ByOutcome["known"] + sum.ByOutcome["orphan"]
	sum.Nontrivial = len(nontriv)
	sum.NoRule = norule
	vio.Emit(sum)
}

func pathSetKey(m map[string]int) string {
	ks := map[string]bool{}
	for k := range m {
		ks[k] = true
	}
	return strings.Join(sortedKeys(ks), ";")
}
