package main

// C23: rows of EvmProof.tla concretized with go-ethereum's trie package and sent to the real deposit handlers.

import (
	"encoding/json"
	"fmt"
	"math/big"
	"os"
	"strconv"

	ecommon "github.com/ethereum/go-ethereum/common"
	"github.com/ethereum/go-ethereum/common/hexutil"
	"github.com/ethereum/go-ethereum/crypto"
	"github.com/ethereum/go-ethereum/ethdb/memorydb"
	"github.com/ethereum/go-ethereum/rlp"
	"github.com/ethereum/go-ethereum/trie"
	"github.com/polynetwork/poly/common"
	ccm "github.com/polynetwork/poly/native/service/cross_chain_manager"
	scom "github.com/polynetwork/poly/native/service/cross_chain_manager/common"

	"verifh/kit/nativekit"
	"verifh/kit/vio"
)

// account leaf as the handlers re-encode it (field order and types of ProofAccount in every handler)
type proofAccount struct {
	Nounce   *big.Int
	Balance  *big.Int
	Storage  ecommon.Hash
	Codehash ecommon.Hash
}

// orderedDB records trie.Prove output in root-to-leaf order.
type orderedDB struct{ nodes [][]byte }

func (o *orderedDB) Put(key, value []byte) error {
	o.nodes = append(o.nodes, append([]byte{}, value...))
	return nil
}
func (o *orderedDB) Delete(key []byte) error { return nil }

type storTrie struct {
	t    *trie.Trie
	root ecommon.Hash
}

type acctInfo struct {
	addr ecommon.Address
	acc  proofAccount
	st   *storTrie
}

type stateTries struct {
	t    *trie.Trie
	root ecommon.Hash
	acct map[string]*acctInfo // "ccm", "other"
}

func newTrie() *trie.Trie {
	t, err := trie.New(ecommon.Hash{}, trie.NewDatabase(memorydb.New()))
	vio.Must(err)
	return t
}

func prove(t *trie.Trie, key []byte) [][]byte {
	db := &orderedDB{}
	vio.Must(t.Prove(crypto.Keccak256(key), 0, db))
	return db.nodes
}

// TableCfg mirrors the constants of an EvmProof configuration.
type TableCfg struct {
	G0, Best, Wait, ForkAt, DepositAt uint64
	LeadZ                             uint64 // leading zero bytes of Keccak(M): 0 or 1
}

type proofWorld struct {
	r      *Router
	cfg    TableCfg
	chain  chainDriver
	rng    *vio.RNG
	msgs   map[string][]byte
	slots  map[string]ecommon.Hash // S1..S4
	stDep  *storTrie
	stPre  *storTrie
	stEvil *storTrie
	ccm    ecommon.Address
	other  ecommon.Address
	third  ecommon.Address
	fill   []ecommon.Address
	canon  map[uint64]*stateTries
	fork   *stateTries
	unk    *stateTries
}

// chainDriver hides how a router's header store is filled (PoSA seals / PoW with the seal hook).
type chainDriver interface {
	// Install makes heights G0..Best canonical with the given state roots and stores one non-canonical header with
	// forkRoot at forkAt; returns the sandbox to call the deposit handler on.
	Install(ccm ecommon.Address, wait uint64, roots map[uint64]ecommon.Hash, g0, best, forkAt uint64, forkRoot ecommon.Hash) *nativekit.Sandbox
	CanonRoot(h uint64) (ecommon.Hash, bool)
}

func (pw *proofWorld) mkStorage(entries map[string][]byte, filler int) *storTrie {
	t := newTrie()
	for name, word := range entries { // word: the byte string the leaf decodes to, exactly as given
		enc, err := rlp.EncodeToBytes(word)
		vio.Must(err)
		slot := pw.slots[name]
		t.Update(crypto.Keccak256(slot.Bytes()), enc)
	}
	for i := 0; i < filler; i++ {
		k := crypto.Keccak256([]byte(fmt.Sprintf("filler-slot-%d", i)))
		enc, _ := rlp.EncodeToBytes(trimLeft(crypto.Keccak256(k)))
		t.Update(crypto.Keccak256(k), enc)
	}
	root, err := t.Commit(nil)
	vio.Must(err)
	return &storTrie{t: t, root: root}
}

// EVM storage words are stored RLP-encoded with leading zero bytes stripped.
func trimLeft(b []byte) []byte {
	i := 0
	for i < len(b)-1 && b[i] == 0 {
		i++
	}
	return b[i:]
}

func (pw *proofWorld) mkState(ccmNonce uint64, ccmStor *storTrie, thirdNonce uint64, withThird bool) *stateTries {
	s := &stateTries{t: newTrie(), acct: map[string]*acctInfo{}}
	put := func(name string, addr ecommon.Address, nonce uint64, st *storTrie, code string) {
		a := &acctInfo{addr: addr, st: st, acc: proofAccount{Nounce: new(big.Int).SetUint64(nonce), Balance: big.NewInt(0), Storage: st.root,
			Codehash: crypto.Keccak256Hash([]byte(code))}}
		enc, err := rlp.EncodeToBytes(&a.acc)
		vio.Must(err)
		s.t.Update(crypto.Keccak256(addr.Bytes()), enc)
		s.acct[name] = a
	}
	put("ccm", pw.ccm, ccmNonce, ccmStor, "ccmcode")
	put("other", pw.other, 1, pw.stEvil, "evilcode")
	if withThird {
		put("third", pw.third, thirdNonce, pw.stPre, "none")
	}
	for i, f := range pw.fill {
		put(fmt.Sprintf("fill%d", i), f, uint64(i), pw.stPre, "fill")
	}
	root, err := s.t.Commit(nil)
	vio.Must(err)
	s.root = root
	return s
}

func newProofWorld(r *Router, cfg TableCfg, seed uint64, variant int) *proofWorld {
	pw := &proofWorld{r: r, cfg: cfg, rng: vio.NewRNG(seed*1000 + uint64(variant)), msgs: map[string][]byte{}, slots: map[string]ecommon.Hash{},
		canon: map[uint64]*stateTries{}}
	rb := func(n int) []byte { return pw.rng.Bytes(n) }
	pw.ccm = ecommon.BytesToAddress(rb(20))
	pw.other = ecommon.BytesToAddress(rb(20))
	pw.third = ecommon.BytesToAddress(rb(20))
	for i := 0; i < 2+pw.rng.Intn(6); i++ {
		pw.fill = append(pw.fill, ecommon.BytesToAddress(rb(20)))
	}
	// messages are ground (a counter in the arguments) until their hashes have the shape the model assumes:
	// Keccak(M) starts with exactly LeadZ zero bytes, Keccak(N) with none, and the last two bytes of Keccak(M) are non-zero
	mk := func(ok func(h []byte) bool) []byte {
		base := &scom.MakeTxParam{TxHash: rb(32), CrossChainID: rb(1 + pw.rng.Intn(32)), FromContractAddress: rb(20), ToChainID: uint64(2 + pw.rng.Intn(5)),
			ToContractAddress: rb(20), Method: "unlock"}
		pre := rb(pw.rng.Intn(60))
		for ctr := uint64(0); ; ctr++ {
			base.Args = append(append([]byte{}, pre...), byte(ctr), byte(ctr>>8), byte(ctr>>16), byte(ctr>>24))
			sink := common.NewZeroCopySink(nil)
			base.Serialization(sink)
			if ok(crypto.Keccak256(sink.Bytes())) {
				return sink.Bytes()
			}
		}
	}
	pw.msgs["M"] = mk(func(h []byte) bool {
		if h[30] == 0 || h[31] == 0 {
			return false
		}
		if cfg.LeadZ == 1 {
			return h[0] == 0 && h[1] != 0
		}
		return h[0] != 0
	})
	pw.msgs["N"] = mk(func(h []byte) bool { return h[0] != 0 })
	for _, s := range []string{"S1", "S2", "S3", "S4", "S5", "S6", "S7", "S8", "S9"} {
		pw.slots[s] = ecommon.BytesToHash(rb(32))
	}
	kM, kN := crypto.Keccak256(pw.msgs["M"]), crypto.Keccak256(pw.msgs["N"])
	// slots of the registered contract whose values merely end like Keccak(M), or end in it (EvmProof.tla S5..S9)
	others := map[string][]byte{"S5": kM[31:], "S6": kM[30:], "S7": kM[1:], "S8": append([]byte{7}, kM...), "S9": {}}
	with := func(m map[string][]byte) map[string][]byte {
		for k, v := range others {
			m[k] = v
		}
		return m
	}
	nf := 1 + pw.rng.Intn(12)
	pw.stDep = pw.mkStorage(with(map[string][]byte{"S1": trimLeft(kM), "S2": trimLeft(kN), "S3": trimLeft(kM)}), nf)
	pw.stPre = pw.mkStorage(with(map[string][]byte{"S2": trimLeft(kN)}), nf)
	pw.stEvil = pw.mkStorage(map[string][]byte{"S1": trimLeft(kM), "S4": []byte("junk")}, 1)
	roots := map[uint64]ecommon.Hash{}
	for h := cfg.G0; h <= cfg.Best; h++ {
		st := pw.stPre
		if h >= cfg.DepositAt {
			st = pw.stDep
		}
		pw.canon[h] = pw.mkState(h, st, h, true)
		roots[h] = pw.canon[h].root
	}
	pw.fork = pw.mkState(7, pw.stDep, 0, false)
	pw.unk = pw.mkState(8, pw.stDep, 0, false)
	return pw
}

type Row struct {
	R struct {
		H  uint64 `json:"h"`
		W  string `json:"w"`
		Ak string `json:"ak"`
		Sk string `json:"sk"`
		M  string `json:"m"`
	} `json:"r"`
	Acc    bool `json:"acc"`
	Conf   bool `json:"conf"`
	True   bool `json:"true"`
	Honest bool `json:"honest"`
}

func hexNodes(n [][]byte) []string {
	out := []string{}
	for _, b := range n {
		out = append(out, hexutil.Encode(b))
	}
	return out
}

func (pw *proofWorld) mutate(nodes [][]byte, kind string) [][]byte {
	out := append([][]byte{}, nodes...)
	switch kind {
	case "reordered":
		for i, j := 0, len(out)-1; i < j; i, j = i+1, j-1 {
			out[i], out[j] = out[j], out[i]
		}
		if len(out) > 2 && pw.rng.Bool() { // any permutation is as good: also a random one
			p := pw.rng.Perm(len(out))
			q := make([][]byte, len(out))
			for i, k := range p {
				q[i] = out[k]
			}
			out = q
		}
	case "garbage":
		g, _ := rlp.EncodeToBytes([][]byte{pw.rng.Bytes(3), pw.rng.Bytes(40)})
		at := pw.rng.Intn(len(out) + 1)
		out = append(out[:at], append([][]byte{g}, out[at:]...)...)
	case "truncated":
		// the deepest node of the model; with more real levels than model levels any node of the path does
		drop := len(out) - 1
		if len(out) > 1 && pw.rng.Intn(3) == 0 {
			drop = pw.rng.Intn(len(out))
		}
		out = append(out[:drop], out[drop+1:]...)
	}
	return out
}

// headerCarrier: routers whose claims travel with their header (quorum).
type headerCarrier interface {
	ClaimHeader(h uint64, world string, root ecommon.Hash) []byte
}

// claimJSON builds the eth_getProof-shaped JSON of a row; also returns the state root the prover used.
func (pw *proofWorld) claimJSON(r *Row) ([]byte, ecommon.Hash) {
	var S *stateTries
	switch r.R.W {
	case "fork":
		S = pw.fork
	case "unknown":
		S = pw.unk
	default:
		if r.R.H >= pw.cfg.G0 && r.R.H <= pw.cfg.Best {
			S = pw.canon[r.R.H]
		} else if _, hdrMode := pw.chain.(headerCarrier); hdrMode && r.R.H > pw.cfg.Best {
			st := pw.stPre
			if r.R.H >= pw.cfg.DepositAt {
				st = pw.stDep
			}
			S = pw.mkState(r.R.H, st, r.R.H, true) // header mode: the canonical state of any height
		} else {
			S = pw.canon[pw.cfg.Best]
		}
	}
	about := S.acct["ccm"]
	if r.R.Ak == "otheraddr" {
		about = S.acct["other"]
	}
	flds := about.acc
	st := about.st
	if r.R.Ak == "fields" {
		flds.Storage = pw.stEvil.root
		st = pw.stEvil
	}
	akey := pw.ccm
	if r.R.Ak == "otheracct" || r.R.Ak == "otheraddr" {
		akey = pw.other
	}
	an := pw.mutate(prove(S.t, akey.Bytes()), r.R.Ak)
	slot := pw.slots["S1"]
	switch r.R.Sk {
	case "slot2":
		slot = pw.slots["S2"]
	case "slot3":
		slot = pw.slots["S3"]
	case "absent":
		slot = pw.slots["S4"]
	case "sfx1":
		slot = pw.slots["S5"]
	case "sfx2":
		slot = pw.slots["S6"]
	case "sfx31":
		slot = pw.slots["S7"]
	case "long33":
		slot = pw.slots["S8"]
	case "empty":
		slot = pw.slots["S9"]
	}
	sn := pw.mutate(prove(st.t, slot.Bytes()), r.R.Sk)
	addrField := pw.ccm
	if r.R.Ak == "otheraddr" {
		addrField = pw.other
	}
	p := map[string]interface{}{
		"address":      addrField.Hex(),
		"balance":      hexutil.EncodeBig(flds.Balance),
		"codeHash":     flds.Codehash.Hex(),
		"nonce":        hexutil.EncodeBig(flds.Nounce),
		"storageHash":  flds.Storage.Hex(),
		"accountProof": hexNodes(an),
		"storageProof": []map[string]interface{}{{"key": slot.Hex(), "value": "0x0", "proof": hexNodes(sn)}},
	}
	b, err := json.Marshal(p)
	vio.Must(err)
	return b, S.root
}

type rowResult struct {
	Mismatch bool   `json:"mismatch"`
	Key      string `json:"key"`
	Router   string `json:"router"`
	Row      *Row   `json:"row"`
	Got      string `json:"got"` // "accept" | "reject" | "panic"
	Err      string `json:"err,omitempty"`
	Panic    string `json:"panic,omitempty"`
	MsgEqual bool   `json:"msg_equal"`
	Variant  int    `json:"variant"`
	Claim    string `json:"claim,omitempty"`
}

// proofTable: args <router> <g0> <best> <wait> <forkAt> <depositAt> <variants> <leadZ>; stdin ROW lines.
func proofTable(args []string) {
	r := routerByName(args[0])
	u := func(s string) uint64 {
		n, err := strconv.ParseUint(s, 10, 64)
		vio.Must(err)
		return n
	}
	cfg := TableCfg{G0: u(args[1]), Best: u(args[2]), Wait: u(args[3]), ForkAt: u(args[4]), DepositAt: u(args[5])}
	variants := int(u(args[6]))
	if len(args) > 7 {
		cfg.LeadZ = u(args[7])
	}
	lines := vio.ReadLines()
	var rows []*Row
	for _, ln := range lines {
		row := &Row{}
		vio.Must(json.Unmarshal(ln, row))
		rows = append(rows, row)
	}
	seed := vio.Seed()
	type sumT struct {
		Summary    bool   `json:"summary"`
		Router     string `json:"router"`
		Rows       int    `json:"rows"`
		Evals      int    `json:"evaluations"`
		Accepts    int    `json:"accepts"`
		Rejects    int    `json:"rejects"`
		Panics     int    `json:"panics"`
		Mismatches int    `json:"mismatches"`
		Classes    int    `json:"distinct_classes"`
		CanonOK    bool   `json:"world_ok"`
		Entrance   string `json:"panic_through_ImportExTransfer,omitempty"`
	}
	sum := sumT{Summary: true, Router: r.Name, Rows: len(rows), CanonOK: true}
	classes := map[string]bool{}
	for v := 0; v < variants; v++ {
		pw := newProofWorld(r, cfg, seed, v)
		roots := map[uint64]ecommon.Hash{}
		for h, s := range pw.canon {
			roots[h] = s.root
		}
		pw.chain = newChainDriver(r, seed)
		sb := pw.chain.Install(pw.ccm, cfg.Wait, roots, cfg.G0, cfg.Best, cfg.ForkAt, pw.fork.root)
		// the world the rows talk about must really be there
		_, hdrMode := pw.chain.(headerCarrier)
		for h := cfg.G0; h <= cfg.Best && !hdrMode; h++ {
			got, ok := pw.chain.CanonRoot(h)
			if !ok || got != roots[h] {
				fmt.Fprintf(os.Stderr, "world check failed: canonical root at %d: ok=%v\n", h, ok)
				sum.CanonOK = false
			}
		}
		for _, row := range rows {
			claim, proverRoot := pw.claimJSON(row)
			msg := pw.msgs[row.R.M]
			ep := &scom.EntranceParam{SourceChainID: sideChainID, Height: uint32(row.R.H), Proof: claim, RelayerAddress: opAccount.Address[:], Extra: msg}
			if hc, ok := pw.chain.(headerCarrier); ok {
				ep.HeaderOrCrossChainMsg = hc.ClaimHeader(row.R.H, row.R.W, proverRoot)
			}
			sink := common.NewZeroCopySink(nil)
			ep.Serialization(sink)
			sb.Cache.Reset()
			ns := sb.Service(nativekit.Tx(opAccount.Address), sink.Bytes())
			var out *scom.MakeTxParam
			var err error
			pan := vio.Safe(func() { out, err = r.Deposit(ns) })
			sb.Cache.Reset()
			res := &rowResult{Router: r.Name, Row: row, Variant: v}
			switch {
			case pan != "":
				res.Got, res.Panic = "panic", pan
				sum.Panics++
				if sum.Entrance == "" {
					// is the same input a panic through the public entrance of the cross-chain manager contract as well?
					ns2 := sb.Service(nativekit.Tx(opAccount.Address), sink.Bytes())
					var e2 error
					p2 := vio.Safe(func() { _, e2 = ccm.ImportExTransfer(ns2) })
					sb.Cache.Reset()
					if p2 != "" {
						sum.Entrance = "panics"
					} else {
						sum.Entrance = fmt.Sprintf("returns: %v", e2)
					}
				}
			case err != nil:
				res.Got, res.Err = "reject", err.Error()
				sum.Rejects++
			default:
				res.Got = "accept"
				sum.Accepts++
				s2 := common.NewZeroCopySink(nil)
				out.Serialization(s2)
				res.MsgEqual = string(s2.Bytes()) == string(msg)
			}
			sum.Evals++
			rel := "confirmed"
			switch {
			case row.R.H < cfg.G0:
				rel = "below-genesis"
			case row.R.H > cfg.Best:
				rel = "above-head"
			case !row.Conf:
				rel = "unconfirmed"
			}
			class := fmt.Sprintf("height=%s,world=%s,account-proof=%s,storage-proof=%s,msg=%s", rel, row.R.W, row.R.Ak, row.R.Sk, row.R.M)
			if row.Acc || row.R.W != "canon" || row.R.Ak != "valid" || row.R.Sk != "valid" {
				classes[class+fmt.Sprint(row.Acc)] = true
			}
			switch {
			case res.Got == "panic":
				res.Mismatch = true
				res.Key = fmt.Sprintf("router=%s:panic:%s", r.Name, class)
				if row.R.H < cfg.G0 {
					res.Key = fmt.Sprintf("router=%s:panic:height-below-genesis", r.Name)
				}
			case res.Got == "accept" && !row.Acc:
				res.Mismatch = true
				res.Key = fmt.Sprintf("router=%s:accepted-unsound:%s", r.Name, class)
			case res.Got == "reject" && row.Acc:
				res.Mismatch = true
				res.Key = fmt.Sprintf("router=%s:rejected-valid:%s", r.Name, class)
			case res.Got == "accept" && !res.MsgEqual:
				res.Mismatch = true
				res.Key = fmt.Sprintf("router=%s:accepted-message-differs", r.Name)
			}
			if res.Mismatch {
				sum.Mismatches++
				res.Claim = string(claim)
				vio.Emit(res)
			}
		}
	}
	sum.Classes = len(classes)
	vio.Emit(sum)
}
