package main

// Synthetic PoSA chains (real secp256k1 seals) driven through the real header_sync entrance.
// One Router value per poly router; the bsc-family header-sync files share one header/extra-data layout:
//   extra = vanity(32) | [validator addresses (20 each)] | seal(65), seal over SealHash(header[, chainID]).

import (
	"crypto/ecdsa"
	"encoding/json"
	"fmt"
	"math/big"
	"sort"
	"strings"
	"time"

	ecommon "github.com/ethereum/go-ethereum/common"
	etypes "github.com/ethereum/go-ethereum/core/types"
	"github.com/ethereum/go-ethereum/crypto"
	"github.com/polynetwork/poly/account"
	"github.com/polynetwork/poly/common"
	"github.com/polynetwork/poly/common/log"
	"github.com/polynetwork/poly/native"
	ccbsc "github.com/polynetwork/poly/native/service/cross_chain_manager/bsc"
	ccbytom "github.com/polynetwork/poly/native/service/cross_chain_manager/bytom"
	scom "github.com/polynetwork/poly/native/service/cross_chain_manager/common"
	cceth "github.com/polynetwork/poly/native/service/cross_chain_manager/eth"
	ccheco "github.com/polynetwork/poly/native/service/cross_chain_manager/heco"
	cchsc "github.com/polynetwork/poly/native/service/cross_chain_manager/hsc"
	ccpixie "github.com/polynetwork/poly/native/service/cross_chain_manager/pixiechain"
	scm "github.com/polynetwork/poly/native/service/governance/side_chain_manager"
	hs "github.com/polynetwork/poly/native/service/header_sync"
	"github.com/polynetwork/poly/native/service/header_sync/bsc"
	"github.com/polynetwork/poly/native/service/header_sync/bytom"
	hscom "github.com/polynetwork/poly/native/service/header_sync/common"
	heth "github.com/polynetwork/poly/native/service/header_sync/eth"
	"github.com/polynetwork/poly/native/service/header_sync/heco"
	"github.com/polynetwork/poly/native/service/header_sync/hsc"
	"github.com/polynetwork/poly/native/service/header_sync/pixiechain"
	"github.com/polynetwork/poly/native/service/utils"

	"verifh/kit/nativekit"
	"verifh/kit/vio"
)

const (
	sideChainID  = uint64(77)
	evmChainID   = int64(56)
	periodSecs   = uint64(3)
	gasLimit0    = uint64(30000000)
	sandboxBlock = uint32(20000000) // above the start block of the hsc / bytom routers on main net
)

// Router describes how one poly router is driven.
type Router struct {
	Name        string
	ID          uint64
	Family      string // "bsc" | "heco" | "pixie" (PoSA.tla Family) ; "eth" for the PoW router (C23 only)
	SealHash    func(h *etypes.Header) ecommon.Hash
	CanonHeight func(ns *native.NativeService, chain uint64) (uint64, error)
	// CanonHeader returns (hash, state root, found) of the canonical header at a height.
	CanonHeader func(ns *native.NativeService, chain, height uint64) (ecommon.Hash, ecommon.Hash, bool, error)
	Deposit     func(ns *native.NativeService) (*scom.MakeTxParam, error)
	// defect tags of PoSA.tla that this router's code has no rule for
	NoRule map[string]bool
}

func chainIDBig() *big.Int { return big.NewInt(evmChainID) }

var routers = map[string]*Router{
	"eth": {Name: "eth", ID: utils.ETH_ROUTER, Family: "eth",
		Deposit: func(ns *native.NativeService) (*scom.MakeTxParam, error) {
			return cceth.NewETHHandler().MakeDepositProposal(ns)
		}},
	"bsc": {Name: "bsc", ID: utils.BSC_ROUTER, Family: "bsc",
		SealHash:    func(h *etypes.Header) ecommon.Hash { return bsc.SealHash(h, chainIDBig()) },
		CanonHeight: bsc.GetCanonicalHeight,
		CanonHeader: func(ns *native.NativeService, c, h uint64) (ecommon.Hash, ecommon.Hash, bool, error) {
			x, err := bsc.GetCanonicalHeader(ns, c, h)
			if err != nil || x == nil {
				return ecommon.Hash{}, ecommon.Hash{}, false, err
			}
			return x.Header.Hash(), x.Header.Root, true, nil
		},
		Deposit: func(ns *native.NativeService) (*scom.MakeTxParam, error) {
			return ccbsc.NewHandler().MakeDepositProposal(ns)
		},
		NoRule: map[string]bool{"time": true}},
	"bytom": {Name: "bytom", ID: utils.BYTOM_ROUTER, Family: "bsc",
		SealHash:    func(h *etypes.Header) ecommon.Hash { return bytom.SealHash(h, chainIDBig()) },
		CanonHeight: bytom.GetCanonicalHeight,
		CanonHeader: func(ns *native.NativeService, c, h uint64) (ecommon.Hash, ecommon.Hash, bool, error) {
			x, err := bytom.GetCanonicalHeader(ns, c, h)
			if err != nil || x == nil {
				return ecommon.Hash{}, ecommon.Hash{}, false, err
			}
			return x.Header.Hash(), x.Header.Root, true, nil
		},
		Deposit: func(ns *native.NativeService) (*scom.MakeTxParam, error) {
			return ccbytom.NewHandler().MakeDepositProposal(ns)
		},
		NoRule: map[string]bool{"time": true}},
	"heco": {Name: "heco", ID: utils.HECO_ROUTER, Family: "heco",
		SealHash:    func(h *etypes.Header) ecommon.Hash { return heco.SealHash(heth.To1559(h), chainIDBig()) },
		CanonHeight: heco.GetCanonicalHeight,
		CanonHeader: func(ns *native.NativeService, c, h uint64) (ecommon.Hash, ecommon.Hash, bool, error) {
			x, err := heco.GetCanonicalHeader(ns, c, h)
			if err != nil || x == nil {
				return ecommon.Hash{}, ecommon.Hash{}, false, err
			}
			return x.Header.Hash(), x.Header.Root, true, nil
		},
		Deposit: func(ns *native.NativeService) (*scom.MakeTxParam, error) {
			return ccheco.NewHecoHandler().MakeDepositProposal(ns)
		},
		NoRule: map[string]bool{}},
	"hsc": {Name: "hsc", ID: utils.HSC_ROUTER, Family: "heco",
		SealHash:    func(h *etypes.Header) ecommon.Hash { return hsc.SealHash(heth.To1559(h), chainIDBig()) },
		CanonHeight: hsc.GetCanonicalHeight,
		CanonHeader: func(ns *native.NativeService, c, h uint64) (ecommon.Hash, ecommon.Hash, bool, error) {
			x, err := hsc.GetCanonicalHeader(ns, c, h)
			if err != nil || x == nil {
				return ecommon.Hash{}, ecommon.Hash{}, false, err
			}
			return x.Header.Hash(), x.Header.Root, true, nil
		},
		Deposit: func(ns *native.NativeService) (*scom.MakeTxParam, error) {
			return cchsc.NewHscHandler().MakeDepositProposal(ns)
		},
		NoRule: map[string]bool{"gaslimit": true}},
	"pixie": {Name: "pixie", ID: utils.PIXIECHAIN_ROUTER, Family: "pixie",
		SealHash:    func(h *etypes.Header) ecommon.Hash { return pixiechain.SealHash(heth.To1559(h), chainIDBig()) },
		CanonHeight: pixiechain.GetCanonicalHeight,
		CanonHeader: func(ns *native.NativeService, c, h uint64) (ecommon.Hash, ecommon.Hash, bool, error) {
			x, err := pixiechain.GetCanonicalHeader(ns, c, h)
			if err != nil || x == nil {
				return ecommon.Hash{}, ecommon.Hash{}, false, err
			}
			return x.Header.Hash(), x.Header.Root, true, nil
		},
		Deposit: func(ns *native.NativeService) (*scom.MakeTxParam, error) {
			return ccpixie.NewPixieHandler().MakeDepositProposal(ns)
		},
		NoRule: map[string]bool{}},
}

func routerByName(n string) *Router {
	r, ok := routers[n]
	if !ok {
		vio.Fatal("unknown router %q", n)
	}
	return r
}

// Elem is one path element of PoSA.tla.
type Elem struct {
	S string `json:"s"`
	D int    `json:"d"`
	A int    `json:"a"`
}

func pathKey(p []Elem) string {
	var sb strings.Builder
	for _, e := range p {
		fmt.Fprintf(&sb, "/%s%d.%d", e.S, e.D, e.A)
	}
	return sb.String()
}

// ChainCfg is the concretization of the constants of a PoSA configuration.
type ChainCfg struct {
	Sets          [][]string
	GenesisSigner string
	G0            uint64
	Epoch         uint64 // clique only
	Sprint        uint64 // bor only: 0 = no sprint boundary in reach
	SpanEnd       uint64 // bor only: the stored Heimdall span is [G0, SpanEnd] with producers Sets[1]
}

var chainCfgs = map[string]ChainCfg{
	"A":    {Sets: [][]string{{"a", "b", "c"}, {"b", "c", "d"}, {"d", "a"}}, GenesisSigner: "c", G0: 200},
	"B":    {Sets: [][]string{{"a", "b", "c", "d"}, {"a", "b", "c", "d", "e"}, {"e"}}, GenesisSigner: "c", G0: 200},
	"F":    {Sets: [][]string{{"a", "b", "c"}, {"a", "b", "c"}}, GenesisSigner: "c", G0: 200},
	"G":    {Sets: [][]string{{"a", "b", "c", "d", "e"}, {"a", "b"}, {"a", "b", "c", "d"}}, GenesisSigner: "a", G0: 200},
	"P":    {Sets: [][]string{{"a", "b", "c"}, {"a", "b", "c"}, {"a", "b", "d"}}, GenesisSigner: "b", G0: 200},
	"S202": {Sets: [][]string{{"a", "b", "c"}, {"a", "b", "c"}, {"a", "b", "d"}}, GenesisSigner: "b", G0: 200, Sprint: 4, SpanEnd: 202},
	"S203": {Sets: [][]string{{"a", "b", "c"}, {"a", "b", "c"}, {"a", "b", "d"}}, GenesisSigner: "b", G0: 200, Sprint: 4, SpanEnd: 203},
	"S204": {Sets: [][]string{{"a", "b", "c"}, {"a", "b", "c"}, {"a", "b", "d"}}, GenesisSigner: "b", G0: 200, Sprint: 4, SpanEnd: 204},
	"S207": {Sets: [][]string{{"a", "b", "c"}, {"a", "b", "c"}, {"a", "b", "d"}}, GenesisSigner: "b", G0: 200, Sprint: 4, SpanEnd: 207},
	"C":    {Sets: [][]string{{"a", "b", "c"}, {"a", "b", "c"}, {"a", "b", "d"}}, GenesisSigner: "c", G0: 200, Epoch: 4},
	"D":    {Sets: [][]string{{"a", "b", "c", "d", "e"}, {"a", "b", "c", "d", "e"}}, GenesisSigner: "c", G0: 200, Epoch: 4},
}

var keyNames = []string{"a", "b", "c", "d", "e", "x", "y"}

// World is one sandbox with one registered side chain and its installed genesis.
type World struct {
	R       *Router
	Cfg     ChainCfg
	SB      *nativekit.Sandbox
	Op      *account.Account
	Keys    map[string]*ecdsa.PrivateKey
	Addr    map[string]ecommon.Address
	Base    uint64
	Genesis *etypes.Header
	Hdr     map[string]*etypes.Header // path key -> header
	ByHash  map[ecommon.Hash]string   // header hash -> path key
	CCMC    ecommon.Address
	Wait    uint64
}

var timeBase = (uint64(time.Now().Unix()) - 30*86400) / 1000 * 1000

func init() {
	log.InitLog(log.FatalLog, log.Stdout)
}

func detKey(seed uint64, name string) *ecdsa.PrivateKey {
	for i := 0; ; i++ {
		d := crypto.Keccak256([]byte(fmt.Sprintf("vd-posa-key/%d/%s/%d", seed, name, i)))
		k, err := crypto.ToECDSA(d)
		if err == nil {
			return k
		}
	}
}

// one operator account for all worlds (account generation is slow-ish and irrelevant)
var opAccount = account.NewAccount("")

// makeKeys: validator names a..e are assigned in ascending address order (clique orders its signers by address; for
// the other families the order is the one written into the extra data, so any assignment will do).
func (w *World) makeKeys(seed uint64) {
	var ks []*ecdsa.PrivateKey
	for i := 0; i < 5; i++ {
		ks = append(ks, detKey(seed, fmt.Sprintf("validator-%d", i)))
	}
	sort.Slice(ks, func(i, j int) bool {
		a, b := crypto.PubkeyToAddress(ks[i].PublicKey), crypto.PubkeyToAddress(ks[j].PublicKey)
		return strings.Compare(string(a[:]), string(b[:])) < 0
	})
	for i, n := range []string{"a", "b", "c", "d", "e"} {
		w.Keys[n] = ks[i]
	}
	for _, n := range []string{"x", "y"} {
		w.Keys[n] = detKey(seed, n)
	}
	for n, k := range w.Keys {
		w.Addr[n] = crypto.PubkeyToAddress(k.PublicKey)
	}
}

func (w *World) valBytes(set int) []byte {
	var b []byte
	for _, n := range w.Cfg.Sets[set-1] {
		b = append(b, w.Addr[n].Bytes()...)
	}
	return b
}

func (w *World) seal(h *etypes.Header, key *ecdsa.PrivateKey) {
	sig, err := crypto.Sign(w.R.SealHash(h).Bytes(), key)
	vio.Must(err)
	copy(h.Extra[len(h.Extra)-65:], sig)
}

// NewWorld registers the side chain and installs the genesis header through the real entrance.
func NewWorld(r *Router, cfg ChainCfg, seed uint64, wait uint64, genesisRoot ecommon.Hash) *World {
	return NewWorldCCM(r, cfg, seed, wait, genesisRoot, ecommon.BytesToAddress(crypto.Keccak256([]byte(fmt.Sprintf("ccmc/%d", seed)))[12:]))
}

// NewWorldCCM: as NewWorld with a given registered cross-chain-manager contract address.
func NewWorldCCM(r *Router, cfg ChainCfg, seed uint64, wait uint64, genesisRoot ecommon.Hash, ccm ecommon.Address) *World {
	w := &World{R: r, Cfg: cfg, SB: nativekit.New(), Op: opAccount, Keys: map[string]*ecdsa.PrivateKey{}, Addr: map[string]ecommon.Address{},
		Base: timeBase, Hdr: map[string]*etypes.Header{}, ByHash: map[ecommon.Hash]string{}, Wait: wait}
	w.SB.Height = sandboxBlock
	w.SB.SeedValidators([]*account.Account{w.Op}, 1)
	w.makeKeys(seed)
	w.CCMC = ccm
	epoch := cfg.Epoch
	if epoch == 0 {
		epoch = 100
	}
	sprint := borSprint
	if cfg.Sprint != 0 {
		sprint = cfg.Sprint
	}
	extra, _ := json.Marshal(map[string]interface{}{"ChainID": evmChainID, "Period": periodSecs, "Epoch": epoch,
		"Sprint": sprint, "ProducerDelay": borProducerDelay, "BackupMultiplier": borBackup, "HeimdallPolyChainID": 15})
	ns := w.SB.Service(nativekit.Tx(), nil)
	vio.Must(scm.PutSideChain(ns, &scm.SideChain{ChainId: sideChainID, Router: r.ID, Name: r.Name, BlocksToWait: wait,
		CCMCAddress: w.CCMC.Bytes(), ExtraInfo: extra}))
	w.SB.Cache.Commit()

	ex := make([]byte, 32)
	ex = append(ex, w.valBytes(2)...)
	ex = append(ex, make([]byte, 65)...)
	g := &etypes.Header{UncleHash: etypes.CalcUncleHash(nil), Coinbase: w.Addr[cfg.GenesisSigner], Root: genesisRoot,
		Number: new(big.Int).SetUint64(cfg.G0), GasLimit: gasLimit0, Time: w.Base, Extra: ex, Difficulty: big.NewInt(2)}
	if r.Family == "clique" { // checkpoint genesis: zero beneficiary, the seal is what counts
		g.Coinbase = ecommon.Address{}
	}
	if r.Family == "bor" { // genesis is inside a sprint: no validator bytes
		g.Extra = make([]byte, 32+65)
	}
	w.seal(g, w.Keys[cfg.GenesisSigner])
	w.Genesis = g
	w.Hdr[""] = g
	w.ByHash[g.Hash()] = ""
	var prev []ecommon.Address
	for _, n := range cfg.Sets[0] {
		prev = append(prev, w.Addr[n])
	}
	var gj []byte
	var err error
	if r.Family == "clique" {
		gj, err = json.Marshal(g)
	} else if r.Family == "bor" {
		gj, err = json.Marshal(w.borGenesisJSON(g))
	} else {
		gj, err = json.Marshal(map[string]interface{}{"Header": g,
			"PrevValidators": []map[string]interface{}{{"Height": cfg.G0 - 100, "Validators": prev}}})
	}
	vio.Must(err)
	p := &hscom.SyncGenesisHeaderParam{ChainID: sideChainID, GenesisHeader: gj}
	sink := common.NewZeroCopySink(nil)
	p.Serialization(sink)
	if _, _, err := w.SB.Call(hs.SyncGenesisHeader, nativekit.Tx(w.Op.Address), sink.Bytes()); err != nil {
		vio.Fatal("genesis install failed for %s: %v", r.Name, err)
	}
	if r.Family == "bor" && cfg.SpanEnd != 0 {
		w.seedBorSpan()
	}
	return w
}

// Build makes the header for path element e on top of parent (with defect f), sealed with real keys.
func (w *World) Build(parent *etypes.Header, e Elem, f string, root ecommon.Hash) *etypes.Header {
	num := parent.Number.Uint64() + 1
	ex := make([]byte, 32)
	copy(ex, []byte("vd-posa"))
	if e.A != 0 {
		ex = append(ex, w.valBytes(e.A)...)
	}
	ex = append(ex, make([]byte, 65)...)
	h := &etypes.Header{ParentHash: parent.Hash(), UncleHash: etypes.CalcUncleHash(nil), Coinbase: w.Addr[e.S], Root: root,
		Number: new(big.Int).SetUint64(num), GasLimit: parent.GasLimit, GasUsed: 0, Time: parent.Time + periodSecs, Extra: ex,
		Difficulty: big.NewInt(int64(e.D))}
	sealKey := w.Keys[e.S]
	signed := true
	if w.R.Family == "clique" {
		h.Coinbase = ecommon.Address{} // no vote
	}
	if w.R.Family == "bor" { // a backup producer has to wait succession * BackupMultiplier longer
		if su := w.borSuccession(e.S); su > 0 {
			h.Time += uint64(su) * borBackup
		}
		if e.A != 0 { // validator entries are 40 bytes (address + 20-byte power) in bor
			ex := make([]byte, 32)
			for _, n := range w.Cfg.Sets[e.A-1] {
				ex = append(ex, w.Addr[n].Bytes()...)
				ex = append(ex, make([]byte, 19)...)
				ex = append(ex, 10)
			}
			h.Extra = append(ex, make([]byte, 65)...)
		}
	}
	switch f {
	case "ok", "":
	case "novanity":
		h.Extra = make([]byte, 20)
		signed = false
	case "noseal":
		h.Extra = make([]byte, 32+40)
		signed = false
	case "badlist":
		h.Extra = make([]byte, 32+7+65)
	case "mix":
		h.MixDigest = ecommon.Hash{1}
	case "uncle":
		h.UncleHash = ecommon.Hash{1}
	case "diff0":
		h.Difficulty = big.NewInt(0)
	case "diff3":
		h.Difficulty = big.NewInt(3)
	case "number":
		h.Number = new(big.Int).SetUint64(num + 1)
	case "gasused":
		h.GasUsed = h.GasLimit + 1
	case "gaslimit":
		h.GasLimit = parent.GasLimit + parent.GasLimit/256
	case "future":
		h.Time = uint64(time.Now().Unix()) + 365*86400
	case "time":
		h.Time = h.Time - 1
	case "coinbase":
		sealKey = w.Keys["y"]
	case "nonce":
		h.Nonce = etypes.BlockNonce{1}
	case "badsig":
		signed = false
		g := crypto.Keccak256([]byte("garbage"), h.ParentHash.Bytes())
		copy(h.Extra[len(h.Extra)-65:], append(append([]byte{}, g...), g...))
		h.Extra[len(h.Extra)-1] = 1
	default:
		vio.Fatal("unknown defect %q", f)
	}
	if signed {
		w.seal(h, sealKey)
	}
	return h
}

// Obs is what a submission did, seen from outside.
type Obs struct {
	Err     string   `json:"err,omitempty"`
	Panic   string   `json:"panic,omitempty"`
	Stored  bool     `json:"stored"`
	Changed bool     `json:"changed"`
	CH      uint64   `json:"ch"`
	Canon   []string `json:"canon"` // path keys of the canonical chain G0..CH ("?" unknown hash, "-" none)
	Above   []uint64 `json:"above"` // heights above CH that still carry an assignment
}

func (w *World) syncInput(hdrs ...*etypes.Header) []byte {
	var hb [][]byte
	for _, h := range hdrs {
		var b []byte
		var err error
		if w.R.Family == "bor" {
			b, err = json.Marshal(map[string]interface{}{"Header": h, "Proof": nil})
		} else {
			b, err = json.Marshal(h)
		}
		vio.Must(err)
		hb = append(hb, b)
	}
	sp := &hscom.SyncBlockHeaderParam{ChainID: sideChainID, Address: w.Op.Address, Headers: hb}
	sink := common.NewZeroCopySink(nil)
	sp.Serialization(sink)
	return sink.Bytes()
}

func (w *World) dumpHS() map[string]string { return w.SB.DumpContract(utils.HeaderSyncContractAddress) }

// Submit runs SyncBlockHeader for one header. commit=false leaves the overlay untouched (the observation is taken
// from the uncommitted transaction cache, then discarded).
func (w *World) Submit(h *etypes.Header, commit bool, before map[string]string, maxAbove int) Obs {
	var o Obs
	w.SB.Cache.Reset()
	ns := w.SB.Service(nativekit.Tx(w.Op.Address), w.syncInput(h))
	var err error
	o.Panic = vio.Safe(func() { _, err = hs.SyncBlockHeader(ns) })
	if err != nil {
		o.Err = err.Error()
	}
	if err != nil || o.Panic != "" {
		w.SB.Cache.Reset()
	}
	after := w.dumpHS()
	o.Changed = len(nativekit.Diff(before, after)) > 0
	o.Stored = o.Changed && err == nil && o.Panic == ""
	w.observeCanon(&o, maxAbove)
	if commit && err == nil && o.Panic == "" {
		w.SB.Cache.Commit()
	} else {
		w.SB.Cache.Reset()
	}
	return o
}

func (w *World) observeCanon(o *Obs, maxAbove int) {
	ns := w.SB.Service(nativekit.Tx(), nil)
	ch, err := w.R.CanonHeight(ns, sideChainID)
	vio.Must(err)
	o.CH = ch
	o.Canon = nil
	for k := w.Cfg.G0; k <= ch && k < w.Cfg.G0+64; k++ {
		hash, _, ok, err := w.R.CanonHeader(ns, sideChainID, k)
		vio.Must(err)
		if !ok {
			o.Canon = append(o.Canon, "-")
			continue
		}
		pk, known := w.ByHash[hash]
		if !known {
			pk = "?"
		}
		o.Canon = append(o.Canon, pk)
	}
	o.Above = []uint64{}
	for k := ch + 1; k <= ch+uint64(maxAbove); k++ {
		_, _, ok, err := w.R.CanonHeader(ns, sideChainID, k)
		vio.Must(err)
		if ok {
			o.Above = append(o.Above, k)
		}
	}
}

func sortedKeys(m map[string]bool) []string {
	var ks []string
	for k := range m {
		ks = append(ks, k)
	}
	sort.Strings(ks)
	return ks
}
