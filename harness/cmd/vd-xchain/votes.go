package main

// C25 drivers (spec/Votes.tla): the real consensus_vote.CheckVotes reached through ImportExTransfer on a vote-router chain
// (mode "vote") or a ripple-router chain (mode "ripple": ripple.MakeDepositProposal shares CheckVotes), and the real
// signature_manager.CheckSigns reached through AddSignature (mode "sig").  An epoch change re-seeds the consensus pool
// (new view) between votes.

import (
	"bytes"
	"crypto/sha256"
	"encoding/binary"
	"encoding/hex"
	"encoding/json"
	"fmt"
	"os"
	"sort"
	"sync"

	"github.com/polynetwork/poly/account"
	"github.com/polynetwork/poly/common"
	"github.com/polynetwork/poly/common/config"
	cstates "github.com/polynetwork/poly/core/states"
	"github.com/polynetwork/poly/core/store/leveldbstore"
	"github.com/polynetwork/poly/core/store/overlaydb"
	"github.com/polynetwork/poly/native"
	ccm "github.com/polynetwork/poly/native/service/cross_chain_manager"
	scom "github.com/polynetwork/poly/native/service/cross_chain_manager/common"
	scm "github.com/polynetwork/poly/native/service/governance/side_chain_manager"
	sigm "github.com/polynetwork/poly/native/service/governance/signature_manager"
	"github.com/polynetwork/poly/native/service/utils"
	"github.com/polynetwork/poly/native/storage"

	"verifh/kit/nativekit"
	"verifh/kit/vio"
)

type VStep struct {
	Act  string   `json:"act"`
	Id   string   `json:"id,omitempty"`
	A    string   `json:"a,omitempty"`
	Err  bool     `json:"err,omitempty"`
	Rel  bool     `json:"rel,omitempty"`
	Cons []string `json:"cons,omitempty"`
}

type vpostJ struct {
	Cons   []string            `json:"cons"`
	Voted  map[string][]string `json:"voted"`
	Status map[string]bool     `json:"status"`
}

type vedgeJ struct {
	H    []VStep `json:"h"`
	Step VStep   `json:"step"`
	Post vpostJ  `json:"post"`
}

type VUniverse struct {
	mode    string
	u       *Universe // only for tx construction
	accts   map[string]*account.Account
	nameOf  map[string]string // base58 address -> name
	src, to uint64
	msgs    map[string]*Msg   // vote / ripple: message per id
	subj    map[string][]byte // sig: subject per id
	sigs    map[string][]byte // sig: signature bytes per voter
	base    *leveldbstore.LevelDBStore
	init    []string
	ids     []string
}

// eventLogOff: run this process with config.DefConfig.Common.EnableEventLog = false (VERIF_EVENTLOG=0).
func eventLogOff() bool { return os.Getenv("VERIF_EVENTLOG") == "0" }

func newVUniverse(mode string, addrs, init, ids []string, seed uint64) *VUniverse {
	config.DefConfig.P2PNode.NetworkId = config.NETWORK_ID_MAIN_NET
	config.DefConfig.Common.EnableEventLog = !eventLogOff()
	rng := vio.NewRNG(seed*104729 + 7)
	v := &VUniverse{mode: mode, accts: map[string]*account.Account{}, nameOf: map[string]string{}, msgs: map[string]*Msg{},
		subj: map[string][]byte{}, sigs: map[string][]byte{}, init: init, ids: ids}
	v.u = &Universe{salt: uint32(rng.U64())}
	for _, n := range addrs {
		a := account.NewAccount("")
		v.accts[n] = a
		v.nameOf[a.Address.ToBase58()] = n
		v.sigs[n] = rng.Bytes(65)
	}
	v.src, v.to = 1+uint64(rng.Intn(1000)), 2000+uint64(rng.Intn(1000))
	sb := nativekit.New()
	sb.SeedValidators(v.pick(init), 1)
	ns := sb.Service(nativekit.Tx(), nil)
	router := uint64(utils.VOTE_ROUTER)
	if mode == "ripple" {
		router = utils.RIPPLE_ROUTER
	}
	vio.Must(scm.PutSideChain(ns, &scm.SideChain{ChainId: v.src, Router: router, Name: "src", BlocksToWait: 1, CCMCAddress: []byte{1}}))
	vio.Must(scm.PutSideChain(ns, &scm.SideChain{ChainId: v.to, Router: utils.ETH_ROUTER, Name: "dst", BlocksToWait: 1, CCMCAddress: []byte{2}}))
	if mode == "ripple" {
		scm.PutAssetBind(ns, v.src, &scm.AssetBind{AssetMap: map[uint64][]byte{v.to: rng.Bytes(20)}, LockProxyMap: map[uint64][]byte{v.to: rng.Bytes(20)}})
	}
	sb.Cache.Commit()
	for _, id := range ids {
		args := rng.Bytes(10 + rng.Intn(40))
		if mode == "ripple" {
			b := new(bytes.Buffer)
			putVarBytes(b, rng.Bytes(20))
			b.Write(u64le(1000000 + uint64(rng.Intn(1000))))
			args = b.Bytes()
		}
		v.msgs[id] = &Msg{TxHash: rng.Bytes(32), CrossChainID: rng.Bytes(1 + rng.Intn(32)), FromContract: rng.Bytes(20), To: v.to,
			ToContract: rng.Bytes(20), Method: "unlock", Args: args}
		v.subj[id] = rng.Bytes(1 + rng.Intn(100))
	}
	sb.Store.NewBatch()
	sb.Overlay.CommitTo()
	vio.Must(sb.Store.BatchCommit())
	v.base = sb.Store
	return v
}

func (v *VUniverse) pick(names []string) []*account.Account {
	var r []*account.Account
	for _, n := range names {
		r = append(r, v.accts[n])
	}
	return r
}

type VRun struct {
	v    *VUniverse
	sb   *nativekit.Sandbox
	view uint32
	ntx  uint32
	cons []string
}

func (v *VUniverse) newRun() *VRun {
	ov := overlaydb.NewOverlayDB(v.base)
	sb := &nativekit.Sandbox{Store: v.base, Overlay: ov, Cache: storage.NewCacheDB(ov), Height: 100, Time: 1000}
	return &VRun{v: v, sb: sb, view: 1, cons: append([]string{}, v.init...)}
}

func (r *VRun) voteKey(id string) []byte {
	v := r.v
	if v.mode == "sig" {
		h := sha256.Sum256(v.subj[id])
		return append([]byte(sigm.SIG_INFO), h[:]...)
	}
	h := sha256.Sum256(entrance(v.src, 77, nil, nil, v.msgs[id].bytes(), nil))
	return append([]byte("voteInfo"), h[:]...)
}

type VGot struct {
	Err    string `json:"err,omitempty"`
	Panic  string `json:"panic,omitempty"`
	Rel    bool   `json:"rel"`
	Detail string `json:"detail,omitempty"`
}

// apply executes one step on the real contracts; Rel = the message was released (request stored and one leaf committed)
// resp. the quorum event was emitted.
func (r *VRun) apply(st *VStep) *VGot {
	v := r.v
	g := &VGot{}
	if st.Act == "epoch" {
		r.view++
		r.sb.SeedValidators(v.pick(st.Cons), r.view)
		r.cons = append([]string{}, st.Cons...)
		return g
	}
	acct := v.accts[st.A]
	r.ntx++
	tx := v.u.tx(r.ntx, acct.Address)
	var ns *native.NativeService
	call := func(h native.Handler, in []byte) {
		g.Panic = vio.Safe(func() {
			_, n, err := r.sb.Call(h, tx, in)
			ns = n
			if err != nil {
				g.Err = err.Error()
			}
		})
		if g.Panic != "" {
			r.sb.Cache.Reset()
		}
	}
	if v.mode == "sig" {
		b := new(bytes.Buffer)
		putVarBytes(b, acct.Address[:])
		b.Write(u64le(v.src))
		putVarBytes(b, v.subj[st.Id])
		putVarBytes(b, v.sigs[st.A])
		call(sigm.AddSignature, b.Bytes())
		if g.Err == "" && g.Panic == "" {
			n := 0
			for _, ev := range ns.GetNotify() {
				if s, ok := ev.States.([]interface{}); ok && len(s) > 0 && s[0] == "AddSignatureQuorum" && ev.ContractAddress == utils.SignatureManagerContractAddress {
					n++
				}
			}
			g.Rel = n > 0
			if n > 1 {
				g.Detail = fmt.Sprintf("%d quorum events in one call", n)
			}
		}
		return g
	}
	m := v.msgs[st.Id]
	before := r.requests()
	call(ccm.ImportExTransfer, entrance(v.src, 77, nil, acct.Address[:], m.bytes(), nil))
	if g.Err == "" && g.Panic == "" {
		after := r.requests()
		leaves := len(ns.GetCrossHashes())
		g.Rel = len(after) > len(before)
		if (len(after)-len(before) != 0 && len(after)-len(before) != 1) || (g.Rel && leaves != 1) || (!g.Rel && leaves != 0) {
			g.Detail = fmt.Sprintf("requests %d -> %d, leaves %d", len(before), len(after), leaves)
		}
		if g.Rel {
			// the released request names this message
			txh := tx.Hash()
			key := hex.EncodeToString(append(append([]byte(scom.REQUEST), u64le(v.to)...), txh.ToArray()...))
			raw, ok := after[key]
			if !ok || !bytes.Contains(vio.UnHex(raw), m.CrossChainID) {
				g.Detail += " released request is not this message"
			}
		}
	}
	return g
}

func (r *VRun) requests() map[string]string {
	res := map[string]string{}
	for k, val := range r.sb.DumpContract(utils.CrossChainManagerContractAddress) {
		if bytes.HasPrefix(vio.UnHex(k), []byte(scom.REQUEST)) {
			res[k] = val
		}
	}
	return res
}

// project reads the stored vote / signature records back: voted set and Status flag per id.
func (r *VRun) project() (map[string][]string, map[string]bool, string) {
	v := r.v
	voted, status := map[string][]string{}, map[string]bool{}
	contract := utils.CrossChainManagerContractAddress
	if v.mode == "sig" {
		contract = utils.SignatureManagerContractAddress
	}
	problem := ""
	for _, id := range v.ids {
		voted[id] = []string{}
		status[id] = false
		raw, err := r.sb.Cache.Get(append(contract[:], r.voteKey(id)...))
		if err != nil || raw == nil {
			continue
		}
		val, err := cstates.GetValueFromRawStorageItem(raw)
		if err != nil || len(val) < 9 {
			problem = "undecodable record"
			continue
		}
		src := common.NewZeroCopySource(val)
		st, _ := src.NextBool()
		n, _ := src.NextUint64()
		status[id] = st
		for k := uint64(0); k < n; k++ {
			addr, eof := src.NextString()
			if eof {
				problem = "truncated record"
				break
			}
			if v.mode == "sig" {
				src.NextVarBytes()
			} else {
				src.NextBool()
			}
			name, ok := v.nameOf[addr]
			if !ok {
				name = "?" + addr
			}
			voted[id] = append(voted[id], name)
		}
		sort.Strings(voted[id])
	}
	return voted, status, problem
}

func votesEdges(mode string) {
	lines := vio.ReadLines()
	edges := make([]*vedgeJ, len(lines))
	addrSet, idSet := map[string]bool{}, map[string]bool{}
	for i, l := range lines {
		e := new(vedgeJ)
		if err := json.Unmarshal(l, e); err != nil {
			vio.Fatal("bad edge line %d: %v", i, err)
		}
		edges[i] = e
		for _, st := range append(append([]VStep{}, e.H...), e.Step) {
			if st.A != "" {
				addrSet[st.A] = true
			}
			for _, c := range st.Cons {
				addrSet[c] = true
			}
		}
		for id := range e.Post.Voted {
			idSet[id] = true
		}
		for _, c := range e.Post.Cons {
			addrSet[c] = true
		}
	}
	var addrs, ids, init []string
	for a := range addrSet {
		addrs = append(addrs, a)
	}
	for i := range idSet {
		ids = append(ids, i)
	}
	sort.Strings(addrs)
	sort.Strings(ids)
	// the initial validator set: the post-state cons of any edge with an epoch-free history
	for _, e := range edges {
		if len(e.H) == 0 && e.Step.Act == "vote" {
			init = e.Post.Cons
			break
		}
	}
	if init == nil {
		vio.Fatal("cannot determine the initial validator set")
	}
	v := newVUniverse(mode, addrs, init, ids, vio.Seed())
	var mu sync.Mutex
	distinct := map[string]bool{}
	nmis, ndiv := 0, 0
	vio.ParMap(len(edges), workers(), func(i int) {
		e := edges[i]
		r := v.newRun()
		for k := range e.H {
			st := &e.H[k]
			g := r.apply(st)
			if st.Act == "vote" && (g.Rel != st.Rel || (g.Err != "") != st.Err || g.Panic != "") {
				mu.Lock()
				ndiv++
				mu.Unlock()
				vio.Emit(map[string]interface{}{"diverged": true, "idx": i, "at": k, "step": st, "got": g})
				return
			}
		}
		st := &e.Step
		g := r.apply(st)
		voted, status, problem := r.project()
		var what []string
		if st.Act == "vote" {
			if g.Rel != st.Rel {
				what = append(what, "rel")
			}
			if (g.Err != "") != st.Err {
				what = append(what, "err")
			}
			if g.Panic != "" {
				what = append(what, "panic")
			}
			if g.Detail != "" {
				what = append(what, "release-shape")
			}
		}
		if problem != "" {
			what = append(what, "record")
		}
		for _, id := range ids {
			if !eqStr(sortedCopy(e.Post.Voted[id]), voted[id]) {
				what = append(what, "voted")
				break
			}
		}
		for _, id := range ids {
			if e.Post.Status[id] != status[id] {
				what = append(what, "status")
				break
			}
		}
		key := fmt.Sprintf("%s|%s|%s|%v|%v|%v|%v|%v", st.Act, st.Id, st.A, st.Err, st.Rel, sortedCopy(e.Post.Cons), voted, status)
		mu.Lock()
		if !(st.Act == "vote" && st.Err) {
			distinct[key] = true
		}
		if len(what) > 0 {
			nmis++
		}
		mu.Unlock()
		if len(what) > 0 {
			// the same edge as a trace of observations for the monitor
			r2 := v.newRun()
			trace := []map[string]interface{}{{"ev": "reset", "cons": v.init, "id": "", "a": "", "err": false, "rel": false}}
			for _, s := range append(append([]VStep{}, e.H...), *st) {
				s := s
				trace = append(trace, r2.event(&s))
			}
			vio.Emit(map[string]interface{}{"mismatch": true, "idx": i, "what": what, "step": st, "h": e.H, "got": g, "voted": voted, "status": status,
				"pred": e.Post, "trace": trace})
		}
	})
	vio.Emit(map[string]interface{}{"summary": true, "edges": len(edges), "distinct": len(distinct), "mismatches": nmis, "diverged": ndiv, "mode": mode})
}

func (r *VRun) event(st *VStep) map[string]interface{} {
	g := r.apply(st)
	if st.Act == "epoch" {
		return map[string]interface{}{"ev": "epoch", "cons": st.Cons, "id": "", "a": "", "err": false, "rel": false}
	}
	return map[string]interface{}{"ev": "vote", "cons": []string{}, "id": st.Id, "a": st.A, "err": g.Err != "" || g.Panic != "", "rel": g.Rel,
		"detail": g.Detail, "errmsg": g.Err, "panic": g.Panic}
}

// votesSteps executes the steps given on stdin (replay of a stored case) and emits the observed events.
func votesSteps(mode string, addrs, init, ids []string) {
	v := newVUniverse(mode, addrs, init, ids, vio.Seed())
	r := v.newRun()
	vio.Emit(map[string]interface{}{"ev": "reset", "cons": v.init, "id": "", "a": "", "err": false, "rel": false})
	for i, l := range vio.ReadLines() {
		st := new(VStep)
		if err := json.Unmarshal(l, st); err != nil {
			vio.Fatal("bad step line %d: %v", i, err)
		}
		vio.Emit(r.event(st))
	}
}

// votesRecord: random histories for validator sets of 1..10 out of a pool of 12 accounts (+ permanent outsiders).
func votesRecord(mode string, ntraces, length int) {
	pool := []string{"p1", "p2", "p3", "p4", "p5", "p6", "p7", "p8", "p9", "p10", "p11", "p12"}
	outs := []string{"x1", "x2"}
	ids := []string{"m1", "m2", "m3"}
	rng := vio.NewRNG(vio.Seed()*977 + 3)
	subset := func(n int) []string {
		p := rng.Perm(len(pool))
		var s []string
		for _, k := range p[:n] {
			s = append(s, pool[k])
		}
		sort.Strings(s)
		return s
	}
	for tr := 0; tr < ntraces; tr++ {
		n := 1 + (tr+int(vio.Seed()))%10
		init := subset(n)
		v := newVUniverse(mode, append(append([]string{}, pool...), outs...), init, ids, vio.Seed()+uint64(tr))
		if os.Getenv("VERIF_EVENTLOG") == "" {
			config.DefConfig.Common.EnableEventLog = tr%2 == 0 // both node configurations
		}
		r := v.newRun()
		vio.Emit(map[string]interface{}{"ev": "reset", "cons": init, "id": "", "a": "", "err": false, "rel": false})
		var past []string
		for k := 0; k < length; k++ {
			st := &VStep{}
			d := rng.Intn(100)
			switch {
			case d < 90:
				st.Act, st.Id = "vote", ids[rng.Intn(len(ids))]
				switch e := rng.Intn(20); {
				case e < 13:
					st.A = r.cons[rng.Intn(len(r.cons))]
				case e < 16 && len(past) > 0:
					st.A = past[rng.Intn(len(past))]
				case e < 18:
					st.A = pool[rng.Intn(len(pool))]
				default:
					st.A = outs[rng.Intn(len(outs))]
				}
				past = append(past, st.A)
			default:
				st.Act = "epoch"
				switch rng.Intn(3) {
				case 0: // fresh set of another size
					st.Cons = subset(1 + rng.Intn(10))
				case 1: // drop one or two
					st.Cons = append([]string{}, r.cons...)
					for c := 0; c < 1+rng.Intn(2) && len(st.Cons) > 1; c++ {
						j := rng.Intn(len(st.Cons))
						st.Cons = append(st.Cons[:j], st.Cons[j+1:]...)
					}
				default: // add one or two
					have := map[string]bool{}
					for _, c := range r.cons {
						have[c] = true
					}
					st.Cons = append([]string{}, r.cons...)
					for c := 0; c < 1+rng.Intn(2); c++ {
						p := pool[rng.Intn(len(pool))]
						if !have[p] {
							have[p] = true
							st.Cons = append(st.Cons, p)
						}
					}
					sort.Strings(st.Cons)
				}
			}
			vio.Emit(r.event(st))
		}
	}
}

var _ = binary.LittleEndian
