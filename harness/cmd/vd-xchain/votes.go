package main

import "verifh/kit/vio"

func votesEdges(mode string) { vio.Fatal("not built yet") }
