package main

// Synthetic PoSA side chains (bsc flavour: header_sync/bsc + cross_chain_manager/bsc; hsc flavour: header_sync/hsc +
// cross_chain_manager/hsc).  Real secp256k1 seals, real Merkle-Patricia account/storage proofs built with go-ethereum's
// trie; everything is installed through the real header_sync entrance (recipe: notes/recipes/bsc_test.go.txt).

import (
	"crypto/ecdsa"
	"encoding/json"
	"math/big"
	"time"

	ecommon "github.com/ethereum/go-ethereum/common"
	"github.com/ethereum/go-ethereum/common/hexutil"
	etypes "github.com/ethereum/go-ethereum/core/types"
	"github.com/ethereum/go-ethereum/crypto"
	"github.com/ethereum/go-ethereum/ethdb/memorydb"
	"github.com/ethereum/go-ethereum/rlp"
	"github.com/ethereum/go-ethereum/trie"
	"github.com/polynetwork/poly/native/service/header_sync/bsc"
	"github.com/polynetwork/poly/native/service/header_sync/bytom"
	heth "github.com/polynetwork/poly/native/service/header_sync/eth"
	"github.com/polynetwork/poly/native/service/header_sync/heco"
	"github.com/polynetwork/poly/native/service/header_sync/hsc"

	"verifh/kit/vio"
)

type posaChain struct {
	flavour string // "bsc" | "bytom" (go-ethereum header, chain id in the seal hash) | "hsc" | "heco" (poly eth.Header, period)
	evmID   *big.Int
	keys    []*ecdsa.PrivateKey
	addrs   []ecommon.Address
	ccmc    ecommon.Address
	t0      uint64
	genesis []byte            // JSON GenesisHeader
	headers [][]byte          // JSON headers genesis+1 ...
	lastH   ecommon.Hash      // hash of the last built header
	lastN   uint64            // number of the last built header
	proofs  map[string][]byte // message key -> JSON proof
	heights map[string]uint32 // message key -> header height carrying it
}

type proofAccount struct {
	Nounce   *big.Int
	Balance  *big.Int
	Storage  ecommon.Hash
	Codehash ecommon.Hash
}

type storageProofJ struct {
	Key   string   `json:"key"`
	Value string   `json:"value"`
	Proof []string `json:"proof"`
}
type evmProofJ struct {
	Address       string          `json:"address"`
	Balance       string          `json:"balance"`
	CodeHash      string          `json:"codeHash"`
	Nonce         string          `json:"nonce"`
	StorageHash   string          `json:"storageHash"`
	AccountProof  []string        `json:"accountProof"`
	StorageProofs []storageProofJ `json:"storageProof"`
}

func newPosaChain(flavour string, evmID int64, nval int, rng *vio.RNG) *posaChain {
	c := &posaChain{flavour: flavour, evmID: big.NewInt(evmID), proofs: map[string][]byte{}, heights: map[string]uint32{}}
	for i := 0; i < nval; i++ {
		var k *ecdsa.PrivateKey
		for {
			kk, err := crypto.ToECDSA(rng.Bytes(32))
			if err == nil {
				k = kk
				break
			}
		}
		c.keys = append(c.keys, k)
		c.addrs = append(c.addrs, crypto.PubkeyToAddress(k.PublicKey))
	}
	c.ccmc = ecommon.BytesToAddress(rng.Bytes(20))
	c.t0 = uint64(time.Now().Unix()) - 100000
	return c
}

// header builds, seals and JSON-encodes header `num`; returns its JSON and hash.
func (c *posaChain) header(num uint64, parent, root ecommon.Hash, withVals bool) ([]byte, ecommon.Hash) {
	signer := int(num % uint64(len(c.addrs)))
	ex := make([]byte, 32)
	if withVals {
		for _, a := range c.addrs {
			ex = append(ex, a.Bytes()...)
		}
	}
	ex = append(ex, make([]byte, 65)...)
	if c.flavour == "eth" {
		// Ethereum PoW header below the London height: constant difficulty (block time 15 s => adjustment factor 0);
		// the Ethash seal is decided by the verif seal hook, every other header rule stays real.
		heth.VerifSealHook = func(*heth.Header) (bool, error) { return true, nil }
		h := &heth.Header{ParentHash: parent, UncleHash: etypes.EmptyUncleHash, Root: root, Number: new(big.Int).SetUint64(num),
			GasLimit: 10000000, Time: c.t0 + 15*num, Extra: []byte{}, Difficulty: big.NewInt(1000000)}
		b, err := json.Marshal(h)
		vio.Must(err)
		return b, h.Hash()
	}
	if c.flavour == "bsc" || c.flavour == "bytom" {
		h := &etypes.Header{ParentHash: parent, UncleHash: etypes.CalcUncleHash(nil), Coinbase: c.addrs[signer], Root: root,
			Number: new(big.Int).SetUint64(num), GasLimit: 30000000, Time: c.t0 + num, Extra: ex, Difficulty: big.NewInt(2)}
		sh := bsc.SealHash(h, c.evmID)
		if c.flavour == "bytom" {
			sh = bytom.SealHash(h, c.evmID)
		}
		sig, err := crypto.Sign(sh.Bytes(), c.keys[signer])
		vio.Must(err)
		copy(h.Extra[len(h.Extra)-65:], sig)
		b, err := json.Marshal(h)
		vio.Must(err)
		return b, h.Hash()
	}
	h := &heth.Header{ParentHash: parent, UncleHash: etypes.CalcUncleHash(nil), Coinbase: c.addrs[signer], Root: root,
		Number: new(big.Int).SetUint64(num), GasLimit: 30000000, Time: c.t0 + num, Extra: ex, Difficulty: big.NewInt(2)}
	sh := hsc.SealHash(h, c.evmID)
	if c.flavour == "heco" {
		sh = heco.SealHash(h, c.evmID)
	}
	sig, err := crypto.Sign(sh.Bytes(), c.keys[signer])
	vio.Must(err)
	copy(h.Extra[len(h.Extra)-65:], sig)
	b, err := json.Marshal(h)
	vio.Must(err)
	return b, h.Hash()
}

func (c *posaChain) buildGenesis(num uint64) {
	hb, hh := c.header(num, ecommon.Hash{}, ecommon.Hash{}, true)
	var g []byte
	var err error
	switch c.flavour {
	case "eth":
		g = hb
	case "bsc":
		var h etypes.Header
		vio.Must(json.Unmarshal(hb, &h))
		g, err = json.Marshal(&bsc.GenesisHeader{Header: h, PrevValidators: []bsc.HeightAndValidators{{Height: big.NewInt(0), Validators: c.addrs}}})
	case "bytom":
		var h etypes.Header
		vio.Must(json.Unmarshal(hb, &h))
		g, err = json.Marshal(&bytom.GenesisHeader{Header: h, PrevValidators: []bytom.HeightAndValidators{{Height: big.NewInt(0), Validators: c.addrs}}})
	case "hsc":
		var h heth.Header
		vio.Must(json.Unmarshal(hb, &h))
		g, err = json.Marshal(&hsc.GenesisHeader{Header: h, PrevValidators: []hsc.HeightAndValidators{{Height: big.NewInt(0), Validators: c.addrs}}})
	default:
		var h heth.Header
		vio.Must(json.Unmarshal(hb, &h))
		g, err = json.Marshal(&heco.GenesisHeader{Header: h, PrevValidators: []heco.HeightAndValidators{{Height: big.NewInt(0), Validators: c.addrs}}})
	}
	vio.Must(err)
	c.genesis = g
	c.lastH, c.lastN = hh, num
}

func proofOf(tr *trie.Trie, key []byte) []string {
	pdb := memorydb.New()
	vio.Must(tr.Prove(key, 0, pdb))
	var out []string
	it := pdb.NewIterator(nil, nil)
	for it.Next() {
		out = append(out, hexutil.Encode(it.Value()))
	}
	return out
}

// addBlock appends one header whose state root commits the given messages (key -> serialized MakeTxParam), each in its
// own storage slot of the CCM contract, and records a proof for each.
func (c *posaChain) addBlock(keys []string, msgs map[string][]byte, rng *vio.RNG) {
	tdb := trie.NewDatabase(memorydb.New())
	st, err := trie.New(ecommon.Hash{}, tdb)
	vio.Must(err)
	slots := map[string]ecommon.Hash{}
	for _, k := range keys {
		slot := ecommon.BytesToHash(rng.Bytes(32))
		slots[k] = slot
		enc, err := rlp.EncodeToBytes(crypto.Keccak256(msgs[k]))
		vio.Must(err)
		st.Update(crypto.Keccak256(slot.Bytes()), enc)
	}
	// a few unrelated slots so that proofs have branch nodes
	for i := 0; i < 3; i++ {
		enc, _ := rlp.EncodeToBytes(rng.Bytes(32))
		st.Update(crypto.Keccak256(rng.Bytes(32)), enc)
	}
	sroot, err := st.Commit(nil)
	vio.Must(err)
	acc := &proofAccount{Nounce: big.NewInt(int64(1 + rng.Intn(100))), Balance: big.NewInt(int64(rng.Intn(1000))), Storage: sroot,
		Codehash: ecommon.BytesToHash(rng.Bytes(32))}
	accEnc, err := rlp.EncodeToBytes(acc)
	vio.Must(err)
	at, err := trie.New(ecommon.Hash{}, tdb)
	vio.Must(err)
	at.Update(crypto.Keccak256(c.ccmc.Bytes()), accEnc)
	for i := 0; i < 3; i++ {
		at.Update(crypto.Keccak256(rng.Bytes(20)), accEnc)
	}
	aroot, err := at.Commit(nil)
	vio.Must(err)
	num := c.lastN + 1
	hb, hh := c.header(num, c.lastH, aroot, false)
	c.headers = append(c.headers, hb)
	c.lastH, c.lastN = hh, num
	accProof := proofOf(at, crypto.Keccak256(c.ccmc.Bytes()))
	for _, k := range keys {
		slot := slots[k]
		p := &evmProofJ{Address: c.ccmc.Hex(), Balance: hexutil.EncodeBig(acc.Balance), CodeHash: acc.Codehash.Hex(),
			Nonce: hexutil.EncodeBig(acc.Nounce), StorageHash: sroot.Hex(), AccountProof: accProof,
			StorageProofs: []storageProofJ{{Key: slot.Hex(), Proof: proofOf(st, crypto.Keccak256(slot.Bytes()))}}}
		b, err := json.Marshal(p)
		vio.Must(err)
		c.proofs[k] = b
		c.heights[k] = uint32(num)
	}
}

// addEmpty appends a header without messages (confirmation depth).
func (c *posaChain) addEmpty() {
	num := c.lastN + 1
	hb, hh := c.header(num, c.lastH, ecommon.Hash{}, false)
	c.headers = append(c.headers, hb)
	c.lastH, c.lastN = hh, num
}

func (c *posaChain) extraInfo() []byte {
	var b []byte
	var err error
	if c.flavour == "eth" {
		return nil
	}
	if c.flavour == "bsc" || c.flavour == "bytom" {
		b, err = json.Marshal(&bsc.ExtraInfo{ChainID: c.evmID})
	} else {
		b, err = json.Marshal(&hsc.ExtraInfo{ChainID: c.evmID, Period: 1})
	}
	vio.Must(err)
	return b
}
