package main

import (
	"encoding/hex"
	"encoding/json"
	"fmt"
	"reflect"
	"runtime"
	"sort"
	"sync"

	"github.com/polynetwork/poly/common/config"
	scom "github.com/polynetwork/poly/native/service/cross_chain_manager/common"

	"verifh/kit/vio"
)

type postJ struct {
	Reg  []string   `json:"reg"`
	Blk  []string   `json:"blk"`
	Done [][]string `json:"done"`
	H    int        `json:"h"`
}

type edgeJ struct {
	H    []Step `json:"h"`
	Step Step   `json:"step"`
	Post postJ  `json:"post"`
}

func sortedCopy(l []string) []string {
	c := append([]string{}, l...)
	sort.Strings(c)
	return c
}

func doneKey(d [][]string) []string {
	var r []string
	for _, p := range d {
		r = append(r, p[0]+"|"+p[1])
	}
	sort.Strings(r)
	return r
}
func doneKey2(d [][2]string) []string {
	var r []string
	for _, p := range d {
		r = append(r, p[0]+"|"+p[1])
	}
	sort.Strings(r)
	return r
}

func eqStr(a, b []string) bool {
	if len(a) != len(b) {
		return false
	}
	for i := range a {
		if a[i] != b[i] {
			return false
		}
	}
	return true
}

// expected requests / leaves after history h followed by step (derived from the model's acc flags).
func (u *Universe) expected(h []Step, step *Step) (reqs []ReqRec, leaves []string) {
	reqs, leaves = []ReqRec{}, []string{}
	all := append(append([]Step{}, h...), *step)
	for k := range all {
		st := &all[k]
		switch {
		case st.Act == "newblock":
			leaves = []string{}
		case st.Act == "import" && st.Acc:
			r, l := u.expectReq(st)
			reqs = append(reqs, r)
			leaves = append(leaves, l)
		case st.Act == "relay" && st.Ok:
			if st.Pre {
				leaves = append(leaves, leafHash(ownLeafData(st.Tx)))
			}
			for _, p := range []*Part{st.A, st.B} {
				if p.Acc {
					r, l := u.expectReq(p.step(st.Tx))
					reqs = append(reqs, r)
					leaves = append(leaves, l)
				}
			}
		}
	}
	sort.Slice(reqs, func(a, b int) bool { return reqs[a].Key < reqs[b].Key })
	return
}

// compare returns the list of model variables whose observed value differs from the prediction.
func (u *Universe) compare(e *edgeJ, g *Got, p *Proj) []string {
	var what []string
	st := &e.Step
	failed := g.Err != "" || g.Panic != ""
	if (st.Act == "import" && !st.Acc) || (st.Act == "relay" && !st.Ok) {
		// predicted: not accepted, nothing changes.  (An answer "success" that changes nothing is tolerated: the vote
		// router ignores late votes that way.)
		if g.Changed || len(g.Leaves) > 0 {
			what = append(what, "sidefx")
		}
	} else if failed {
		what = append(what, "refused")
	}
	if g.Panic != "" {
		what = append(what, "panic")
	}
	if !eqStr(sortedCopy(e.Post.Reg), p.Reg) {
		what = append(what, "reg")
	}
	if !eqStr(sortedCopy(e.Post.Blk), p.Blk) {
		what = append(what, "blk")
	}
	if !eqStr(doneKey(e.Post.Done), doneKey2(p.Done)) {
		what = append(what, "done")
	}
	if e.Post.H != p.H && len(u.cfg.Gated) > 0 {
		what = append(what, "h")
	}
	er, el := u.expected(e.H, st)
	if !reflect.DeepEqual(er, p.Req) {
		what = append(what, "req")
	}
	if !eqStr(sortedCopy(el), sortedCopy(p.Lv)) { // a bag: the order of leaves inside one transaction is free
		what = append(what, "leaves")
	}
	return what
}

func xcEdges(cfg Config) {
	u := newUniverse(cfg, vio.Seed())
	lines := vio.ReadLines()
	edges := make([]*edgeJ, len(lines))
	for i, l := range lines {
		e := new(edgeJ)
		if err := json.Unmarshal(l, e); err != nil {
			vio.Fatal("bad edge line %d: %v", i, err)
		}
		edges[i] = e
	}
	var mu sync.Mutex
	distinct := map[string]bool{}
	nmis, ndiv := 0, 0
	vio.ParMap(len(edges), workers(), func(i int) {
		e := edges[i]
		r := u.newRun()
		// re-create the source state
		for k := range e.H {
			st := &e.H[k]
			g := r.apply(st)
			accepted := g.Err == "" && g.Panic == "" && (st.Act != "import" || g.Changed)
			if st.Act == "relay" {
				if accepted != st.Ok {
					mu.Lock()
					ndiv++
					mu.Unlock()
					vio.Emit(map[string]interface{}{"diverged": true, "idx": i, "at": k, "step": st, "got": g})
					return
				}
			} else if (st.Act == "import" && accepted != st.Acc) || (st.Act != "import" && !accepted) {
				mu.Lock()
				ndiv++
				mu.Unlock()
				vio.Emit(map[string]interface{}{"diverged": true, "idx": i, "at": k, "step": st, "got": g})
				return
			}
		}
		g := r.apply(&e.Step)
		p := r.project()
		what := u.compare(e, g, p)
		st := &e.Step
		key := fmt.Sprintf("%s|%s|%s|%s|%d|%v|%v|%s|%v|%v|%v", st.Act, st.C, st.S, st.T, st.V, st.Ok, st.Acc, st.Why, p.Reg, p.Blk, doneKey2(p.Done))
		if st.Act == "relay" {
			key += fmt.Sprintf("|%v|%v|%+v|%+v", st.Pre, st.Catch, *st.A, *st.B)
		}
		mu.Lock()
		if st.Act != "import" || st.Why != "not-authentic" {
			distinct[key] = true
		}
		if len(what) > 0 {
			nmis++
		}
		mu.Unlock()
		if len(what) > 0 {
			er, el := u.expected(e.H, st)
			// the same edge once more, recorded as a trace for validation against the property monitors
			rc := newRecorder(u.newRun())
			trace := []*eventJ{resetEvent(rc.r)}
			for k := range e.H {
				trace = append(trace, rc.step(&e.H[k]))
			}
			trace = append(trace, rc.step(st))
			vio.Emit(map[string]interface{}{"mismatch": true, "trace": trace, "idx": i, "what": what, "step": st, "h": e.H, "got": g, "proj": p,
				"pred": e.Post, "predReq": er, "predLv": el, "kind": u.kindOf(firstNonEmpty(st.S, st.C))})
		}
	})
	vio.Emit(map[string]interface{}{"summary": true, "edges": len(edges), "distinct": len(distinct), "mismatches": nmis, "diverged": ndiv,
		"chains": u.describe(), "eventlog": cfg.eventLog()})
}

func (u *Universe) kindOf(name string) string {
	if c, ok := u.chains[name]; ok {
		return string(c.kind)
	}
	return ""
}

func firstNonEmpty(a ...string) string {
	for _, s := range a {
		if s != "" {
			return s
		}
	}
	return ""
}

func (u *Universe) describe() map[string]interface{} {
	m := map[string]interface{}{}
	for n, c := range u.chains {
		m[n] = map[string]interface{}{"id": c.ID, "router": c.Router, "kind": string(c.kind)}
	}
	ids := map[string]string{}
	for n, b := range u.ids {
		ids[n] = hex.EncodeToString(b)
	}
	m["ids"] = ids
	return m
}

// xcProbe: smoke test of the adapters (one valid import per source chain, replay, invalid).
func xcProbe(cfg Config) {
	u := newUniverse(cfg, vio.Seed())
	r := u.newRun()
	r.setHeight(1)
	tx := 0
	for _, s := range cfg.Src {
		for _, ok := range []bool{false, true, true} {
			tx++
			st := &Step{Act: "import", S: s, I: cfg.Ids[0], T: cfg.Tgt[0], V: cfg.Vars[0], Ok: ok, Tx: tx}
			g := r.apply(st)
			vio.Emit(map[string]interface{}{"step": st, "got": g, "proj": r.project()})
		}
	}
}

// ---------------------------------------------------------------- P-VALIDATE: random histories recorded from the real code

type eventJ struct {
	Ev    string      `json:"ev"`
	C     string      `json:"c"`
	S     string      `json:"s"`
	I     string      `json:"i"`
	T     string      `json:"t"`
	V     int         `json:"v"`
	Ok    bool        `json:"ok"`
	Tx    int         `json:"tx"`
	Acc   bool        `json:"acc"`
	Fail  bool        `json:"fail"`
	Reg   []string    `json:"reg"`
	Blk   []string    `json:"blk"`
	Done  [][2]string `json:"done"`
	Req   []MVTerm    `json:"req"`
	Lv    []MVTerm    `json:"lv"`
	H     int         `json:"h"`
	Kind  string      `json:"kind"`
	Err   string      `json:"err,omitempty"`
	Panic string      `json:"panic,omitempty"`
	Pre   bool        `json:"pre"`
	Catch bool        `json:"catch"`
	A     *Part       `json:"a,omitempty"`
	B     *Part       `json:"b,omitempty"`
}

// recorder turns executed steps into trace events (projection decoded back into the model's terms).
type recorder struct {
	r        *Run
	txByHash map[string]int
	leafTerm map[string]MVTerm
	varOf    map[string]int // btc: the variant (serialisation) whose submission created the request (not recoverable from the content)
}

func newRecorder(r *Run) *recorder {
	return &recorder{r: r, txByHash: map[string]int{}, leafTerm: map[string]MVTerm{}, varOf: map[string]int{}}
}

var badTerm = MVTerm{Tx: -1, Src: "?", Id: "?", To: "?", Var: -1}

// resetEvent starts a new recorded run: the projection of the fresh snapshot (all chains registered, nothing else).
func resetEvent(r *Run) *eventJ {
	p := r.project()
	return &eventJ{Ev: "reset", Reg: p.Reg, Blk: p.Blk, Done: p.Done, Req: []MVTerm{}, Lv: []MVTerm{}, H: p.H}
}

func (rc *recorder) step(st *Step) *eventJ {
	r, u := rc.r, rc.r.u
	if st.Act == "import" || st.Act == "relay" {
		rc.txByHash[hex.EncodeToString(u.txHash(uint32(st.Tx)))] = st.Tx
	}
	if st.Act == "relay" {
		rc.leafTerm[leafHash(ownLeafData(st.Tx))] = MVTerm{Tx: st.Tx, Src: "relay", Id: "", To: "", Var: 0}
	}
	prev := r.project()
	g := r.apply(st)
	p := r.project()
	ev := &eventJ{Ev: st.Act, C: st.C, S: st.S, I: st.I, T: st.T, V: st.V, Ok: st.Ok, Tx: st.Tx, Kind: g.Kind,
		Reg: p.Reg, Blk: p.Blk, Done: p.Done, H: p.H, Req: []MVTerm{}, Lv: []MVTerm{}, Err: g.Err, Panic: g.Panic}
	ev.Fail = g.Err != "" || g.Panic != ""
	ev.Acc = !ev.Fail && (g.Changed || len(g.Leaves) > 0)
	// requests: decode every stored record into the model's term; the storage key must agree with the content
	old := map[string]bool{}
	for _, q := range prev.Req {
		old[q.Key+"="+q.Val] = true
	}
	for _, q := range p.Req {
		t := u.decodeMV(vio.UnHex(q.Val), rc.txByHash)
		kb := vio.UnHex(q.Key)
		if len(kb) != 7+8+32 || t.Tx < 0 || u.chains[t.To] == nil || hex.EncodeToString(kb[7:15]) != hex.EncodeToString(u64le(u.chains[t.To].ID)) ||
			hex.EncodeToString(kb[15:]) != hex.EncodeToString(u.txHash(uint32(t.Tx))) {
			t = badTerm
		}
		if c := u.chains[t.Src]; c != nil && c.kind == 'c' {
			if !old[q.Key+"="+q.Val] && st.Act == "import" {
				rc.varOf[q.Key] = st.V
			}
			if v, ok := rc.varOf[q.Key]; ok {
				t.Var = v
			}
		}
		ev.Req = append(ev.Req, t)
		if !old[q.Key+"="+q.Val] {
			rc.leafTerm[leafHash(vio.UnHex(q.Val))] = t
		}
	}
	if st.Act == "relay" {
		// observed verdict per part: its request (destination, this tx) exists now and did not before
		ev.Pre, ev.Catch = st.Pre, st.Catch
		txh := u.txHash(uint32(st.Tx))
		for k, pt := range []*Part{st.A, st.B} {
			key := hex.EncodeToString(append(append([]byte(scom.REQUEST), u64le(u.chains[pt.T].ID)...), txh...))
			q := &Part{S: pt.S, I: pt.I, T: pt.T, V: pt.V, Ok: pt.Ok, Why: "logged"}
			for _, rq := range p.Req {
				if rq.Key == key && !ev.Fail {
					q.Acc = true
				}
			}
			if k == 0 {
				ev.A = q
			} else {
				ev.B = q
			}
		}
		ev.Acc = !ev.Fail
		ev.Ok = !ev.Fail
	}
	for _, l := range p.Lv {
		t, ok := rc.leafTerm[l]
		if !ok {
			t = badTerm
		}
		ev.Lv = append(ev.Lv, t)
	}
	return ev
}

func xcRecord(cfg Config, ntraces, length int) {
	u := newUniverse(cfg, vio.Seed())
	rng := vio.NewRNG(vio.Seed()*31 + 5)
	chains := u.names
	for tr := 0; tr < ntraces; tr++ {
		// node configuration: event log on for even traces, off for odd ones (unless the config pins it)
		if cfg.EventLog == nil {
			config.DefConfig.Common.EnableEventLog = tr%2 == 0
		}
		r := u.newRun()
		rc := newRecorder(r)
		vio.Emit(resetEvent(r))
		tx := 0
		var lastSrc, lastID string
		for k := 0; k < length; k++ {
			st := &Step{}
			d := rng.Intn(100)
			switch {
			case d < 66:
				st.Act = "import"
				st.S, st.I = cfg.Src[rng.Intn(len(cfg.Src))], cfg.Ids[rng.Intn(len(cfg.Ids))]
				if lastSrc != "" && rng.Intn(4) == 0 { // replay pressure
					st.S, st.I = lastSrc, lastID
				}
				st.T, st.V = cfg.Tgt[rng.Intn(len(cfg.Tgt))], cfg.Vars[rng.Intn(len(cfg.Vars))]
				st.Ok = rng.Intn(6) != 0
				tx++
				st.Tx = tx
				lastSrc, lastID = st.S, st.I
			case d < 74 && len(cfg.Tgt) >= 2:
				// relay transaction: two imports in one transaction; the second one goes to an open destination
				pj := r.project()
				open := []string{}
				for _, t := range cfg.Tgt {
					if u.chains[t].kind != 'r' && contains(pj.Reg, t) && !contains(pj.Blk, t) {
						open = append(open, t)
					}
				}
				ta := cfg.Tgt[rng.Intn(len(cfg.Tgt))]
				var tb string
				for _, t := range open {
					if t != ta && (tb == "" || rng.Bool()) {
						tb = t
					}
				}
				if tb == "" {
					st.Act = "newblock"
					break
				}
				tx++
				st.Act, st.Tx, st.Pre, st.Catch = "relay", tx, rng.Bool(), rng.Bool()
				st.A = &Part{S: cfg.Src[rng.Intn(len(cfg.Src))], I: cfg.Ids[rng.Intn(len(cfg.Ids))], T: ta, V: cfg.Vars[rng.Intn(len(cfg.Vars))], Ok: true}
				st.B = &Part{S: cfg.Src[rng.Intn(len(cfg.Src))], I: cfg.Ids[rng.Intn(len(cfg.Ids))], T: tb, V: cfg.Vars[rng.Intn(len(cfg.Vars))], Ok: rng.Intn(4) != 0}
				if rng.Intn(3) == 0 { // the same message twice in one transaction
					st.B.S, st.B.I = st.A.S, st.A.I
				}
			case d < 80:
				st.Act, st.C = "black", chains[rng.Intn(len(chains))]
			case d < 88:
				st.Act, st.C = "white", chains[rng.Intn(len(chains))]
				if bl := r.project().Blk; len(bl) > 0 && rng.Bool() {
					st.C = bl[rng.Intn(len(bl))]
				}
			case d < 96:
				st.C = chains[rng.Intn(len(chains))]
				st.Act = "quit"
				reg := map[string]bool{}
				for _, n := range r.project().Reg {
					reg[n] = true
				}
				for _, n := range chains { // prefer re-registering a chain that is out
					if !reg[n] && rng.Intn(3) != 0 {
						st.C = n
					}
				}
				if !reg[st.C] {
					st.Act = "register"
				}
			default:
				st.Act = "newblock"
			}
			vio.Emit(rc.step(st))
		}
	}
}

// xcSteps executes the given steps (stdin) on a fresh run and emits the recorded events.
func xcSteps(cfg Config) {
	u := newUniverse(cfg, vio.Seed())
	rc := newRecorder(u.newRun())
	vio.Emit(resetEvent(rc.r))
	for i, l := range vio.ReadLines() {
		st := new(Step)
		if err := json.Unmarshal(l, st); err != nil {
			vio.Fatal("bad step line %d: %v", i, err)
		}
		vio.Emit(rc.step(st))
	}
}

func workers() int {
	n := runtime.NumCPU()
	if n > 16 {
		n = 16
	}
	return n
}

func contains(l []string, x string) bool {
	for _, y := range l {
		if y == x {
			return true
		}
	}
	return false
}
