// vd-xchain: drivers for the cross-chain entrance (C20 C21 C22, spec/CrossChain.tla) and for vote / signature quorums
// (C25, spec/Votes.tla).
package main

import (
	"encoding/json"
	"os"
	"strconv"

	_ "github.com/polynetwork/poly/native/service"

	"verifh/kit/vio"
)

func atoi(s string) int {
	n, err := strconv.Atoi(s)
	if err != nil {
		vio.Fatal("bad number %q", s)
	}
	return n
}

func loadCfg(s string) Config {
	var c Config
	if err := json.Unmarshal([]byte(s), &c); err != nil {
		vio.Fatal("bad config %q: %v", s, err)
	}
	return c
}

func main() {
	defer vio.Flush()
	if len(os.Args) < 2 {
		vio.Fatal("usage: vd-xchain <cmd> ...")
	}
	switch os.Args[1] {
	case "xc-edges": // xc-edges <config json>            stdin: EDGE objects
		xcEdges(loadCfg(os.Args[2]))
	case "xc-record": // xc-record <config json> <traces> <len>
		xcRecord(loadCfg(os.Args[2]), atoi(os.Args[3]), atoi(os.Args[4]))
	case "xc-steps": // xc-steps <config json>            stdin: steps; emits recorded events
		xcSteps(loadCfg(os.Args[2]))
	case "xc-probe":
		xcProbe(loadCfg(os.Args[2]))
	case "votes-edges": // votes-edges <mode>   stdin: EDGE objects of spec/Votes.tla
		votesEdges(os.Args[2])
	case "votes-record": // votes-record <mode> <traces> <len>
		votesRecord(os.Args[2], atoi(os.Args[3]), atoi(os.Args[4]))
	case "votes-steps": // votes-steps <mode> <json {addrs, init, ids}>   stdin: steps
		var c struct{ Addrs, Init, Ids []string }
		if err := json.Unmarshal([]byte(os.Args[3]), &c); err != nil {
			vio.Fatal("bad config: %v", err)
		}
		votesSteps(os.Args[2], c.Addrs, c.Init, c.Ids)
	default:
		vio.Fatal("unknown command %s", os.Args[1])
	}
}
