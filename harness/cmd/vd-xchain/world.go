package main

// The universe of one conformance run of spec/CrossChain.tla: one relay-chain validator (operator = its address), an owner
// account, an outsider, the concretization of the model's chains / ids / message variants, valid and invalid import
// inputs for every (src, id, to, var), and a storage snapshot taken after all chains are registered through the real
// side_chain_manager flow and the PoSA light clients are synced through the real header_sync entrance.

import (
	"bytes"
	"crypto/sha256"
	"encoding/binary"
	"encoding/hex"
	"fmt"
	"sort"
	"strings"

	"github.com/polynetwork/poly/account"
	"github.com/polynetwork/poly/common"
	"github.com/polynetwork/poly/common/config"
	"github.com/polynetwork/poly/core/payload"
	cstates "github.com/polynetwork/poly/core/states"
	"github.com/polynetwork/poly/core/store/leveldbstore"
	"github.com/polynetwork/poly/core/store/overlaydb"
	"github.com/polynetwork/poly/core/types"
	"github.com/polynetwork/poly/native"
	ccm "github.com/polynetwork/poly/native/service/cross_chain_manager"
	scom "github.com/polynetwork/poly/native/service/cross_chain_manager/common"
	scm "github.com/polynetwork/poly/native/service/governance/side_chain_manager"
	hs "github.com/polynetwork/poly/native/service/header_sync"
	hscom "github.com/polynetwork/poly/native/service/header_sync/common"
	"github.com/polynetwork/poly/native/service/utils"
	"github.com/polynetwork/poly/native/storage"

	"verifh/kit/nativekit"
	"verifh/kit/vio"
)

const startBlock = 18823000 // utils.CheckRouterStartBlock for harmony / hsc / bytom on main net

// ---------------------------------------------------------------- independent encoders (not poly's Serialization)

func putVarUint(b *bytes.Buffer, v uint64) {
	switch {
	case v < 0xFD:
		b.WriteByte(byte(v))
	case v <= 0xFFFF:
		b.WriteByte(0xFD)
		binary.Write(b, binary.LittleEndian, uint16(v))
	case v <= 0xFFFFFFFF:
		b.WriteByte(0xFE)
		binary.Write(b, binary.LittleEndian, uint32(v))
	default:
		b.WriteByte(0xFF)
		binary.Write(b, binary.LittleEndian, v)
	}
}
func putVarBytes(b *bytes.Buffer, v []byte) { putVarUint(b, uint64(len(v))); b.Write(v) }
func u64le(v uint64) []byte {
	var p [8]byte
	binary.LittleEndian.PutUint64(p[:], v)
	return p[:]
}

type Msg struct {
	TxHash, CrossChainID, FromContract []byte
	To                                 uint64
	ToContract                         []byte
	Method                             string
	Args                               []byte
}

// bytes = MakeTxParam wire form.
func (m *Msg) bytes() []byte {
	b := new(bytes.Buffer)
	putVarBytes(b, m.TxHash)
	putVarBytes(b, m.CrossChainID)
	putVarBytes(b, m.FromContract)
	b.Write(u64le(m.To))
	putVarBytes(b, m.ToContract)
	putVarBytes(b, []byte(m.Method))
	putVarBytes(b, m.Args)
	return b.Bytes()
}

// encMV = ToMerkleValue wire form: relay tx hash, source chain, verified message.
func encMV(txHash []byte, from uint64, msg []byte) []byte {
	b := new(bytes.Buffer)
	putVarBytes(b, txHash)
	b.Write(u64le(from))
	b.Write(msg)
	return b.Bytes()
}

func leafHash(data []byte) string {
	h := sha256.Sum256(append([]byte{0}, data...))
	return hex.EncodeToString(h[:])
}

func entrance(src uint64, height uint32, proof, relayer, extra, hdr []byte) []byte {
	b := new(bytes.Buffer)
	b.Write(u64le(src))
	binary.Write(b, binary.LittleEndian, height)
	putVarBytes(b, proof)
	putVarBytes(b, relayer)
	putVarBytes(b, extra)
	putVarBytes(b, hdr)
	return b.Bytes()
}

// ---------------------------------------------------------------- universe

type Chain struct {
	Name   string
	ID     uint64
	Router uint64
	kind   byte
	posa   *posaChain
	// ripple source: per destination the lock proxy and asset the handler fills in
	proxy, asset map[uint64][]byte
}

type importIn struct {
	input  []byte
	signer common.Address
	kind   string
}

type Config struct {
	Src   []string `json:"src"`
	Tgt   []string `json:"tgt"`
	Ids   []string `json:"ids"`
	Vars  []int    `json:"vars"`
	Gated []string `json:"gated"`
	// Kinds overrides the adapter of a chain name (default: first letter): v vote, r ripple, b bsc, y bytom, g hsc, h heco,
	// e eth (source with a synced light client), t eth-router destination without light client.
	Kinds map[string]string `json:"kinds,omitempty"`
	// EventLog is the node configuration flag config.DefConfig.Common.EnableEventLog for this process (default true).
	// The properties must hold under both values: notifications are not part of them, records and leaves are.
	EventLog *bool `json:"eventlog,omitempty"`
}

func (cfg *Config) eventLog() bool { return cfg.EventLog == nil || *cfg.EventLog }

type Universe struct {
	cfg       Config
	rng       *vio.RNG
	val       *account.Account
	owner     *account.Account
	outsider  *account.Account
	chains    map[string]*Chain
	chainByID map[uint64]string
	names     []string
	ids       map[string][]byte
	idByHex   map[string]string
	msgs      map[string]*Msg   // "s|i|t|v"
	released  map[string]*Msg   // ripple: the message as the handler releases it
	msgByHex  map[string]string // hex(released msg bytes) -> "s|i|t|v"
	imports   map[string]*importIn
	base      *leveldbstore.LevelDBStore // state after setup, shared read-only by all runs
	salt      uint32
}

// outMsg is the message an accepted import of k releases (the verified message; ripple deposits are completed by the handler).
func (u *Universe) outMsg(k string) *Msg {
	if m, ok := u.released[k]; ok {
		return m
	}
	return u.msgs[k]
}

func mkey(s, i, t string, v int) string { return fmt.Sprintf("%s|%s|%s|%d", s, i, t, v) }

func (cfg *Config) kind(name string) byte {
	if k, ok := cfg.Kinds[name]; ok && k != "" {
		return k[0]
	}
	return name[0]
}

func routerOf(name string, kind byte) uint64 {
	switch kind {
	case 'r':
		return utils.RIPPLE_ROUTER
	case 'e':
		return utils.ETH_ROUTER
	case 'c':
		return utils.BTC_ROUTER
	case 'v':
		return utils.VOTE_ROUTER
	case 'b':
		return utils.BSC_ROUTER
	case 'g':
		return utils.HSC_ROUTER
	case 'y':
		return utils.BYTOM_ROUTER
	case 'h':
		return utils.HECO_ROUTER
	case 't':
		return utils.ETH_ROUTER
	}
	vio.Fatal("no adapter for chain name %q", name)
	return 0
}

// relay transaction n of this universe (hash = function of n); signers are the witnesses.
func (u *Universe) tx(n uint32, signers ...common.Address) *types.Transaction {
	code := make([]byte, 8)
	binary.LittleEndian.PutUint32(code, n)
	binary.LittleEndian.PutUint32(code[4:], u.salt)
	tx := &types.Transaction{Version: types.CURR_TX_VERSION, TxType: types.Invoke, Nonce: n, Payload: &payload.InvokeCode{Code: code},
		ChainID: config.GetChainIdByNetId(config.DefConfig.P2PNode.NetworkId)}
	sink := common.NewZeroCopySink(nil)
	vio.Must(tx.Serialization(sink))
	t2, err := types.TransactionFromRawBytes(sink.Bytes())
	vio.Must(err)
	t2.SignedAddr = signers
	return t2
}

func (u *Universe) txHash(n uint32) []byte {
	h := u.tx(n).Hash()
	return h.ToArray()
}

func newUniverse(cfg Config, seed uint64) *Universe {
	config.DefConfig.P2PNode.NetworkId = config.NETWORK_ID_MAIN_NET
	config.DefConfig.Common.EnableEventLog = cfg.eventLog()
	u := &Universe{cfg: cfg, rng: vio.NewRNG(seed*7919 + 13), chains: map[string]*Chain{}, chainByID: map[uint64]string{},
		ids: map[string][]byte{}, idByHex: map[string]string{}, msgs: map[string]*Msg{}, msgByHex: map[string]string{},
		imports: map[string]*importIn{}, released: map[string]*Msg{}}
	rng := u.rng
	u.salt = uint32(rng.U64())
	u.val, u.owner, u.outsider = account.NewAccount(""), account.NewAccount(""), account.NewAccount("")
	seen := map[string]bool{}
	for _, n := range append(append([]string{}, cfg.Src...), cfg.Tgt...) {
		if !seen[n] {
			seen[n] = true
			u.names = append(u.names, n)
		}
	}
	sort.Strings(u.names)
	hasBtc := false
	for _, n := range cfg.Src {
		if cfg.kind(n) == 'c' {
			hasBtc = true
			if len(cfg.Ids) != 1 || len(cfg.Tgt) != 1 {
				vio.Fatal("the btc fixture has one deposit to one destination: use one id and one target")
			}
		}
	}
	// chain ids: small / 16-bit / 32-bit / 64-bit classes, distinct
	for k, n := range u.names {
		var id uint64
		for {
			switch (k + int(seed)) % 4 {
			case 0:
				id = 1 + uint64(rng.Intn(250))
			case 1:
				id = 0x100 + uint64(rng.Intn(0xFE00))
			case 2:
				id = 0x10000 + uint64(rng.Intn(0x7FFF0000))
			default:
				id = 0x100000000 + rng.U64()>>8
			}
			if _, dup := u.chainByID[id]; !dup {
				break
			}
		}
		if hasBtc && cfg.kind(n) == 't' {
			id = btcToChain // the fixture's OP_RETURN names destination chain 2
		} else if hasBtc && id == btcToChain {
			id = 77
		}
		c := &Chain{Name: n, ID: id, Router: routerOf(n, cfg.kind(n)), kind: cfg.kind(n)}
		u.chains[n] = c
		u.chainByID[id] = n
	}
	// cross-chain ids, boundary classes on every seed: the k-th id of the model is
	//   0 the EMPTY id, 1 a one-byte id, 2 an id that extends id 1 (prefix-related done keys), 3 a 32-byte id,
	//   4 a 300-byte id (3-byte var-int length), 5.. random 2..31 bytes;
	// with two ids the second one rotates over the classes 1, 3, 4 with the seed.
	var one []byte
	for k, i := range cfg.Ids {
		class := k
		if len(cfg.Ids) == 2 && k == 1 {
			class = []int{1, 3, 4}[int(seed)%3]
		}
		var b []byte
		for {
			switch class {
			case 0:
				b = []byte{}
			case 1:
				b = rng.Bytes(1)
				one = b
			case 2:
				if one == nil {
					one = rng.Bytes(1)
				}
				b = append(append([]byte{}, one...), rng.Bytes(1+rng.Intn(3))...)
			case 3:
				b = rng.Bytes(32)
			case 4:
				b = rng.Bytes(300)
			default:
				b = rng.Bytes(2 + rng.Intn(30))
			}
			if _, dup := u.idByHex[hex.EncodeToString(b)]; !dup {
				break
			}
		}
		u.ids[i] = b
		u.idByHex[hex.EncodeToString(b)] = i
	}
	if hasBtc {
		delete(u.idByHex, hex.EncodeToString(u.ids[cfg.Ids[0]]))
		u.ids[cfg.Ids[0]] = btcTxid()
		u.idByHex[hex.EncodeToString(btcTxid())] = cfg.Ids[0]
	}
	// messages
	for _, s := range cfg.Src {
		for _, i := range cfg.Ids {
			for _, t := range cfg.Tgt {
				for _, v := range cfg.Vars {
					alen := []int{0, 3, 70, 253, 300, 70000}[rng.Intn(5)]
					m := &Msg{TxHash: rng.Bytes(32), CrossChainID: u.ids[i], FromContract: rng.Bytes(20), To: u.chains[t].ID,
						ToContract: rng.Bytes(20), Method: []string{"unlock", "", "m"}[rng.Intn(3)], Args: rng.Bytes(alen)}
					k := mkey(s, i, t, v)
					if u.chains[s].kind == 'c' {
						m = btcMessage() // every variant is the same message in another serialisation
					}
					u.msgs[k] = m
					if sc := u.chains[s]; sc.kind == 'r' {
						// ripple deposits: Args = dst address, amount; the handler fills in the lock proxy and the asset
						if sc.proxy == nil {
							sc.proxy, sc.asset = map[uint64][]byte{}, map[uint64][]byte{}
						}
						if sc.proxy[m.To] == nil {
							sc.proxy[m.To], sc.asset[m.To] = rng.Bytes(20), rng.Bytes(20)
						}
						dst, amount := rng.Bytes(20), 1000000+uint64(rng.Intn(1000000))
						b := new(bytes.Buffer)
						putVarBytes(b, dst)
						b.Write(u64le(amount))
						m.Args = b.Bytes()
						out := *m
						out.ToContract = sc.proxy[m.To]
						b = new(bytes.Buffer)
						putVarBytes(b, sc.asset[m.To])
						putVarBytes(b, dst)
						var amt [32]byte
						copy(amt[:], u64le(amount))
						b.Write(amt[:])
						out.Args = b.Bytes()
						u.released[k] = &out
					}
					if _, dup := u.msgByHex[hex.EncodeToString(u.outMsg(k).bytes())]; !dup {
						u.msgByHex[hex.EncodeToString(u.outMsg(k).bytes())] = k
					}
				}
			}
		}
	}
	// PoSA chains: one block per variant, then one empty block
	for _, s := range cfg.Src {
		c := u.chains[s]
		fl := map[byte]string{'b': "bsc", 'g': "hsc", 'y': "bytom", 'h': "heco", 'e': "eth"}[c.kind]
		if fl == "" {
			continue
		}
		c.posa = newPosaChain(fl, int64(50+rng.Intn(200)), 3, rng)
		c.posa.buildGenesis(uint64(200 + 3*rng.Intn(50)))
		for _, v := range cfg.Vars {
			var keys []string
			bm := map[string][]byte{}
			for _, i := range cfg.Ids {
				for _, t := range cfg.Tgt {
					k := mkey(s, i, t, v)
					keys = append(keys, k)
					bm[k] = u.msgs[k].bytes()
				}
			}
			c.posa.addBlock(keys, bm, rng)
		}
		c.posa.addEmpty()
	}
	// import inputs
	for _, s := range cfg.Src {
		c := u.chains[s]
		for _, i := range cfg.Ids {
			for _, t := range cfg.Tgt {
				for _, v := range cfg.Vars {
					k := mkey(s, i, t, v)
					mb := u.msgs[k].bytes()
					if c.kind == 'c' {
						u.imports[k+"|true"] = &importIn{input: entrance(c.ID, 0, vio.UnHex(btcProof), u.val.Address[:], btcVariant(v, rng), nil), signer: u.val.Address,
							kind: fmt.Sprintf("btc-serialisation-%d", v)}
						u.imports[k+"|false"] = &importIn{input: entrance(c.ID, 0, vio.UnHex(btcProof), u.val.Address[:], btcTampered(), nil), signer: u.val.Address, kind: "btc-other-tx"}
						continue
					}
					if c.posa == nil {
						h := uint32(1000 + v)
						u.imports[k+"|true"] = &importIn{input: entrance(c.ID, h, nil, u.val.Address[:], mb, nil), signer: u.val.Address, kind: "vote"}
						u.imports[k+"|false-relay"] = &importIn{input: entrance(c.ID, h, nil, u.outsider.Address[:], mb, nil), signer: u.outsider.Address, kind: "vote-by-outsider"}
						if rng.Bool() {
							u.imports[k+"|false"] = &importIn{input: entrance(c.ID, h, nil, u.outsider.Address[:], mb, nil), signer: u.outsider.Address, kind: "vote-by-outsider"}
						} else {
							u.imports[k+"|false"] = &importIn{input: entrance(c.ID, h, nil, u.val.Address[:], mb, nil), signer: u.outsider.Address, kind: "vote-without-witness"}
						}
						continue
					}
					p := c.posa
					u.imports[k+"|true"] = &importIn{input: entrance(c.ID, p.heights[k], p.proofs[k], u.val.Address[:], mb, nil), signer: u.val.Address, kind: "proof"}
					switch rng.Intn(3) {
					case 0: // message bytes differ from the proven hash (same cross-chain id)
						m2 := *u.msgs[k]
						m2.Args = append(append([]byte{}, m2.Args...), 0x01)
						u.imports[k+"|false"] = &importIn{input: entrance(c.ID, p.heights[k], p.proofs[k], u.val.Address[:], m2.bytes(), nil), signer: u.val.Address, kind: "tampered-message"}
					case 1: // proof checked against another header
						u.imports[k+"|false"] = &importIn{input: entrance(c.ID, uint32(p.lastN), p.proofs[k], u.val.Address[:], mb, nil), signer: u.val.Address, kind: "wrong-height"}
					default: // proof of another message
						ok := mkey(s, i, cfg.Tgt[(indexOf(cfg.Tgt, t)+1)%len(cfg.Tgt)], v)
						if ok == k {
							ok = mkey(s, i, t, cfg.Vars[(indexOfInt(cfg.Vars, v)+1)%len(cfg.Vars)])
						}
						if ok == k {
							m2 := *u.msgs[k]
							m2.Method += "x"
							u.imports[k+"|false"] = &importIn{input: entrance(c.ID, p.heights[k], p.proofs[k], u.val.Address[:], m2.bytes(), nil), signer: u.val.Address, kind: "tampered-message"}
						} else {
							u.imports[k+"|false"] = &importIn{input: entrance(c.ID, p.heights[ok], p.proofs[ok], u.val.Address[:], mb, nil), signer: u.val.Address, kind: "foreign-proof"}
						}
					}
				}
			}
		}
	}
	u.setup()
	return u
}

func indexOf(l []string, x string) int {
	for i, y := range l {
		if y == x {
			return i
		}
	}
	return 0
}
func indexOfInt(l []int, x int) int {
	for i, y := range l {
		if y == x {
			return i
		}
	}
	return 0
}

// setup registers every chain and syncs the PoSA light clients, all through the real contract functions, then snapshots.
func (u *Universe) setup() {
	sb := nativekit.New()
	sb.Height = startBlock + 100
	sb.SeedValidators([]*account.Account{u.val}, 1)
	r := &Run{u: u, sb: sb, gov: 1 << 24}
	for _, n := range u.names {
		if err := r.register(n); err != nil {
			vio.Fatal("setup: register %s: %v", n, err)
		}
	}
	for _, n := range u.names {
		c := u.chains[n]
		if c.kind != 'c' {
			continue
		}
		// redeem script -> contract binding for the destination (stored directly; the real registration needs BTC multisig signatures)
		sink := common.NewZeroCopySink(nil)
		(&scm.ContractBinded{Contract: vio.UnHex(btcBound)}).Serialization(sink)
		sb.Cache.Put(utils.ConcatKey(utils.SideChainManagerContractAddress, []byte(scm.REDEEM_BIND), utils.GetUint64Bytes(c.ID),
			utils.GetUint64Bytes(btcToChain), vio.UnHex(btcRedeem)), cstates.GenRawStorageItem(sink.Bytes()))
		sb.Cache.Commit()
		sink = common.NewZeroCopySink(nil)
		(&hscom.SyncGenesisHeaderParam{ChainID: c.ID, GenesisHeader: btcGenesis()}).Serialization(sink)
		if _, _, err := sb.Call(hs.SyncGenesisHeader, r.govTx(u.val.Address), sink.Bytes()); err != nil {
			vio.Fatal("setup: btc genesis %s: %v", n, err)
		}
	}
	for _, n := range u.names {
		if c := u.chains[n]; c.proxy != nil {
			scm.PutAssetBind(sb.Service(nativekit.Tx(), nil), c.ID, &scm.AssetBind{AssetMap: c.asset, LockProxyMap: c.proxy})
			sb.Cache.Commit()
		}
	}
	for _, n := range u.names {
		c := u.chains[n]
		if c.posa == nil {
			continue
		}
		sink := common.NewZeroCopySink(nil)
		(&hscom.SyncGenesisHeaderParam{ChainID: c.ID, GenesisHeader: c.posa.genesis}).Serialization(sink)
		if _, _, err := sb.Call(hs.SyncGenesisHeader, r.govTx(u.val.Address), sink.Bytes()); err != nil {
			vio.Fatal("setup: genesis %s: %v", n, err)
		}
		sink = common.NewZeroCopySink(nil)
		(&hscom.SyncBlockHeaderParam{ChainID: c.ID, Address: u.val.Address, Headers: c.posa.headers}).Serialization(sink)
		if _, _, err := sb.Call(hs.SyncBlockHeader, r.govTx(u.val.Address), sink.Bytes()); err != nil {
			vio.Fatal("setup: headers %s: %v", n, err)
		}
	}
	// the snapshot: commit the overlay into the in-memory LevelDB, which all runs then share read-only
	sb.Store.NewBatch()
	sb.Overlay.CommitTo()
	vio.Must(sb.Store.BatchCommit())
	u.base = sb.Store
}

// ---------------------------------------------------------------- one run (a fresh copy of the snapshot)

type Run struct {
	u      *Universe
	sb     *nativekit.Sandbox
	hclass int
	leaves []string // leaf hashes committed since the last NewBlock
	gov    uint32   // nonce counter of governance transactions
}

func (u *Universe) newRun() *Run {
	// a private overlay over the shared snapshot: writes of this run never reach the store
	ov := overlaydb.NewOverlayDB(u.base)
	sb := &nativekit.Sandbox{Store: u.base, Overlay: ov, Cache: storage.NewCacheDB(ov), Height: 1, Time: 1000}
	r := &Run{u: u, sb: sb, gov: 1 << 24}
	r.setHeight(0)
	return r
}

func (r *Run) setHeight(class int) {
	r.hclass = class
	r.sb.Height = uint32(startBlock - 1 + class)
}

func (r *Run) govTx(signers ...common.Address) *types.Transaction {
	r.gov++
	return r.u.tx(r.gov, signers...)
}

func (r *Run) register(n string) error {
	u, c := r.u, r.u.chains[n]
	p := &scm.RegisterSideChainParam{Address: u.owner.Address, ChainId: c.ID, Router: c.Router, Name: "chain-" + n, BlocksToWait: 1, CCMCAddress: []byte{1, 2, 3}}
	if c.posa != nil {
		p.CCMCAddress = c.posa.ccmc.Bytes()
		p.ExtraInfo = c.posa.extraInfo()
	}
	if c.kind == 'c' {
		p.CCMCAddress = utils.GetUint64Bytes(uint64(utils.TyTestnet3))
	}
	sink := common.NewZeroCopySink(nil)
	vio.Must(p.Serialization(sink))
	if _, _, err := r.sb.Call(scm.RegisterSideChain, r.govTx(u.owner.Address), sink.Bytes()); err != nil {
		return err
	}
	sink = common.NewZeroCopySink(nil)
	(&scm.ChainidParam{Chainid: c.ID, Address: u.val.Address}).Serialization(sink)
	_, _, err := r.sb.Call(scm.ApproveRegisterSideChain, r.govTx(u.val.Address), sink.Bytes())
	return err
}

func (r *Run) quit(n string) error {
	u, c := r.u, r.u.chains[n]
	sink := common.NewZeroCopySink(nil)
	(&scm.ChainidParam{Chainid: c.ID, Address: u.owner.Address}).Serialization(sink)
	if _, _, err := r.sb.Call(scm.QuitSideChain, r.govTx(u.owner.Address), sink.Bytes()); err != nil {
		return err
	}
	sink = common.NewZeroCopySink(nil)
	(&scm.ChainidParam{Chainid: c.ID, Address: u.val.Address}).Serialization(sink)
	_, _, err := r.sb.Call(scm.ApproveQuitSideChain, r.govTx(u.val.Address), sink.Bytes())
	return err
}

type Step struct {
	Act string `json:"act"`
	C   string `json:"c,omitempty"`
	S   string `json:"s,omitempty"`
	I   string `json:"i,omitempty"`
	T   string `json:"t,omitempty"`
	V   int    `json:"v,omitempty"`
	Ok  bool   `json:"ok,omitempty"`
	Tx  int    `json:"tx,omitempty"`
	Acc bool   `json:"acc,omitempty"`
	Why string `json:"why,omitempty"`
	// relay transaction: two imports A, B through NativeCall in one transaction
	Pre   bool  `json:"pre,omitempty"`
	Catch bool  `json:"catch,omitempty"`
	A     *Part `json:"a,omitempty"`
	B     *Part `json:"b,omitempty"`
}

type Part struct {
	S   string `json:"s"`
	I   string `json:"i"`
	T   string `json:"t"`
	V   int    `json:"v"`
	Ok  bool   `json:"ok"`
	Acc bool   `json:"acc"`
	Why string `json:"why,omitempty"`
}

func (p *Part) step(tx int) *Step {
	return &Step{Act: "import", S: p.S, I: p.I, T: p.T, V: p.V, Ok: p.Ok, Tx: tx, Acc: p.Acc}
}

// ---------------------------------------------------------------- relay contract (harness-side, registered in native.Contracts)

// RelayAddr hosts a contract whose method "relay" runs a script: 'L' data = PutMerkleVal(data) of its own,
// 'I' args = NativeCall(CrossChainManager, ImportOuterTransfer, args), 'C' args = the same but an error is ignored.
var RelayAddr = common.Address{0xfe, 0x20}

type relayOp struct {
	Op   byte
	Data []byte
}

func relayScript(ops []relayOp) []byte {
	b := new(bytes.Buffer)
	for _, o := range ops {
		b.WriteByte(o.Op)
		putVarBytes(b, o.Data)
	}
	return b.Bytes()
}

func relayHandler(ns *native.NativeService) ([]byte, error) {
	src := common.NewZeroCopySource(ns.GetInput())
	for src.Len() > 0 {
		op, _ := src.NextByte()
		data, eof := src.NextVarBytes()
		if eof {
			return nil, fmt.Errorf("relay: truncated script")
		}
		switch op {
		case 'L':
			ns.PutMerkleVal(data)
		case 'I', 'C':
			if _, err := ns.NativeCall(utils.CrossChainManagerContractAddress, scom.IMPORT_OUTER_TRANSFER_NAME, data); err != nil && op == 'I' {
				return nil, err
			}
		default:
			return nil, fmt.Errorf("relay: unknown op %q", op)
		}
	}
	return []byte{1}, nil
}

func init() {
	native.Contracts[RelayAddr] = func(ns *native.NativeService) { ns.Register("relay", relayHandler) }
}

func ownLeafData(tx int) []byte { return []byte(fmt.Sprintf("relay-own-leaf-%d", tx)) }

func (u *Universe) relayInput(p *Part) *importIn {
	k := mkey(p.S, p.I, p.T, p.V)
	if !p.Ok {
		if in, ok := u.imports[k+"|false-relay"]; ok {
			return in
		}
	}
	return u.imports[k+fmt.Sprintf("|%v", p.Ok)]
}

type Got struct {
	Err     string   `json:"err,omitempty"`
	Panic   string   `json:"panic,omitempty"`
	Res     string   `json:"res,omitempty"`
	Changed bool     `json:"changed"`
	Leaves  []string `json:"leaves,omitempty"` // leaves of this call (kept only if the call succeeded)
	Kind    string   `json:"kind,omitempty"`
}

// apply executes one model step on the real contract code.
func (r *Run) apply(st *Step) *Got {
	u := r.u
	g := &Got{}
	before := r.sb.WriteSet()
	var ns *native.NativeService
	call := func(h native.Handler, tx *types.Transaction, in []byte) {
		g.Panic = vio.Safe(func() {
			res, n, err := r.sb.Call(h, tx, in)
			ns = n
			g.Res = hex.EncodeToString(res)
			if err != nil {
				g.Err = err.Error()
			}
		})
		if g.Panic != "" {
			r.sb.Cache.Reset()
		}
	}
	switch st.Act {
	case "import":
		in := u.imports[mkey(st.S, st.I, st.T, st.V)+fmt.Sprintf("|%v", st.Ok)]
		g.Kind = in.kind
		call(ccm.ImportExTransfer, u.tx(uint32(st.Tx), in.signer), in.input)
		if g.Err == "" && g.Panic == "" && ns != nil {
			for _, h := range ns.GetCrossHashes() {
				g.Leaves = append(g.Leaves, hex.EncodeToString(h[:]))
			}
			r.leaves = append(r.leaves, g.Leaves...)
		}
	case "relay":
		a, b := u.relayInput(st.A), u.relayInput(st.B)
		var ops []relayOp
		if st.Pre {
			ops = append(ops, relayOp{'L', ownLeafData(st.Tx)})
		}
		ops = append(ops, relayOp{'I', a.input})
		if st.Catch {
			ops = append(ops, relayOp{'C', b.input})
		} else {
			ops = append(ops, relayOp{'I', b.input})
		}
		g.Kind = a.kind + "+" + b.kind
		// the relay handler is entered as the ledger would enter it (context pushed by the outer Invoke)
		call(func(ns *native.NativeService) ([]byte, error) {
			res, err := ns.NativeCall(RelayAddr, "relay", relayScript(ops))
			if err != nil {
				return nil, err
			}
			r, _ := res.([]byte)
			return r, nil
		}, u.tx(uint32(st.Tx), u.val.Address, u.outsider.Address), nil)
		if g.Err == "" && g.Panic == "" && ns != nil {
			for _, h := range ns.GetCrossHashes() {
				g.Leaves = append(g.Leaves, hex.EncodeToString(h[:]))
			}
			r.leaves = append(r.leaves, g.Leaves...)
		}
	case "black", "white":
		sink := common.NewZeroCopySink(nil)
		(&scom.BlackChainParam{ChainID: u.chains[st.C].ID}).Serialization(sink)
		if st.Act == "black" {
			call(ccm.BlackChain, r.govTx(u.val.Address), sink.Bytes())
		} else {
			call(ccm.WhiteChain, r.govTx(u.val.Address), sink.Bytes())
		}
	case "register":
		g.Panic = vio.Safe(func() {
			if err := r.register(st.C); err != nil {
				g.Err = err.Error()
			}
		})
	case "quit":
		g.Panic = vio.Safe(func() {
			if err := r.quit(st.C); err != nil {
				g.Err = err.Error()
			}
		})
	case "newblock":
		r.leaves = nil
		if r.hclass < 1 && len(u.cfg.Gated) > 0 {
			r.setHeight(r.hclass + 1)
		}
	default:
		vio.Fatal("unknown step %q", st.Act)
	}
	// the run's overlay holds exactly the writes committed by successful calls of this run
	g.Changed = len(nativekit.Diff(before, r.sb.WriteSet())) > 0
	return g
}

// ---------------------------------------------------------------- projection of the real storage onto the model's variables

type ReqRec struct {
	Key string `json:"key"` // hex storage key below the contract address
	Val string `json:"val"` // hex value
}

type Proj struct {
	Reg  []string    `json:"reg"`
	Blk  []string    `json:"blk"`
	Done [][2]string `json:"done"`
	Req  []ReqRec    `json:"req"`
	Lv   []string    `json:"lv"`
	H    int         `json:"h"`
}

func (r *Run) project() *Proj {
	u := r.u
	p := &Proj{Reg: []string{}, Blk: []string{}, Done: [][2]string{}, Req: []ReqRec{}, Lv: append([]string{}, r.leaves...), H: r.hclass}
	chainName := func(b []byte) string {
		if len(b) != 8 {
			return "?" + hex.EncodeToString(b)
		}
		if n, ok := u.chainByID[binary.LittleEndian.Uint64(b)]; ok {
			return n
		}
		return "?" + hex.EncodeToString(b)
	}
	val := func(raw string) []byte {
		v, err := cstates.GetValueFromRawStorageItem(vio.UnHex(raw))
		if err != nil {
			return []byte("?")
		}
		return v
	}
	for k, v := range r.sb.DumpContract(utils.CrossChainManagerContractAddress) {
		kb := vio.UnHex(k)
		switch {
		case bytes.HasPrefix(kb, []byte(scom.BLACKED_CHAIN)):
			p.Blk = append(p.Blk, chainName(kb[len(scom.BLACKED_CHAIN):]))
		case bytes.HasPrefix(kb, []byte(scom.DONE_TX)):
			rest := kb[len(scom.DONE_TX):]
			if len(rest) < 8 {
				p.Done = append(p.Done, [2]string{"?", k})
				continue
			}
			id, ok := u.idByHex[hex.EncodeToString(rest[8:])]
			if !ok {
				id = "?" + hex.EncodeToString(rest[8:])
			}
			p.Done = append(p.Done, [2]string{chainName(rest[:8]), id})
		case bytes.HasPrefix(kb, []byte(scom.REQUEST)):
			p.Req = append(p.Req, ReqRec{Key: k, Val: hex.EncodeToString(val(v))})
		}
	}
	for k := range r.sb.DumpContract(utils.SideChainManagerContractAddress) {
		kb := vio.UnHex(k)
		if bytes.HasPrefix(kb, []byte(scm.SIDE_CHAIN)) && len(kb) == len(scm.SIDE_CHAIN)+8 {
			p.Reg = append(p.Reg, chainName(kb[len(scm.SIDE_CHAIN):]))
		}
	}
	sort.Strings(p.Reg)
	sort.Strings(p.Blk)
	sort.Slice(p.Done, func(a, b int) bool { return p.Done[a][0]+"|"+p.Done[a][1] < p.Done[b][0]+"|"+p.Done[b][1] })
	sort.Slice(p.Req, func(a, b int) bool { return p.Req[a].Key < p.Req[b].Key })
	return p
}

// expected request record / leaf of an accepted import step (from the model's term MV(tx, src, id, to, var)).
func (u *Universe) expectReq(st *Step) (ReqRec, string) {
	m := u.outMsg(mkey(st.S, st.I, st.T, st.V))
	txh := u.txHash(uint32(st.Tx))
	mv := encMV(txh, u.chains[st.S].ID, m.bytes())
	key := append(append([]byte(scom.REQUEST), u64le(u.chains[st.T].ID)...), txh...)
	return ReqRec{Key: hex.EncodeToString(key), Val: hex.EncodeToString(mv)}, leafHash(mv)
}

// decodeMV turns a stored request (or "?"-marked garbage) back into the model's term, for recorded traces.
type MVTerm struct {
	Tx  int    `json:"tx"`
	Src string `json:"src"`
	Id  string `json:"id"`
	To  string `json:"to"`
	Var int    `json:"var"`
}

func (u *Universe) decodeMV(val []byte, txByHash map[string]int) MVTerm {
	bad := MVTerm{Tx: -1, Src: "?", Id: "?", To: "?", Var: -1}
	if len(val) < 1+32+8 || val[0] != 32 {
		return bad
	}
	tx, ok := txByHash[hex.EncodeToString(val[1:33])]
	if !ok {
		return bad
	}
	src, ok := u.chainByID[binary.LittleEndian.Uint64(val[33:41])]
	if !ok {
		return bad
	}
	k, ok := u.msgByHex[hex.EncodeToString(val[41:])]
	if !ok {
		return bad
	}
	f := strings.Split(k, "|")
	if f[0] != src {
		return bad
	}
	var v int
	fmt.Sscanf(f[3], "%d", &v)
	return MVTerm{Tx: tx, Src: src, Id: f[1], To: f[2], Var: v}
}
