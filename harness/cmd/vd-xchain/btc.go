package main

// BTC adapter (router 1): the repository's own testnet3 fixture (btc_handler_test.go) — one confirmed deposit, its SPV merkle
// proof and the header committing to it, installed through the real header_sync entrance as the trust root.  The model's
// message variants are different SERIALISATIONS of that one transaction (same txid): 1 = plain, 2 and 3 = witness encoding
// with different witness stacks.  The txid does not commit to the witness, the proof only commits to the txid, so all
// variants are authentic submissions of the same message (chain, txid).

import (
	"bytes"
	"crypto/sha256"
	"encoding/binary"

	"github.com/btcsuite/btcd/chaincfg"
	"github.com/btcsuite/btcd/chaincfg/chainhash"
	"github.com/btcsuite/btcd/wire"

	"verifh/kit/vio"
)

const (
	btcRawTx   = "01000000015dbdab5a45905efd23e0753d1aaf2a417d77dd8c079499a1643bc168817bf8ab4f0000006a47304402206553c4a3cb1c37cd68b4bb25412cc35d73b731dcef3874635761172f53d70bbf0220264e5afd78936a920d6bcc0720ef5f5d25e7a153f25e18264bd3952038780224012102141d092eca49eac51de2760d28cbced212b60efc23fdcbb57304823bb17aa64effffffff031027000000000000220020216a09cb8ee51da1a91ea8942552d7936c886a10b507299003661816c0e9f18b0000000000000000286a26cc02000000000000000000000000000000145cd3143f91a13fe971043e1e4605c1c23b46bf44a85b0100000000001976a9145f35a2cc0318fbc17c4c479964734e7a9f8819d788ac00000000"
	btcProof   = "0000002037083b799b61659dedf733d4945e4ce65e31018ca7e1c2a247f0120000000000ddb35a12a3651cc57358ead0fde2e504f26cf46568b594238e487359651d2e5060d5715effff001d74ec61d6370100000a4702e34d13d88ca00bcea9e15428040de063fd3772fb0492b46bc9ac734612f7d1f8a7ffd7d1f965cad52b3ec06efa3e49e20344de6463d7688453050a37b52b09a2a2efe3057dca55982d5f7ff3b1f36fda89d2b2a1f015acd3ce7afda0abfe96662da89072ef81d5795add6f50dee212a41dbdd2720a1d8c53520bed8e7fa8732bbc20668e26657be4de157fe22cbb508e6e92030bf97b75298db89026f027d0516c4bffda74583043ca723e45505044373e8b6c4a4476a3908dc60d33cb6721b2bc97b3e2074d2ab6617ad3204fec91130fe06e5736ac9d07f66caee0c05309d5d8e752dadbe4c365f815e1902f6ce80be7269f296cb49bfd832c243dd4580dcba943ed5b67f8d233d19b6402fcc39e61bfe01938dc98e4dd2043efed8dabbd65df34229b60bd0a0afd0823ef8c8055cd52d1737d3a991575a6a41cbaeb1e03b75a00"
	btcMerkle  = "502e1d655973488e2394b56865f46cf204e5e2fdd0ea5873c51c65a3125ab3dd"
	btcRedeem  = "c330431496364497d7257839737b5e4596f5ac06"
	btcBound   = "9702640a6b971ca18efc20ad73ca4e8ba390c910"
	btcToAddr  = "5cd3143f91a13fe971043e1e4605c1c23b46bf44" // destination address inside the OP_RETURN output
	btcAmount  = 10000                                      // value of output 0
	btcToChain = 2                                          // destination chain id inside the OP_RETURN output
)

// btcTxid = double SHA-256 of the plain serialisation (internal byte order), computed here, not by btcd.
func btcTxid() []byte {
	a := sha256.Sum256(vio.UnHex(btcRawTx))
	b := sha256.Sum256(a[:])
	return b[:]
}

// btcMessage is the message the handler must derive from the deposit, written down independently.
func btcMessage() *Msg {
	args := new(bytes.Buffer)
	putVarBytes(args, vio.UnHex(btcToAddr))
	args.Write(u64le(btcAmount))
	id := btcTxid()
	return &Msg{TxHash: id, CrossChainID: id, FromContract: vio.UnHex(btcRedeem), To: btcToChain, ToContract: vio.UnHex(btcBound),
		Method: "unlock", Args: args.Bytes()}
}

// btcVariant returns serialisation v of the deposit: 1 plain, >1 witness encoding with a witness stack depending on v and the seed.
func btcVariant(v int, rng *vio.RNG) []byte {
	raw := vio.UnHex(btcRawTx)
	if v <= 1 {
		return raw
	}
	mtx := wire.NewMsgTx(wire.TxVersion)
	vio.Must(mtx.BtcDecode(bytes.NewReader(raw), wire.ProtocolVersion, wire.LatestEncoding))
	stack := wire.TxWitness{}
	for k := 0; k < v-1; k++ {
		stack = append(stack, rng.Bytes(1+rng.Intn(72)))
	}
	mtx.TxIn[0].Witness = stack
	var buf bytes.Buffer
	vio.Must(mtx.BtcEncode(&buf, wire.ProtocolVersion, wire.WitnessEncoding))
	return buf.Bytes()
}

// btcTampered: another transaction (lock time changed), which the proof does not commit to.
func btcTampered() []byte {
	raw := vio.UnHex(btcRawTx)
	raw[len(raw)-1] ^= 0x01
	return raw
}

// btcGenesis: the header committing to the deposit, as SyncGenesisHeader input (header bytes || height, big endian).
func btcGenesis() []byte {
	gh := chaincfg.TestNet3Params.GenesisBlock.Header
	mr, err := chainhash.NewHashFromStr(btcMerkle)
	vio.Must(err)
	gh.MerkleRoot = *mr
	var buf bytes.Buffer
	vio.Must(gh.BtcEncode(&buf, wire.ProtocolVersion, wire.LatestEncoding))
	h := make([]byte, 4)
	binary.BigEndian.PutUint32(h, 0)
	return append(buf.Bytes(), h...)
}
