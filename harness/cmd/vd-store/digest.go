package main

// C11: block state-change digest. (1) pairs of equivalent write histories on the real CacheDB/OverlayDB stack and on a
// real ledger (LedgerStoreImp.ExecuteBlock with a scripted probe contract), logged as TraceOverlay events;
// (2) StateStore.AddStateMerkleTreeRoot against the root terms of spec/StateRoot.tla.

import (
	"bytes"
	"crypto/sha256"
	"encoding/hex"
	"encoding/json"
	"fmt"
	"os"
	"path/filepath"

	"github.com/polynetwork/poly/common"
	cstates "github.com/polynetwork/poly/core/states"
	"github.com/polynetwork/poly/core/store/ledgerstore"
	"github.com/polynetwork/poly/core/store/leveldbstore"
	"github.com/polynetwork/poly/core/store/overlaydb"
	"github.com/polynetwork/poly/core/types"
	"verifh/kit/ledgerkit"
	"verifh/kit/vio"
)

// ---------------------------------------------------------------- equivalent write histories

type wr struct {
	K int
	V string // x | y | T
}
type btx struct {
	Kind string // "ok" (writes, Commit) | "fail" (writes, no Commit) | "direct" (one write straight into the block layer)
	W    []wr
}

func (t btx) keys() map[int]bool {
	m := map[int]bool{}
	for _, w := range t.W {
		m[w.K] = true
	}
	return m
}

func disjoint(a, b btx) bool {
	if a.Kind == "fail" || b.Kind == "fail" {
		return true
	}
	ka := a.keys()
	for k := range b.keys() {
		if ka[k] {
			return false
		}
	}
	return true
}

func randWrites(rng *vio.RNG, K, n int) []wr {
	var w []wr
	for i := 0; i < n; i++ {
		w = append(w, wr{1 + rng.Intn(K), []string{"x", "y", "T"}[rng.Intn(3)]})
	}
	return w
}

func randBlock(rng *vio.RNG, K, ntx int, direct bool) []btx {
	var b []btx
	for i := 0; i < ntx; i++ {
		switch r := rng.Intn(10); {
		case r < 6:
			b = append(b, btx{"ok", randWrites(rng, K, 1+rng.Intn(4))})
		case r < 8:
			b = append(b, btx{"fail", randWrites(rng, K, 1+rng.Intn(3))})
		default:
			if direct {
				b = append(b, btx{"direct", randWrites(rng, K, 1)})
			} else {
				b = append(b, btx{"ok", randWrites(rng, K, 1)})
			}
		}
	}
	return b
}

func cloneBlock(b []btx) []btx {
	c := make([]btx, len(b))
	for i, t := range b {
		c[i] = btx{t.Kind, append([]wr{}, t.W...)}
	}
	return c
}

// rewrite applies one random transformation that keeps the final block layer (the model confirms it: both members of a
// pair must end in the same WriteSeq, otherwise the check stops with "no verdict").
func rewrite(rng *vio.RNG, K int, b []btx, direct bool) ([]btx, string) {
	b = cloneBlock(b)
	if len(b) == 0 {
		return append(b, btx{"fail", randWrites(rng, K, 2)}), "failed-tx"
	}
	i := rng.Intn(len(b))
	t := &b[i]
	switch rng.Intn(10) {
	case 0: // swap adjacent writes to different keys inside a transaction
		if len(t.W) >= 2 {
			j := rng.Intn(len(t.W) - 1)
			if t.W[j].K != t.W[j+1].K {
				t.W[j], t.W[j+1] = t.W[j+1], t.W[j]
				return b, "swap-writes"
			}
		}
	case 1, 2: // a write that is overwritten later in the same transaction (case 2: delete-then-put)
		if t.Kind != "direct" && len(t.W) > 0 {
			j := rng.Intn(len(t.W))
			v := "T"
			if rng.Intn(2) == 0 {
				v = []string{"x", "y"}[rng.Intn(2)]
			}
			nw := append([]wr{}, t.W[:j]...)
			nw = append(nw, wr{t.W[j].K, v})
			t.W = append(nw, t.W[j:]...)
			if v == "T" {
				return b, "delete-then-put"
			}
			return b, "redundant-overwrite"
		}
	case 3: // a failing transaction anywhere
		nb := append([]btx{}, b[:i]...)
		nb = append(nb, btx{"fail", randWrites(rng, K, 1+rng.Intn(3))})
		return append(nb, b[i:]...), "failed-tx"
	case 4: // split one transaction in two
		if t.Kind == "ok" && len(t.W) >= 2 {
			j := 1 + rng.Intn(len(t.W)-1)
			nb := append([]btx{}, b[:i]...)
			nb = append(nb, btx{"ok", append([]wr{}, t.W[:j]...)}, btx{"ok", append([]wr{}, t.W[j:]...)})
			return append(nb, b[i+1:]...), "split-tx"
		}
	case 5: // merge two adjacent successful transactions
		if i+1 < len(b) && t.Kind == "ok" && b[i+1].Kind == "ok" {
			m := btx{"ok", append(append([]wr{}, t.W...), b[i+1].W...)}
			nb := append([]btx{}, b[:i]...)
			nb = append(nb, m)
			return append(nb, b[i+2:]...), "merge-tx"
		}
	case 6: // swap adjacent transactions touching disjoint key sets
		if i+1 < len(b) && disjoint(b[i], b[i+1]) {
			b[i], b[i+1] = b[i+1], b[i]
			return b, "swap-tx"
		}
	case 7: // an earlier transaction whose writes are all overwritten by this one
		if t.Kind != "fail" && len(t.W) > 0 {
			var w []wr
			for _, x := range t.W {
				if rng.Intn(2) == 0 {
					w = append(w, wr{x.K, []string{"x", "y", "T"}[rng.Intn(3)]})
				}
			}
			if len(w) > 0 {
				nb := append([]btx{}, b[:i]...)
				nb = append(nb, btx{"ok", w})
				return append(nb, b[i:]...), "overwritten-tx"
			}
		}
	case 8: // single-write transaction <-> direct block-layer write
		if direct && len(t.W) == 1 && t.Kind != "fail" {
			if t.Kind == "ok" {
				t.Kind = "direct"
			} else {
				t.Kind = "ok"
			}
			return b, "direct-write"
		}
	case 9: // repeat the last write of a transaction
		if t.Kind != "direct" && len(t.W) > 0 {
			t.W = append(t.W, t.W[len(t.W)-1])
			return b, "repeat-write"
		}
	}
	return b, ""
}

func flatten(b []btx) []ohop {
	var ops []ohop
	for _, t := range b {
		switch t.Kind {
		case "direct":
			ops = append(ops, ohop{"bput", []int{t.W[0].K}, t.W[0].V})
		default:
			ops = append(ops, ohop{"treset", []int{}, ""}) // executeBlock: cache.Reset() before every transaction
			for _, w := range t.W {
				ops = append(ops, ohop{"tput", []int{w.K}, w.V})
			}
			if t.Kind == "ok" {
				ops = append(ops, ohop{"tcommit", []int{}, ""})
			}
		}
	}
	return ops
}

// digestPairs: n pairs (history, equivalent rewrite) on the real stack; events for TraceOverlay.
func digestPairs(n, ntx int) {
	rng := vio.NewRNG(vio.Seed() + 1311)
	const K = 5
	for p := 0; p < n; p++ {
		kv := randomVariant(rng, K)
		b1 := randBlock(rng, K, 1+rng.Intn(ntx), true)
		b2 := b1
		var rules []string
		for r := 0; r < 1+rng.Intn(6); {
			nb, rule := rewrite(rng, K, b2, true)
			if rule != "" {
				b2, rules = nb, append(rules, rule)
				r++
			}
		}
		for side, b := range [][]btx{b1, b2} {
			s0 := randomStore(rng, K) // the digest must not depend on the persisted contents either
			st := newStack(kv, s0, rng)
			vio.Emit(map[string]interface{}{"op": "reset", "a": []int{}, "v": "", "s0": s0, "keys": fmt.Sprintf("%q", kv.keys)})
			for _, h := range flatten(b) {
				if pan := vio.Safe(func() { st.apply(h.Op, h.A, h.V) }); pan != "" {
					vio.Emit(map[string]interface{}{"op": "PANIC", "a": h.A, "v": h.V, "obs": map[string]string{"panic": pan, "in": h.Op}})
					return
				}
				vio.Emit(map[string]interface{}{"op": h.Op, "a": h.A, "v": h.V, "obs": ""})
			}
			emitDigest(st, map[string]interface{}{"pair": p, "side": side + 1, "rules": rules})
			st.close()
		}
	}
}

// ---------------------------------------------------------------- the same pairs through a real ledger

var probeKeys = []string{"a", "ab", "ab\x00", "b", "b~"} // ASCII only: the probe script travels as JSON

func probeSteps(t btx) []ledgerkit.Step {
	var st []ledgerkit.Step
	for _, w := range t.W {
		if w.V == "T" {
			st = append(st, ledgerkit.Step{Op: "del", K: probeKeys[w.K-1]})
		} else {
			st = append(st, ledgerkit.Step{Op: "put", K: probeKeys[w.K-1], V: string(valBytes[w.V])})
		}
	}
	if t.Kind == "fail" {
		st = append(st, ledgerkit.Step{Op: "fail"})
	}
	return st
}

func probeRawKey(k int) []byte {
	return append(append([]byte{stPrefix}, ledgerkit.ProbeAddr[:]...), []byte(probeKeys[k-1])...)
}

// digestLedger: pairs of equivalent blocks executed by the real LedgerStoreImp.ExecuteBlock on one parent state.
func digestLedger(n, ntx int) {
	rng := vio.NewRNG(vio.Seed() + 977)
	const K = 5
	dir := filepath.Join(os.Getenv("VERIF_OUT"), fmt.Sprintf("c11-ledger-%d", os.Getpid()))
	if os.Getenv("VERIF_OUT") == "" {
		dir = filepath.Join(os.TempDir(), fmt.Sprintf("c11-ledger-%d", os.Getpid()))
	}
	os.RemoveAll(dir)
	vio.Must(os.MkdirAll(dir, 0755))
	defer os.RemoveAll(dir)
	ledgerkit.RegisterProbe()
	accts := ledgerkit.LoadOrCreateAccounts(filepath.Join(dir, "keys"), 1)
	lg, err := ledgerkit.Open(filepath.Join(dir, "chain"), accts, false)
	vio.Must(err)
	defer lg.L.Close()
	nonce := uint32(1)
	store := make([]string, K)
	for i := range store {
		store[i] = "U"
	}
	kid := 1000
	for p := 0; p < n; p++ {
		b1 := randBlock(rng, K, 1+rng.Intn(ntx), false)
		b2 := b1
		var rules []string
		for r := 0; r < 1+rng.Intn(6); {
			nb, rule := rewrite(rng, K, b2, false)
			if rule != "" {
				b2, rules = nb, append(rules, rule)
				r++
			}
		}
		var first *types.Block
		var roots []string
		for side, b := range [][]btx{b1, b2} {
			var txs []*types.Transaction
			for _, t := range b {
				txs = append(txs, ledgerkit.ProbeTx(probeSteps(t), nonce))
				nonce++
			}
			blk := lg.Build(txs, nil)
			if side == 0 {
				first = blk
			}
			res, err := lg.L.ExecuteBlock(blk)
			if err != nil {
				vio.Fatal("ExecuteBlock: %v", err)
			}
			vio.Emit(map[string]interface{}{"op": "reset", "a": []int{}, "v": "", "s0": store, "keys": "ledger"})
			for _, h := range flatten(b) {
				vio.Emit(map[string]interface{}{"op": h.Op, "a": h.A, "v": h.V, "obs": ""})
			}
			// observed write set of the block
			ws := []okv{}
			var cat []byte
			exp := sha256.New()
			bad := ""
			res.WriteSet.ForEach(func(k, v []byte) {
				cat = append(append(cat, k...), v...)
				idx := -1
				for i := 1; i <= K; i++ {
					if bytes.Equal(k, probeRawKey(i)) {
						idx = i
					}
				}
				if idx < 0 {
					bad = fmt.Sprintf("foreign key %x in block write set", k)
					return
				}
				id := "T"
				if len(v) != 0 {
					raw, err := cstates.GetValueFromRawStorageItem(v)
					if err != nil {
						bad = "undecodable storage item"
						return
					}
					id = valID(raw)
				}
				ws = append(ws, okv{idx, id})
			})
			for _, e := range ws {
				exp.Write(probeRawKey(e.K))
				if e.V != "T" {
					exp.Write(cstates.GenRawStorageItem(valBytes[e.V]))
				}
			}
			sum := sha256.Sum256(cat)
			hx := hex.EncodeToString(res.Hash[:])
			digestMu.Lock()
			id, ok := digestIDs["ledger|"+hx]
			if !ok {
				id = len(digestIDs) + 1
				digestIDs["ledger|"+hx] = id
			}
			digestMu.Unlock()
			roots = append(roots, res.MerkleRoot.ToHexString())
			vio.Emit(map[string]interface{}{"op": "digest", "a": []int{}, "v": "", "obs": ws, "d": id, "kid": kid, "pair": p, "side": side + 1,
				"rules": rules, "bad": bad, "hex": hx, "ledger": true,
				"shaok": bytes.Equal(sum[:], res.Hash[:]) && hex.EncodeToString(exp.Sum(nil)) == hx,
				"rootsEqual": len(roots) < 2 || roots[0] == roots[1]})
		}
		// commit the first member so that the next pair runs on different persisted contents
		if _, err := lg.Commit(first); err != nil {
			vio.Fatal("commit: %v", err)
		}
		for i := 1; i <= K; i++ {
			v, err := lg.L.GetStorageItem(&cstates.StorageKey{ContractAddress: ledgerkit.ProbeAddr, Key: []byte(probeKeys[i-1])})
			if err != nil || v == nil {
				store[i-1] = "U"
			} else {
				store[i-1] = valID(v.Value)
			}
		}
		store = append([]string{}, store...)
	}
}

// ---------------------------------------------------------------- state roots

type srTrace struct {
	S     uint32            `json:"s"`
	Ds    []int             `json:"ds"`
	Roots []json.RawMessage `json:"roots"`
	Next  []json.RawMessage `json:"next"`
}

func evalTerm(raw json.RawMessage, digests map[int]common.Uint256) common.Uint256 {
	var t []json.RawMessage
	vio.Must(json.Unmarshal(raw, &t))
	var tag string
	vio.Must(json.Unmarshal(t[0], &tag))
	switch tag {
	case "Z":
		return common.Uint256{}
	case "L":
		var d int
		vio.Must(json.Unmarshal(t[1], &d))
		x := digests[d]
		return sha256.Sum256(append([]byte{0}, x[:]...))
	case "N":
		l, r := evalTerm(t[1], digests), evalTerm(t[2], digests)
		return sha256.Sum256(append(append([]byte{1}, l[:]...), r[:]...))
	}
	panic("bad term " + string(raw))
}

// realDigest: digest id -> ChangeHash() of a real block layer holding a small write set chosen by the id and the seed.
func realDigests(ids []int) map[int]common.Uint256 {
	rng := vio.NewRNG(vio.Seed() + 5)
	ldb, err := leveldbstore.NewMemLevelDBStore()
	vio.Must(err)
	defer ldb.Close()
	res := map[int]common.Uint256{}
	for _, id := range ids {
		ov := overlaydb.NewOverlayDB(ldb)
		for j := 0; j < id; j++ {
			ov.Put(raw(rng.Bytes(1+rng.Intn(4))), rng.Bytes(rng.Intn(3)))
		}
		res[id] = ov.ChangeHash()
	}
	return res
}

// stateRoots: stdin = TRACE lines of StateRoot.tla.
func stateRoots() {
	lines := vio.ReadLines()
	dg := realDigests([]int{1, 2, 3})
	mismatch, checks := 0, 0
	distinct := map[string]bool{}
	for _, ln := range lines {
		var t srTrace
		vio.Must(json.Unmarshal(ln, &t))
		var diffs []string
		pan := vio.Safe(func() {
			ss := ledgerstore.NewMemStateStore(t.S)
			for h, d := range t.Ds {
				ss.NewBatch()
				vio.Must(ss.AddStateMerkleTreeRoot(uint32(h), dg[d]))
				vio.Must(ss.CommitTo())
			}
			for h := range t.Ds {
				got, err := ss.GetStateMerkleRoot(uint32(h))
				exp := evalTerm(t.Roots[h], dg)
				checks++
				if err != nil || got != exp {
					diffs = append(diffs, fmt.Sprintf("root(%d): got %x err %v, expected %x", h, got[:6], err, exp[:6]))
				}
			}
			for i, nt := range t.Next {
				got := ss.GetStateMerkleRootWithNewHash(dg[i+1])
				exp := evalTerm(nt, dg)
				checks++
				if got != exp {
					diffs = append(diffs, fmt.Sprintf("next(%d): got %x expected %x", i+1, got[:6], exp[:6]))
				}
			}
		})
		if pan != "" {
			diffs = append(diffs, pan)
		}
		if len(t.Ds) > 0 {
			distinct[fmt.Sprint(t.S, t.Ds)] = true
		}
		if len(diffs) > 0 {
			mismatch++
			if mismatch <= 10 {
				vio.Emit(map[string]interface{}{"mismatch": true, "trace": json.RawMessage(ln), "diffs": diffs})
			}
		}
	}
	vio.Emit(map[string]interface{}{"summary": true, "traces": len(lines), "checks": checks, "mismatches": mismatch, "distinct": len(distinct)})
}
