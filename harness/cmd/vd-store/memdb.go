package main

import (
	"bytes"
	"encoding/json"
	"fmt"
	"sync"
	"time"

	"github.com/polynetwork/poly/core/store/overlaydb"
	"github.com/syndtr/goleveldb/leveldb/comparer"
	"github.com/syndtr/goleveldb/leveldb/iterator"
	"github.com/syndtr/goleveldb/leveldb/util"
	"verifh/kit/vio"
)

// key concretizations in byte order (index k-1)
var keySets = map[int][][]byte{
	3: {[]byte("a"), []byte("ab"), []byte("b")},
	4: {[]byte(""), []byte("a"), []byte("ab"), []byte("b")},
	5: {[]byte(""), []byte("a"), []byte("ab"), []byte("b"), []byte("b\x00")},
	7: {[]byte(""), []byte("a"), []byte("ab"), []byte("abc"), []byte("b"), []byte("b\x00"), []byte("c")},
}

type hop struct {
	Op string `json:"op"`
	A  []int  `json:"a"`
	V  string `json:"v"`
}
type kv struct {
	K int    `json:"k"`
	V string `json:"v"`
}
type medge struct {
	H   []hop           `json:"h"`
	Op  string          `json:"op"`
	A   []int           `json:"a"`
	Obs json.RawMessage `json:"obs"`
	M2  []string        `json:"m2"`
}

type memModel struct {
	db   *overlaydb.MemDB
	it   iterator.Iterator
	keys [][]byte
}

func val(v string) []byte {
	if v == "T" {
		return nil
	}
	return []byte(v)
}

func (mm *memModel) rng(lo, hi int) *util.Range {
	r := &util.Range{}
	if lo >= 1 {
		r.Start = mm.keys[lo-1]
	}
	if hi <= len(mm.keys) {
		r.Limit = mm.keys[hi-1]
	}
	if r.Start == nil && r.Limit == nil {
		return nil
	}
	return r
}

func (mm *memModel) kidx(k []byte) int {
	for i, x := range mm.keys {
		if bytes.Equal(x, k) {
			return i + 1
		}
	}
	return -1
}

type curObs struct {
	Valid bool   `json:"valid"`
	K     int    `json:"k"`
	V     string `json:"v"`
}

func vstr(v []byte) string {
	if len(v) == 0 {
		return "T"
	}
	return string(v)
}

func (mm *memModel) cur(ok bool) curObs {
	if !ok {
		if mm.it.Valid() {
			return curObs{Valid: true, K: -2}
		}
		return curObs{}
	}
	return curObs{Valid: true, K: mm.kidx(mm.it.Key()), V: vstr(mm.it.Value())}
}

func (mm *memModel) walk(it iterator.Iterator, ok bool, fwd bool) []kv {
	res := []kv{}
	for ; ok && len(res) < 64; {
		res = append(res, kv{mm.kidx(it.Key()), vstr(it.Value())})
		if fwd {
			ok = it.Next()
		} else {
			ok = it.Prev()
		}
	}
	return res
}

// apply executes one op on the real MemDB and returns the observation as a JSON-able value.
func (mm *memModel) apply(op string, a []int, v string) interface{} {
	switch op {
	case "put":
		if v == "T" && (a[0]%2 == 0) {
			mm.db.Delete(mm.keys[a[0]-1]) // Delete and Put(k, empty) are the two spellings of the same op
		} else {
			mm.db.Put(mm.keys[a[0]-1], val(v))
		}
		return map[string]interface{}{"v": v, "len": mm.db.Len()}
	case "get":
		x, unknown := mm.db.Get(mm.keys[a[0]-1])
		return map[string]interface{}{"unknown": unknown, "v": string(x)}
	case "find":
		rk, rv, err := mm.db.Find(mm.keys[a[0]-1])
		if err != nil {
			return map[string]interface{}{"found": false, "k": 0, "v": ""}
		}
		return map[string]interface{}{"found": true, "k": mm.kidx(rk), "v": vstr(rv)}
	case "reset":
		mm.db.Reset()
		if mm.it != nil {
			mm.it = nil
		}
		return map[string]interface{}{"len": mm.db.Len()}
	case "fwd":
		it := mm.db.NewIterator(mm.rng(a[0], a[1]))
		defer it.Release()
		return mm.walk(it, it.First(), true)
	case "bwd":
		it := mm.db.NewIterator(mm.rng(a[0], a[1]))
		defer it.Release()
		return mm.walk(it, it.Last(), false)
	case "seekwalk":
		it := mm.db.NewIterator(mm.rng(a[0], a[1]))
		defer it.Release()
		return mm.walk(it, it.Seek(mm.keys[a[2]-1]), true)
	case "iter":
		mm.it = mm.db.NewIterator(mm.rng(a[0], a[1]))
		return mm.cur(false)
	case "first":
		return mm.cur(mm.it.First())
	case "last":
		return mm.cur(mm.it.Last())
	case "next":
		return mm.cur(mm.it.Next())
	case "prev":
		return mm.cur(mm.it.Prev())
	case "seek":
		return mm.cur(mm.it.Seek(mm.keys[a[0]-1]))
	}
	panic("unknown op " + op)
}

// project reads the whole abstract state back: m as list of "U"/"T"/value per key, plus Len/Size consistency.
func (mm *memModel) project() ([]string, string) {
	m := make([]string, len(mm.keys))
	for i := range m {
		m[i] = "U"
	}
	n, size := 0, 0
	var prev []byte
	bad := ""
	mm.db.ForEach(func(k, v []byte) {
		i := mm.kidx(k)
		if i < 0 {
			bad = "foreign key in ForEach"
			return
		}
		if n > 0 && bytes.Compare(prev, k) >= 0 {
			bad = "ForEach not in byte order"
		}
		prev = append([]byte{}, k...)
		m[i-1] = vstr(v)
		n++
		size += len(k) + len(v)
	})
	if mm.db.Len() != n {
		bad = fmt.Sprintf("Len()=%d but %d entries", mm.db.Len(), n)
	}
	if mm.db.Size() != size {
		bad = fmt.Sprintf("Size()=%d but entries sum to %d", mm.db.Size(), size)
	}
	for i, k := range mm.keys {
		v, unknown := mm.db.Get(k)
		exp := m[i]
		got := "U"
		if !unknown {
			got = vstr(v)
		}
		if exp != got {
			bad = fmt.Sprintf("Get(%q)=%s but ForEach says %s", k, got, exp)
		}
	}
	return m, bad
}

func norm(x interface{}) string {
	b, _ := json.Marshal(x)
	var y interface{}
	json.Unmarshal(b, &y)
	b, _ = json.Marshal(y)
	return string(b)
}

func normRaw(r json.RawMessage) string {
	var y interface{}
	json.Unmarshal(r, &y)
	b, _ := json.Marshal(y)
	return string(b)
}

// memdbEdges: stdin = EDGE lines of MemDB.tla; replays each edge on a fresh real MemDB.
func memdbEdges(k int) {
	lines := vio.ReadLines()
	keys := keySets[k]
	var mu sync.Mutex
	mismatch := 0
	hangs := 0
	distinct := map[string]bool{}
	vio.ParMap(len(lines), 16, func(i int) {
		mu.Lock()
		stop := hangs >= 8 // every hang leaks a spinning goroutine: stop replaying once the verdict is clear
		mu.Unlock()
		if stop {
			return
		}
		var e medge
		if err := json.Unmarshal(lines[i], &e); err != nil {
			vio.Fatal("bad edge: %v", err)
		}
		var got interface{}
		var m2 []string
		var bad string
		soiled := i%2 == 1
		pan := withDeadline(20*time.Second, func() {
			mm := &memModel{db: overlaydb.NewMemDB(64, 8), keys: keys}
			if soiled {
				// "reset empties the buffer": a buffer that held other content and was reset must behave like a fresh one
				soil(mm.db, uint64(i))
				mm.db.Reset()
			}
			for _, h := range e.H {
				mm.apply(h.Op, h.A, h.V)
			}
			v := ""
			if e.Op == "put" {
				var o struct {
					V string `json:"v"`
				}
				json.Unmarshal(e.Obs, &o)
				v = o.V
			}
			got = mm.apply(e.Op, e.A, v)
			m2, bad = mm.project()
		})
		exp := normRaw(e.Obs)
		g := norm(got)
		nontrivial := e.Op != "get" || len(e.H) > 0
		mu.Lock()
		defer mu.Unlock()
		if nontrivial {
			distinct[e.Op+fmt.Sprint(e.A)+norm(e.M2)+exp] = true
		}
		if len(pan) > 4 && pan[:4] == "hang" {
			hangs++
		}
		if pan != "" || bad != "" || g != exp || norm(m2) != norm(e.M2) {
			mismatch++
			if mismatch <= 20 {
				vio.Emit(map[string]interface{}{"mismatch": true, "edge": json.RawMessage(lines[i]), "got": got, "gotState": m2,
					"panic": pan, "inconsistent": bad, "soiled": soiled})
			}
		}
	})
	vio.Emit(map[string]interface{}{"summary": true, "edges": len(lines), "mismatches": mismatch, "distinct": len(distinct), "hangs": hangs})
}

var _ = comparer.DefaultComparer

// memdbRecord: random histories on one real MemDB (5 keys), one NDJSON event per call logged at return.
func memdbRecord(n, length int) {
	rng := vio.NewRNG(vio.Seed())
	keys := keySets[7]
	K := len(keys)
	vals := []string{"x", "yz", "T"}
	mm := &memModel{db: overlaydb.NewMemDB(64, 8), keys: keys}
	for t := 0; t < n; t++ {
		if t%2 == 1 {
			soil(mm.db, rng.U64()) // content outside the model's alphabet, wiped by the reset that starts the trace
		}
		obs := mm.apply("reset", nil, "")
		vio.Emit(map[string]interface{}{"op": "reset", "a": []int{}, "v": "", "obs": obs})
		open := false
		for i := 0; i < length; i++ {
			var op string
			var a []int
			v := ""
			switch r := rng.Intn(100); {
			case r < 30:
				op, a, v = "put", []int{1 + rng.Intn(K)}, vals[rng.Intn(3)]
			case r < 38:
				op, a = "get", []int{1 + rng.Intn(K)}
			case r < 43:
				op, a = "find", []int{1 + rng.Intn(K)}
			case r < 50:
				op, a = "fwd", []int{rng.Intn(K + 1), 1 + rng.Intn(K+1)}
			case r < 57:
				op, a = "bwd", []int{rng.Intn(K + 1), 1 + rng.Intn(K+1)}
			case r < 62:
				op, a = "seekwalk", []int{rng.Intn(K + 1), 1 + rng.Intn(K+1), 1 + rng.Intn(K)}
			case r < 68 || !open:
				op, a = "iter", []int{rng.Intn(K + 1), 1 + rng.Intn(K+1)}
				open = true
			default:
				op = []string{"first", "last", "next", "prev", "next", "prev", "seek"}[rng.Intn(7)]
				a = []int{}
				if op == "seek" {
					a = []int{1 + rng.Intn(K)}
				}
			}
			var o interface{}
			if p := withDeadline(20*time.Second, func() { o = mm.apply(op, a, v) }); p != "" {
				vio.Emit(map[string]interface{}{"op": "PANIC", "a": a, "v": v, "obs": map[string]string{"panic": p, "in": op}})
				return
			}
			vio.Emit(map[string]interface{}{"op": op, "a": a, "v": v, "obs": o})
		}
	}
}

// soil fills a MemDB with a pseudo-random number (1..40) of keys outside the model's alphabet, some deleted again.
func soil(db *overlaydb.MemDB, seed uint64) {
	r := vio.NewRNG(seed)
	n := 1 + r.Intn(40)
	for j := 0; j < n; j++ {
		k := []byte(fmt.Sprintf("soil-%02d-%x", r.Intn(60), r.Intn(4)))
		if r.Intn(4) == 0 {
			db.Delete(k)
		} else {
			db.Put(k, r.Bytes(1+r.Intn(6)))
		}
	}
}

// withDeadline runs f under vio.Safe in a goroutine; a call that does not return in time is reported like a panic
// ("hang"): an operation of the write buffer that never answers does not answer like a map.
func withDeadline(d time.Duration, f func()) string {
	done := make(chan string, 1)
	go func() { done <- vio.Safe(f) }()
	select {
	case p := <-done:
		return p
	case <-time.After(d):
		return fmt.Sprintf("hang: operation did not return within %v", d)
	}
}
