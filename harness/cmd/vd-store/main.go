// vd-store: drivers for the storage layer (C09 MemDB, C10 layered views, C11 change digest).
package main

import (
	"os"
	"strconv"

	"verifh/kit/vio"
)

func atoi(s string) int {
	n, err := strconv.Atoi(s)
	if err != nil {
		vio.Fatal("bad number %q", s)
	}
	return n
}

func main() {
	defer vio.Flush()
	if len(os.Args) < 2 {
		vio.Fatal("usage: vd-store <cmd> ...")
	}
	switch os.Args[1] {
	case "memdb-edges":
		memdbEdges(atoi(os.Args[2]))
	case "memdb-record":
		memdbRecord(atoi(os.Args[2]), atoi(os.Args[3]))
	case "overlay-edges":
		overlayEdges(atoi(os.Args[2]), "edge")
	case "overlay-traces":
		overlayEdges(atoi(os.Args[2]), "trace")
	case "overlay-record":
		overlayRecord(atoi(os.Args[2]), atoi(os.Args[3]))
	case "digest-pairs":
		digestPairs(atoi(os.Args[2]), atoi(os.Args[3]))
	case "digest-ledger":
		digestLedger(atoi(os.Args[2]), atoi(os.Args[3]))
	case "state-roots":
		stateRoots()
	default:
		vio.Fatal("unknown command %s", os.Args[1])
	}
}
