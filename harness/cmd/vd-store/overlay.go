package main

// C10 / C11: the real layered stack  CacheDB (tx layer) -> OverlayDB (block layer) -> LevelDBStore (in-memory storage
// backend), driven by the edges / traces of spec/Overlay.tla.

import (
	"bytes"
	"crypto/sha256"
	"encoding/hex"
	"encoding/json"
	"fmt"
	"sort"
	"sync"

	scom "github.com/polynetwork/poly/core/store/common"
	"github.com/polynetwork/poly/core/store/leveldbstore"
	"github.com/polynetwork/poly/core/store/overlaydb"
	"github.com/polynetwork/poly/native/storage"
	"verifh/kit/vio"
)

const stPrefix = byte(scom.ST_STORAGE)

// ---------------------------------------------------------------- concretization

// keyVariant: K byte-ordered keys at the CacheDB level (the block layer / store see ST_STORAGE || key).
type keyVariant struct {
	keys [][]byte
	pfx  map[[2]int][][]byte // (lo,hi) -> prefixes that select exactly keys lo..hi ((1,0) = nothing)
}

func bs(ss ...string) [][]byte {
	r := make([][]byte, len(ss))
	for i, s := range ss {
		r[i] = []byte(s)
	}
	return r
}

func newVariant(keys [][]byte) *keyVariant {
	for i := 1; i < len(keys); i++ {
		if bytes.Compare(keys[i-1], keys[i]) >= 0 {
			vio.Fatal("key variant not strictly sorted: %q", keys)
		}
	}
	v := &keyVariant{keys: keys, pfx: map[[2]int][][]byte{}}
	cands := map[string]bool{"": true, "\xff\xff\xff": true, "zz": true, "\x00\x00\x00": true}
	for _, k := range keys {
		for n := 0; n <= len(k); n++ {
			cands[string(k[:n])] = true
			if n > 0 {
				p := append([]byte{}, k[:n]...)
				p[n-1]++
				cands[string(p)] = true
				p = append([]byte{}, k[:n]...)
				p[n-1]--
				cands[string(p)] = true
			}
		}
		cands[string(k)+"\x00"] = true
	}
	names := make([]string, 0, len(cands))
	for c := range cands {
		names = append(names, c)
	}
	sort.Strings(names)
	for _, c := range names {
		lo, hi := 1, 0
		first := true
		contiguous := true
		for i, k := range keys {
			if bytes.HasPrefix(k, []byte(c)) {
				if first {
					lo, hi, first = i+1, i+1, false
				} else {
					if hi != i {
						contiguous = false
					}
					hi = i + 1
				}
			}
		}
		if !contiguous {
			vio.Fatal("prefix %q selects a non-contiguous key set", c)
		}
		v.pfx[[2]int{lo, hi}] = append(v.pfx[[2]int{lo, hi}], []byte(c))
	}
	return v
}

var variantSets = map[int][]*keyVariant{}

func init() {
	for _, ks := range [][]string{
		{"a", "ab"}, {"a", "b"}, {"\x00", "\x00\x00"}, {"k\xff", "l"}, {"", "\x00"}, {"\xff", "\xff\xff"}, {"\x04", "\x05"},
		{"a", "ab", "b"}, {"a", "b", "ba"}, {"\x00", "\x00\x00", "\x01"}, {"k", "k\xff", "l"}, {"\xfe\xff", "\xfe\xff\xff", "\xff"},
		{"", "\x00", "\x00\x00"}, {"\x05", "\x05\x05", "\x06"}, {"a", "b", "c"},
		{"a", "ab", "abc", "b"}, {"", "a", "ab", "b"},
	} {
		variantSets[len(ks)] = append(variantSets[len(ks)], newVariant(bs(ks...)))
	}
}

// noise: store keys outside the ST_STORAGE prefix (never visible through the layered views, never modified)
var noiseKeys = [][]byte{{0x04}, {0x04, 'a'}, {0x04, 0xff, 0xff}, {0x06}, {0x06, 'a'}, {0x06, 0x00}}

var valBytes = map[string][]byte{"x": []byte("x"), "y": []byte("yz"), "z": {0x00, 'z'}}

func valID(b []byte) string {
	if len(b) == 0 {
		return ""
	}
	for id, v := range valBytes {
		if bytes.Equal(v, b) {
			return id
		}
	}
	return "?" + hex.EncodeToString(b)
}

// ---------------------------------------------------------------- the real stack

type ostack struct {
	kv    *keyVariant
	ldb   *leveldbstore.LevelDBStore
	ov    *overlaydb.OverlayDB
	cdb   *storage.CacheDB
	nops  int
	rng   *vio.RNG
	bopen bool
	uses  int
	it      scom.StoreIterator // recorded histories: the open iterator
	itStrip bool
}

func raw(k []byte) []byte { return append([]byte{stPrefix}, k...) }

func newStack(kv *keyVariant, s0 []string, rng *vio.RNG) *ostack {
	ldb, err := leveldbstore.NewMemLevelDBStore()
	vio.Must(err)
	for _, n := range noiseKeys {
		vio.Must(ldb.Put(n, []byte("noise")))
	}
	for i, c := range s0 {
		if c != "U" {
			vio.Must(ldb.Put(raw(kv.keys[i]), valBytes[c]))
		}
	}
	ov := overlaydb.NewOverlayDB(ldb)
	return &ostack{kv: kv, ldb: ldb, ov: ov, cdb: storage.NewCacheDB(ov), rng: rng}
}

func (s *ostack) close() { s.ldb.Close() }

// Stack pool.  Building the real stack costs several ms (a 4 MB block-layer buffer, a LevelDB instance with its
// goroutines), so a stack is reused for up to 200 edges: both layers are Reset(), checked to be empty (a Reset that
// leaves cells behind is reported as "unclean", never hidden), the store's ST_STORAGE range is emptied and re-filled.
var stackPool = make(chan *ostack, 64)

func getStack(kv *keyVariant, s0 []string, rng *vio.RNG) (*ostack, string) {
	var st *ostack
	select {
	case st = <-stackPool:
	default:
		return newStack(kv, s0, rng), ""
	}
	st.uses++
	if st.uses > 200 {
		st.close()
		return newStack(kv, s0, rng), ""
	}
	st.kv, st.rng, st.nops, st.bopen = kv, rng, 0, false
	st.ov.Reset()
	st.cdb.Reset()
	unclean := ""
	if st.ov.GetWriteSet().Len() != 0 {
		unclean = "OverlayDB.Reset left cells behind"
	}
	st.cdb.Commit()
	if unclean == "" && st.ov.GetWriteSet().Len() != 0 {
		unclean = "CacheDB.Reset left cells behind"
	}
	if unclean != "" {
		st.close()
		return newStack(kv, s0, rng), unclean
	}
	it := st.ldb.NewIterator([]byte{stPrefix})
	var ks [][]byte
	for ok := it.First(); ok; ok = it.Next() {
		ks = append(ks, append([]byte{}, it.Key()...))
	}
	it.Release()
	for _, k := range ks {
		vio.Must(st.ldb.Delete(k))
	}
	for i, c := range s0 {
		if c != "U" {
			vio.Must(st.ldb.Put(raw(kv.keys[i]), valBytes[c]))
		}
	}
	return st, ""
}

func putStack(st *ostack) {
	select {
	case stackPool <- st:
	default:
		st.close()
	}
}

func (s *ostack) kidx(k []byte) int {
	for i, x := range s.kv.keys {
		if bytes.Equal(x, k) {
			return i + 1
		}
	}
	return -1
}

type okv struct {
	K int    `json:"k"`
	V string `json:"v"`
}

// otherKey: a key for an interleaved read - alphabet keys, every prefix candidate, and a few foreign ones of several lengths.
func (s *ostack) otherKey() []byte {
	var pool [][]byte
	pool = append(pool, s.kv.keys...)
	pool = append(pool, bs("", "c1", "a3", "b", "zz", "\x00", "\x05", "\xff", "b1", "abcd")...)
	return append([]byte{}, pool[s.rng.Intn(len(pool))]...)
}

// interleavedReads: 0..n reads at either layer while an iterator is open (reads change nothing in the model).
func (s *ostack) interleavedReads(n int) {
	for i := s.rng.Intn(n + 1); i > 0; i-- {
		if s.rng.Intn(4) == 0 {
			s.ov.Get(raw(s.otherKey()))
		} else {
			s.cdb.Get(s.otherKey())
		}
	}
}

// walk: First()/Next()... on an open iterator, with reads interleaved between the Next() calls.
func (s *ostack) walk(it scom.StoreIterator, stripPrefix bool) interface{} {
	defer it.Release()
	res := []okv{}
	for ok := it.First(); ok; ok = it.Next() {
		if s.rng.Intn(3) == 0 {
			s.interleavedReads(1)
		}
		k := it.Key()
		if stripPrefix {
			if len(k) == 0 || k[0] != stPrefix {
				return fmt.Sprintf("foreign key %x in block-layer scan", k)
			}
			k = k[1:]
		}
		res = append(res, okv{s.kidx(k), valID(it.Value())})
		if len(res) > 64 {
			return "scan does not terminate"
		}
	}
	if err := it.Error(); err != nil {
		return "iterator error: " + err.Error()
	}
	return res
}

func (s *ostack) prefixFor(lo, hi int) []byte {
	if lo > hi {
		lo, hi = 1, 0
	}
	c := s.kv.pfx[[2]int{lo, hi}]
	if len(c) == 0 {
		vio.Fatal("key variant %q has no prefix selecting %d..%d", s.kv.keys, lo, hi)
	}
	return c[s.rng.Intn(len(c))]
}

// apply executes one model op on the real stack and returns the observation ("" for writes).
func (s *ostack) apply(op string, a []int, v string) interface{} {
	s.nops++
	switch op {
	case "tput":
		k := s.kv.keys[a[0]-1]
		if v == "T" {
			switch s.rng.Intn(3) { // Delete, Put(k, nil) and Put(k, empty) are three spellings of the same op
			case 0:
				s.cdb.Delete(k)
			case 1:
				s.cdb.Put(k, nil)
			default:
				s.cdb.Put(k, []byte{})
			}
		} else {
			s.cdb.Put(k, valBytes[v])
		}
		return ""
	case "bput":
		k := raw(s.kv.keys[a[0]-1])
		if v == "T" {
			if s.rng.Intn(2) == 0 {
				s.ov.Delete(k)
			} else {
				s.ov.Put(k, nil)
			}
		} else {
			s.ov.Put(k, valBytes[v])
		}
		return ""
	case "tget":
		x, err := s.cdb.Get(s.kv.keys[a[0]-1])
		if err != nil {
			return "ERR:" + err.Error()
		}
		return valID(x)
	case "bget":
		x, err := s.ov.Get(raw(s.kv.keys[a[0]-1]))
		if err != nil {
			return "ERR:" + err.Error()
		}
		return valID(x)
	case "tcommit":
		s.cdb.Commit()
		return ""
	case "treset":
		s.cdb.Reset()
		return ""
	case "breset":
		s.ov.Reset()
		return ""
	case "flush":
		s.ldb.NewBatch()
		s.ov.CommitTo()
		vio.Must(s.ldb.BatchCommit())
		return ""
	case "newbatch":
		s.ldb.NewBatch()
		return ""
	case "committo":
		s.ov.CommitTo()
		return ""
	case "batchcommit":
		vio.Must(s.ldb.BatchCommit())
		return ""
	case "tscan": // NewIterator; 0..2 reads of other keys; First()/Next()...
		it := s.cdb.NewIterator(s.prefixFor(a[0], a[1]))
		s.interleavedReads(2)
		return s.walk(it, false)
	case "bscan":
		it := s.ov.NewIterator(raw(s.prefixFor(a[0], a[1])))
		s.interleavedReads(2)
		return s.walk(it, true)
	case "tscanw": // NewIterator; reads and one Put/Delete of a key outside the scanned range; First()/Next()...
		it := s.cdb.NewIterator(s.prefixFor(a[0], a[1]))
		s.interleavedReads(1)
		s.apply("tput", []int{a[2]}, v)
		s.interleavedReads(1)
		return s.walk(it, false)
	case "topen", "bopen": // recorded histories: the iterator stays open across the following events
		if s.it != nil {
			s.it.Release()
		}
		if op == "topen" {
			s.it, s.itStrip = s.cdb.NewIterator(s.prefixFor(a[0], a[1])), false
		} else {
			s.it, s.itStrip = s.ov.NewIterator(raw(s.prefixFor(a[0], a[1]))), true
		}
		return ""
	case "walk":
		it := s.it
		s.it = nil
		return s.walk(it, s.itStrip)
	}
	panic("unknown op " + op)
}

func (s *ostack) cells(db *overlaydb.MemDB) ([]string, []okv, []byte, string) {
	m := make([]string, len(s.kv.keys))
	for i := range m {
		m[i] = "U"
	}
	bad := ""
	ws := []okv{}
	var cat []byte
	var prev []byte
	n := 0
	db.ForEach(func(k, v []byte) {
		cat = append(append(cat, k...), v...)
		if n > 0 && bytes.Compare(prev, k) >= 0 {
			bad = "write set not in strict byte order"
		}
		n++
		prev = append([]byte{}, k...)
		if len(k) == 0 || k[0] != stPrefix || s.kidx(k[1:]) < 0 {
			bad = fmt.Sprintf("foreign key %x in write set", k)
			return
		}
		id := valID(v)
		if id == "" {
			id = "T"
		}
		m[s.kidx(k[1:])-1] = id
		ws = append(ws, okv{s.kidx(k[1:]), id})
	})
	return m, ws, cat, bad
}

type opost struct {
	St     []string `json:"st"`
	Blk    []string `json:"blk"`
	Tx     []string `json:"tx"`
	Ws     []okv    `json:"ws"`
	Digest string   `json:"digest,omitempty"` // ChangeHash() of the real block layer
	ShaWs  string   `json:"shaws,omitempty"`  // real SHA-256 over the observed write set k1 v1 k2 v2 ...
}

// project reads the three layers back. Destructive for the stack (the tx layer is exposed by committing it into an
// emptied block layer), so it is the last thing done with a stack.
func (s *ostack) project() (opost, string) {
	var p opost
	bad := ""
	p.St = make([]string, len(s.kv.keys))
	for i := range p.St {
		p.St[i] = "U"
	}
	it := s.ldb.NewIterator(nil)
	noise := 0
	for ok := it.First(); ok; ok = it.Next() {
		k, v := it.Key(), it.Value()
		if len(k) > 0 && k[0] == stPrefix && s.kidx(k[1:]) > 0 {
			id := valID(v)
			if id == "" {
				bad = fmt.Sprintf("store holds an empty value under %x", k)
			}
			p.St[s.kidx(k[1:])-1] = id
			continue
		}
		isNoise := false
		for _, n := range noiseKeys {
			if bytes.Equal(n, k) && string(v) == "noise" {
				isNoise = true
			}
		}
		if !isNoise {
			bad = fmt.Sprintf("unexpected store entry %x=%x", k, v)
		}
		noise++
	}
	it.Release()
	if noise != len(noiseKeys) {
		bad = fmt.Sprintf("%d of %d foreign store entries left", noise, len(noiseKeys))
	}
	var cat []byte
	var b2 string
	p.Blk, p.Ws, cat, b2 = s.cells(s.ov.GetWriteSet())
	if b2 != "" {
		bad = b2
	}
	h := s.ov.ChangeHash()
	p.Digest = hex.EncodeToString(h[:])
	sum := sha256.Sum256(cat)
	p.ShaWs = hex.EncodeToString(sum[:])
	// tx layer
	s.ov.Reset()
	s.cdb.Commit()
	p.Tx, _, _, b2 = s.cells(s.ov.GetWriteSet())
	if b2 != "" {
		bad = "tx layer: " + b2
	}
	return p, bad
}

// expectedDigest: the free function symbol Sha of Overlay.tla evaluated with the real SHA-256 on the concretized sequence.
func expectedDigest(kv *keyVariant, ws []okv) string {
	h := sha256.New()
	for _, e := range ws {
		h.Write(raw(kv.keys[e.K-1]))
		if e.V != "T" {
			h.Write(valBytes[e.V])
		}
	}
	return hex.EncodeToString(h.Sum(nil))
}

// ---------------------------------------------------------------- P-EDGE / P-REPLAY

type ohop struct {
	Op string `json:"op"`
	A  []int  `json:"a"`
	V  string `json:"v"`
}
type ohist struct {
	S0  []string `json:"s0"`
	Ops []ohop   `json:"ops"`
}
type oedge struct {
	H    ohist           `json:"h"`
	Op   string          `json:"op"`
	A    []int           `json:"a"`
	V    string          `json:"v"`
	Obs  json.RawMessage `json:"obs"`
	Post opost           `json:"post"`
}

func minI(a, b int) int {
	if a < b {
		return a
	}
	return b
}

func pickVariant(k int, op string, a []int, salt uint64) *keyVariant {
	vs := variantSets[k]
	var ok []*keyVariant
	for _, v := range vs {
		if op == "tscan" || op == "bscan" || op == "tscanw" {
			lo, hi := a[0], a[1]
			if lo > hi {
				lo, hi = 1, 0
			}
			if len(v.pfx[[2]int{lo, hi}]) == 0 {
				continue
			}
		}
		ok = append(ok, v)
	}
	if len(ok) == 0 {
		vio.Fatal("no key variant with %d keys supports %s %v", k, op, a)
	}
	return ok[int(salt%uint64(len(ok)))]
}

// overlayEdges: stdin = EDGE lines (mode "edge") or TRACE lines (mode "trace": no final op) of Overlay.tla.
func overlayEdges(k int, mode string) {
	lines := vio.ReadLines()
	seed := vio.Seed()
	var mu sync.Mutex
	mismatch := 0
	distinct := map[string]bool{}
	byWs := map[string]map[string]bool{} // predicted write sequence -> real digests seen (per key variant)
	vio.ParMap(len(lines), 16, func(i int) {
		var e oedge
		if err := json.Unmarshal(lines[i], &e); err != nil {
			vio.Fatal("bad edge: %v", err)
		}
		salt := (uint64(i) + 1) * (seed*2654435761 + 12345)
		kv := pickVariant(k, e.Op, e.A[:minI(len(e.A), 2)], salt>>7)
		var got interface{}
		var post opost
		var bad string
		unclean := ""
		pan := vio.Safe(func() {
			var st *ostack
			st, unclean = getStack(kv, e.H.S0, vio.NewRNG(salt))
			ok := false
			defer func() {
				if ok {
					putStack(st)
				} else {
					st.close()
				}
			}()
			for _, h := range e.H.Ops {
				st.apply(h.Op, h.A, h.V)
			}
			if mode == "edge" {
				got = st.apply(e.Op, e.A, e.V)
			}
			post, bad = st.project()
			ok = true
		})
		var diffs []string
		if pan != "" {
			diffs = append(diffs, "panic")
		}
		if bad != "" {
			diffs = append(diffs, "inconsistent")
		}
		if unclean != "" {
			diffs = append(diffs, "unclean")
			bad += " " + unclean
		}
		if pan == "" {
			if mode == "edge" && norm(got) != normRaw(e.Obs) {
				diffs = append(diffs, "obs")
			}
			if norm(post.St) != norm(e.Post.St) {
				diffs = append(diffs, "st")
			}
			if norm(post.Blk) != norm(e.Post.Blk) {
				diffs = append(diffs, "blk")
			}
			if norm(post.Tx) != norm(e.Post.Tx) {
				diffs = append(diffs, "tx")
			}
			if norm(post.Ws) != norm(e.Post.Ws) {
				diffs = append(diffs, "ws")
			}
			if post.Digest != expectedDigest(kv, e.Post.Ws) {
				diffs = append(diffs, "digest")
			}
		}
		mu.Lock()
		defer mu.Unlock()
		nontrivial := len(e.H.Ops) > 0 || e.Op == "tscan" || e.Op == "bscan" || e.Op == "tscanw" || e.Op == "flush"
		if nontrivial {
			distinct[e.Op+fmt.Sprint(e.A)+e.V+normRaw(e.Obs)+norm(e.Post)] = true
		}
		wk := fmt.Sprintf("%q|%s", kv.keys, norm(e.Post.Ws))
		if byWs[wk] == nil {
			byWs[wk] = map[string]bool{}
		}
		byWs[wk][post.Digest] = true
		if len(diffs) > 0 {
			mismatch++
			if mismatch <= 20 {
				vio.Emit(map[string]interface{}{"mismatch": true, "diffs": diffs, "edge": json.RawMessage(lines[i]), "got": got, "gotPost": post,
					"panic": pan, "inconsistent": bad, "keys": fmt.Sprintf("%q", kv.keys), "expDigest": expectedDigest(kv, e.Post.Ws)})
			}
		}
	})
	multi, groups := 0, 0
	for _, ds := range byWs {
		groups++
		if len(ds) > 1 {
			multi++
		}
	}
	vio.Emit(map[string]interface{}{"summary": true, "edges": len(lines), "mismatches": mismatch, "distinct": len(distinct),
		"wsGroups": groups, "wsGroupsWithSeveralDigests": multi})
}

// ---------------------------------------------------------------- P-VALIDATE: recorded histories

var keyPool = []string{"", "\x00", "\x00\x00", "\x05", "a", "a\x00", "ab", "ab\xff", "abc", "b", "b\xff", "c", "k\xff", "k\xff\xff", "l", "\xfe", "\xff", "\xff\xff"}

func randomVariant(rng *vio.RNG, k int) *keyVariant {
	p := rng.Perm(len(keyPool))[:k]
	ks := make([]string, k)
	for i, j := range p {
		ks[i] = keyPool[j]
	}
	sort.Strings(ks) // Go string order is byte order
	return newVariant(bs(ks...))
}

func randomStore(rng *vio.RNG, k int) []string {
	s := make([]string, k)
	for i := range s {
		s[i] = []string{"U", "U", "x", "y"}[rng.Intn(4)]
	}
	return s
}

func (s *ostack) randomRange() (int, int) {
	var rs [][2]int
	for r := range s.kv.pfx {
		rs = append(rs, r)
	}
	sort.Slice(rs, func(i, j int) bool { return rs[i][0]*100+rs[i][1] < rs[j][0]*100+rs[j][1] })
	r := rs[s.rng.Intn(len(rs))]
	return r[0], r[1]
}

// overlayRecord: n random histories of `length` ops over 5 keys on the real stack; one event per call, logged at return.
func overlayRecord(n, length int) {
	rng := vio.NewRNG(vio.Seed() + 77)
	const K = 5
	vals := []string{"x", "y", "T"}
	for t := 0; t < n; t++ {
		kv := randomVariant(rng, K)
		s0 := randomStore(rng, K)
		st := newStack(kv, s0, rng)
		vio.Emit(map[string]interface{}{"op": "reset", "a": []int{}, "v": "", "s0": s0, "keys": fmt.Sprintf("%q", kv.keys)})
		for i := 0; i < length; i++ {
			var op string
			a := []int{}
			v := ""
			switch r := rng.Intn(100); {
			case r < 22:
				op, a, v = "tput", []int{1 + rng.Intn(K)}, vals[rng.Intn(3)]
			case r < 32:
				op, a, v = "bput", []int{1 + rng.Intn(K)}, vals[rng.Intn(3)]
			case r < 42:
				op, a = "tget", []int{1 + rng.Intn(K)}
			case r < 50:
				op, a = "bget", []int{1 + rng.Intn(K)}
			case r < 58:
				lo, hi := st.randomRange()
				op, a = "tscan", []int{lo, hi}
			case r < 64:
				lo, hi := st.randomRange()
				op, a = "bscan", []int{lo, hi}
			case r < 77:
				// iterator life cycle: open; 0..3 reads / out-of-range writes as separate events; walk
				lo, hi := st.randomRange()
				op = []string{"topen", "topen", "bopen"}[rng.Intn(3)]
				st.apply(op, []int{lo, hi}, "")
				vio.Emit(map[string]interface{}{"op": op, "a": []int{lo, hi}, "v": "", "obs": ""})
				for j := rng.Intn(4); j > 0; j-- {
					k := 1 + rng.Intn(K)
					iop, iv := []string{"tget", "bget", "tput", "bput"}[rng.Intn(4)], ""
					if iop == "tput" || iop == "bput" {
						if k >= lo && k <= hi {
							iop = "tget" // writes only outside the scanned range
						} else {
							iv = vals[rng.Intn(3)]
						}
					}
					o := st.apply(iop, []int{k}, iv)
					vio.Emit(map[string]interface{}{"op": iop, "a": []int{k}, "v": iv, "obs": o})
				}
				op, a = "walk", []int{}
			case r < 85:
				op = "tcommit"
			case r < 90:
				op = "treset"
			case r < 92:
				op = "breset"
			case r < 94:
				op = "newbatch"
				st.bopen = true
			case r < 97:
				if !st.bopen {
					op = "newbatch"
					st.bopen = true
				} else {
					op = "committo"
				}
			default:
				if !st.bopen {
					op = "tcommit"
				} else {
					op = "batchcommit"
					st.bopen = false
				}
			}
			var o interface{}
			if p := vio.Safe(func() { o = st.apply(op, a, v) }); p != "" {
				vio.Emit(map[string]interface{}{"op": "PANIC", "a": a, "v": v, "obs": map[string]string{"panic": p, "in": op}})
				st.close()
				return
			}
			vio.Emit(map[string]interface{}{"op": op, "a": a, "v": v, "obs": o})
			if rng.Intn(12) == 0 {
				emitDigest(st, nil)
			}
		}
		emitDigest(st, nil)
		st.close()
	}
}

var digestIDs = map[string]int{}
var digestMu sync.Mutex

// emitDigest logs the block layer's write set and change hash (interned to a small integer by first occurrence).
func emitDigest(st *ostack, extra map[string]interface{}) {
	_, ws, cat, bad := st.cells(st.ov.GetWriteSet())
	h := st.ov.ChangeHash()
	key := fmt.Sprintf("%q|%x", st.kv.keys, h[:]) // digests are compared within one key concretization
	digestMu.Lock()
	id, ok := digestIDs[key]
	if !ok {
		id = len(digestIDs) + 1
		digestIDs[key] = id
	}
	digestMu.Unlock()
	sum := sha256.Sum256(cat)
	ev := map[string]interface{}{"op": "digest", "a": []int{}, "v": "", "obs": ws, "d": id, "kid": variantID(st.kv),
		"shaok": bytes.Equal(sum[:], h[:]) && hex.EncodeToString(h[:]) == expectedDigest(st.kv, ws), "bad": bad, "hex": hex.EncodeToString(h[:])}
	for k, v := range extra {
		ev[k] = v
	}
	vio.Emit(ev)
}

var variantIDs = map[string]int{}

func variantID(kv *keyVariant) int {
	k := fmt.Sprintf("%q", kv.keys)
	digestMu.Lock()
	defer digestMu.Unlock()
	id, ok := variantIDs[k]
	if !ok {
		id = len(variantIDs) + 1
		variantIDs[k] = id
	}
	return id
}
