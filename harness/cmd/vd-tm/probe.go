package main

import (
	"github.com/polynetwork/poly/common"
	ccm "github.com/polynetwork/poly/native/service/cross_chain_manager"
	scom "github.com/polynetwork/poly/native/service/cross_chain_manager/common"
	ccos "github.com/polynetwork/poly/native/service/cross_chain_manager/cosmos"
	hcos "github.com/polynetwork/poly/native/service/header_sync/cosmos"
	"github.com/tendermint/tendermint/crypto/merkle"

	"verifh/kit/nativekit"
	"verifh/kit/vio"
)

// probeEmptyProof (observation, not part of a check): cosmos deposit with an empty key path and a proof without
// operators under a correctly signed header.
func probeEmptyProof() {
	u := newUniverse()
	defer u.close()
	r := vio.NewRNG(vio.Seed())
	w := newTmWorld(u, "cosmos", r, [][]int64{{1, 1, 1}})
	vio.Must(w.genesis(1, 1))
	a := &absHdr{H: 2, Vs: 1, Vh: 1, Nv: 1, Cm: "this", Votes: []string{"c", "c", "c"}}
	ch := w.build(a, r.Bytes(32))
	pb, _ := hcos.Cdc.MarshalBinaryBare(merkle.Proof{})
	extra, _ := hcos.Cdc.MarshalBinaryBare(ccos.CosmosProofValue{Kp: "", Value: []byte("/s/abc")})
	imp := &scom.EntranceParam{SourceChainID: w.chain, Height: uint32(heightOf(2)), Proof: pb, RelayerAddress: u.op.Address[:], Extra: extra, HeaderOrCrossChainMsg: w.enc(ch)}
	sink := common.NewZeroCopySink(nil)
	imp.Serialization(sink)
	var errs string
	p := vio.Safe(func() {
		_, _, err := u.sb.Call(ccm.ImportExTransfer, nativekit.Tx(u.op.Address), sink.Bytes())
		if err != nil {
			errs = err.Error()
		}
	})
	vio.Emit(map[string]interface{}{"probe": "cosmos deposit, empty key path, proof without operators", "panic": p, "err": errs})
}
