package main

import (
	"bytes"
	"fmt"
	"time"

	"github.com/polynetwork/poly/account"
	"github.com/polynetwork/poly/common"
	ccm "github.com/polynetwork/poly/native/service/cross_chain_manager"
	scom "github.com/polynetwork/poly/native/service/cross_chain_manager/common"
	scm "github.com/polynetwork/poly/native/service/governance/side_chain_manager"
	hs "github.com/polynetwork/poly/native/service/header_sync"
	hscom "github.com/polynetwork/poly/native/service/header_sync/common"
	hcos "github.com/polynetwork/poly/native/service/header_sync/cosmos"
	"github.com/polynetwork/poly/native/service/header_sync/okex"
	"github.com/polynetwork/poly/native/service/utils"
	"github.com/tendermint/tendermint/crypto"
	"github.com/tendermint/tendermint/crypto/ed25519"
	"github.com/tendermint/tendermint/crypto/secp256k1"
	tmtypes "github.com/tendermint/tendermint/types"

	"verifh/kit/nativekit"
	"verifh/kit/vio"
)

// universe: one sandbox shared by many scenarios, each with its own side-chain ids (see vd-ontneo).
type universe struct {
	sb     *nativekit.Sandbox
	op     *account.Account
	next   uint64
	target uint64
}

func newUniverse() *universe {
	sb := nativekit.New()
	accts := nativekit.Accounts(1)
	sb.SeedValidators(accts, 1)
	u := &universe{sb: sb, op: accts[0], next: 1000}
	u.target = u.registerChain(utils.ETH_ROUTER, nil)
	return u
}

func (u *universe) close() { u.sb.Store.Close() }

func (u *universe) registerChain(router uint64, extra []byte) uint64 {
	u.next++
	ns := u.sb.Service(nativekit.Tx(), nil)
	vio.Must(scm.PutSideChain(ns, &scm.SideChain{ChainId: u.next, Router: router, Name: "c", BlocksToWait: 1, CCMCAddress: []byte{1}, ExtraInfo: extra}))
	u.sb.Cache.Commit()
	return u.next
}

// tmVal is one validator with its private key.
type tmVal struct {
	priv crypto.PrivKey
	val  *tmtypes.Validator
}

// tmWorld is one synthetic Tendermint chain: a menu of validator sets (id -> validators in the abstract order of
// the spec's Powers[id]) and a block version (10: amino hashes, 11: protobuf hashes).
type tmWorld struct {
	u       *universe
	flav    string // cosmos | okex | heimdall
	chain   uint64
	chainID string
	version uint64
	sets    map[int][]*tmVal
	hashes  map[int][]byte
	rng     *vio.RNG
	hm      *heimdall
}

func heightOf(h int) int64 { return 1000 + 10*int64(h) }
func absHeight(H int64) int {
	if H < 1000 || (H-1000)%10 != 0 {
		return -1
	}
	return int((H - 1000) / 10)
}

func newTmWorld(u *universe, flav string, r *vio.RNG, powers [][]int64) *tmWorld {
	if flav == "" {
		flav = "cosmos"
	}
	if flav == "heimdall" {
		return newHeimdallWorld(u, r, powers)
	}
	router := map[string]uint64{"cosmos": utils.COSMOS_ROUTER, "okex": utils.OKEX_ROUTER}[flav]
	w := &tmWorld{u: u, flav: flav, chain: u.registerChain(router, nil), rng: r, sets: map[int][]*tmVal{}, hashes: map[int][]byte{}}
	w.chainID = fmt.Sprintf("c30-%d", r.Intn(1000))
	w.version = uint64(10 + r.Intn(2))
	if flav == "okex" {
		w.version = 10 // okex hashes the legacy (amino) way only
	}
	for id, ps := range powers {
		var vs []*tmVal
		for _, p := range ps {
			var priv crypto.PrivKey
			if r.Intn(4) == 0 {
				priv = secp256k1.GenPrivKeySecp256k1(r.Bytes(32))
			} else {
				priv = ed25519.GenPrivKeyFromSecret(r.Bytes(32))
			}
			vs = append(vs, &tmVal{priv: priv, val: tmtypes.NewValidator(priv.PubKey(), p)})
		}
		w.sets[id+1] = vs
		w.hashes[id+1] = hcos.HashCosmosValSet(tmtypes.NewValidatorSet(w.plain(id+1)), w.version)
	}
	return w
}

func (w *tmWorld) plain(id int) []*tmtypes.Validator {
	var vs []*tmtypes.Validator
	for _, v := range w.sets[id] {
		vs = append(vs, v.val.Copy())
	}
	return vs
}

func (w *tmWorld) setID(hash []byte) int {
	for id, h := range w.hashes {
		if bytes.Equal(h, hash) {
			return id
		}
	}
	return 0
}

// absHdr is a header of spec/Tendermint.tla.
type absHdr struct {
	H     int      `json:"h"`
	Vs    int      `json:"vs"`
	Vh    int      `json:"vh"`
	Nv    int      `json:"nv"`
	Cm    string   `json:"cm"`
	Votes []string `json:"votes"`
}

// build makes the concrete CosmosHeader for an abstract header, carrying appHash.
func (w *tmWorld) build(a *absHdr, appHash []byte) *hcos.CosmosHeader {
	r := w.rng
	hdr := tmtypes.Header{ChainID: w.chainID, Height: heightOf(a.H), Time: time.Unix(1600000000+int64(a.H)*60, 0).UTC(),
		ValidatorsHash: w.hashes[a.Vh], NextValidatorsHash: w.hashes[a.Nv], AppHash: appHash,
		LastCommitHash: r.Bytes(32), DataHash: r.Bytes(32), ConsensusHash: r.Bytes(32), ProposerAddress: r.Bytes(20)}
	hdr.Version.Block = tmVersion(w.version)
	// supplied validators: a random permutation (version < 11: the code sorts; >= 11: the code indexes as supplied)
	members := w.sets[a.Vs]
	perm := r.Perm(len(members))
	supplied := make([]*tmtypes.Validator, len(members))
	for i, p := range perm {
		supplied[i] = members[p].val.Copy()
	}
	ch := &hcos.CosmosHeader{Header: hdr, Valsets: supplied}
	// order in which the code reads the signatures
	var order []*tmtypes.Validator
	if w.version < 11 {
		order = tmtypes.NewValidatorSet(w.plain(a.Vs)).Validators
	} else {
		order = supplied
	}
	abstractIndex := func(v *tmtypes.Validator) int {
		for i, m := range members {
			if bytes.Equal(m.val.Address, v.Address) {
				return i
			}
		}
		vio.Fatal("validator not found")
		return -1
	}
	blockHash := hcos.HashCosmosHeader(hdr)
	commitHeight := hdr.Height
	switch a.Cm {
	case "other":
		blockHash = r.Bytes(32)
	case "badh":
		commitHeight = hdr.Height + 1 + int64(r.Intn(3))
	}
	commit := &tmtypes.Commit{Height: commitHeight, Round: r.Intn(3),
		BlockID: tmtypes.BlockID{Hash: blockHash, PartsHeader: tmtypes.PartSetHeader{Total: 1, Hash: r.Bytes(32)}}}
	ch.Commit = commit
	n := len(a.Votes)
	votes := make([]string, n)
	signers := make([]*tmVal, n)
	for pos := 0; pos < n; pos++ {
		if pos < len(order) {
			ai := abstractIndex(order[pos])
			signers[pos] = members[ai]
			if ai < len(a.Votes) {
				votes[pos] = a.Votes[ai]
			} else {
				votes[pos] = "-" // this validator's entry was dropped from the abstract vector: handled below
			}
		} else { // surplus entry: a stranger's commit vote
			priv := ed25519.GenPrivKeyFromSecret(r.Bytes(32))
			signers[pos] = &tmVal{priv: priv, val: tmtypes.NewValidator(priv.PubKey(), 1)}
			votes[pos] = a.Votes[pos]
		}
	}
	if n < len(order) { // short vector: keep the votes of the first n positions in code order, all as given
		for pos := 0; pos < n; pos++ {
			votes[pos] = a.Votes[pos]
		}
	}
	ts := time.Unix(1600000000+int64(a.H)*60+5, 0).UTC()
	fkind := make([]int, n)
	for pos := 0; pos < n; pos++ {
		cs := tmtypes.CommitSig{ValidatorAddress: signers[pos].val.Address, Timestamp: ts}
		switch votes[pos] {
		case "c":
			cs.BlockIDFlag = tmtypes.BlockIDFlagCommit
		case "n":
			cs.BlockIDFlag = tmtypes.BlockIDFlagNil
		case "a":
			cs = tmtypes.NewCommitSigAbsent()
		case "r":
			cs.BlockIDFlag = tmtypes.BlockIDFlagCommit
		case "f":
			fkind[pos] = r.Intn(5)
			cs.BlockIDFlag = tmtypes.BlockIDFlagCommit
			if fkind[pos] == 4 { // a nil vote whose signature is a commit signature
				cs.BlockIDFlag = tmtypes.BlockIDFlagNil
			}
		default:
			vio.Fatal("bad vote %q", votes[pos])
		}
		commit.Signatures = append(commit.Signatures, cs)
	}
	for pos := 0; pos < n; pos++ {
		cs := &commit.Signatures[pos]
		switch votes[pos] {
		case "c", "n":
			sig, err := signers[pos].priv.Sign(hcos.VoteSignBytes(ch, pos))
			vio.Must(err)
			cs.Signature = sig
		case "f":
			switch fkind[pos] {
			case 0: // random bytes
				cs.Signature = r.Bytes(64)
			case 1: // somebody else's valid signature
				sig, _ := ed25519.GenPrivKeyFromSecret(r.Bytes(32)).Sign(hcos.VoteSignBytes(ch, pos))
				cs.Signature = sig
			case 2: // the validator's signature for another block
				saved := commit.BlockID.Hash
				commit.BlockID.Hash = r.Bytes(32)
				sig, _ := signers[pos].priv.Sign(hcos.VoteSignBytes(ch, pos))
				commit.BlockID.Hash = saved
				cs.Signature = sig
			case 3: // the validator's NIL vote relabelled as a commit vote
				cs.BlockIDFlag = tmtypes.BlockIDFlagNil
				sig, _ := signers[pos].priv.Sign(hcos.VoteSignBytes(ch, pos))
				cs.BlockIDFlag = tmtypes.BlockIDFlagCommit
				cs.Signature = sig
			case 4: // the validator's COMMIT vote relabelled as nil
				cs.BlockIDFlag = tmtypes.BlockIDFlagCommit
				sig, _ := signers[pos].priv.Sign(hcos.VoteSignBytes(ch, pos))
				cs.BlockIDFlag = tmtypes.BlockIDFlagNil
				cs.Signature = sig
			}
		}
	}
	// "r": the slot repeats the first committing validator's vote (address, timestamp, signature)
	first := -1
	for ai, v := range a.Votes {
		if v == "c" {
			for pos := 0; pos < n && pos < len(order); pos++ {
				if abstractIndex(order[pos]) == ai {
					first = pos
				}
			}
			break
		}
	}
	for pos := 0; pos < n; pos++ {
		if votes[pos] == "r" {
			if first < 0 {
				commit.Signatures[pos].Signature = r.Bytes(64)
				continue
			}
			commit.Signatures[pos] = commit.Signatures[first]
		}
	}
	return ch
}

func (w *tmWorld) enc(ch *hcos.CosmosHeader) []byte {
	if w.flav == "okex" {
		b, err := okex.NewCDC().MarshalBinaryBare(okex.CosmosHeader{Header: ch.Header, Commit: ch.Commit, Valsets: ch.Valsets})
		vio.Must(err)
		return b
	}
	b, err := hcos.Cdc.MarshalBinaryBare(*ch)
	vio.Must(err)
	return b
}

func (w *tmWorld) genesis(h, nv int) error {
	g := hcos.CosmosHeader{Header: tmtypes.Header{ChainID: w.chainID, Height: heightOf(h), ValidatorsHash: w.hashes[nv],
		NextValidatorsHash: w.hashes[nv], Time: time.Unix(1500000000, 0).UTC()}, Commit: &tmtypes.Commit{}, Valsets: w.plain(nv)}
	g.Header.Version.Block = tmVersion(w.version)
	if w.flav == "heimdall" {
		return w.hm.genesis(w, h, nv)
	}
	p := &hscom.SyncGenesisHeaderParam{ChainID: w.chain, GenesisHeader: w.enc(&g)}
	sink := common.NewZeroCopySink(nil)
	p.Serialization(sink)
	_, _, err := w.u.sb.Call(hs.SyncGenesisHeader, nativekit.Tx(w.u.op.Address), sink.Bytes())
	return err
}

type tracked struct {
	H  int `json:"h"`
	Nv int `json:"nv"`
}

func (w *tmWorld) tracked() tracked {
	info, err := hcos.GetEpochSwitchInfo(w.u.sb.Service(nativekit.Tx(), nil), w.chain)
	if err != nil {
		return tracked{-1, -1}
	}
	return tracked{absHeight(info.Height), w.setID(info.NextValidatorsHash)}
}

func (w *tmWorld) sync(hdrs []*absHdr) (ok bool, panicked string) {
	p := &hscom.SyncBlockHeaderParam{ChainID: w.chain, Address: w.u.op.Address}
	for _, a := range hdrs {
		if w.flav == "heimdall" {
			p.Headers = append(p.Headers, w.hm.header(w, a))
		} else {
			p.Headers = append(p.Headers, w.enc(w.build(a, w.rng.Bytes(32))))
		}
	}
	sink := common.NewZeroCopySink(nil)
	p.Serialization(sink)
	panicked = vio.Safe(func() {
		_, _, err := w.u.sb.Call(hs.SyncBlockHeader, nativekit.Tx(w.u.op.Address), sink.Bytes())
		ok = err == nil
	})
	if panicked != "" {
		w.u.sb.Cache.Reset()
	}
	return
}

func (w *tmWorld) deposit(a *absHdr, kind string) (ok bool, panicked string, detail string) {
	d := w.makeDeposit(kind)
	ch := w.build(a, d.appHash)
	imp := &scom.EntranceParam{SourceChainID: w.chain, Height: uint32(heightOf(a.H)), Proof: d.proof, RelayerAddress: w.u.op.Address[:],
		Extra: d.extra, HeaderOrCrossChainMsg: w.enc(ch)}
	sink := common.NewZeroCopySink(nil)
	imp.Serialization(sink)
	var hashes int
	panicked = vio.Safe(func() {
		_, ns, err := w.u.sb.Call(ccm.ImportExTransfer, nativekit.Tx(w.u.op.Address), sink.Bytes())
		ok = err == nil
		if err != nil {
			detail = err.Error()
		} else {
			hashes = len(ns.GetCrossHashes())
		}
	})
	if panicked != "" {
		w.u.sb.Cache.Reset()
	}
	if ok && hashes != 1 {
		detail = fmt.Sprintf("accepted with %d cross hashes", hashes)
	}
	return
}
