package main

import (
	ics23 "github.com/confio/ics23/go"
	"github.com/polynetwork/poly/common"
	scom "github.com/polynetwork/poly/native/service/cross_chain_manager/common"
	ccos "github.com/polynetwork/poly/native/service/cross_chain_manager/cosmos"
	hcos "github.com/polynetwork/poly/native/service/header_sync/cosmos"
	"github.com/tendermint/tendermint/crypto/merkle"
	"github.com/tendermint/tendermint/version"

	"verifh/kit/vio"
)

func tmVersion(v uint64) version.Protocol { return version.Protocol(v) }

type depositData struct {
	appHash, proof, extra []byte
}

// safeBytes: random bytes without '/' and '%' (so that they survive being read as a URL-escaped key path segment).
func safeBytes(r *vio.RNG, n int) []byte {
	b := r.Bytes(n)
	for i := range b {
		for b[i] == '/' || b[i] == '%' {
			b[i] = byte(r.Intn(256))
		}
	}
	return b
}

func op(t *simpleTree, typ string, key []byte, p *ics23.CommitmentProof) merkle.ProofOp {
	return ccos.CommitmentOp{Type: typ, Spec: ics23.TendermintSpec, Key: key, Proof: p}.ProofOp()
}

// makeDeposit builds a synthetic application state (a store "s" inside an app-level tree), a fresh cross-chain
// message and the proof material of the requested kind.
func (w *tmWorld) makeDeposit(kind string) *depositData {
	r := w.rng
	// the message; for the absence trick its bytes must double as the key path "/s/<rest>"
	txHash := make([]byte, 47) // 47 = '/'
	copy(txHash, append([]byte("s/"), safeBytes(r, 45)...))
	msg := &scom.MakeTxParam{TxHash: txHash, CrossChainID: safeBytes(r, 8), FromContractAddress: safeBytes(r, 20),
		ToChainID: w.u.target, ToContractAddress: safeBytes(r, 20), Method: "unlock", Args: safeBytes(r, 30)}
	ms := common.NewZeroCopySink(nil)
	msg.Serialization(ms)
	value := ms.Bytes()
	for i, b := range value[3:] { // ToChainID etc. may still contain the two characters: re-draw the chain-independent parts
		if b == '/' || b == '%' {
			_ = i
			return w.makeDeposit(kind)
		}
	}
	key := safeBytes(r, 6+r.Intn(20))
	store := map[string][]byte{}
	for i := r.Intn(4); i > 0; i-- {
		store[string(r.Bytes(1+r.Intn(8)))] = r.Bytes(1 + r.Intn(30))
	}
	app := map[string][]byte{}
	for i := r.Intn(3); i > 0; i-- {
		app[string(safeBytes(r, 2+r.Intn(5)))] = r.Bytes(32)
	}
	exists := kind == "exist" || kind == "exist-badval" || kind == "exist-badroot" || kind == "exist-nokp"
	absentKey := key
	if kind == "absent-nokp" {
		absentKey = value[3:] // the message bytes after "/s/"
	}
	if exists {
		store[string(key)] = value
	} else {
		delete(store, string(absentKey))
		if len(store) == 0 {
			store[string(r.Bytes(3))] = r.Bytes(5)
		}
	}
	st := newSimpleTree(store)
	app["s"] = st.root()
	at := newSimpleTree(app)
	d := &depositData{appHash: at.root()}
	var op1 merkle.ProofOp
	if exists {
		op1 = op(st, ccos.ProofOpSimpleMerkleCommitment, key, st.existProof(key))
	} else {
		op1 = op(st, ccos.ProofOpSimpleMerkleCommitment, absentKey, st.nonExistProof(absentKey))
	}
	op2 := op(at, ccos.ProofOpSimpleMerkleCommitment, []byte("s"), at.existProof([]byte("s")))
	pb, err := hcos.Cdc.MarshalBinaryBare(merkle.Proof{Ops: []merkle.ProofOp{op1, op2}})
	vio.Must(err)
	d.proof = pb
	kp := merkle.KeyPath{}.AppendKey([]byte("s"), merkle.KeyEncodingURL).AppendKey(key, merkle.KeyEncodingHex).String()
	sent := value
	switch kind {
	case "exist", "absent-kp":
	case "exist-badval":
		m2 := *msg
		m2.Args = append([]byte{0x7e}, msg.Args...)
		s2 := common.NewZeroCopySink(nil)
		m2.Serialization(s2)
		sent = s2.Bytes()
	case "exist-badroot":
		d.appHash = r.Bytes(32)
	case "exist-nokp", "absent-nokp":
		kp = ""
	default:
		vio.Fatal("unknown proof kind %q", kind)
	}
	d.extra, err = hcos.Cdc.MarshalBinaryBare(ccos.CosmosProofValue{Kp: kp, Value: sent})
	vio.Must(err)
	return d
}
