package main

import (
	"bytes"
	"fmt"
	"sort"
	"time"

	"github.com/polynetwork/poly/common"
	hs "github.com/polynetwork/poly/native/service/header_sync"
	hscom "github.com/polynetwork/poly/native/service/header_sync/common"
	"github.com/polynetwork/poly/native/service/header_sync/polygon"
	ptypes "github.com/polynetwork/poly/native/service/header_sync/polygon/types"
	psecp "github.com/polynetwork/poly/native/service/header_sync/polygon/types/secp256k1"
	"github.com/polynetwork/poly/native/service/utils"

	"verifh/kit/nativekit"
	"verifh/kit/vio"
)

// heimdall: the polygon heimdall flavour (tendermint 0.32-style commits: a list of full votes, nil = absent).
type heimdall struct {
	keys map[int][]psecp.PrivKeySecp256k1 // set id -> keys in the abstract order of Powers[id]
	vals map[int][]*ptypes.Validator
}

func newHeimdallWorld(u *universe, r *vio.RNG, powers [][]int64) *tmWorld {
	w := &tmWorld{u: u, flav: "heimdall", chain: u.registerChain(utils.POLYGON_HEIMDALL_ROUTER, nil), rng: r, hashes: map[int][]byte{},
		hm: &heimdall{keys: map[int][]psecp.PrivKeySecp256k1{}, vals: map[int][]*ptypes.Validator{}}}
	w.chainID = fmt.Sprintf("heimdall-%d", r.Intn(1000))
	w.version = 9
	for id, ps := range powers {
		for _, p := range ps {
			k := psecp.GenPrivKeySecp256k1(r.Bytes(32))
			w.hm.keys[id+1] = append(w.hm.keys[id+1], k)
			w.hm.vals[id+1] = append(w.hm.vals[id+1], ptypes.NewValidator(k.PubKey(), p))
		}
		w.hashes[id+1] = ptypes.NewValidatorSet(w.hm.copyVals(id + 1)).Hash()
	}
	return w
}

func (h *heimdall) copyVals(id int) []*ptypes.Validator {
	var vs []*ptypes.Validator
	for _, v := range h.vals[id] {
		vs = append(vs, v.Copy())
	}
	return vs
}

func (h *heimdall) enc(ch *polygon.CosmosHeader) []byte {
	b, err := ptypes.NewCDC().MarshalBinaryBare(*ch)
	vio.Must(err)
	return b
}

func (h *heimdall) genesis(w *tmWorld, ht, nv int) error {
	g := polygon.CosmosHeader{Header: ptypes.Header{ChainID: w.chainID, Height: heightOf(ht), ValidatorsHash: w.hashes[nv],
		NextValidatorsHash: w.hashes[nv], Time: time.Unix(1500000000, 0).UTC()}, Commit: &ptypes.Commit{}, Valsets: h.copyVals(nv)}
	p := &hscom.SyncGenesisHeaderParam{ChainID: w.chain, GenesisHeader: h.enc(&g)}
	sink := common.NewZeroCopySink(nil)
	p.Serialization(sink)
	_, _, err := w.u.sb.Call(hs.SyncGenesisHeader, nativekit.Tx(w.u.op.Address), sink.Bytes())
	return err
}

// header builds the concrete heimdall header for an abstract header.
func (h *heimdall) header(w *tmWorld, a *absHdr) []byte {
	r := w.rng
	hdr := ptypes.Header{ChainID: w.chainID, Height: heightOf(a.H), Time: time.Unix(1600000000+int64(a.H)*60, 0).UTC(),
		ValidatorsHash: w.hashes[a.Vh], NextValidatorsHash: w.hashes[a.Nv], AppHash: r.Bytes(32),
		LastCommitHash: r.Bytes(32), DataHash: r.Bytes(32), ConsensusHash: r.Bytes(32), ProposerAddress: r.Bytes(20)}
	members := h.vals[a.Vs]
	keys := h.keys[a.Vs]
	supplied := h.copyVals(a.Vs)
	for i, p := range r.Perm(len(supplied)) {
		supplied[i], supplied[p] = supplied[p], supplied[i]
	}
	// positions = validator-set order (by address)
	orderIdx := make([]int, len(members))
	for i := range orderIdx {
		orderIdx[i] = i
	}
	sort.Slice(orderIdx, func(x, y int) bool { return bytes.Compare(members[orderIdx[x]].Address, members[orderIdx[y]].Address) < 0 })
	blockID := ptypes.BlockID{Hash: hdr.Hash(), PartsHeader: ptypes.PartSetHeader{Total: 1, Hash: r.Bytes(32)}}
	voteHeight := hdr.Height
	switch a.Cm {
	case "other":
		blockID.Hash = r.Bytes(32)
	case "badh":
		voteHeight = hdr.Height + 1 + int64(r.Intn(3))
	}
	round := r.Intn(3)
	commit := &ptypes.Commit{BlockID: blockID}
	n := len(a.Votes)
	ts := time.Unix(1600000000+int64(a.H)*60+5, 0).UTC()
	type slot struct {
		vote string
		key  psecp.PrivKeySecp256k1
		addr []byte
	}
	slots := make([]slot, n)
	for pos := 0; pos < n; pos++ {
		switch {
		case n < len(members): // short vector: the first n positions vote as given
			slots[pos] = slot{a.Votes[pos], keys[orderIdx[pos]], members[orderIdx[pos]].Address}
		case pos < len(members):
			ai := orderIdx[pos]
			slots[pos] = slot{a.Votes[ai], keys[ai], members[ai].Address}
		default: // surplus entry by a stranger
			k := psecp.GenPrivKeySecp256k1(r.Bytes(32))
			slots[pos] = slot{a.Votes[pos], k, k.PubKey().Address()}
		}
	}
	commit.Precommits = make([]*ptypes.CommitSig, n)
	fkind := make([]int, n)
	for pos, s := range slots {
		v := &ptypes.CommitSig{Type: ptypes.PrecommitType, Height: voteHeight, Round: round, BlockID: blockID, Timestamp: ts,
			ValidatorAddress: s.addr, ValidatorIndex: pos}
		switch s.vote {
		case "c", "r":
		case "n":
			v.BlockID = ptypes.BlockID{}
		case "a":
			v = nil
		case "f":
			fkind[pos] = r.Intn(4)
		default:
			vio.Fatal("bad vote %q", s.vote)
		}
		commit.Precommits[pos] = v
	}
	sign := func(pos int, k psecp.PrivKeySecp256k1) []byte {
		sig, err := k.Sign(commit.VoteSignBytes(w.chainID, pos))
		vio.Must(err)
		return sig
	}
	for pos, s := range slots {
		v := commit.Precommits[pos]
		switch s.vote {
		case "c", "n":
			v.Signature = sign(pos, s.key)
		case "f":
			switch fkind[pos] {
			case 0:
				v.Signature = r.Bytes(65)
			case 1: // a stranger's valid signature
				v.Signature = sign(pos, psecp.GenPrivKeySecp256k1(r.Bytes(32)))
			case 2: // the validator's signature for another block
				saved := v.BlockID
				v.BlockID = ptypes.BlockID{Hash: r.Bytes(32), PartsHeader: saved.PartsHeader}
				v.Signature = sign(pos, s.key)
				v.BlockID = saved
			case 3: // the validator's NIL vote relabelled as a vote for the block
				saved := v.BlockID
				v.BlockID = ptypes.BlockID{}
				v.Signature = sign(pos, s.key)
				v.BlockID = saved
			}
		}
	}
	// "r": the slot repeats the first committing validator's whole vote (including its validator index)
	first := -1
	for ai, vt := range a.Votes {
		if vt == "c" {
			for pos := range slots {
				if pos < len(members) && n >= len(members) && orderIdx[pos] == ai {
					first = pos
				}
			}
			break
		}
	}
	for pos, s := range slots {
		if s.vote == "r" {
			if first < 0 {
				commit.Precommits[pos].Signature = r.Bytes(65)
				continue
			}
			cp := *commit.Precommits[first]
			commit.Precommits[pos] = &cp
		}
	}
	return h.enc(&polygon.CosmosHeader{Header: hdr, Commit: commit, Valsets: supplied})
}
