// vd-tm: drivers for the Tendermint-family light clients and deposit handlers (C30): cosmos, okex, heimdall.
package main

import (
	"os"

	"verifh/kit/vio"
)

func main() {
	defer vio.Flush()
	if len(os.Args) < 2 {
		vio.Fatal("usage: vd-tm <cmd> ...")
	}
	switch os.Args[1] {
	case "cosmos-edges":
		cosmosEdges()
	case "selfcheck":
		selfCheck()
	case "probe-empty-proof":
		probeEmptyProof()
	default:
		vio.Fatal("unknown command %s", os.Args[1])
	}
}
