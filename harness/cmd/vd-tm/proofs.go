package main

import (
	"bytes"
	"crypto/sha256"
	"sort"

	ics23 "github.com/confio/ics23/go"

	"verifh/kit/vio"
)

// simpleTree is a Tendermint "simple" merkle map (sorted key/value leaves, split at the largest power of two below
// the size) that can produce ics23 existence and non-existence proofs under ics23.TendermintSpec.
type simpleTree struct {
	keys, vals [][]byte
}

func newSimpleTree(kv map[string][]byte) *simpleTree {
	t := &simpleTree{}
	var ks []string
	for k := range kv {
		ks = append(ks, k)
	}
	sort.Strings(ks)
	for _, k := range ks {
		t.keys = append(t.keys, []byte(k))
		t.vals = append(t.vals, kv[k])
	}
	return t
}

func varint(n int) []byte {
	var b []byte
	for n >= 0x80 {
		b = append(b, byte(n)|0x80)
		n >>= 7
	}
	return append(b, byte(n))
}

func leafHash(k, v []byte) []byte {
	vh := sha256.Sum256(v)
	buf := []byte{0}
	buf = append(buf, varint(len(k))...)
	buf = append(buf, k...)
	buf = append(buf, varint(32)...)
	buf = append(buf, vh[:]...)
	h := sha256.Sum256(buf)
	return h[:]
}

func innerHash(l, r []byte) []byte {
	h := sha256.Sum256(append(append([]byte{1}, l...), r...))
	return h[:]
}

func splitPoint(n int) int {
	k := 1
	for k*2 < n {
		k *= 2
	}
	return k
}

// hashRange returns the root of leaves [lo,hi) and, if lo <= idx < hi, the ics23 path of leaf idx (leaf to root).
func (t *simpleTree) hashRange(lo, hi, idx int) ([]byte, []*ics23.InnerOp) {
	if hi-lo == 1 {
		return leafHash(t.keys[lo], t.vals[lo]), nil
	}
	k := splitPoint(hi - lo)
	l, lp := t.hashRange(lo, lo+k, idx)
	r, rp := t.hashRange(lo+k, hi, idx)
	var path []*ics23.InnerOp
	if idx >= lo && idx < lo+k {
		path = append(lp, &ics23.InnerOp{Hash: ics23.HashOp_SHA256, Prefix: []byte{1}, Suffix: r})
	} else if idx >= lo+k && idx < hi {
		path = append(rp, &ics23.InnerOp{Hash: ics23.HashOp_SHA256, Prefix: append([]byte{1}, l...)})
	}
	return innerHash(l, r), path
}

func (t *simpleTree) root() []byte {
	if len(t.keys) == 0 {
		vio.Fatal("empty tree")
	}
	r, _ := t.hashRange(0, len(t.keys), -1)
	return r
}

func (t *simpleTree) exist(i int) *ics23.ExistenceProof {
	_, p := t.hashRange(0, len(t.keys), i)
	return &ics23.ExistenceProof{Key: t.keys[i], Value: t.vals[i], Leaf: ics23.TendermintSpec.LeafSpec, Path: p}
}

func (t *simpleTree) find(key []byte) int {
	for i, k := range t.keys {
		if bytes.Equal(k, key) {
			return i
		}
	}
	return -1
}

func (t *simpleTree) existProof(key []byte) *ics23.CommitmentProof {
	i := t.find(key)
	if i < 0 {
		vio.Fatal("existProof: key not in tree")
	}
	return &ics23.CommitmentProof{Proof: &ics23.CommitmentProof_Exist{Exist: t.exist(i)}}
}

func (t *simpleTree) nonExistProof(key []byte) *ics23.CommitmentProof {
	if t.find(key) >= 0 {
		vio.Fatal("nonExistProof: key in tree")
	}
	ne := &ics23.NonExistenceProof{Key: key}
	for i, k := range t.keys {
		if bytes.Compare(k, key) < 0 {
			ne.Left = t.exist(i)
		} else if ne.Right == nil {
			ne.Right = t.exist(i)
		}
	}
	return &ics23.CommitmentProof{Proof: &ics23.CommitmentProof_Nonexist{Nonexist: ne}}
}

// selfCheck validates the proof builder against the ics23 library itself (independent of poly).
func selfCheck() {
	r := vio.NewRNG(vio.Seed())
	bad := 0
	for n := 1; n <= 9; n++ {
		kv := map[string][]byte{}
		for len(kv) < n {
			kv[string(r.Bytes(1+r.Intn(5)))] = r.Bytes(1 + r.Intn(40))
		}
		t := newSimpleTree(kv)
		root := t.root()
		for i := range t.keys {
			if !ics23.VerifyMembership(ics23.TendermintSpec, root, t.existProof(t.keys[i]), t.keys[i], t.vals[i]) {
				bad++
			}
			if ics23.VerifyMembership(ics23.TendermintSpec, root, t.existProof(t.keys[i]), t.keys[i], append([]byte{9}, t.vals[i]...)) {
				bad++
			}
		}
		for j := 0; j < 20; j++ {
			k := r.Bytes(1 + r.Intn(5))
			if t.find(k) >= 0 {
				continue
			}
			if !ics23.VerifyNonMembership(ics23.TendermintSpec, root, t.nonExistProof(k), k) {
				bad++
			}
		}
	}
	vio.Emit(map[string]interface{}{"selfcheck": true, "bad": bad})
}
