package main

import (
	"encoding/json"
	"fmt"

	"verifh/kit/vio"
)

type absCall struct {
	Op   string    `json:"op"`
	Hdrs []*absHdr `json:"hdrs"`
	Kind string    `json:"kind"`
}

type edge struct {
	Hist   []absCall `json:"hist"`
	Init   tracked   `json:"init"`
	Src    tracked   `json:"src"`
	Call   absCall   `json:"call"`
	Ok     bool      `json:"ok"`
	Post   tracked   `json:"post"`
	Powers [][]int64 `json:"powers"`
	Flav   string    `json:"flavour"`
	Idx    *int      `json:"idx,omitempty"`
}

type edgeObs struct {
	I        int     `json:"i"`
	Pre      tracked `json:"pre"`
	Ok       bool    `json:"ok"`
	Post     tracked `json:"post"`
	Panic    string  `json:"panic,omitempty"`
	Diverged string  `json:"diverged,omitempty"` // the history did not lead to the source state (edge not executed)
	Setup    string  `json:"setup,omitempty"`
	Detail   string  `json:"detail,omitempty"`
	Concr    string  `json:"concr"`
}

func (w *tmWorld) do(c *absCall) (ok bool, panicked, detail string) {
	switch c.Op {
	case "sync":
		ok, panicked = w.sync(c.Hdrs)
	case "deposit":
		ok, panicked, detail = w.deposit(c.Hdrs[0], c.Kind)
	default:
		vio.Fatal("unknown op %q", c.Op)
	}
	return
}

func cosmosEdges() {
	lines := vio.ReadLines()
	edges := make([]edge, len(lines))
	for i, l := range lines {
		vio.Must(json.Unmarshal(l, &edges[i]))
	}
	obs := make([]edgeObs, len(edges))
	const chunk = 64
	vio.ParMap((len(edges)+chunk-1)/chunk, 8, func(c int) {
		u := newUniverse()
		defer u.close()
		for i := c * chunk; i < (c+1)*chunk && i < len(edges); i++ {
			idx := i
			if edges[i].Idx != nil {
				idx = *edges[i].Idx
			}
			obs[i] = runEdge(u, i, &edges[i], vio.NewRNG(vio.Seed()*1000003+uint64(idx)*7919+30))
		}
	})
	distinct := map[string]bool{}
	for i, o := range obs {
		o.Panic, o.Diverged, o.Setup, o.Detail = clean(o.Panic), clean(o.Diverged), clean(o.Setup), clean(o.Detail)
		vio.Emit(o)
		if o.Diverged == "" && o.Setup == "" {
			b, _ := json.Marshal(edges[i].Call)
			distinct[fmt.Sprint(edges[i].Flav, edges[i].Src, string(b), edges[i].Powers[edges[i].Src.Nv-1])] = true
		}
	}
	vio.Emit(map[string]interface{}{"summary": true, "edges": len(edges), "distinct": len(distinct)})
}

func runEdge(u *universe, i int, e *edge, r *vio.RNG) (o edgeObs) {
	o.I = i
	w := newTmWorld(u, e.Flav, r, e.Powers)
	o.Concr = fmt.Sprintf("%s version=%d chain=%d", w.flav, w.version, w.chain)
	if err := w.genesis(e.Init.H, e.Init.Nv); err != nil {
		o.Setup = "genesis: " + err.Error()
		return
	}
	for k := range e.Hist {
		ok, p, _ := w.do(&e.Hist[k])
		if !ok || p != "" {
			o.Diverged = fmt.Sprintf("history step %d not accepted (panic=%q)", k, p)
			return
		}
	}
	o.Pre = w.tracked()
	if o.Pre != e.Src {
		o.Diverged = fmt.Sprintf("history led to %+v, not to %+v", o.Pre, e.Src)
		return
	}
	o.Ok, o.Panic, o.Detail = w.do(&e.Call)
	o.Post = w.tracked()
	return
}

// clean keeps printable ASCII only (error texts of the code under test may embed raw key bytes; python's splitlines
// would split an NDJSON line at U+0085 etc.).
func clean(s string) string {
	b := []byte(s)
	for i, c := range b {
		if c < 0x20 || c > 0x7e {
			b[i] = '?'
		}
	}
	if len(b) > 600 {
		b = b[:600]
	}
	return string(b)
}
