package main

// C42 binding, second part for vbft getCommitConsensus: the commit quorum must be N-(N-1)/3 whatever the CONFIGURED
// consensus parameter C is (GenesisChainConfig sets C = N/3, which differs from (N-1)/3 when 3 divides N) and whatever
// the number of commits for the empty block is (the empty-commit branch bumps its local C).  Driven through the hook
// vbft.VerifCommitConsensusEmpty.

import (
	"fmt"
	"math"

	"github.com/polynetwork/poly/consensus/vbft"
	"verifh/kit/vio"
)

type cLabel struct {
	name string
	val  func(n int) int
}

var cLabels = []cLabel{
	{"C=(N-1)/3", func(n int) int { return (n - 1) / 3 }},
	{"C=N/3", func(n int) int { return n / 3 }}, // what GenesisChainConfig computes
	{"C=0", func(n int) int { return 0 }},
	{"C=f+1", func(n int) int { return (n-1)/3 + 1 }},
}

// commitCfgReached: k commit messages of k distinct committers (2..k+1) for proposer 1; the messages at the positions
// listed in `empty` are commits for the empty block.  Answers (reached, forEmpty flag).
func commitCfgReached(n, C, k int, empty map[int]bool) (bool, bool) {
	var committers, proposers []uint32
	var endorsers [][]uint32
	var fe []bool
	for i := 0; i < k; i++ {
		committers = append(committers, uint32(2+i))
		proposers = append(proposers, 1)
		endorsers = append(endorsers, nil)
		fe = append(fe, empty[i])
	}
	p, forEmpty := vbft.VerifCommitConsensusEmpty(committers, proposers, endorsers, fe, C, n)
	return p != math.MaxUint32, forEmpty
}

// emptyPositions: e of the first `upTo` positions; placement "first" = the earliest ones (the bump of the local C
// happens as early as possible), "seeded" = chosen by the run's seed.
func emptyPositions(e, upTo int, placement string, rng *vio.RNG) map[int]bool {
	m := map[int]bool{}
	if upTo < e {
		upTo = e
	}
	if placement == "first" {
		for i := 0; i < e; i++ {
			m[i] = true
		}
		return m
	}
	for _, i := range rng.Perm(upTo)[:e] {
		m[i] = true
	}
	return m
}

// commitCfgScan: for one n and one configured C, every number e of empty commits (0..n-1) and both placements: the
// least number of distinct committers at which consensus is reported must be `expect` (= BftThr(n)-1, at least 1).
func commitCfgScan(n, expect int, lab cLabel, full bool, seed uint64) tres {
	C := lab.val(n)
	rng := vio.NewRNG(seed*7919 + uint64(n)*31 + uint64(C))
	t := tres{Site: "commit-cfg", N: n, Expect: expect, Least: -1, Shape: lab.name, AtOK: true}
	var es []int
	if full {
		for e := 0; e <= n-1; e++ {
			es = append(es, e)
		}
	} else {
		es = []int{0, 1, C, C + 1, C + 2, n / 2, n - 1}
	}
	for _, e := range es {
		if e < 0 || e > n-1 {
			continue
		}
		for _, placement := range []string{"first", "seeded"} {
			pos := emptyPositions(e, n-1, placement, rng)
			at, _ := commitCfgReached(n, C, expect, pos)
			below := false
			if expect > 1 {
				below, _ = commitCfgReached(n, C, expect-1, pos)
			}
			least := -1
			if full {
				for k := 1; k <= n-1 || k <= 1; k++ {
					if ok, _ := commitCfgReached(n, C, k, pos); ok {
						least = k
						break
					}
				}
				if t.Least == -1 || (least >= 0 && least < t.Least) {
					t.Least = least
				}
			}
			if (!at || below || (full && least != expect)) && t.Note == "" {
				t.AtOK = t.AtOK && at
				t.Below = t.Below || below
				t.Note = fmt.Sprintf("configured C=%d, %d commits for the empty block (%s): reached at %d committers: %v, at %d: %v, least %d, expected %d",
					C, e, placement, expect, at, expect-1, below, least, expect)
			}
		}
	}
	if t.Note != "" && t.AtOK && !t.Below {
		t.AtOK = false
	}
	return t
}

// commitDisjoint: participants 1..n split into two disjoint groups, each with its own proposer and all the other group
// members committing (some of them for the empty block): neither group may reach commit consensus (two disjoint sets
// cannot both hold a quorum; here neither even has one, since the larger group has ceil(n/2) < N-f members for n >= 2).
func commitDisjoint(n int, lab cLabel, seed uint64) tres {
	C := lab.val(n)
	t := tres{Site: "commit-disjoint", N: n, Expect: 0, Least: -1, Shape: lab.name, AtOK: true}
	a := n / 2 // group A = 1..a (proposer 1), group B = a+1..n (proposer a+1)
	for _, e := range []int{0, C + 1, n} {
		for _, order := range []string{"A-first", "B-first", "interleaved"} {
			var committers, proposers []uint32
			var endorsers [][]uint32
			var fe []bool
			var ga, gb []uint32
			for i := 2; i <= a; i++ {
				ga = append(ga, uint32(i))
			}
			for i := a + 2; i <= n; i++ {
				gb = append(gb, uint32(i))
			}
			add := func(c uint32, p uint32) {
				committers = append(committers, c)
				proposers = append(proposers, p)
				endorsers = append(endorsers, nil)
				fe = append(fe, len(fe) < e)
			}
			switch order {
			case "A-first":
				for _, c := range ga {
					add(c, 1)
				}
				for _, c := range gb {
					add(c, uint32(a+1))
				}
			case "B-first":
				for _, c := range gb {
					add(c, uint32(a+1))
				}
				for _, c := range ga {
					add(c, 1)
				}
			default:
				for i := 0; i < len(ga) || i < len(gb); i++ {
					if i < len(gb) {
						add(gb[i], uint32(a+1))
					}
					if i < len(ga) {
						add(ga[i], 1)
					}
				}
			}
			p, _ := vbft.VerifCommitConsensusEmpty(committers, proposers, endorsers, fe, C, n)
			if p != math.MaxUint32 && t.Note == "" {
				t.AtOK = false
				t.Below = true
				t.Note = fmt.Sprintf("configured C=%d, %d commits for the empty block, order %s: proposer %d reached commit consensus with a group of %d of %d participants",
					C, e, order, p, map[bool]int{true: a, false: n - a}[p == 1], n)
			}
		}
	}
	return t
}
