package main

import (
	"crypto/sha256"

	"github.com/polynetwork/poly/account"
	vconfig "github.com/polynetwork/poly/consensus/vbft/config"
)

func sha256d1(b []byte) [32]byte { return sha256.Sum256(b) }

func pubID(a *account.Account) string { return vconfig.PubkeyID(a.PublicKey) }
