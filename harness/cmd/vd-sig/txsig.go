package main

// C39 driver: every row of spec/SigCheck.tla (an abstract transaction = list of signature entries) is concretized with
// real keys and real signatures over the transaction's real hash and given to validation.VerifyTransaction; the
// attributed addresses (tx.SignedAddr after validation, GetSignatureAddresses on an unvalidated copy) are compared
// with addresses derived here from first principles (ripemd160(sha256(program))).

import (
	"crypto/sha256"
	"encoding/binary"
	"encoding/hex"
	"encoding/json"
	"sort"

	"github.com/ontio/ontology-crypto/keypair"
	"github.com/polynetwork/poly/account"
	"github.com/polynetwork/poly/common"
	"github.com/polynetwork/poly/core/payload"
	"github.com/polynetwork/poly/core/signature"
	"github.com/polynetwork/poly/core/types"
	"github.com/polynetwork/poly/core/validation"
	ontErrors "github.com/polynetwork/poly/errors"
	"golang.org/x/crypto/ripemd160"
	"verifh/kit/vio"
)

type absEntry struct {
	Keys []int `json:"keys"`
	M    int   `json:"m"`
	Sigs []int `json:"sigs"`
}
type absAddr struct {
	T  string `json:"t"`
	Ks []int  `json:"ks"`
	M  int    `json:"m"`
}
type sigRow struct {
	Tx    []absEntry `json:"tx"`
	Exp   bool       `json:"exp"`
	Decl  bool       `json:"decl"`
	Loose bool       `json:"loose"`
	Addrs []absAddr  `json:"addrs"`
}
type sigOut struct {
	I                 int      `json:"i"`
	Acc               bool     `json:"acc"`
	Code              int      `json:"code"`
	Signed            []string `json:"signed"`            // tx.SignedAddr after validation (sorted hex), accepted only
	AccAfterLookup    bool     `json:"accAfterLookup"`    // verdict of VerifyTransaction on the copy AFTER GetSignatureAddresses
	AccAgain          bool     `json:"accAgain"`          // verdict of a second VerifyTransaction on the validated object
	SignedAfterLookup []string `json:"signedAfterLookup"` // SignedAddr of that copy, accepted only
	Derived           []string `json:"derived"`           // GetSignatureAddresses on an unvalidated copy (sorted, duplicates removed)
	DerErr            string   `json:"derErr,omitempty"`
	Expected          []string `json:"expected"` // addresses computed by the driver for the spec's abstract address set
	Panic             string   `json:"panic,omitempty"`
	Wire              bool     `json:"wire"` // the signed transaction went through Serialization / Deserialization
	How               string   `json:"how,omitempty"`
}

var sigSchemes = []string{"SHA256withECDSA", "SHA256withECDSA", "SHA512withEdDSA", "SM3withSM2", "SHA3-256withECDSA", "SHA384withECDSA"}

func hash160(b []byte) string {
	t := sha256.Sum256(b)
	md := ripemd160.New()
	md.Write(t[:])
	return hex.EncodeToString(md.Sum(nil))
}

func varBytes(b []byte) []byte {
	// keys are far shorter than 0xFD bytes: the var-int is one byte
	if len(b) >= 0xfd {
		vio.Fatal("key too long")
	}
	return append([]byte{byte(len(b))}, b...)
}

func txSig() {
	rng := vio.NewRNG(vio.Seed())
	accts := map[int]*account.Account{}
	acct := func(id int) *account.Account {
		a, ok := accts[id]
		if !ok {
			scheme := ""
			if id > 1 {
				scheme = sigSchemes[rng.Intn(len(sigSchemes))]
			}
			a = account.NewAccount(scheme)
			accts[id] = a
		}
		return a
	}
	expectedAddr := func(a absAddr) string {
		if a.T == "K" {
			return hash160(keypair.SerializePublicKey(acct(a.Ks[0]).PublicKey))
		}
		var pks []keypair.PublicKey
		for _, id := range a.Ks {
			pks = append(pks, acct(id).PublicKey)
		}
		pks = keypair.SortPublicKeys(pks) // the library's canonical key order (trusted)
		var prog []byte
		u16 := make([]byte, 2)
		binary.LittleEndian.PutUint16(u16, uint16(len(pks)))
		prog = append(prog, u16...)
		for _, pk := range pks {
			prog = append(prog, varBytes(keypair.SerializePublicKey(pk))...)
		}
		binary.LittleEndian.PutUint16(u16, uint16(a.M))
		prog = append(prog, u16...)
		return hash160(prog)
	}
	lines := vio.ReadLines()
	for i, ln := range lines {
		var r sigRow
		if err := json.Unmarshal(ln, &r); err != nil {
			vio.Fatal("bad row: %v", err)
		}
		// unsigned transaction with a random payload, parsed so that its hash is set
		base := &types.Transaction{Version: types.CURR_TX_VERSION, TxType: types.Invoke, Nonce: uint32(rng.U64()),
			Payload: &payload.InvokeCode{Code: rng.Bytes(1 + rng.Intn(40))}}
		sink := common.NewZeroCopySink(nil)
		if err := base.Serialization(sink); err != nil {
			vio.Fatal("serialize: %v", err)
		}
		tx, err := types.TransactionFromRawBytes(sink.Bytes())
		if err != nil {
			vio.Fatal("parse: %v", err)
		}
		hash := tx.Hash()
		how := ""
		var sigs []types.Sig
		serializable := true
		for _, e := range r.Tx {
			var s types.Sig
			for _, id := range e.Keys {
				s.PubKeys = append(s.PubKeys, acct(id).PublicKey)
			}
			if len(e.Keys) == 0 {
				serializable = false
			}
			s.M = uint16(e.M)
			made := map[int][]byte{}
			for _, tok := range e.Sigs {
				if tok > 0 {
					if prev, ok := made[tok]; ok && rng.Bool() {
						s.SigData = append(s.SigData, prev) // the very same signature bytes again
						how += " reuse"
						continue
					}
					sg, err := signature.Sign(acct(tok), hash[:])
					if err != nil {
						vio.Fatal("sign: %v", err)
					}
					made[tok] = sg
					s.SigData = append(s.SigData, sg)
				} else {
					var signer *account.Account
					if len(e.Keys) > 0 {
						signer = acct(e.Keys[rng.Intn(len(e.Keys))])
					} else {
						signer = acct(1)
					}
					switch rng.Intn(4) {
					case 0:
						other := hash
						other[rng.Intn(32)] ^= byte(1 + rng.Intn(255))
						sg, _ := signature.Sign(signer, other[:])
						s.SigData = append(s.SigData, sg)
						how += " other-message"
					case 1:
						sg, _ := signature.Sign(signer, hash[:])
						sg[len(sg)/2+rng.Intn(len(sg)/2)] ^= 1 << uint(rng.Intn(8))
						s.SigData = append(s.SigData, sg)
						how += " bit-flip"
					case 2:
						sg, _ := signature.Sign(signer, hash[:])
						s.SigData = append(s.SigData, sg[:len(sg)-1-rng.Intn(8)])
						how += " truncated"
					default:
						s.SigData = append(s.SigData, []byte{})
						how += " empty"
					}
				}
			}
			sigs = append(sigs, s)
		}
		mk := func() (*types.Transaction, bool) {
			t2, _ := types.TransactionFromRawBytes(sink.Bytes())
			cp := make([]types.Sig, len(sigs))
			for k, s := range sigs {
				cp[k] = types.Sig{M: s.M, PubKeys: append([]keypair.PublicKey{}, s.PubKeys...), SigData: append([][]byte{}, s.SigData...)}
			}
			t2.Sigs = cp
			if serializable {
				sk := common.NewZeroCopySink(nil)
				if err := t2.Serialization(sk); err == nil {
					if t3, err := types.TransactionFromRawBytes(sk.Bytes()); err == nil {
						return t3, true
					}
				}
			}
			return t2, false
		}
		o := sigOut{I: i, How: how, Expected: []string{}}
		t1, wire := mk()
		o.Wire = wire
		var code ontErrors.ErrCode
		o.Panic = vio.Safe(func() { code = validation.VerifyTransaction(t1) })
		o.Code = int(code)
		o.Acc = o.Panic == "" && code == ontErrors.ErrNoError
		if o.Acc {
			o.Signed = addrSet(t1.SignedAddr)
		}
		t2, _ := mk()
		p2 := vio.Safe(func() {
			as, err := t2.GetSignatureAddresses()
			if err != nil {
				o.DerErr = err.Error()
			} else {
				o.Derived = addrSet(as)
			}
		})
		if p2 != "" && o.Panic == "" {
			o.Panic = "GetSignatureAddresses: " + p2
		}
		// the order the transaction pool uses: address lookup first (it fills the object's caches), validation second;
		// and a second validation of the object validated above - the verdict may not depend on what ran before
		var code2, code3 ontErrors.ErrCode
		p3 := vio.Safe(func() { code2 = validation.VerifyTransaction(t2) })
		p4 := vio.Safe(func() { code3 = validation.VerifyTransaction(t1) })
		o.AccAfterLookup = p3 == "" && code2 == ontErrors.ErrNoError
		o.AccAgain = p4 == "" && code3 == ontErrors.ErrNoError
		if o.AccAfterLookup {
			o.SignedAfterLookup = addrSet(t2.SignedAddr)
		}
		if (p3 != "" || p4 != "") && o.Panic == "" {
			o.Panic = "revalidation: " + p3 + p4
		}
		set := map[string]bool{}
		for _, a := range r.Addrs {
			set[expectedAddr(a)] = true
		}
		for a := range set {
			o.Expected = append(o.Expected, a)
		}
		sort.Strings(o.Expected)
		vio.Emit(o)
	}
	vio.Emit(map[string]interface{}{"summary": true, "rows": len(lines)})
}

func addrSet(as []common.Address) []string {
	set := map[string]bool{}
	for _, a := range as {
		set[hex.EncodeToString(a[:])] = true
	}
	res := []string{}
	for a := range set {
		res = append(res, a)
	}
	sort.Strings(res)
	return res
}
