package main

// C42 binding: measure, on the real code, the least number of distinct approvers at which each implemented threshold
// expression reports "reached", for every validator count n of the table printed by TLC from spec/Quorum.tla, and
// emit (site, n, expected, least / at / below) lines. The comparison is done by checks/C42.py.

import (
	"encoding/json"
	"fmt"
	"math"
	"sync"

	"github.com/polynetwork/poly/account"
	"github.com/polynetwork/poly/common"
	"github.com/polynetwork/poly/consensus/vbft"
	cstates "github.com/polynetwork/poly/core/states"
	"github.com/polynetwork/poly/native"
	"github.com/polynetwork/poly/native/service/cross_chain_manager/consensus_vote"
	"github.com/polynetwork/poly/native/service/governance/node_manager"
	"github.com/polynetwork/poly/native/service/governance/signature_manager"
	"github.com/polynetwork/poly/native/service/utils"
	"verifh/kit/nativekit"
	"verifh/kit/vio"
)

type qrow struct {
	N      int `json:"n"`
	F      int `json:"f"`
	Bft    int `json:"bft"`
	Gov    int `json:"gov"`
	Legacy int `json:"legacy"`
	Commit int `json:"commit"`
}

type tres struct {
	Site   string `json:"site"`
	N      int    `json:"n"`
	Expect int    `json:"expect"`
	Least  int    `json:"least"` // least approver count at which the code answered "reached" (-1: never / not scanned)
	AtOK   bool   `json:"at"`    // reached with exactly `expect` approvers
	Below  bool   `json:"below"` // reached with expect-1 approvers (must be false)
	Shape  string `json:"shape"`
	Note   string `json:"note,omitempty"`
}

func seqU32(from, n int) []uint32 {
	r := make([]uint32, n)
	for i := range r {
		r[i] = uint32(from + i)
	}
	return r
}

// commitReached: does getCommitConsensus report consensus for proposer 1 with k distinct signers besides the proposer?
//
//	shape "msgs": k commit messages from k committers, no endorsers listed
//	shape "one":  one commit message listing k-1 endorsers
//	shape "mix":  ceil(k/2) messages whose endorser lists overlap (distinct signer count is still k)
//	shape "two":  k-1 signers for proposer 1 AND k-1 other signers for proposer 2 (counts must not be merged): expects false
func commitReached(n, k int, shape string) bool {
	C := (n - 1) / 3
	var committers, proposers []uint32
	var endorsers [][]uint32
	switch shape {
	case "msgs":
		for i := 0; i < k; i++ {
			committers = append(committers, uint32(2+i))
			proposers = append(proposers, 1)
			endorsers = append(endorsers, nil)
		}
	case "one":
		if k == 0 {
			break
		}
		committers = []uint32{2}
		proposers = []uint32{1}
		endorsers = [][]uint32{seqU32(3, k-1)}
	case "mix":
		if k == 0 {
			break
		}
		all := seqU32(2, k)
		half := (k + 1) / 2
		for i := 0; i < half; i++ {
			committers = append(committers, all[i])
			proposers = append(proposers, 1)
			var es []uint32
			for j := half; j < k; j++ { // every message lists all the remaining signers again
				es = append(es, all[j])
			}
			if i > 0 {
				es = append(es, all[i-1]) // and one earlier committer
			}
			endorsers = append(endorsers, es)
		}
	case "self": // k participants INCLUDING the proposer, which commits its own proposal (informational, see notes/built/C42.md)
		for i := 0; i < k; i++ {
			committers = append(committers, uint32(1+i))
			proposers = append(proposers, 1)
			endorsers = append(endorsers, nil)
		}
	case "two":
		for i := 0; i < k-1; i++ {
			committers = append(committers, uint32(3+i))
			proposers = append(proposers, 1)
			endorsers = append(endorsers, nil)
			committers = append(committers, uint32(3+k+i))
			proposers = append(proposers, 2)
			endorsers = append(endorsers, nil)
		}
	}
	p, _ := vbft.VerifCommitConsensus(committers, proposers, endorsers, C, n)
	return p != math.MaxUint32
}

// govWorld: a contract-storage sandbox with n consensus validators plus two non-consensus candidates in the pool.
type govWorld struct {
	sb    *nativekit.Sandbox
	accts []*account.Account
	extra []*account.Account
}

var acctPool []*account.Account
var acctMu sync.Mutex

func pooled(n int) []*account.Account {
	acctMu.Lock()
	defer acctMu.Unlock()
	for len(acctPool) < n {
		acctPool = append(acctPool, account.NewAccount(""))
	}
	return acctPool[:n]
}

func newGovWorld(n int) *govWorld {
	g := &govWorld{sb: nativekit.New()}
	all := pooled(n + 2)
	g.accts = all[:n]
	g.extra = all[n : n+2]
	g.sb.SeedValidators(g.accts, 1)
	// add two candidates that must not count, neither as voters nor in the total
	m, err := node_manager.GetPeerPoolMap(g.sb.Service(nativekit.Tx(), nil), 1)
	if err != nil {
		vio.Fatal("GetPeerPoolMap: %v", err)
	}
	for i, a := range g.extra {
		id := pubID(a)
		st := node_manager.CandidateStatus
		if i == 1 {
			st = node_manager.QuitingStatus
		}
		m.PeerPoolMap[id] = &node_manager.PeerPoolItem{Index: uint32(len(g.accts) + i + 1), PeerPubkey: id, Address: a.Address, Status: st}
	}
	g.sb.PutPool(m, 1)
	return g
}

// govReached(site, g, voters): feeds the voters one after the other, returns the 1-based position of the first
// "reached" answer (0: never). Non-consensus voters are interleaved for CheckConsensusSigns (the other two reject them).
func govSeq(site string, g *govWorld, order []int, withOutsiders bool) (first int, note string) {
	id := []byte("proposal-" + site)
	count := 0
	for pos, vi := range order {
		addr := g.accts[vi].Address
		if withOutsiders && site == "consensusSigns" && pos%2 == 0 {
			// an approval of a non-consensus candidate must not count
			if ok, _ := govCall(site, g, id, g.extra[pos%4/2].Address); ok {
				return -1, "reached by a non-consensus signer"
			}
		}
		ok, err := govCall(site, g, id, addr)
		if err != nil {
			return -1, "error: " + err.Error()
		}
		count++
		if ok {
			return count, ""
		}
	}
	return 0, ""
}

func govCall(site string, g *govWorld, id []byte, addr common.Address) (bool, error) {
	var ok bool
	_, _, err := g.sb.Call(func(ns *native.NativeService) ([]byte, error) {
		var e error
		switch site {
		case "consensusSigns":
			ok, e = node_manager.CheckConsensusSigns(ns, "method", id, addr)
		case "votes":
			ok, e = consensus_vote.CheckVotes(ns, id, addr)
		case "signs":
			ok, e = signature_manager.CheckSigns(ns, id, []byte{1, 2, 3}, addr)
		}
		return nil, e
	}, nativekit.Tx(addr), nil)
	return ok, err
}

// govInject: storage is prepared with `have` approvals of consensus validators already recorded, then ONE more
// validator approves; answers whether that call reports "reached".
func govInject(site string, g *govWorld, have int) (bool, error) {
	id := []byte(fmt.Sprintf("inj-%s-%d", site, have))
	sink := common.NewZeroCopySink(nil)
	var key []byte
	switch site {
	case "consensusSigns":
		cs := &node_manager.ConsensusSigns{SignsMap: map[common.Address]bool{}}
		for i := 0; i < have; i++ {
			cs.SignsMap[g.accts[i].Address] = true
		}
		cs.SignsMap[g.extra[0].Address] = true // a recorded non-consensus approval must not count
		cs.Serialization(sink)
		h := sha256d1(append([]byte("method"), id...))
		key = utils.ConcatKey(utils.NodeManagerContractAddress, []byte(node_manager.CONSENSUS_SIGNS), h[:])
	case "votes":
		v := &consensus_vote.VoteInfo{VoteInfo: map[string]bool{}}
		for i := 0; i < have; i++ {
			v.VoteInfo[g.accts[i].Address.ToBase58()] = true
		}
		v.VoteInfo[g.extra[0].Address.ToBase58()] = true
		v.Serialization(sink)
		key = utils.ConcatKey(utils.CrossChainManagerContractAddress, []byte(consensus_vote.VOTE_INFO), id)
	case "signs":
		v := &signature_manager.SigInfo{SigInfo: map[string][]byte{}}
		for i := 0; i < have; i++ {
			v.SigInfo[g.accts[i].Address.ToBase58()] = []byte{1}
		}
		v.SigInfo[g.extra[0].Address.ToBase58()] = []byte{1}
		v.Serialization(sink)
		key = utils.ConcatKey(utils.SignatureManagerContractAddress, []byte(signature_manager.SIG_INFO), id)
	}
	g.sb.Cache.Put(key, cstates.GenRawStorageItem(sink.Bytes()))
	g.sb.Cache.Commit()
	return govCall(site, g, id, g.accts[have].Address)
}

func thresholds(commitFull, govSeqMax, govInjMax, ledgerSolo, ledgerVbft int, padded bool) {
	rng := vio.NewRNG(vio.Seed())
	var rows []qrow
	for _, ln := range vio.ReadLines() {
		var r qrow
		if err := json.Unmarshal(ln, &r); err != nil {
			vio.Fatal("bad row: %v", err)
		}
		rows = append(rows, r)
	}
	byN := map[int]qrow{}
	for _, r := range rows {
		byN[r.N] = r
	}
	// ---- vbft commit consensus: every n of the table (pure function, parallel)
	var mu sync.Mutex
	var out []tres
	vio.ParMap(len(rows), 16, func(i int) {
		r := rows[i]
		var local []tres
		k := r.Commit
		t := tres{Site: "commit", N: r.N, Expect: k, Least: -1, Shape: "one"}
		t.AtOK = commitReached(r.N, k, "one")
		if k > 1 {
			t.Below = commitReached(r.N, k-1, "one")
		}
		local = append(local, t)
		// configured C and commits for the empty block must not move the quorum (commitcfg.go)
		for _, lab := range cLabels {
			if r.N > 400 && r.N%97 != 0 && r.N < 9990 { // beyond 400 a sample is enough: the expression does not change shape
				break
			}
			local = append(local, commitCfgScan(r.N, k, lab, r.N <= commitFull, vio.Seed()))
			if r.N >= 2 && (r.N <= commitFull || r.N%97 == 0) {
				local = append(local, commitDisjoint(r.N, lab, vio.Seed()))
			}
		}
		if r.N <= commitFull {
			for _, shape := range []string{"msgs", "mix"} {
				t := tres{Site: "commit", N: r.N, Expect: k, Least: -1, Shape: shape}
				for c := 1; c <= r.N-1 || c <= 1; c++ {
					if commitReached(r.N, c, shape) {
						t.Least = c
						break
					}
				}
				t.AtOK = commitReached(r.N, k, shape)
				if k > 1 {
					t.Below = commitReached(r.N, k-1, shape)
				}
				local = append(local, t)
			}
			if r.N <= 16 {
				t := tres{Site: "commit-info", N: r.N, Expect: r.Bft, Least: -1, Shape: "self", AtOK: true}
				for c := 1; c <= r.N; c++ {
					if commitReached(r.N, c, "self") {
						t.Least = c
						break
					}
				}
				local = append(local, t)
			}
			if k > 1 {
				t := tres{Site: "commit", N: r.N, Expect: k, Least: -1, Shape: "two", AtOK: true}
				t.Below = commitReached(r.N, k, "two") // k-1 signers for each of two proposers: not reached
				local = append(local, t)
			}
		}
		mu.Lock()
		out = append(out, local...)
		mu.Unlock()
	})
	// ---- governance thresholds
	pooled(govInjMax + 2)
	sites := []string{"consensusSigns", "votes", "signs"}
	var jobs []func() tres
	for n := 1; n <= govInjMax; n++ {
		r, ok := byN[n]
		if !ok {
			continue
		}
		for _, site := range sites {
			site, n, r := site, n, r
			if n <= govSeqMax {
				perm := rng.Perm(n)
				jobs = append(jobs, func() tres {
					g := newGovWorld(n)
					first, note := govSeq(site, g, perm, true)
					return tres{Site: site, N: n, Expect: r.Gov, Least: first, AtOK: first == r.Gov, Below: first > 0 && first < r.Gov, Shape: "sequence", Note: note}
				})
			}
			jobs = append(jobs, func() tres {
				g := newGovWorld(n)
				t := tres{Site: site, N: n, Expect: r.Gov, Least: -1, Shape: "inject"}
				at, err := govInject(site, g, r.Gov-1)
				if err != nil {
					t.Note = "error: " + err.Error()
				}
				t.AtOK = at
				if r.Gov >= 2 {
					g2 := newGovWorld(n)
					b, err := govInject(site, g2, r.Gov-2)
					if err != nil {
						t.Note += " error: " + err.Error()
					}
					t.Below = b
				}
				return t
			})
		}
	}
	vio.ParMap(len(jobs), 16, func(i int) {
		t := jobs[i]()
		mu.Lock()
		out = append(out, t)
		mu.Unlock()
	})
	for _, t := range out {
		vio.Emit(t)
	}
	vio.Flush()
	// ---- ledger verifyHeader (sequential: the consensus mode is a process-wide setting)
	ledgerSite := func(mode, rule, cond string, n int, expect int, op string) {
		t := tres{Site: "ledger-" + mode + "-" + rule + "-" + op, N: n, Expect: expect, Least: -1, Shape: cond}
		gn := n
		if mode == "vbft" && n > 16 {
			gn = 4
		}
		w, err := tryOpenWorld(mode, rule, cond, gn, rng)
		if err != nil {
			// more bookkeepers than a multi-signature address allows (16): such a solo chain cannot be created
			vio.Emit(map[string]interface{}{"skipped": true, "what": t.Site, "n": n, "err": err.Error()})
			return
		}
		defer w.close()
		first := 1 // id of the first member of the set whose threshold is measured
		if w.n != n {
			// vbft set larger than a genesis block can name: installed by an accepted announcing header / block
			first = 101
			var set []int
			for i := 0; i < n; i++ {
				set = append(set, first+i)
			}
			ev := w.offer(op, absHeader{Bk: seq1(w.n), Sg: seq1(w.n), Cfg: set, Body: "ok"}, "hand-over")
			if !ev.Acc || len(ev.Obs) != n {
				vio.Fatal("hand-over to %d validators failed: %+v", n, ev)
			}
			t.Shape += "+hand-over"
		}
		ids := func(k int) []int {
			r := make([]int, k)
			for i := range r {
				r[i] = first + i
			}
			return r
		}
		for k := 0; k <= n; k++ {
			a := absHeader{Bk: ids(k), Sg: ids(k), Body: "ok"}
			if mode == "solo" {
				a.Bk = seq1(n)
				a.Cfg = seq1(n)
			}
			ev := w.offer(op, a, "threshold")
			if ev.Acc {
				t.Least = k
				break
			}
		}
		t.AtOK = t.Least == expect
		t.Below = t.Least >= 0 && t.Least < expect
		vio.Emit(t)
	}
	for n := 1; n <= ledgerSolo; n++ {
		if r, ok := byN[n]; ok {
			op := "hdr"
			if n <= 8 {
				ledgerSite("solo", "bft", "", n, r.Bft, "sub")
			}
			ledgerSite("solo", "bft", "", n, r.Bft, op)
		}
	}
	for n := 1; n <= ledgerVbft; n++ {
		if r, ok := byN[n]; ok {
			ledgerSite("vbft", "legacy", "main-low", n, r.Legacy, "hdr")
			if padded {
				ledgerSite("vbft", "bft", "main-high", n, r.Bft, "hdr")
				if n <= 7 {
					ledgerSite("vbft", "bft", "main-high", n, r.Bft, "sub")
					ledgerSite("vbft", "legacy", "other-high", n, r.Legacy, "hdr")
				}
			}
		}
	}
	vio.Emit(map[string]interface{}{"summary": true, "rows": len(rows)})
}
