// vd-sig: drivers for signature rules: C14 (block / header signature quorum on a real on-disk ledger),
// C39 (transaction signature validation) and C42 (the implemented threshold expressions).
package main

import (
	"os"
	"runtime/pprof"
	"strconv"

	"github.com/polynetwork/poly/common/log"
	"verifh/kit/vio"
)

func atoi(s string) int {
	n, err := strconv.Atoi(s)
	if err != nil {
		vio.Fatal("bad number %q", s)
	}
	return n
}

func arg(i int) string {
	if len(os.Args) <= i {
		vio.Fatal("missing argument %d", i)
	}
	return os.Args[i]
}

func main() {
	defer vio.Flush()
	if pf := os.Getenv("VERIF_PPROF"); pf != "" { // diagnostic only
		f, _ := os.Create(pf)
		pprof.StartCPUProfile(f)
		defer pprof.StopCPUProfile()
	}
	log.InitLog(log.FatalLog) // poly logs every rejected header at error level
	if len(os.Args) < 2 {
		vio.Fatal("usage: vd-sig <cmd> ...")
	}
	switch os.Args[1] {
	case "hdr-table": // stdin: ROW lines of SigQuorum (table); args: paths ("hdr,sub,add")
		hdrTable(arg(2))
	case "hdr-replay": // stdin: TRACE lines of SigQuorum (replay); args: mode rule n
		hdrReplay(arg(2), arg(3), atoi(arg(4)))
	case "hdr-random": // args: traces steps
		hdrRandom(atoi(arg(2)), atoi(arg(3)))
	case "txsig": // stdin: ROW lines of SigCheck
		txSig()
	case "thresholds": // stdin: ROW lines of Quorum; args: commitFull govSeq govInj ledgerSolo ledgerVbft padded(0/1)
		thresholds(atoi(arg(2)), atoi(arg(3)), atoi(arg(4)), atoi(arg(5)), atoi(arg(6)), atoi(arg(7)) == 1)
	case "padcost":
		padCost()
	default:
		vio.Fatal("unknown command %s", os.Args[1])
	}
}
