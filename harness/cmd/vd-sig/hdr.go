package main

// C14 drivers. Every header / block offered to the real ledger is emitted as one event line; TLC (TraceSigQuorum)
// judges the recorded log. The "exp"/"expset" fields carry the prediction of the implementation-shaped model for
// the conformance comparison done by checks/C14.py.

import (
	"encoding/json"
	"fmt"
	"sort"
	"strings"

	"verifh/kit/vio"
)

type tableRow struct {
	Mode   string `json:"mode"`
	Rule   string `json:"rule"`
	N      int    `json:"n"`
	V      string `json:"v"`
	Bk     []int  `json:"bk"`
	Sg     []int  `json:"sg"`
	Cfg    []int  `json:"cfg"`
	Exp    bool   `json:"exp"`
	Quorum bool   `json:"quorum"`
	Canon  bool   `json:"canon"`
	Need   int    `json:"need"`
	Cond   string `json:"cond"`  // added by the check: how the rule is reached
	Paths  string `json:"paths"` // added by the check: entry points to drive, e.g. "hdr,sub,add"
}

func seq1(n int) []int {
	r := make([]int, n)
	for i := range r {
		r[i] = i + 1
	}
	return r
}

// hdrTable: rows grouped by (mode, rule, cond, n); one fresh ledger per group and path. Accepted rows extend the chain,
// the next row is built on the new tip. Every row is also executed once more after the table to check that verdicts do
// not depend on the position in the run (thorough tier only does that implicitly through the seeds).
func hdrTable(defPaths string) {
	rng := vio.NewRNG(vio.Seed())
	var rows []tableRow
	for _, ln := range vio.ReadLines() {
		var r tableRow
		if err := json.Unmarshal(ln, &r); err != nil {
			vio.Fatal("bad row: %v", err)
		}
		rows = append(rows, r)
	}
	type gk struct {
		mode, rule, cond, paths string
		n                       int
	}
	groups := map[gk][]tableRow{}
	var order []gk
	for _, r := range rows {
		if r.Paths == "" {
			r.Paths = defPaths
		}
		k := gk{r.Mode, r.Rule, r.Cond, r.Paths, r.N}
		if _, ok := groups[k]; !ok {
			order = append(order, k)
		}
		groups[k] = append(groups[k], r)
	}
	total := 0
	for _, k := range order {
		for _, op := range strings.Split(k.paths, ",") {
			w, err := tryOpenWorld(k.mode, k.rule, k.cond, k.n, rng)
			if err != nil {
				// a ledger that cannot be created (e.g. more bookkeepers than a multi-signature address allows once
				// the address derivation reports its error) is reported, the check decides whether that is acceptable
				vio.Emit(map[string]interface{}{"skipped": true, "mode": k.mode, "rule": k.rule, "n": k.n, "op": op, "rows": len(groups[k]), "err": err.Error()})
				continue
			}
			vio.Emit(w.resetEvent(seq1(k.n)))
			rs := groups[k]
			for _, i := range rng.Perm(len(rs)) {
				r := rs[i]
				ev := w.offer(op, absHeader{Bk: r.Bk, Sg: r.Sg, Cfg: r.Cfg, Body: "ok"}, r.V)
				exp := r.Exp
				ev.Exp = &exp
				vio.Emit(ev)
				total++
			}
			w.close()
		}
	}
	vio.Emit(map[string]interface{}{"summary": true, "rows": len(rows), "executed": total})
}

type replayStep struct {
	Op  string    `json:"op"`
	Hd  absHeader `json:"hd"`
	Acc bool      `json:"acc"`
	Set []int     `json:"set"`
}

func sameSet(a, b []int) bool {
	if len(a) != len(b) {
		return false
	}
	x := append([]int{}, a...)
	y := append([]int{}, b...)
	sort.Ints(x)
	sort.Ints(y)
	for i := range x {
		if x[i] != y[i] {
			return false
		}
	}
	return true
}

// hdrReplay: every behaviour printed by TLC (3 steps) is executed on one continuing ledger. Between behaviours the
// ledger is brought back to the genesis validator set by an accepted block / header announcing it, signed by whatever
// set the node really holds (read through the hook); if that fails a fresh ledger is opened.
func hdrReplay(mode, rule string, n int) {
	rng := vio.NewRNG(vio.Seed())
	lines := vio.ReadLines()
	var w *world
	fresh := func() {
		if w != nil {
			w.close()
		}
		w = openWorld(mode, rule, "", n, rng)
	}
	fresh()
	genesis := seq1(n)
	executed, reopened := 0, 0
	for _, ln := range rng.Perm(len(lines)) {
		var steps []replayStep
		if err := json.Unmarshal(lines[ln], &steps); err != nil {
			vio.Fatal("bad trace: %v", err)
		}
		if len(steps) == 0 {
			continue
		}
		// resynchronise the paths this behaviour uses to the genesis set
		used := map[string]bool{}
		for _, s := range steps {
			if s.Op == "hdr" {
				used["hdr"] = true
			} else {
				used["sub"] = true
			}
		}
		for _, op := range []string{"hdr", "sub"} {
			if !used[op] {
				continue
			}
			cur := w.current(op)
			if !sameSet(cur, genesis) {
				ev := w.offer(op, absHeader{Bk: cur, Sg: cur, Cfg: genesis, Body: "ok"}, "resync")
				if !ev.Acc || !sameSet(w.current(op), genesis) {
					fresh()
					reopened++
					break
				}
			}
		}
		vio.Emit(w.resetEvent(genesis))
		for i, s := range steps {
			ev := w.offer(s.Op, s.Hd, fmt.Sprintf("replay-%d-%d", ln, i))
			exp := s.Acc
			ev.Exp = &exp
			ev.ExpS = s.Set
			if ev.ExpS == nil {
				ev.ExpS = []int{}
			}
			vio.Emit(ev)
			executed++
		}
	}
	w.close()
	vio.Emit(map[string]interface{}{"summary": true, "traces": len(lines), "executed": executed, "reopened": reopened})
}

// hdrRandom: random sync-like runs (headers first, then blocks, both entry points) on vbft ledgers of random size,
// recorded for trace validation only (no prediction attached).
func hdrRandom(traces, steps int) {
	rng := vio.NewRNG(vio.Seed() + 77)
	executed := 0
	for t := 0; t < traces; t++ {
		n := 1 + rng.Intn(7)
		mode := "vbft"
		if rng.Intn(4) == 0 {
			mode = "solo"
		}
		w := openWorld(mode, "legacy", "", n, rng)
		vio.Emit(w.resetEvent(seq1(n)))
		// ghost sets known to the driver only to build interesting offers (the judge is TLC)
		cur := map[string][]int{"hdr": seq1(n), "blk": seq1(n)}
		universe := n + 2
		ops := []string{"hdr", "sub", "add"}
		if mode == "solo" { // solo: the set in force travels with the parent header, so one path per run
			if rng.Bool() {
				ops = []string{"hdr"}
			} else {
				ops = []string{"sub", "add"}
			}
		}
		for s := 0; s < steps; s++ {
			op := ops[rng.Intn(len(ops))]
			path := "blk"
			if op == "hdr" {
				path = "hdr"
			}
			var a absHeader
			base := cur[path]
			if mode == "vbft" {
				obs := w.observed(op)
				if rng.Intn(3) == 0 {
					base = obs
				}
			}
			// choose signers: mostly a subset of the believed set, sometimes outsiders / everyone
			switch rng.Intn(6) {
			case 0:
				a.Bk = []int{}
			case 1:
				a.Bk = []int{1 + rng.Intn(universe)}
			default:
				for _, id := range base {
					if rng.Intn(3) != 0 {
						a.Bk = append(a.Bk, id)
					}
				}
				if mode == "solo" && rng.Intn(3) != 0 {
					a.Bk = append([]int{}, base...)
				}
			}
			a.Sg = append([]int{}, a.Bk...)
			switch rng.Intn(8) {
			case 0:
				if len(a.Sg) > 0 {
					a.Sg[rng.Intn(len(a.Sg))] = 0
				}
			case 1:
				if len(a.Sg) > 0 {
					a.Sg = a.Sg[:len(a.Sg)-1]
				}
			case 2:
				if len(a.Bk) > 0 {
					a.Bk = append(a.Bk, a.Bk[0])
					a.Sg = append(a.Sg, a.Sg[0])
				}
			case 3:
				if len(a.Sg) > 1 && mode == "solo" {
					a.Sg = a.Sg[:1+rng.Intn(len(a.Sg))]
				}
			}
			if mode == "solo" {
				a.Cfg = append([]int{}, base...)
				if rng.Intn(4) == 0 {
					a.Cfg = randomSet(rng, universe)
				}
			} else if rng.Intn(3) == 0 {
				a.Cfg = randomSet(rng, universe)
			}
			a.Body = "ok"
			if op != "hdr" && rng.Intn(3) == 0 {
				a.Body = "bad"
			}
			if a.Bk == nil {
				a.Bk = []int{}
			}
			if a.Sg == nil {
				a.Sg = []int{}
			}
			ev := w.offer(op, a, fmt.Sprintf("random-%d-%d", t, s))
			vio.Emit(ev)
			executed++
			if mode == "vbft" && !ev.Acc && op != "hdr" && len(a.Cfg) > 0 {
				vio.Emit(w.syncEvent())
			}
			if ev.Acc && (mode == "solo" || len(a.Cfg) > 0) {
				cur[path] = a.Cfg
			}
		}
		w.close()
	}
	vio.Emit(map[string]interface{}{"summary": true, "traces": traces, "executed": executed})
}

func randomSet(rng *vio.RNG, universe int) []int {
	var s []int
	for id := 1; id <= universe; id++ {
		if rng.Intn(3) == 0 {
			s = append(s, id)
		}
	}
	if len(s) == 0 {
		s = []int{1 + rng.Intn(universe)}
	}
	return s
}

// padCost measures the cost of the header-index padding (diagnostic).
func padCost() {
	rng := vio.NewRNG(1)
	w := openWorld("vbft", "bft", "", 4, rng)
	ev := w.offer("hdr", absHeader{Bk: []int{1, 2, 3}, Sg: []int{1, 2, 3}}, "probe")
	vio.Emit(ev)
	ev = w.offer("sub", absHeader{Bk: []int{1, 2}, Sg: []int{1, 2}}, "probe")
	vio.Emit(ev)
	ev = w.offer("sub", absHeader{Bk: []int{1, 2, 4}, Sg: []int{1, 2, 4}}, "probe")
	vio.Emit(ev)
	w.close()
}
