package main

// A "world" is one real on-disk ledger (vbft or solo mode) plus the key material behind the abstract key ids of
// spec/SigQuorum.tla: ids 1..n are the genesis validators, larger ids are outsiders created on demand.

import (
	"encoding/json"
	"fmt"
	"os"
	"path/filepath"
	"sort"

	"github.com/ontio/ontology-crypto/keypair"
	"github.com/polynetwork/poly/account"
	"github.com/polynetwork/poly/common"
	"github.com/polynetwork/poly/common/config"
	vconfig "github.com/polynetwork/poly/consensus/vbft/config"
	"github.com/polynetwork/poly/core/signature"
	"github.com/polynetwork/poly/core/store"
	"github.com/polynetwork/poly/core/types"
	"verifh/kit/ledgerkit"
	"verifh/kit/vio"
)

// absHeader is the abstract header of SigQuorum.tla.
type absHeader struct {
	Bk   []int  `json:"bk"`
	Sg   []int  `json:"sg"`
	Cfg  []int  `json:"cfg"`
	Body string `json:"body"`
}

// event is one line of the recorded execution (TraceSigQuorum.tla).
type event struct {
	Op   string `json:"op"`
	Mode string `json:"mode"`
	Rule string `json:"rule"`
	Bk   []int  `json:"bk"`
	Sg   []int  `json:"sg"`
	Cfg  []int  `json:"cfg"`
	Body string `json:"body"`
	Acc  bool   `json:"acc"`
	Obs  []int  `json:"obs"`
	// not read by the trace spec:
	N     int    `json:"n"`
	Tag   string `json:"tag,omitempty"`
	Err   string `json:"err,omitempty"`
	Panic string `json:"panic,omitempty"`
	Exp   *bool  `json:"exp,omitempty"`
	ExpS  []int  `json:"expset,omitempty"`
	How   string `json:"how,omitempty"`
	Seq   int    `json:"seq"`
}

type world struct {
	lg      *ledgerkit.Ledger
	mode    string // "vbft" | "solo"
	rule    string // "legacy" | "bft"
	cond    string // how the rule was reached: "main-low" | "main-high" | "other-high"
	n       int
	accts   map[int]*account.Account
	idOf    map[string]int
	rng     *vio.RNG
	dir     string
	hdrTip  *types.Header    // tip of the header path (nil: the current block)
	soloCur map[string][]int // solo: ids committed to by the tip's NextBookkeeper, per path ("hdr" / "blk")
	seq     int
	padded  bool
	// result of executing an empty block at the given height (it does not depend on the header, and every
	// ExecuteBlock call costs a few ms of buffer allocation): computed once per height
	execH   uint32
	execRes *store.ExecuteResult
}

func (w *world) execute(b *types.Block) store.ExecuteResult {
	if w.execRes == nil || w.execH != b.Header.Height {
		res, err := w.lg.L.ExecuteBlock(b)
		if err != nil {
			vio.Fatal("ExecuteBlock: %v", err)
		}
		w.execH, w.execRes = b.Header.Height, &res
	}
	return *w.execRes
}

var worldCount int

// one padded header index (about 1.3 GB) is shared by all padded ledgers of a run
var padMap map[uint32]common.Uint256
var padDirtyLow, padDirtyHigh uint32

func (w *world) acct(id int) *account.Account {
	a, ok := w.accts[id]
	if !ok {
		a = account.NewAccount("")
		w.accts[id] = a
		w.idOf[vconfig.PubkeyID(a.PublicKey)] = id
	}
	return a
}

const padHeight = 20000001

// openWorld creates a fresh ledger with validators 1..n.
//
//	vbft/legacy: cond "main-low" (main network, header height <= 20,000,000) or "other-high" (other network, padded index)
//	vbft/bft:    main network and the header index padded beyond 20,000,000 (hook VerifPadHeaderIndex)
func openWorld(mode, rule, cond string, n int, rng *vio.RNG) *world {
	w, err := tryOpenWorld(mode, rule, cond, n, rng)
	if err != nil {
		vio.Fatal("open ledger (%s n=%d): %v", mode, n, err)
	}
	return w
}

func tryOpenWorld(mode, rule, cond string, n int, rng *vio.RNG) (*world, error) {
	worldCount++
	base := os.Getenv("VERIF_OUT")
	if base == "" {
		base = "."
	}
	dir := filepath.Join(base, fmt.Sprintf("ledger-%d-%s-%s-%d-%d", os.Getpid(), mode, rule, n, worldCount))
	os.RemoveAll(dir)
	w := &world{mode: mode, rule: rule, cond: cond, n: n, accts: map[int]*account.Account{}, idOf: map[string]int{}, rng: rng, dir: dir}
	var accts []*account.Account
	for i := 1; i <= n; i++ {
		accts = append(accts, w.acct(i))
	}
	config.DefConfig.P2PNode.NetworkId = config.NETWORK_ID_MAIN_NET
	if cond == "other-high" {
		config.DefConfig.P2PNode.NetworkId = config.NETWORK_ID_TEST_NET
	}
	lg, err := ledgerkit.Open(dir, accts, mode == "vbft")
	if err != nil {
		os.RemoveAll(dir)
		return nil, err
	}
	w.lg = lg
	if mode == "vbft" && (rule == "bft" || cond == "other-high") {
		if cond == "" {
			w.cond = "main-high"
		}
		// the header path needs a parent at the padded height; it is a synthetic header above the genesis block
		tip := &types.Header{PrevBlockHash: lg.L.GetCurrentBlockHash(), Height: padHeight, Timestamp: lg.Genesis.Header.Timestamp + 1,
			ChainID: lg.Genesis.Header.ChainID}
		tip.ConsensusPayload, _ = json.Marshal(&vconfig.VbftBlockInfo{Proposer: 1})
		padMap = lg.L.VerifPadHeaderIndex(padHeight, tip, padMap, padDirtyLow, padDirtyHigh)
		padDirtyLow, padDirtyHigh = 0, 0
		w.padded = true
		w.hdrTip = tip
		if lg.L.GetCurrentHeaderHeight() != padHeight {
			vio.Fatal("padding failed: header height %d", lg.L.GetCurrentHeaderHeight())
		}
	} else if mode == "vbft" {
		w.cond = "main-low"
	}
	w.soloCur = map[string][]int{"hdr": seq1(n), "blk": seq1(n)}
	return w, nil
}

func (w *world) close() {
	if w.lg != nil && w.padded {
		padDirtyLow = w.lg.L.GetCurrentBlockHeight() + 2
		if hh := w.lg.L.GetCurrentHeaderHeight(); hh > padHeight {
			padDirtyHigh = hh - padHeight + 2
		}
	}
	if w.lg != nil {
		w.lg.L.Close()
		w.lg = nil
	}
	os.RemoveAll(w.dir)
}

func (w *world) keys(ids []int) []keypair.PublicKey {
	r := make([]keypair.PublicKey, 0, len(ids))
	for _, id := range ids {
		r = append(r, w.acct(id).PublicKey)
	}
	return r
}

// current believed set of a path (vbft: what the node holds, through the hook; solo: the list committed by the tip).
func (w *world) current(op string) []int {
	if w.mode == "vbft" {
		return w.observed(op)
	}
	if op == "hdr" {
		return w.soloCur["hdr"]
	}
	return w.soloCur["blk"]
}

// observed set the node holds for a path ("hdr" / block), as sorted ids; vbft only (<<0>> otherwise).
func (w *world) observed(op string) []int {
	if w.mode != "vbft" {
		return []int{0}
	}
	hs, bs := w.lg.L.VerifPeerInfo()
	m := bs
	if op == "hdr" {
		m = hs
	}
	res := []int{}
	for k := range m {
		id, ok := w.idOf[k]
		if !ok {
			id = 9999
		}
		res = append(res, id)
	}
	sort.Ints(res)
	return res
}

// badSig makes a byte string that is NOT a valid signature of any key over hash: four concrete kinds.
func (w *world) badSig(hash common.Uint256, hint int) (sig []byte, how string) {
	signer := w.acct(1 + w.rng.Intn(w.n+1))
	switch (hint + w.rng.Intn(4)) % 4 {
	case 0: // a genuine signature, but over another message
		other := hash
		other[w.rng.Intn(32)] ^= byte(1 + w.rng.Intn(255))
		sig, _ = signature.Sign(signer, other[:])
		return sig, "other-message"
	case 1: // genuine signature with one flipped bit in the second half (s value)
		sig, _ = signature.Sign(signer, hash[:])
		sig[len(sig)/2+w.rng.Intn(len(sig)/2)] ^= 1 << uint(w.rng.Intn(8))
		return sig, "bit-flip"
	case 2: // truncated
		sig, _ = signature.Sign(signer, hash[:])
		return sig[:len(sig)-1-w.rng.Intn(8)], "truncated"
	default:
		return []byte{}, "empty"
	}
}

// build concretizes an abstract header as the successor of the given path's tip.
func (w *world) build(op string, a absHeader) (*types.Block, common.Uint256, string) {
	l := w.lg.L
	var prev common.Uint256
	var height, ts uint32
	if op == "hdr" {
		if w.hdrTip != nil {
			prev, height, ts = w.hdrTip.Hash(), w.hdrTip.Height+1, w.hdrTip.Timestamp+1
		} else {
			hh := l.GetCurrentHeaderHeight()
			hdr, err := l.GetHeaderByHash(l.GetCurrentHeaderHash())
			if err != nil || hdr == nil {
				vio.Fatal("no header tip at %d: %v", hh, err)
			}
			prev, height, ts = hdr.Hash(), hdr.Height+1, hdr.Timestamp+1
		}
	} else {
		cur, err := l.GetHeaderByHash(l.GetCurrentBlockHash())
		if err != nil {
			vio.Fatal("no block tip: %v", err)
		}
		prev, height, ts = cur.Hash(), cur.Height+1, cur.Timestamp+1
	}
	hdr := &types.Header{PrevBlockHash: prev, Height: height, Timestamp: ts, TransactionsRoot: common.UINT256_EMPTY,
		ConsensusData: w.rng.U64(), ChainID: w.lg.Genesis.Header.ChainID}
	how := ""
	if op != "hdr" {
		hdr.BlockRoot = l.GetBlockRootWithPreBlockHashes(height, []common.Uint256{prev})
		if r, err := l.GetCrossStateRoot(height - 1); err == nil {
			hdr.CrossStateRoot = r
		}
	}
	if w.mode == "vbft" {
		info := &vconfig.VbftBlockInfo{Proposer: 1, LastConfigBlockNum: 0}
		if len(a.Cfg) > 0 {
			cc := &vconfig.ChainConfig{Version: 1, View: 2, N: uint32(len(a.Cfg)), C: uint32(len(a.Cfg)) / 3}
			for _, id := range a.Cfg {
				cc.Peers = append(cc.Peers, &vconfig.PeerConfig{Index: uint32(id), ID: vconfig.PubkeyID(w.acct(id).PublicKey)})
			}
			info.NewChainConfig = cc
		}
		hdr.ConsensusPayload, _ = json.Marshal(info)
	} else {
		nb, err := types.AddressFromBookkeepers(w.keys(a.Cfg))
		if err != nil {
			vio.Fatal("next bookkeeper address: %v", err)
		}
		hdr.NextBookkeeper = nb
	}
	stateRootOK := true
	if op != "hdr" && a.Body == "bad" {
		if op == "add" && w.rng.Bool() {
			stateRootOK = false
			how = "wrong-state-root"
		} else {
			hdr.BlockRoot[w.rng.Intn(32)] ^= byte(1 + w.rng.Intn(255))
			how = "wrong-block-root"
		}
	}
	b := &types.Block{Header: hdr}
	hash := b.Hash()
	for i, tok := range a.Sg {
		if tok > 0 {
			sig, err := signature.Sign(w.acct(tok), hash[:])
			if err != nil {
				vio.Fatal("sign: %v", err)
			}
			hdr.SigData = append(hdr.SigData, sig)
		} else {
			sig, h := w.badSig(hash, i)
			hdr.SigData = append(hdr.SigData, sig)
			how += " sig" + fmt.Sprint(i+1) + ":" + h
		}
	}
	hdr.Bookkeepers = w.keys(a.Bk)
	var stateRoot common.Uint256
	if op == "add" {
		stateRoot = w.execute(b).MerkleRoot
		if !stateRootOK {
			stateRoot[w.rng.Intn(32)] ^= byte(1 + w.rng.Intn(255))
		}
	}
	return b, stateRoot, how
}

// offer executes one abstract header on the real ledger and records what happened.
func (w *world) offer(op string, a absHeader, tag string) event {
	if a.Body == "" {
		a.Body = "ok"
	}
	if a.Bk == nil {
		a.Bk = []int{}
	}
	if a.Sg == nil {
		a.Sg = []int{}
	}
	if a.Cfg == nil {
		a.Cfg = []int{}
	}
	l := w.lg.L
	b, stateRoot, how := w.build(op, a)
	bh0, hh0 := l.GetCurrentBlockHeight(), l.GetCurrentHeaderHeight()
	var err error
	var res store.ExecuteResult
	if op == "sub" {
		res = w.execute(b)
	}
	p := vio.Safe(func() {
		switch op {
		case "hdr":
			err = l.AddHeader(b.Header)
		case "sub":
			err = l.SubmitBlock(b, res)
		case "add":
			err = l.AddBlock(b, stateRoot)
		default:
			vio.Fatal("bad op %s", op)
		}
	})
	w.seq++
	ev := event{Op: op, Mode: w.mode, Rule: w.rule, Bk: a.Bk, Sg: a.Sg, Cfg: a.Cfg, Body: a.Body, N: w.n, Tag: tag, How: how, Panic: p, Seq: w.seq}
	if err != nil {
		ev.Err = err.Error()
		if len(ev.Err) > 160 {
			ev.Err = ev.Err[:160]
		}
	}
	// acceptance = the chain grew by this very block / header (not merely a nil error: offers at a stale height return nil)
	if op == "hdr" {
		ev.Acc = p == "" && err == nil && l.GetCurrentHeaderHeight() == hh0+1 && l.GetCurrentHeaderHash() == b.Hash()
		if ev.Acc {
			w.hdrTip = b.Header
			w.soloCur["hdr"] = a.Cfg
		}
	} else {
		ev.Acc = p == "" && err == nil && l.GetCurrentBlockHeight() == bh0+1 && l.GetCurrentBlockHash() == b.Hash()
		if ev.Acc {
			w.soloCur["blk"] = a.Cfg
			if w.hdrTip != nil && w.hdrTip.Height <= b.Header.Height {
				w.hdrTip = nil // the header path continues from the block tip
				w.soloCur["hdr"] = a.Cfg
			}
		}
	}
	if (err == nil) != ev.Acc && p == "" {
		ev.Err = "nil error but chain did not grow / " + ev.Err
	}
	ev.Obs = w.observed(op)
	return ev
}

// syncEvent tells the trace monitor which sets the node really holds (bk: header path, sg: block path); emitted by the
// random driver after a rejected announcing block so that one defect does not shadow the rest of a long run.
func (w *world) syncEvent() event {
	return event{Op: "sync", Mode: w.mode, Rule: w.rule, Bk: w.current("hdr"), Sg: w.current("sub"), Cfg: []int{}, Body: "ok", Obs: []int{0}, N: w.n}
}

func (w *world) resetEvent(set []int) event {
	return event{Op: "reset", Mode: w.mode, Rule: w.rule, Bk: []int{}, Sg: []int{}, Cfg: []int{}, Body: "ok", Obs: set, N: w.n, Tag: w.cond}
}
