package main

import (
	"bytes"
	"encoding/json"
	"fmt"

	"github.com/polynetwork/poly/common"
	"github.com/polynetwork/poly/common/config"
	mt "github.com/polynetwork/poly/p2pserver/message/types"

	"verifh/kit/vio"
)

type frameOutcome struct {
	accepted bool
	panicked string
	errText  string
	plen     int
	msg      mt.Message
}

func readFrame(stream []byte) (o frameOutcome) {
	o.panicked = vio.Safe(func() {
		m, n, err := mt.ReadMessage(bytes.NewReader(stream))
		if err != nil {
			o.errText = err.Error()
			return
		}
		o.accepted, o.plen, o.msg = true, int(n), m
	})
	return
}

func frameRegion(pos int) string {
	switch {
	case pos < 4:
		return "magic"
	case pos < 16:
		return "cmd"
	case pos < 20:
		return "length"
	case pos < 24:
		return "checksum"
	}
	return "payload"
}

// negativeAddrCount: the stream is an "addr" frame whose 8-byte count has the top bit set (int(count) < 0)
func negativeAddrCount(stream []byte) bool {
	return len(stream) >= 32 && bytes.Equal(bytes.TrimRight(stream[4:16], "\x00"), []byte("addr")) && stream[31] >= 0x80
}

func c05Class(row *wireRow, stream []byte) string {
	if negativeAddrCount(stream) {
		return "addr-count-negative"
	}
	msg := row.Sc
	if msg == "txmsg" {
		msg = "tx"
	} else if msg == "blockmsg" {
		msg = "block"
	}
	switch {
	case row.Kd == "cnt:vu:alloc" && hugeAlt(row.An):
		return msg + "-sigcount-huge"
	case row.Op == "byte":
		return "byte-" + frameRegion(row.I)
	case row.Kd != "":
		return msg + ":" + row.Kd + ":" + row.An
	}
	return msg + ":" + row.Op
}

func runC05() {
	config.DefConfig.P2PNode.NetworkMagic = 0x004E4442 // bytes 42 44 4E 00 on the wire, as Magic in spec/Wire.tla
	lines := vio.ReadLines()
	toks := newTokens(vio.Seed())
	var st wireStats
	rows := make([]wireRow, len(lines))
	base := map[string]int{}
	for idx, ln := range lines {
		if err := json.Unmarshal(ln, &rows[idx]); err != nil {
			vio.Fatal("row %d: %v", idx, err)
		}
		if rows[idx].Op == "valid" {
			base[rows[idx].O] = idx
		}
	}
	for idx := range rows {
		row := &rows[idx]
		ln := lines[idx]
		st.rows++
		res := toks.resolver(row)
		stream := row.S.Concretize(res)
		must := row.Must
		if row.Op == "byte" {
			// the corruption is applied to the concrete frame (the model cannot know token bytes)
			if bi, ok := base[row.O]; ok {
				b := rows[bi].S.Concretize(toks.resolver(&rows[bi]))
				stream = append([]byte{}, b...)
				switch row.A {
				case 1:
					stream[row.I] ^= 1 << uint(row.I%8)
				case 2:
					stream[row.I] = 0x00
				case 3:
					stream[row.I] = 0xFF
				}
				if bytes.Equal(stream, b) {
					st.skipped++ // the byte already had that value: not a corruption
					continue
				}
				must = "reject"
			} // else (single-row replay): the model's own mutated stream is used
		}
		if must != "same" || row.Op != "valid" {
			st.nontrivial++
		}
		st.evals++
		// encoder side
		if row.Must == "same" && row.Op == "valid" {
			var val interface{}
			vio.Must(json.Unmarshal(row.Val, &val))
			var got []byte
			p := vio.Safe(func() {
				m := toks.msgFromVal(row.Sc, val, res)
				sink := common.NewZeroCopySink(nil)
				if err := mt.WriteMessage(sink, m); err != nil {
					panic(err)
				}
				got = sink.Bytes()
			})
			if p != "" {
				st.violation("p2p-frame-panic:write-"+row.Sc, row, ln, map[string]interface{}{"panic": p})
			} else if !bytes.Equal(got, stream) {
				st.violation("p2p-frame-roundtrip:"+row.Sc+":enc-mismatch", row, ln, map[string]interface{}{"got": short(got), "spec": short(stream)})
			}
		}
		o := readFrame(stream)
		if o.panicked != "" {
			st.violation("p2p-frame-panic:"+c05Class(row, stream), row, ln, map[string]interface{}{"panic": o.panicked, "stream": short(stream)})
			continue
		}
		switch must {
		case "same":
			what, det := "", ""
			if !o.accepted {
				what, det = "rejected", o.errText
			} else if o.plen != row.Refp.Len() {
				what, det = "length", fmt.Sprintf("%d, payload has %d", o.plen, row.Refp.Len())
			} else if ok, d := idsMatch(idsOfMsg(o.msg), row.Exp.H, res); !ok {
				what, det = "identity", d
			} else {
				var val interface{}
				vio.Must(json.Unmarshal(row.Val, &val))
				want := projMsg(toks.msgFromVal(row.Sc, val, res))
				if got := projMsg(o.msg); !sameJSON(want, got) {
					g, _ := json.Marshal(got)
					what, det = "value", string(g)
				}
			}
			if what != "" {
				st.violation("p2p-frame-roundtrip:"+row.Sc+":"+what, row, ln, map[string]interface{}{"got": det})
			}
		case "reject":
			if o.accepted {
				st.violation("p2p-frame-accepted:"+c05Class(row, stream), row, ln, map[string]interface{}{"stream": short(stream), "decoded": fmt.Sprintf("%T", o.msg)})
			}
		default:
			if row.Exp.E == "unk" {
				st.unk++
				continue
			}
			same := (row.Exp.E == "ok") == o.accepted
			why := "accept/reject"
			if same && o.accepted {
				if ok, d := idsMatch(idsOfMsg(o.msg), row.Exp.H, res); !ok {
					same, why = false, d
				}
			}
			if !same {
				st.drift++
				vio.Emit(map[string]interface{}{"drift": "p2p:" + c05Class(row, stream), "o": row.O, "op": row.Op, "i": row.I, "a": row.A,
					"model": row.Exp.E, "accepted": o.accepted, "err": o.errText, "why": why})
			}
		}
	}
	vio.Emit(map[string]interface{}{"summary": true, "rows": st.rows, "evals": st.evals, "distinct": st.nontrivial, "viol": st.viol,
		"drift": st.drift, "unk": st.unk, "skipped": st.skipped})
}
