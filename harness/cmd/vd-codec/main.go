// vd-codec: drivers for the wire layer (C01 primitives, C02 ledger objects, C05 p2p frames).
// Every sub-command reads table rows printed by TLC (NDJSON on stdin), replays them on the real poly
// code and reports, per row, only what deviates: {"viol":key,...} (the monitor field of the row is
// broken), {"drift":...} (monitor satisfied, exact model prediction differs) and one {"summary":true,...}.
package main

import (
	"os"

	"verifh/kit/vio"
)

func main() {
	defer vio.Flush()
	if len(os.Args) < 2 {
		vio.Fatal("usage: vd-codec c01|c02|c05")
	}
	switch os.Args[1] {
	case "c01":
		runC01()
	case "c02":
		runC02()
	case "c05":
		runC05()
	default:
		vio.Fatal("unknown command %s", os.Args[1])
	}
}
