package main

import (
	"bytes"
	"encoding/json"
	"fmt"

	"github.com/polynetwork/poly/common"
	"github.com/polynetwork/poly/core/types"

	"verifh/kit/vio"
)

// outcome of running one decoder entry point of core/types on a byte string
type outcome struct {
	accepted bool
	panicked string
	errText  string
	pos      int
	ids      [][32]byte
	proj     interface{}
	reenc    []byte
}

func decodeEntry(entry string, raw []byte, variant int) (o outcome) {
	o.panicked = vio.Safe(func() {
		switch entry {
		case "txraw":
			tx, err := types.TransactionFromRawBytes(raw)
			if err != nil {
				o.errText = err.Error()
				return
			}
			o.accepted, o.pos, o.ids, o.proj, o.reenc = true, len(tx.Raw), [][32]byte{tx.Hash()}, projTx(tx), tx.ToArray()
		case "tx":
			src := common.NewZeroCopySource(raw)
			tx := &types.Transaction{}
			if err := tx.Deserialization(src); err != nil {
				o.errText = err.Error()
				return
			}
			o.accepted, o.pos, o.ids, o.proj, o.reenc = true, int(src.Pos()), [][32]byte{tx.Hash()}, projTx(tx), tx.ToArray()
		case "header":
			h := &types.Header{}
			if variant == 0 {
				src := common.NewZeroCopySource(raw)
				if err := h.Deserialization(src); err != nil {
					o.errText = err.Error()
					return
				}
				o.pos, o.reenc = int(src.Pos()), h.ToArray()
				if h2, err := types.HeaderFromRawBytes(raw); err != nil || h2.Hash() != h.Hash() {
					panic(fmt.Sprintf("HeaderFromRawBytes disagrees with Header.Deserialization: %v", err))
				}
			} else {
				r := bytes.NewReader(raw)
				if err := h.Deserialize(r); err != nil {
					o.errText = err.Error()
					return
				}
				w := new(bytes.Buffer)
				if err := h.Serialize(w); err != nil {
					panic(err)
				}
				o.pos, o.reenc = len(raw)-r.Len(), w.Bytes()
			}
			o.accepted, o.ids, o.proj = true, [][32]byte{h.Hash()}, projHeader(h)
		case "block":
			src := common.NewZeroCopySource(raw)
			b := &types.Block{}
			err := b.Deserialization(src)
			if variant == 1 {
				b, err = types.BlockFromRawBytes(raw)
			}
			if err != nil {
				o.errText = err.Error()
				return
			}
			o.accepted, o.proj, o.reenc = true, projBlock(b), b.ToArray()
			if variant == 0 {
				o.pos = int(src.Pos())
			} else {
				o.pos = -1
			}
			o.ids = append(o.ids, b.Hash())
			for _, tx := range b.Transactions {
				o.ids = append(o.ids, tx.Hash())
			}
		default:
			vio.Fatal("unknown entry %s", entry)
		}
	})
	return
}

func hugeAlt(an string) bool { return an == "2^48" || an == "2^63-1" || an == "2^63" || an == "2^64-1" }

// class of a mutant for violation keys
func mutClass(row *wireRow) string {
	switch {
	case row.Kd == "cnt:vu:alloc" && hugeAlt(row.An):
		return "sigcount-huge"
	case row.Op == "cut" || row.Op == "pmcut" || row.Op == "fcut":
		return "cut"
	case row.Kd != "":
		return row.Kd + ":" + row.An
	}
	return row.Op
}

type wireStats struct {
	rows, evals, nontrivial, viol, drift, unk, skipped int
}

func (st *wireStats) violation(key string, row *wireRow, raw json.RawMessage, detail map[string]interface{}) {
	st.viol++
	detail["o"], detail["op"], detail["i"], detail["a"], detail["kd"], detail["an"] = row.O, row.Op, row.I, row.A, row.Kd, row.An
	vio.Emit(map[string]interface{}{"viol": key, "detail": detail, "replay": raw})
}

func idsMatch(got [][32]byte, exp []Buf, res func(string) []byte) (bool, string) {
	if len(got) != len(exp) {
		return false, fmt.Sprintf("%d identities, the model has %d", len(got), len(exp))
	}
	for i := range got {
		want := sha256d(exp[i].Concretize(res))
		if got[i] != want {
			return false, fmt.Sprintf("identity %d: got %x, SHA-256d of the model's unsigned bytes is %x", i, got[i], want)
		}
	}
	return true, ""
}

func runC02() {
	lines := vio.ReadLines()
	toks := newTokens(vio.Seed())
	var st wireStats
	for idx, ln := range lines {
		var row wireRow
		if err := json.Unmarshal(ln, &row); err != nil {
			vio.Fatal("row %d: %v", idx, err)
		}
		st.rows++
		res := toks.resolver(&row)
		raw := row.S.Concretize(res)
		nvar := 1
		if row.Entry == "header" || row.Entry == "block" {
			nvar = 2
		}
		if row.Must != "same" || row.Op != "valid" {
			st.nontrivial++
		}
		// encoder side of a valid value
		if row.Must == "same" && row.Op == "valid" {
			var val interface{}
			vio.Must(json.Unmarshal(row.Val, &val))
			c02Encode(&st, toks, &row, ln, val, res, raw)
		}
		for variant := 0; variant < nvar; variant++ {
			st.evals++
			o := decodeEntry(row.Entry, append([]byte{}, raw...), variant)
			vtag := fmt.Sprintf("%s/v%d", row.Entry, variant)
			if o.panicked != "" {
				st.violation(row.Sc+"-decode-panic:"+mutClass(&row), &row, ln, map[string]interface{}{"entry": vtag, "panic": o.panicked, "input": short(raw)})
				continue
			}
			switch row.Must {
			case "same":
				what, det := "", ""
				if !o.accepted {
					what, det = "rejected", o.errText
				} else if o.pos >= 0 && o.pos != len(raw) {
					what, det = "consumed", fmt.Sprintf("%d of %d bytes", o.pos, len(raw))
				} else if ok, d := idsMatch(o.ids, row.Exp.H, res); !ok {
					what, det = "identity", d
				} else if !bytes.Equal(o.reenc, raw) {
					what, det = "reencoded", short(o.reenc)
				} else {
					var val interface{}
					vio.Must(json.Unmarshal(row.Val, &val))
					var want interface{}
					switch row.Sc {
					case "tx":
						want = projTx(toks.txFromVal(val, res))
					case "header":
						want = projHeader(toks.headerFromVal(val, res))
					case "block":
						want = projBlock(toks.blockFromVal(val, res))
					}
					if !sameJSON(want, o.proj) {
						g, _ := json.Marshal(o.proj)
						what, det = "value", string(g)
					}
				}
				if what != "" {
					st.violation(row.Sc+"-roundtrip:"+what, &row, ln, map[string]interface{}{"entry": vtag, "got": det})
				}
			case "reject":
				if o.accepted {
					cls := row.O
					if row.Op == "root" {
						cls = "root-" + row.An
					}
					st.violation(row.Sc+"-accepted:"+cls, &row, ln, map[string]interface{}{"entry": vtag})
				}
			default: // free: only the exact prediction is compared (drift)
				if row.Exp.E == "unk" {
					st.unk++
					continue
				}
				same := (row.Exp.E == "ok") == o.accepted
				why := "accept/reject"
				if same && o.accepted {
					if o.pos >= 0 && o.pos != row.Exp.P {
						same, why = false, fmt.Sprintf("consumed %d, model %d", o.pos, row.Exp.P)
					} else if ok, d := idsMatch(o.ids, row.Exp.H, res); !ok {
						same, why = false, d
					}
				}
				if !same {
					st.drift++
					vio.Emit(map[string]interface{}{"drift": row.Sc + ":" + mutClass(&row), "o": row.O, "op": row.Op, "i": row.I, "a": row.A,
						"model": row.Exp.E, "accepted": o.accepted, "err": o.errText, "why": why, "entry": vtag})
				}
			}
		}
	}
	vio.Emit(map[string]interface{}{"summary": true, "rows": st.rows, "evals": st.evals, "distinct": st.nontrivial, "viol": st.viol,
		"drift": st.drift, "unk": st.unk})
}

// the real encoders must produce the specification's bytes; a header's identity must not need decoding
func c02Encode(st *wireStats, toks *tokens, row *wireRow, ln json.RawMessage, val interface{}, res func(string) []byte, spec []byte) {
	var enc [][]byte
	var names []string
	var id *[32]byte
	p := vio.Safe(func() {
		switch row.Sc {
		case "tx":
			tx := toks.txFromVal(val, res)
			sink := common.NewZeroCopySink(nil)
			if err := tx.Serialization(sink); err != nil {
				panic(err)
			}
			enc, names = append(enc, sink.Bytes()), append(names, "Serialization")
			enc, names = append(enc, tx.ToArray()), append(names, "ToArray")
			u := common.NewZeroCopySink(nil)
			if err := tx.SerializeUnsigned(u); err != nil {
				panic(err)
			}
			if !bytes.Equal(u.Bytes(), row.Exp.H[0].Concretize(res)) {
				enc, names = append(enc, u.Bytes()), append(names, "SerializeUnsigned!")
			}
		case "header":
			h := toks.headerFromVal(val, res)
			sink := common.NewZeroCopySink(nil)
			if err := h.Serialization(sink); err != nil {
				panic(err)
			}
			enc, names = append(enc, sink.Bytes()), append(names, "Serialization")
			w := new(bytes.Buffer)
			if err := h.Serialize(w); err != nil {
				panic(err)
			}
			enc, names = append(enc, w.Bytes()), append(names, "Serialize")
			enc, names = append(enc, h.ToArray()), append(names, "ToArray")
			x := [32]byte(h.Hash())
			id = &x
			if !bytes.Equal(h.GetMessage(), row.Exp.H[0].Concretize(res)) {
				enc, names = append(enc, h.GetMessage()), append(names, "GetMessage!")
			}
		case "block":
			b := toks.blockFromVal(val, res)
			sink := common.NewZeroCopySink(nil)
			if err := b.Serialization(sink); err != nil {
				panic(err)
			}
			enc, names = append(enc, sink.Bytes()), append(names, "Serialization")
			enc, names = append(enc, b.ToArray()), append(names, "ToArray")
			x := [32]byte(b.Hash())
			id = &x
		}
	})
	st.evals++
	if p != "" {
		st.violation(row.Sc+"-encode-panic:"+row.O, row, ln, map[string]interface{}{"panic": p})
		return
	}
	for i, e := range enc {
		if names[i][len(names[i])-1] == '!' {
			st.violation(row.Sc+"-roundtrip:unsigned-bytes", row, ln, map[string]interface{}{"fn": names[i], "got": short(e)})
		} else if !bytes.Equal(e, spec) {
			st.violation(row.Sc+"-roundtrip:enc-mismatch", row, ln, map[string]interface{}{"fn": names[i], "got": short(e), "spec": short(spec)})
		}
	}
	if id != nil {
		if want := sha256d(row.Exp.H[0].Concretize(res)); *id != want {
			st.violation(row.Sc+"-roundtrip:identity", row, ln, map[string]interface{}{"got": fmt.Sprintf("%x", *id), "want": fmt.Sprintf("%x", want), "where": "Hash() of the built object"})
		}
	}
}
