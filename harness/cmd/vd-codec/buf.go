package main

import (
	"bytes"
	"encoding/json"
	"fmt"
)

// A model buffer in compact JSON form: [[n,b], ...] literal runs, [[n,"token",offset], ...] token pieces.
type Seg struct {
	N   int
	B   int    // literal byte, -1 for a token piece
	K   string // token name
	Off int
}

type Buf []Seg

func (b *Buf) UnmarshalJSON(data []byte) error {
	var raw [][]json.RawMessage
	if err := json.Unmarshal(data, &raw); err != nil {
		return err
	}
	*b = (*b)[:0]
	for _, r := range raw {
		var s Seg
		if len(r) == 2 {
			if err := json.Unmarshal(r[0], &s.N); err != nil {
				return err
			}
			if err := json.Unmarshal(r[1], &s.B); err != nil {
				return err
			}
		} else if len(r) == 3 {
			s.B = -1
			if err := json.Unmarshal(r[0], &s.N); err != nil {
				return err
			}
			if err := json.Unmarshal(r[1], &s.K); err != nil {
				return err
			}
			if err := json.Unmarshal(r[2], &s.Off); err != nil {
				return err
			}
		} else {
			return fmt.Errorf("bad segment %s", string(data))
		}
		*b = append(*b, s)
	}
	return nil
}

func (b Buf) Len() int {
	n := 0
	for _, s := range b {
		n += s.N
	}
	return n
}

// Concretize expands the buffer; toks resolves token names to their full byte strings.
func (b Buf) Concretize(toks func(string) []byte) []byte {
	out := make([]byte, 0, b.Len())
	for _, s := range b {
		if s.B >= 0 {
			out = append(out, bytes.Repeat([]byte{byte(s.B)}, s.N)...)
			continue
		}
		t := toks(s.K)
		if s.Off+s.N > len(t) {
			panic(fmt.Sprintf("token %q: piece [%d,%d) beyond its %d bytes", s.K, s.Off, s.Off+s.N, len(t)))
		}
		out = append(out, t[s.Off:s.Off+s.N]...)
	}
	return out
}

func noTokens(k string) []byte { panic("unexpected token " + k) }

// le decodes a little-endian byte tuple arithmetically (deliberately not encoding/binary).
func le(v []int) uint64 {
	var x uint64
	for i := len(v) - 1; i >= 0; i-- {
		x = x*256 + uint64(v[i])
	}
	return x
}

func leBytes(x uint64, w int) []int {
	r := make([]int, w)
	for i := 0; i < w; i++ {
		r[i] = int(x % 256)
		x /= 256
	}
	return r
}

func intsToBytes(v []int) []byte {
	r := make([]byte, len(v))
	for i, x := range v {
		r[i] = byte(x)
	}
	return r
}

func bytesToInts(v []byte) []int {
	r := make([]int, len(v))
	for i, x := range v {
		r[i] = int(x)
	}
	return r
}

func eqInts(a, b []int) bool {
	if len(a) != len(b) {
		return false
	}
	for i := range a {
		if a[i] != b[i] {
			return false
		}
	}
	return true
}

func short(b []byte) string {
	if len(b) <= 48 {
		return fmt.Sprintf("%x", b)
	}
	return fmt.Sprintf("%x..(%d bytes)..%x", b[:24], len(b), b[len(b)-8:])
}
