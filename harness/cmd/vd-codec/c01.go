package main

import (
	"bytes"
	"encoding/json"
	"fmt"
	"io"

	"github.com/polynetwork/poly/common"
	"github.com/polynetwork/poly/common/serialization"

	"verifh/kit/vio"
)

// ---- rows printed by spec/CodecTable.tla ----------------------------------------------------------

type c01Item struct {
	K string          `json:"k"`
	V json.RawMessage `json:"v"`
	W int             `json:"w"`

	num  []int  // numeric kinds: little-endian byte tuple
	blob []byte // blob kinds
}

type c01Res struct { // model prediction or monitor entry
	E string          `json:"e"`
	M string          `json:"m"`
	P int             `json:"p"`
	V json.RawMessage `json:"v"`
}

type c01Row struct {
	Kind  string    `json:"kind"`
	Items []c01Item `json:"items"`
	Enc   Buf       `json:"enc"`
	Ends  []int     `json:"ends"`
	Cuts  []int     `json:"cuts"`
	Buf   Buf       `json:"buf"`
	S     int       `json:"s"`
	X     []int     `json:"x"`
	Must  []c01Res  `json:"must"`
	ZC    []c01Res  `json:"zc"`
	ST    []c01Res  `json:"st"`
}

func isNumKind(k string) bool {
	switch k {
	case "u8", "byte", "u16", "i16", "u32", "i32", "u64", "i64", "bool", "varuint":
		return true
	}
	return false
}

func (it *c01Item) parse() {
	if isNumKind(it.K) {
		vio.Must(json.Unmarshal(it.V, &it.num))
	} else {
		var b Buf
		vio.Must(json.Unmarshal(it.V, &b))
		it.blob = b.Concretize(noTokens)
	}
}

// canonical observation of one read: numeric kinds -> LE byte tuple, blob kinds -> bytes
type obs struct {
	num  []int
	blob []byte
	err  bool
	pos  int
}

func (o obs) equalsItem(it *c01Item) bool {
	if isNumKind(it.K) {
		return eqInts(o.num, it.num)
	}
	return bytes.Equal(o.blob, it.blob)
}

func (o obs) String() string {
	if o.err {
		return "error"
	}
	if o.num != nil {
		return fmt.Sprintf("%v@%d", o.num, o.pos)
	}
	return fmt.Sprintf("%s@%d", short(o.blob), o.pos)
}

// ---- writers -----------------------------------------------------------------------------------------

func writeZC(sink *common.ZeroCopySink, it *c01Item, variant int) (sizeOK bool) {
	sizeOK = true
	before := sink.Size()
	switch it.K {
	case "u8":
		sink.WriteUint8(uint8(le(it.num)))
	case "byte":
		sink.WriteByte(byte(le(it.num)))
	case "u16":
		sink.WriteUint16(uint16(le(it.num)))
	case "i16":
		sink.WriteInt16(int16(uint16(le(it.num))))
	case "u32":
		sink.WriteUint32(uint32(le(it.num)))
	case "i32":
		sink.WriteInt32(int32(uint32(le(it.num))))
	case "u64":
		sink.WriteUint64(le(it.num))
	case "i64":
		sink.WriteInt64(int64(le(it.num)))
	case "bool":
		sink.WriteBool(it.num[0] == 1)
	case "varuint":
		n := sink.WriteVarUint(le(it.num))
		sizeOK = n == sink.Size()-before && int(n) == serialization.GetVarUintSize(le(it.num))
	case "varbytes":
		n := sink.WriteVarBytes(it.blob)
		sizeOK = n == sink.Size()-before
	case "string":
		n := sink.WriteString(string(it.blob))
		sizeOK = n == sink.Size()-before
	case "addr":
		var a common.Address
		copy(a[:], it.blob)
		if variant == 0 {
			sink.WriteAddress(a)
		} else {
			a.Serialization(sink)
		}
	case "hash":
		var h common.Uint256
		copy(h[:], it.blob)
		sink.WriteHash(h)
	case "bytes":
		sink.WriteBytes(it.blob)
	default:
		vio.Fatal("unknown item kind %s", it.K)
	}
	return
}

func writeST(w io.Writer, it *c01Item, variant int) error {
	switch it.K {
	case "u8":
		return serialization.WriteUint8(w, uint8(le(it.num)))
	case "byte":
		return serialization.WriteByte(w, byte(le(it.num)))
	case "u16", "i16":
		return serialization.WriteUint16(w, uint16(le(it.num)))
	case "u32", "i32":
		return serialization.WriteUint32(w, uint32(le(it.num)))
	case "u64", "i64":
		return serialization.WriteUint64(w, le(it.num))
	case "bool":
		return serialization.WriteBool(w, it.num[0] == 1)
	case "varuint":
		return serialization.WriteVarUint(w, le(it.num))
	case "varbytes":
		return serialization.WriteVarBytes(w, it.blob)
	case "string":
		return serialization.WriteString(w, string(it.blob))
	case "addr":
		var a common.Address
		copy(a[:], it.blob)
		if variant == 0 {
			return a.Serialize(w)
		}
		return serialization.WriteBytes(w, a[:])
	case "hash":
		var h common.Uint256
		copy(h[:], it.blob)
		return h.Serialize(w)
	case "bytes":
		return serialization.WriteBytes(w, it.blob)
	}
	vio.Fatal("unknown item kind %s", it.K)
	return nil
}

// ---- readers -------------------------------------------------------------------------------------------

func readZC(src *common.ZeroCopySource, it *c01Item, variant int) obs {
	var o obs
	switch it.K {
	case "u8":
		v, eof := src.NextUint8()
		o.num, o.err = leBytes(uint64(v), 1), eof
	case "byte":
		v, eof := src.NextByte()
		o.num, o.err = leBytes(uint64(v), 1), eof
	case "u16":
		v, eof := src.NextUint16()
		o.num, o.err = leBytes(uint64(v), 2), eof
	case "i16":
		v, eof := src.NextInt16()
		o.num, o.err = leBytes(uint64(uint16(v)), 2), eof
	case "u32":
		v, eof := src.NextUint32()
		o.num, o.err = leBytes(uint64(v), 4), eof
	case "i32":
		v, eof := src.NextInt32()
		o.num, o.err = leBytes(uint64(uint32(v)), 4), eof
	case "u64":
		v, eof := src.NextUint64()
		o.num, o.err = leBytes(v, 8), eof
	case "i64":
		v, eof := src.NextInt64()
		o.num, o.err = leBytes(uint64(v), 8), eof
	case "bool":
		v, eof := src.NextBool()
		o.err = eof
		if v {
			o.num = []int{1}
		} else {
			o.num = []int{0}
		}
	case "varuint":
		v, eof := src.NextVarUint()
		o.num, o.err = leBytes(v, 8), eof
	case "varbytes":
		v, eof := src.NextVarBytes()
		o.blob, o.err = append([]byte{}, v...), eof
	case "string":
		v, eof := src.NextString()
		o.blob, o.err = []byte(v), eof
	case "addr":
		if variant == 0 {
			v, eof := src.NextAddress()
			o.blob, o.err = append([]byte{}, v[:]...), eof
		} else {
			var a common.Address
			err := a.Deserialization(src)
			o.blob, o.err = append([]byte{}, a[:]...), err != nil
		}
	case "hash":
		v, eof := src.NextHash()
		o.blob, o.err = append([]byte{}, v[:]...), eof
	case "bytes":
		v, eof := src.NextBytes(uint64(it.W))
		o.blob, o.err = append([]byte{}, v...), eof
	default:
		vio.Fatal("unknown item kind %s", it.K)
	}
	o.pos = int(src.Pos())
	return o
}

func readST(r *bytes.Reader, total int, it *c01Item, variant int) obs {
	var o obs
	var err error
	switch it.K {
	case "u8":
		var v uint8
		v, err = serialization.ReadUint8(r)
		o.num = leBytes(uint64(v), 1)
	case "byte":
		var v byte
		v, err = serialization.ReadByte(r)
		o.num = leBytes(uint64(v), 1)
	case "u16", "i16":
		var v uint16
		v, err = serialization.ReadUint16(r)
		o.num = leBytes(uint64(v), 2)
	case "u32", "i32":
		var v uint32
		v, err = serialization.ReadUint32(r)
		o.num = leBytes(uint64(v), 4)
	case "u64", "i64":
		var v uint64
		v, err = serialization.ReadUint64(r)
		o.num = leBytes(v, 8)
	case "bool":
		var v bool
		v, err = serialization.ReadBool(r)
		if v {
			o.num = []int{1}
		} else {
			o.num = []int{0}
		}
	case "varuint":
		var v uint64
		v, err = serialization.ReadVarUint(r, 0)
		o.num = leBytes(v, 8)
	case "varbytes":
		var v []byte
		v, err = serialization.ReadVarBytes(r)
		o.blob = append([]byte{}, v...)
	case "string":
		var v string
		v, err = serialization.ReadString(r)
		o.blob = []byte(v)
	case "addr":
		var a common.Address
		if variant == 0 {
			a, err = serialization.ReadAddress(r)
		} else {
			err = a.Deserialize(r)
		}
		o.blob = append([]byte{}, a[:]...)
	case "hash":
		var h common.Uint256
		if variant == 0 {
			h, err = serialization.ReadHash(r)
		} else {
			err = h.Deserialize(r)
		}
		o.blob = append([]byte{}, h[:]...)
	case "bytes":
		var v []byte
		v, err = serialization.ReadBytes(r, uint64(it.W))
		o.blob = append([]byte{}, v...)
	default:
		vio.Fatal("unknown item kind %s", it.K)
	}
	o.err = err != nil
	o.pos = total - r.Len()
	return o
}

// readAll reads the items in order until the first error (as the model's DecSeq does).
func readAll(codec string, buf []byte, items []c01Item, variant int) (res []obs, panicked string) {
	panicked = vio.Safe(func() {
		if codec == "zc" {
			src := common.NewZeroCopySource(buf)
			for i := range items {
				o := readZC(src, &items[i], variant)
				res = append(res, o)
				if o.err {
					return
				}
			}
		} else {
			r := bytes.NewReader(buf)
			for i := range items {
				o := readST(r, len(buf), &items[i], variant)
				res = append(res, o)
				if o.err {
					return
				}
			}
		}
	})
	return
}

type c01Stats struct {
	rows, evals, nontrivial int
	viol, drift            int
}

func reportViol(key string, rowIdx int, detail map[string]interface{}, replay interface{}) {
	detail["row"] = rowIdx
	vio.Emit(map[string]interface{}{"viol": key, "detail": detail, "replay": replay})
}

func runC01() {
	lines := vio.ReadLines()
	var st c01Stats
	for idx, ln := range lines {
		var row c01Row
		if err := json.Unmarshal(ln, &row); err != nil {
			vio.Fatal("row %d: %v", idx, err)
		}
		for i := range row.Items {
			row.Items[i].parse()
		}
		st.rows++
		switch row.Kind {
		case "prog":
			c01Prog(idx, &row, ln, &st)
		case "raw":
			c01Raw(idx, &row, ln, &st)
		default:
			vio.Fatal("row %d: unknown kind %q", idx, row.Kind)
		}
	}
	vio.Emit(map[string]interface{}{"summary": true, "rows": st.rows, "evals": st.evals, "distinct": st.nontrivial,
		"viol": st.viol, "drift": st.drift})
}

func kindsOf(items []c01Item) string {
	s := ""
	for i, it := range items {
		if i > 0 {
			s += "+"
		}
		s += it.K
	}
	return s
}

func c01Prog(idx int, row *c01Row, raw json.RawMessage, st *c01Stats) {
	spec := row.Enc.Concretize(noTokens)
	items := row.Items
	for variant := 0; variant < 2; variant++ {
		// both encoders must produce the specification's bytes
		var zc, stream []byte
		sizeOK := true
		var bad string
		p := vio.Safe(func() {
			sink := common.NewZeroCopySink(nil)
			for i := range items {
				if !writeZC(sink, &items[i], variant) {
					sizeOK = false
					bad = items[i].K
				}
			}
			zc = append([]byte{}, sink.Bytes()...)
		})
		if p != "" {
			st.viol++
			reportViol("codec-panic:zc-write:"+kindsOf(items), idx, map[string]interface{}{"panic": p}, raw)
		} else if !bytes.Equal(zc, spec) {
			st.viol++
			reportViol("codec-enc:zc:"+firstDiffKind(row, zc, spec), idx, map[string]interface{}{"got": short(zc), "spec": short(spec), "items": kindsOf(items)}, raw)
		} else if !sizeOK {
			st.viol++
			reportViol("codec-enc-size:zc:"+bad, idx, map[string]interface{}{"items": kindsOf(items)}, raw)
		}
		p = vio.Safe(func() {
			w := new(bytes.Buffer)
			for i := range items {
				if err := writeST(w, &items[i], variant); err != nil {
					panic(err)
				}
			}
			stream = w.Bytes()
		})
		if p != "" {
			st.viol++
			reportViol("codec-panic:st-write:"+kindsOf(items), idx, map[string]interface{}{"panic": p}, raw)
		} else if !bytes.Equal(stream, spec) {
			st.viol++
			reportViol("codec-enc:st:"+firstDiffKind(row, stream, spec), idx, map[string]interface{}{"got": short(stream), "spec": short(spec), "items": kindsOf(items)}, raw)
		}
		st.evals += 2
		// every cut: complete items decode exactly, the item crossing the cut reports an error
		for _, c := range row.Cuts {
			for _, codec := range []string{"zc", "st"} {
				res, pn := readAll(codec, spec[:c], items, variant)
				st.evals++
				if c < len(spec) {
					st.nontrivial++
				}
				if pn != "" {
					st.viol++
					reportViol("codec-panic:"+codec+":"+kindsOf(items), idx, map[string]interface{}{"cut": c, "panic": pn}, raw)
					continue
				}
				for i := range items {
					if row.Ends[i] <= c {
						if i >= len(res) || res[i].err || !res[i].equalsItem(&items[i]) || res[i].pos != row.Ends[i] {
							st.viol++
							k := "codec-roundtrip:"
							if c < len(spec) {
								k = "codec-trunc-prefix-value:"
							}
							got := "nothing"
							if i < len(res) {
								got = res[i].String()
							}
							reportViol(k+codec+":"+items[i].K, idx, map[string]interface{}{"cut": c, "item": i, "got": got, "want_pos": row.Ends[i], "items": kindsOf(items)}, raw)
							break
						}
						continue
					}
					// item i crosses the cut
					if i >= len(res) || !res[i].err {
						st.viol++
						got := "nothing"
						if i < len(res) {
							got = res[i].String()
						}
						reportViol("codec-trunc-accepted:"+codec+":"+items[i].K, idx, map[string]interface{}{"cut": c, "item": i, "got": got, "items": kindsOf(items)}, raw)
					}
					break
				}
			}
		}
	}
}

// firstDiffKind names the item whose byte range holds the first differing byte.
func firstDiffKind(row *c01Row, got, spec []byte) string {
	d := 0
	for d < len(got) && d < len(spec) && got[d] == spec[d] {
		d++
	}
	for i, e := range row.Ends {
		if d < e {
			return row.Items[i].K
		}
	}
	return "length"
}

func resEquals(o obs, r *c01Res, it *c01Item) bool {
	if (r.E != "ok") != o.err {
		return false
	}
	if o.err {
		return true
	}
	if o.pos != r.P {
		return false
	}
	if isNumKind(it.K) {
		var v []int
		vio.Must(json.Unmarshal(r.V, &v))
		return eqInts(v, o.num)
	}
	var b Buf
	vio.Must(json.Unmarshal(r.V, &b))
	return bytes.Equal(b.Concretize(noTokens), o.blob)
}

func c01Raw(idx int, row *c01Row, raw json.RawMessage, st *c01Stats) {
	buf := row.Buf.Concretize(noTokens)
	items := row.Items
	target := items[row.S-1].K
	for variant := 0; variant < 2; variant++ {
		for _, codec := range []string{"zc", "st"} {
			exp := row.ZC
			if codec == "st" {
				exp = row.ST
			}
			res, pn := readAll(codec, buf, items, variant)
			st.evals++
			st.nontrivial++
			if pn != "" {
				st.viol++
				reportViol("codec-panic:"+codec+":raw-"+target, idx, map[string]interface{}{"panic": pn, "x": row.X}, raw)
				continue
			}
			// monitor
			broken := false
			for i, m := range row.Must {
				if m.M == "free" {
					break
				}
				if i >= len(res) {
					broken = true
				} else if m.M == "val" {
					mr := c01Res{E: "ok", P: m.P, V: m.V}
					broken = !resEquals(res[i], &mr, &items[i])
				} else if m.M == "err" {
					broken = !res[i].err
				}
				if broken {
					st.viol++
					k := "codec-prefix-accepted:"
					if m.M == "val" {
						k = "codec-roundtrip:"
					}
					reportViol(k+codec+":"+items[i].K, idx, map[string]interface{}{"x": row.X, "read": i, "got": fmt.Sprint(res), "must": m.M}, raw)
					break
				}
			}
			if broken {
				continue
			}
			// exact model prediction (drift only)
			same := len(res) == len(exp)
			for i := 0; same && i < len(res); i++ {
				same = resEquals(res[i], &exp[i], &items[i])
			}
			if !same {
				st.drift++
				vio.Emit(map[string]interface{}{"drift": "codec-raw:" + codec + ":" + target, "row": idx, "x": row.X, "got": fmt.Sprint(res)})
			}
		}
	}
}
