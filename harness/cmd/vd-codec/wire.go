package main

import (
	"crypto/ed25519"
	"crypto/elliptic"
	"crypto/sha256"
	"encoding/json"
	"fmt"
	"strings"

	"github.com/ontio/ontology-crypto/ec"
	"github.com/ontio/ontology-crypto/keypair"
	"github.com/ontio/ontology-crypto/sm2"
	"github.com/polynetwork/poly/common"
	"github.com/polynetwork/poly/core/payload"
	"github.com/polynetwork/poly/core/types"
	pcom "github.com/polynetwork/poly/p2pserver/common"
	mt "github.com/polynetwork/poly/p2pserver/message/types"

	"verifh/kit/vio"
)

// ---- rows printed by spec/WireTable.tla ---------------------------------------------------------------

type wireExp struct {
	E string `json:"e"`
	P int    `json:"p"`
	H []Buf  `json:"h"`
}

type wireRow struct {
	Area  string          `json:"area"`
	O     string          `json:"o"`
	Op    string          `json:"op"`
	I     int             `json:"i"`
	A     int             `json:"a"`
	Kd    string          `json:"kd"`
	An    string          `json:"an"`
	Sc    string          `json:"sc"`
	Entry string          `json:"entry"`
	Must  string          `json:"must"`
	S     Buf             `json:"s"`
	Refp  Buf             `json:"refp"`
	Val   json.RawMessage `json:"val"`
	Exp   wireExp         `json:"exp"`
	Uni   json.RawMessage `json:"uni"`
}

// ---- tokens ----------------------------------------------------------------------------------------------

type tokens struct {
	keys map[string]keypair.PublicKey
	kser map[string][]byte
	rnd  map[string][]byte
	seed uint64
}

func newTokens(seed uint64) *tokens {
	t := &tokens{keys: map[string]keypair.PublicKey{}, kser: map[string][]byte{}, rnd: map[string][]byte{}, seed: seed}
	rng := vio.NewRNG(seed ^ 0x6b657973)
	mk := func(name string) {
		var pk keypair.PublicKey
		switch name[0] {
		case 'p': // ECDSA P-256
			priv := ec.ConstructPrivateKey(rng.Bytes(32), elliptic.P256())
			pk = &ec.PublicKey{Algorithm: ec.ECDSA, PublicKey: &priv.PublicKey}
		case 's': // SM2
			priv := ec.ConstructPrivateKey(rng.Bytes(32), sm2.SM2P256V1())
			pk = &ec.PublicKey{Algorithm: ec.SM2, PublicKey: &priv.PublicKey}
		case 'e': // Ed25519
			priv := ed25519.NewKeyFromSeed(rng.Bytes(32))
			pk = priv.Public().(ed25519.PublicKey)
		}
		t.keys[name] = pk
		t.kser[name] = keypair.SerializePublicKey(pk)
	}
	for _, n := range []string{"p1", "p2", "p3", "s1", "e1"} {
		mk(n)
	}
	want := map[string]int{"p1": 33, "p2": 33, "p3": 33, "s1": 35, "e1": 34}
	for n, l := range want {
		if len(t.kser[n]) != l {
			vio.Fatal("key %s serializes to %d bytes, the model says %d", n, len(t.kser[n]), l)
		}
	}
	return t
}

func sha256d(b []byte) [32]byte {
	t := sha256.Sum256(b)
	return sha256.Sum256(t[:])
}

// merkleRoot: Bitcoin-style root, the odd node paired with itself (independent of common.ComputeMerkleRoot).
func merkleRoot(hs [][32]byte) [32]byte {
	if len(hs) == 0 {
		return [32]byte{}
	}
	for len(hs) > 1 {
		var next [][32]byte
		for i := 0; i < len(hs); i += 2 {
			j := i + 1
			if j == len(hs) {
				j = i
			}
			next = append(next, sha256d(append(append([]byte{}, hs[i][:]...), hs[j][:]...)))
		}
		hs = next
	}
	return hs[0]
}

// resolver for one row: keys, seeded random fields, roots over the universe, checksum of the reference payload
func (t *tokens) resolver(row *wireRow) func(string) []byte {
	var uni map[string]Buf
	var self func(string) []byte
	self = func(k string) []byte {
		if b, ok := t.kser[k]; ok {
			return b
		}
		if strings.HasPrefix(k, "rnd:") {
			if b, ok := t.rnd[k]; ok {
				return b
			}
			h := sha256.Sum256([]byte(fmt.Sprintf("%d/%s", t.seed, k)))
			t.rnd[k] = h[:]
			return h[:]
		}
		if strings.HasPrefix(k, "root:") {
			if uni == nil {
				uni = map[string]Buf{}
				if len(row.Uni) > 2 {
					vio.Must(json.Unmarshal(row.Uni, &uni))
				}
			}
			var hs [][32]byte
			for _, c := range k[5:] {
				u, ok := uni[string(c)]
				if !ok {
					panic("root token names unknown transaction " + string(c))
				}
				hs = append(hs, sha256d(u.Concretize(self)))
			}
			r := merkleRoot(hs)
			return r[:]
		}
		if k == "ck" {
			d := sha256d(row.Refp.Concretize(self))
			return d[:4]
		}
		panic("unknown token " + k)
	}
	return self
}

// ---- model values -> Go objects ----------------------------------------------------------------------------

type mval = interface{}

func mlist(x mval) []mval {
	l, ok := x.([]interface{})
	if !ok {
		panic(fmt.Sprintf("model value: list expected, got %T", x))
	}
	return l
}

func mints(x mval) []int {
	l := mlist(x)
	r := make([]int, len(l))
	for i, e := range l {
		r[i] = int(e.(float64))
	}
	return r
}

func mbuf(x mval, res func(string) []byte) []byte {
	raw, _ := json.Marshal(x)
	var b Buf
	vio.Must(json.Unmarshal(raw, &b))
	return b.Concretize(res)
}

func (t *tokens) sigFromVal(x mval, res func(string) []byte) types.Sig {
	f := mlist(x)
	var s types.Sig
	for _, e := range mlist(f[0]) {
		s.SigData = append(s.SigData, mbuf(mlist(e)[0], res))
	}
	for _, e := range mlist(f[1]) {
		s.PubKeys = append(s.PubKeys, t.keys[mlist(e)[0].(string)])
	}
	s.M = uint16(le(mints(f[2])))
	return s
}

func (t *tokens) txFromVal(x mval, res func(string) []byte) *types.Transaction {
	f := mlist(x)
	tx := &types.Transaction{
		Version:    byte(le(mints(f[0]))),
		TxType:     types.TransactionType(le(mints(f[1]))),
		Nonce:      uint32(le(mints(f[2]))),
		ChainID:    le(mints(f[3])),
		GasLimit:   le(mints(f[4])),
		GasPrice:   le(mints(f[5])),
		Payload:    &payload.InvokeCode{Code: mbuf(f[6], res)},
		Attributes: mbuf(f[7], res),
		CoinType:   types.CoinType(le(mints(f[9]))),
	}
	copy(tx.Payer[:], mbuf(f[8], res))
	tx.Sigs = []types.Sig{}
	for _, e := range mlist(f[10]) {
		tx.Sigs = append(tx.Sigs, t.sigFromVal(e, res))
	}
	return tx
}

func (t *tokens) headerFromVal(x mval, res func(string) []byte) *types.Header {
	f := mlist(x)
	h := &types.Header{
		Version:          uint32(le(mints(f[0]))),
		ChainID:          le(mints(f[1])),
		Timestamp:        uint32(le(mints(f[6]))),
		Height:           uint32(le(mints(f[7]))),
		ConsensusData:    le(mints(f[8])),
		ConsensusPayload: mbuf(f[9], res),
	}
	copy(h.PrevBlockHash[:], mbuf(f[2], res))
	copy(h.TransactionsRoot[:], mbuf(f[3], res))
	copy(h.CrossStateRoot[:], mbuf(f[4], res))
	copy(h.BlockRoot[:], mbuf(f[5], res))
	copy(h.NextBookkeeper[:], mbuf(f[10], res))
	for _, e := range mlist(f[11]) {
		h.Bookkeepers = append(h.Bookkeepers, t.keys[mlist(e)[0].(string)])
	}
	for _, e := range mlist(f[12]) {
		h.SigData = append(h.SigData, mbuf(mlist(e)[0], res))
	}
	return h
}

func (t *tokens) blockFromVal(x mval, res func(string) []byte) *types.Block {
	f := mlist(x)
	b := &types.Block{Header: t.headerFromVal(f[0], res)}
	for _, e := range mlist(f[1]) {
		b.Transactions = append(b.Transactions, t.txFromVal(e, res))
	}
	return b
}

// ---- projections (abstract observation of a decoded object) --------------------------------------------------

func hexs(b []byte) string { return fmt.Sprintf("%x", b) }

func projSig(s *types.Sig) interface{} {
	sd := []string{}
	for _, d := range s.SigData {
		sd = append(sd, hexs(d))
	}
	pk := []string{}
	for _, k := range s.PubKeys {
		pk = append(pk, hexs(keypair.SerializePublicKey(k)))
	}
	return map[string]interface{}{"sd": sd, "pk": pk, "m": s.M}
}

func projTx(tx *types.Transaction) interface{} {
	code := ""
	if ic, ok := tx.Payload.(*payload.InvokeCode); ok && ic != nil {
		code = hexs(ic.Code)
	} else {
		code = fmt.Sprintf("payload:%T", tx.Payload)
	}
	sigs := []interface{}{}
	for i := range tx.Sigs {
		sigs = append(sigs, projSig(&tx.Sigs[i]))
	}
	return map[string]interface{}{"ver": tx.Version, "type": byte(tx.TxType), "nonce": tx.Nonce, "chain": tx.ChainID,
		"gl": tx.GasLimit, "gp": tx.GasPrice, "code": code, "attrs": hexs(tx.Attributes), "payer": hexs(tx.Payer[:]),
		"coin": byte(tx.CoinType), "sigs": sigs}
}

func projHeader(h *types.Header) interface{} {
	bk := []string{}
	for _, k := range h.Bookkeepers {
		bk = append(bk, hexs(keypair.SerializePublicKey(k)))
	}
	sd := []string{}
	for _, d := range h.SigData {
		sd = append(sd, hexs(d))
	}
	return map[string]interface{}{"ver": h.Version, "chain": h.ChainID, "prev": hexs(h.PrevBlockHash[:]), "txroot": hexs(h.TransactionsRoot[:]),
		"cross": hexs(h.CrossStateRoot[:]), "blockroot": hexs(h.BlockRoot[:]), "ts": h.Timestamp, "height": h.Height,
		"cdata": h.ConsensusData, "cpayload": hexs(h.ConsensusPayload), "next": hexs(h.NextBookkeeper[:]), "bk": bk, "sd": sd}
}

func projBlock(b *types.Block) interface{} {
	txs := []interface{}{}
	for _, tx := range b.Transactions {
		txs = append(txs, projTx(tx))
	}
	var h interface{}
	if b.Header != nil {
		h = projHeader(b.Header)
	}
	return map[string]interface{}{"header": h, "txs": txs}
}

func sameJSON(a, b interface{}) bool {
	x, _ := json.Marshal(a)
	y, _ := json.Marshal(b)
	return string(x) == string(y)
}

// ---- p2p messages ---------------------------------------------------------------------------------------------

func (t *tokens) msgFromVal(sc string, x mval, res func(string) []byte) mt.Message {
	f := mlist(x)
	h32 := func(v mval) (h common.Uint256) { copy(h[:], mbuf(v, res)); return }
	switch sc {
	case "ping":
		return &mt.Ping{Height: le(mints(f[0]))}
	case "pong":
		return &mt.Pong{Height: le(mints(f[0]))}
	case "version":
		v := &mt.Version{}
		v.P.Version = uint32(le(mints(f[0])))
		v.P.Services = le(mints(f[1]))
		v.P.TimeStamp = int64(le(mints(f[2])))
		v.P.SyncPort = uint16(le(mints(f[3])))
		v.P.HttpInfoPort = uint16(le(mints(f[4])))
		v.P.ConsPort = uint16(le(mints(f[5])))
		copy(v.P.Cap[:], mbuf(f[6], res))
		v.P.Nonce = le(mints(f[7]))
		v.P.StartHeight = le(mints(f[8]))
		v.P.Relay = uint8(le(mints(f[9])))
		v.P.IsConsensus = mints(f[10])[0] == 1
		v.P.SoftVersion = string(mbuf(f[11], res))
		return v
	case "verack":
		return &mt.VerACK{IsConsensus: mints(f[0])[0] == 1}
	case "getaddr":
		return &mt.AddrReq{}
	case "disconnect":
		return &mt.Disconnected{}
	case "addr":
		m := &mt.Addr{}
		for _, e := range mlist(f[0]) {
			g := mlist(e)
			var a pcom.PeerAddr
			a.Time = int64(le(mints(g[0])))
			a.Services = le(mints(g[1]))
			copy(a.IpAddr[:], mbuf(g[2], res))
			a.Port = uint16(le(mints(g[3])))
			a.ConsensusPort = uint16(le(mints(g[4])))
			a.ID = le(mints(g[5]))
			m.NodeAddrs = append(m.NodeAddrs, a)
		}
		return m
	case "getheaders":
		return &mt.HeadersReq{Len: uint8(le(mints(f[0]))), HashStart: h32(f[1]), HashEnd: h32(f[2])}
	case "getblocks":
		return &mt.BlocksReq{HeaderHashCount: uint8(le(mints(f[0]))), HashStart: h32(f[1]), HashStop: h32(f[2])}
	case "headers":
		m := &mt.BlkHeader{}
		for _, e := range mlist(f[0]) {
			m.BlkHdr = append(m.BlkHdr, t.headerFromVal(e, res))
		}
		return m
	case "inv":
		m := &mt.Inv{}
		m.P.InvType = common.InventoryType(le(mints(f[0])))
		for _, e := range mlist(f[1]) {
			m.P.Blk = append(m.P.Blk, h32(mlist(e)[0]))
		}
		return m
	case "getdata":
		return &mt.DataReq{DataType: common.InventoryType(le(mints(f[0]))), Hash: h32(f[1])}
	case "blockmsg":
		return &mt.Block{Blk: t.blockFromVal(f[0], res), MerkleRoot: h32(f[1])}
	case "txmsg":
		return &mt.Trn{Txn: t.txFromVal(f[0], res)}
	case "consensus":
		m := &mt.Consensus{}
		m.Cons.Version = uint32(le(mints(f[0])))
		m.Cons.PrevHash = h32(f[1])
		m.Cons.Height = uint32(le(mints(f[2])))
		m.Cons.BookkeeperIndex = uint16(le(mints(f[3])))
		m.Cons.Timestamp = uint32(le(mints(f[4])))
		m.Cons.Data = mbuf(f[5], res)
		m.Cons.Owner = t.keys[f[6].(string)]
		m.Cons.Signature = mbuf(f[7], res)
		return m
	case "notfound":
		return &mt.NotFound{Hash: h32(f[0])}
	}
	vio.Fatal("unknown message schema %s", sc)
	return nil
}

func projMsg(m mt.Message) interface{} {
	switch v := m.(type) {
	case *mt.Ping:
		return map[string]interface{}{"t": "ping", "h": v.Height}
	case *mt.Pong:
		return map[string]interface{}{"t": "pong", "h": v.Height}
	case *mt.Version:
		p := v.P
		return map[string]interface{}{"t": "version", "v": p.Version, "s": p.Services, "ts": p.TimeStamp, "sp": p.SyncPort, "hp": p.HttpInfoPort,
			"cp": p.ConsPort, "cap": hexs(p.Cap[:]), "n": p.Nonce, "sh": p.StartHeight, "r": p.Relay, "c": p.IsConsensus, "soft": p.SoftVersion}
	case *mt.VerACK:
		return map[string]interface{}{"t": "verack", "c": v.IsConsensus}
	case *mt.AddrReq:
		return map[string]interface{}{"t": "getaddr"}
	case *mt.Disconnected:
		return map[string]interface{}{"t": "disconnect"}
	case *mt.Addr:
		l := []interface{}{}
		for _, a := range v.NodeAddrs {
			l = append(l, map[string]interface{}{"t": a.Time, "s": a.Services, "ip": hexs(a.IpAddr[:]), "p": a.Port, "c": a.ConsensusPort, "id": a.ID})
		}
		return map[string]interface{}{"t": "addr", "l": l}
	case *mt.HeadersReq:
		return map[string]interface{}{"t": "getheaders", "n": v.Len, "a": hexs(v.HashStart[:]), "b": hexs(v.HashEnd[:])}
	case *mt.BlocksReq:
		return map[string]interface{}{"t": "getblocks", "n": v.HeaderHashCount, "a": hexs(v.HashStart[:]), "b": hexs(v.HashStop[:])}
	case *mt.BlkHeader:
		l := []interface{}{}
		for _, h := range v.BlkHdr {
			l = append(l, projHeader(h))
		}
		return map[string]interface{}{"t": "headers", "l": l}
	case *mt.Inv:
		l := []string{}
		for _, h := range v.P.Blk {
			l = append(l, hexs(h[:]))
		}
		return map[string]interface{}{"t": "inv", "k": byte(v.P.InvType), "l": l}
	case *mt.DataReq:
		return map[string]interface{}{"t": "getdata", "k": byte(v.DataType), "h": hexs(v.Hash[:])}
	case *mt.Block:
		var b interface{}
		if v.Blk != nil {
			b = projBlock(v.Blk)
		}
		return map[string]interface{}{"t": "block", "b": b, "mr": hexs(v.MerkleRoot[:])}
	case *mt.Trn:
		var x interface{}
		if v.Txn != nil {
			x = projTx(v.Txn)
		}
		return map[string]interface{}{"t": "tx", "tx": x}
	case *mt.Consensus:
		c := v.Cons
		owner := ""
		if c.Owner != nil {
			owner = hexs(keypair.SerializePublicKey(c.Owner))
		}
		return map[string]interface{}{"t": "consensus", "v": c.Version, "prev": hexs(c.PrevHash[:]), "h": c.Height, "bi": c.BookkeeperIndex,
			"ts": c.Timestamp, "d": hexs(c.Data), "o": owner, "s": hexs(c.Signature)}
	case *mt.NotFound:
		return map[string]interface{}{"t": "notfound", "h": hexs(v.Hash[:])}
	}
	return map[string]interface{}{"t": fmt.Sprintf("%T", m)}
}

// identities computed by the real code for a decoded message (in the model's order: header, then transactions)
func idsOfMsg(m mt.Message) [][32]byte {
	var ids [][32]byte
	switch v := m.(type) {
	case *mt.Trn:
		ids = append(ids, v.Txn.Hash())
	case *mt.Block:
		ids = append(ids, v.Blk.Header.Hash())
		for _, tx := range v.Blk.Transactions {
			ids = append(ids, tx.Hash())
		}
	case *mt.BlkHeader:
		for _, h := range v.BlkHdr {
			ids = append(ids, h.Hash())
		}
	}
	return ids
}
