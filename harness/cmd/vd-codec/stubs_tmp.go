package main

func runC02() {}
func runC05() {}
