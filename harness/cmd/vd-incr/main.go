// vd-incr: drivers for C38 (validator/increment IncrementValidator, validator/stateful actor on a real ledger).
package main

import (
	"encoding/json"
	"fmt"
	"os"
	"path/filepath"
	"strconv"
	"sync"
	"time"

	"github.com/ontio/ontology-crypto/keypair"
	"github.com/ontio/ontology-eventbus/actor"
	"github.com/polynetwork/poly/common/config"
	"github.com/polynetwork/poly/common/log"
	"github.com/polynetwork/poly/core/genesis"
	"github.com/polynetwork/poly/core/ledger"
	"github.com/polynetwork/poly/core/store/ledgerstore"
	"github.com/polynetwork/poly/core/types"
	"github.com/polynetwork/poly/errors"
	"github.com/polynetwork/poly/validator/increment"
	"github.com/polynetwork/poly/validator/stateful"
	vatypes "github.com/polynetwork/poly/validator/types"
	"verifh/kit/ledgerkit"
	"verifh/kit/vio"
)

func atoi(s string) int {
	n, err := strconv.Atoi(s)
	if err != nil {
		vio.Fatal("bad number %q", s)
	}
	return n
}

// real transactions standing for the model's transaction ids 1..n (distinct nonces => distinct hashes)
func makeTxs(n int, salt uint32) []*types.Transaction {
	txs := make([]*types.Transaction, n+1)
	seen := map[string]bool{}
	for i := 1; i <= n; i++ {
		txs[i] = ledgerkit.ProbeTx([]ledgerkit.Step{{Op: "put", K: fmt.Sprintf("k%d", i), V: "v"}}, salt*1000+uint32(i))
		h := txs[i].Hash()
		if seen[h.ToHexString()] {
			vio.Fatal("transaction hashes are not distinct")
		}
		seen[h.ToHexString()] = true
	}
	return txs
}

func block(h int, ids []int, txs []*types.Transaction) *types.Block {
	b := &types.Block{Header: &types.Header{Height: uint32(h)}}
	for _, id := range ids {
		b.Transactions = append(b.Transactions, txs[id])
	}
	return b
}

type tracker struct {
	v   *increment.IncrementValidator
	txs []*types.Transaction
}

func verdict(err error) string {
	if err != nil {
		return "err"
	}
	return "ok"
}

func (t *tracker) apply(op string, a []int) interface{} {
	switch op {
	case "add":
		ids := append([]int{}, a[1:]...)
		if len(ids) > 1 && a[0]%2 == 1 { // the order of transactions inside a block is irrelevant
			for i, j := 0, len(ids)-1; i < j; i, j = i+1, j-1 {
				ids[i], ids[j] = ids[j], ids[i]
			}
		}
		t.v.AddBlock(block(a[0], ids, t.txs))
		return ""
	case "clean":
		t.v.Clean()
		return ""
	case "verify":
		return verdict(t.v.Verify(t.txs[a[0]], uint32(a[1])))
	case "range":
		s, e := t.v.BlockRange()
		return []uint32{s, e}
	}
	panic("unknown op " + op)
}

type hop struct {
	Op string `json:"op"`
	A  []int  `json:"a"`
}
type edge struct {
	H struct {
		Max int   `json:"max"`
		Ops []hop `json:"ops"`
	} `json:"h"`
	Op   string          `json:"op"`
	A    []int           `json:"a"`
	Obs  json.RawMessage `json:"obs"`
	Post struct {
		Range []uint32   `json:"range"`
		Vm    [][]string `json:"vm"`
	} `json:"post"`
}

func norm(x interface{}) string {
	b, _ := json.Marshal(x)
	var y interface{}
	json.Unmarshal(b, &y)
	b, _ = json.Marshal(y)
	return string(b)
}

// incrEdges: stdin = EDGE lines of IncrValidator.tla; each edge is replayed on a fresh real IncrementValidator.
func incrEdges(ntx int) {
	lines := vio.ReadLines()
	txs := makeTxs(ntx, 1)
	var mu sync.Mutex
	mismatch := 0
	distinct := map[string]bool{}
	vio.ParMap(len(lines), 8, func(i int) {
		var e edge
		if err := json.Unmarshal(lines[i], &e); err != nil {
			vio.Fatal("bad edge: %v", err)
		}
		var got interface{}
		var rng []uint32
		var vm [][]string
		pan := vio.Safe(func() {
			t := &tracker{v: increment.NewIncrementValidator(e.H.Max), txs: txs}
			for _, h := range e.H.Ops {
				t.apply(h.Op, h.A)
			}
			got = t.apply(e.Op, e.A)
			s, en := t.v.BlockRange()
			rng = []uint32{s, en}
			for tx := 1; tx <= len(e.Post.Vm); tx++ {
				row := []string{}
				for st := range e.Post.Vm[tx-1] {
					row = append(row, verdict(t.v.Verify(txs[tx], uint32(st))))
				}
				vm = append(vm, row)
			}
		})
		var exp interface{}
		json.Unmarshal(e.Obs, &exp)
		var diffs []string
		if pan != "" {
			diffs = append(diffs, "panic")
		} else {
			if norm(got) != norm(exp) {
				diffs = append(diffs, "obs")
			}
			if norm(rng) != norm(e.Post.Range) {
				diffs = append(diffs, "range")
			}
			if norm(vm) != norm(e.Post.Vm) {
				diffs = append(diffs, "verify-matrix")
			}
		}
		mu.Lock()
		defer mu.Unlock()
		if len(e.H.Ops) > 0 {
			distinct[e.Op+fmt.Sprint(e.A)+norm(exp)+norm(e.Post)] = true
		}
		if len(diffs) > 0 {
			mismatch++
			if mismatch <= 20 {
				vio.Emit(map[string]interface{}{"mismatch": true, "diffs": diffs, "edge": json.RawMessage(lines[i]), "got": got,
					"gotRange": rng, "gotVm": vm, "panic": pan})
			}
		}
	})
	vio.Emit(map[string]interface{}{"summary": true, "edges": len(lines), "mismatches": mismatch, "distinct": len(distinct)})
}

// incrRecord: n random histories on real trackers (capacities incl. the default-20 spellings 0 and -3).
func incrRecord(n, length int) {
	rng := vio.NewRNG(vio.Seed() + 38)
	const NTX = 6
	txs := makeTxs(NTX, 2)
	ctors := []int{1, 2, 3, 5, 0, -3, 20}
	for it := 0; it < n; it++ {
		ctor := ctors[rng.Intn(len(ctors))]
		max := ctor
		if ctor <= 0 {
			max = 20
		}
		t := &tracker{v: increment.NewIncrementValidator(ctor), txs: txs}
		vio.Emit(map[string]interface{}{"op": "reset", "a": []int{}, "max": max, "ctor": ctor})
		next := rng.Intn(8)
		for i := 0; i < length; i++ {
			var op string
			a := []int{}
			switch r := rng.Intn(100); {
			case r < 45:
				op = "add"
				h := next
				switch q := rng.Intn(10); {
				case q == 0 && next > 0:
					h = next - 1 - rng.Intn(minInt(next, 3)) // stale
				case q == 1:
					h = next + 1 + rng.Intn(3) // gap
				}
				if h > 60 {
					h = next
				}
				a = []int{h}
				for tx := 1; tx <= NTX; tx++ {
					if rng.Intn(4) == 0 {
						a = append(a, tx)
					}
				}
				s, e := t.v.BlockRange()
				if s == e || uint32(h) == e {
					next = h + 1
				}
				if next > 60 {
					op, a = "clean", []int{}
					next = rng.Intn(8)
				}
			case r < 85:
				op = "verify"
				s, e := t.v.BlockRange()
				st := int(s) + rng.Intn(int(e-s)+3) - 1
				if st < 0 {
					st = 0
				}
				a = []int{1 + rng.Intn(NTX), st}
			case r < 97:
				op = "range"
			default:
				op = "clean"
				next = rng.Intn(8)
			}
			var o interface{}
			if p := vio.Safe(func() { o = t.apply(op, a) }); p != "" {
				vio.Emit(map[string]interface{}{"op": "PANIC", "a": a, "obs": map[string]string{"panic": p, "in": op}})
				return
			}
			vio.Emit(map[string]interface{}{"op": op, "a": a, "obs": o})
		}
	}
}

func minInt(a, b int) int {
	if a < b {
		return a
	}
	return b
}

// stateful: a real on-disk ledger installed as ledger.DefLedger grows by real blocks; the real stateful validator actor
// is asked about transactions that are / are not yet in the ledger.
func statefulRun(nblocks int) {
	rng := vio.NewRNG(vio.Seed() + 3838)
	dir := filepath.Join(os.Getenv("VERIF_OUT"), fmt.Sprintf("c38-ledger-%d", os.Getpid()))
	if os.Getenv("VERIF_OUT") == "" {
		dir = filepath.Join(os.TempDir(), fmt.Sprintf("c38-ledger-%d", os.Getpid()))
	}
	os.RemoveAll(dir)
	vio.Must(os.MkdirAll(dir, 0755))
	defer os.RemoveAll(dir)
	ledgerkit.RegisterProbe()
	accts := ledgerkit.LoadOrCreateAccounts(filepath.Join(dir, "keys"), 1)
	bks := []keypair.PublicKey{accts[0].PublicKey}
	config.DefConfig.Genesis.ConsensusType = "solo"
	gb, err := genesis.BuildGenesisBlock(bks, config.DefConfig.Genesis)
	vio.Must(err)
	ld, err := ledger.NewLedger(filepath.Join(dir, "chain"))
	vio.Must(err)
	vio.Must(ld.Init(bks, gb))
	ledger.DefLedger = ld
	imp, ok := ld.GetStore().(*ledgerstore.LedgerStoreImp)
	if !ok {
		vio.Fatal("ledger store is not a LedgerStoreImp")
	}
	defer imp.Close()
	lg := &ledgerkit.Ledger{L: imp, Dir: dir, Genesis: gb, Accts: accts}

	val, err := stateful.NewValidator(fmt.Sprintf("verif-stateful-%d", os.Getpid()))
	vio.Must(err)
	resp := make(chan *vatypes.CheckResponse, 4)
	var vpid *actor.PID
	me := actor.Spawn(actor.FromFunc(func(c actor.Context) {
		switch m := c.Message().(type) {
		case *vatypes.RegisterValidator:
			vpid = m.Sender
			resp <- nil
		case *vatypes.CheckResponse:
			resp <- m
		}
	}))
	val.Register(me)
	select {
	case <-resp:
	case <-time.After(20 * time.Second):
		vio.Fatal("stateful validator did not register")
	}
	ntx := nblocks*3 + 4
	txs := makeTxs(ntx, 3)
	nextTx := 1
	check := func(id int) {
		vpid.Request(&vatypes.CheckTx{WorkerId: 7, Tx: txs[id]}, me)
		select {
		case r := <-resp:
			obs := "other"
			switch r.ErrCode {
			case errors.ErrNoError:
				obs = "ok"
			case errors.ErrDuplicatedTx:
				obs = "dup"
			}
			if r.Hash != txs[id].Hash() || r.WorkerId != 7 || r.Type != vatypes.Stateful {
				obs = "mislabelled-response"
			}
			vio.Emit(map[string]interface{}{"op": "check", "a": []int{id}, "obs": obs, "h": r.Height})
		case <-time.After(30 * time.Second):
			vio.Fatal("stateful validator did not answer")
		}
	}
	for b := 0; b < nblocks; b++ {
		k := rng.Intn(4)
		var ids []int
		var btx []*types.Transaction
		for i := 0; i < k && nextTx <= ntx; i++ {
			ids = append(ids, nextTx)
			btx = append(btx, txs[nextTx])
			nextTx++
		}
		for _, id := range ids { // before: not in the ledger
			if rng.Intn(2) == 0 {
				check(id)
			}
		}
		if _, err := lg.Commit(lg.Build(btx, nil)); err != nil {
			vio.Fatal("commit: %v", err)
		}
		if ids == nil {
			ids = []int{}
		}
		vio.Emit(map[string]interface{}{"op": "commit", "a": ids, "obs": ""})
		for q := 0; q < 3; q++ {
			check(1 + rng.Intn(minInt(nextTx+2, ntx)))
		}
		for _, id := range ids {
			check(id)
		}
	}
}

func main() {
	defer vio.Flush()
	log.InitLog(log.FatalLog) // no writers: discard (stdout is the NDJSON channel; AddBlock logs every ignored block)
	if len(os.Args) < 2 {
		vio.Fatal("usage: vd-incr <cmd> ...")
	}
	switch os.Args[1] {
	case "incr-edges":
		incrEdges(atoi(os.Args[2]))
	case "incr-record":
		incrRecord(atoi(os.Args[2]), atoi(os.Args[3]))
	case "stateful":
		statefulRun(atoi(os.Args[2]))
	default:
		vio.Fatal("unknown command %s", os.Args[1])
	}
}
