package main

import (
	"fmt"

	"github.com/polynetwork/poly/native/service/header_sync/eth"

	"verifh/kit/vio"
)

// pow-record: random submission histories on the real contract (random trees up to m headers with steps from very slow
// to fast blocks, parents with and without uncles; single headers, batches, orphans, re-submissions, duplicates inside a
// batch, wrong declared heights), every call followed by a read-back of the whole state. The NDJSON goes to TLC
// (TracePoWChain), which evaluates the property's clauses in every observed state.
func powRecord(n, m int) {
	seed := vio.Seed()
	for s := 0; s < n; s++ {
		rng := vio.NewRNG(seed*7919 + uint64(s)*104729 + 17)
		w, err := newWorld(rng, int64(900000+rng.Intn(300000)))
		if err != nil {
			vio.Fatal("%v", err)
		}
		// universe: random tree; a few long chains so that lower-but-heavier heads occur
		adjs := []int{1, 1, 0, -1, -1, -3, -99, -99}
		style := rng.Intn(3)
		for i := 1; i <= m; i++ {
			var p, a int
			switch style {
			case 0: // random recursive tree
				p, a = rng.Intn(i), adjs[rng.Intn(len(adjs))]
			case 1: // two chains: odd labels slowest, even labels fast
				if i%2 == 1 {
					p, a = maxInt(i-2, 0), -99
				} else {
					p, a = maxInt(i-2, 0), 1
				}
			default: // mostly a chain with side branches
				p, a = i-1, adjs[rng.Intn(len(adjs))]
				if rng.Intn(3) == 0 {
					p = rng.Intn(i)
				}
			}
			w.add(w.child(p, a, -1, 0))
		}
		o0, err := w.observe(m)
		if err != nil {
			vio.Fatal("observe: %v", err)
		}
		w.release() // sequential driver: the sandbox is taken again by the next scenario
		vio.Emit(event{Op: "reset", Ids: []int{}, Known: []int{}, Obs: o0})
		stored := map[int]bool{0: true}
		bad := map[int]bool{}     // headers with a wrong declared height
		pending := func() []int { // not stored, parent stored
			var r []int
			for i := 1; i <= m; i++ {
				if !stored[i] && stored[w.parentOf(i)] {
					r = append(r, i)
				}
			}
			return r
		}
		for step := 0; step < 3*m && len(stored) <= m; step++ {
			var ids []int
			var hs []*eth.Header
			c := rng.Intn(10)
			pend := pending()
			switch {
			case c < 4 && len(pend) > 0: // one valid header
				ids = []int{pend[rng.Intn(len(pend))]}
			case c < 6: // a batch: random picks, any kind
				k := 2 + rng.Intn(3)
				for j := 0; j < k; j++ {
					ids = append(ids, 1+rng.Intn(m))
				}
			case c < 7 && len(pend) >= 2 && rng.Intn(2) == 0: // one call carrying the next header of several branches,
				// in any order: a header that reorganises the chain followed, in the same call, by one extending the old head
				for _, j := range rng.Perm(len(pend)) {
					if len(ids) < 4 {
						ids = append(ids, pend[j])
					}
				}
			case c < 7 && len(pend) > 0: // a batch that is a valid chain segment, preceded by a known header
				x := pend[rng.Intn(len(pend))]
				ids = []int{rng.Intn(x), x}
				if ids[0] == 0 {
					ids = ids[1:]
				}
				for y := x + 1; y <= m && len(ids) < 4; y++ {
					if w.parentOf(y) == ids[len(ids)-1] {
						ids = append(ids, y)
					}
				}
			case c < 8: // re-submission of a known header
				var ks []int
				for k := range stored {
					if k != 0 {
						ks = append(ks, k)
					}
				}
				if len(ks) == 0 {
					continue
				}
				ids = []int{ks[rng.Intn(len(ks))]}
				for j := range ks { // deterministic choice (map order is random)
					if ks[j] < ids[0] {
						ids[0] = ks[j]
					}
				}
				ids[0] += 0
			case c < 9: // an orphan (or whatever header comes up)
				ids = []int{1 + rng.Intn(m)}
			default: // wrong declared height
				p := rng.Intn(m + 1)
				off := int64(1)
				if rng.Bool() {
					off = -1
				}
				ids = []int{w.add(w.child(p, 1, -1, off))}
				bad[ids[0]] = true
			}
			if hs == nil {
				for _, id := range ids {
					hs = append(hs, w.hdrs[id])
				}
			}
			known := make([]int, len(ids))
			sim := map[int]bool{}
			expok := true
			for k, id := range ids {
				known[k] = b2i(id >= 0 && stored[id])
				if bad[id] {
					expok = false
					break
				}
				if stored[id] || sim[id] {
					continue
				}
				if pp := w.parentOf(id); stored[pp] || sim[pp] {
					sim[id] = true
				} else {
					expok = false
					break
				}
			}
			err, pan := w.submit(hs...)
			o, oerr := w.observe(m)
			if oerr != nil {
				vio.Fatal("observe: %v", oerr)
			}
			if pan != "" {
				vio.Emit(map[string]interface{}{"panic": pan, "scenario": s})
			}
			if err == nil {
				for id := range o.St {
					if o.St[id] == 1 {
						stored[id] = true
					}
				}
			}
			vio.Emit(event{Op: "submit", Ids: ids, Known: known, Expok: b2i(expok), Err: b2i(err != nil), Obs: o, Note: fmt.Sprintf("scenario %d", s)})
		}
	}
}

func (w *world) parentOf(id int) int { return w.idOf(w.hdrs[id].ParentHash) }

func maxInt(a, b int) int {
	if a > b {
		return a
	}
	return b
}
