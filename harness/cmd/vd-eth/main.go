// vd-eth: drivers for the Ethereum PoW light client (C27 fork choice / header tree, C28 header rules).
package main

import (
	"os"
	"runtime"
	"runtime/pprof"
	"strconv"

	"github.com/polynetwork/poly/common/config"
	"github.com/polynetwork/poly/common/log"
	"github.com/polynetwork/poly/native/service/header_sync/eth"

	"verifh/kit/vio"
)

func atoi(s string) int {
	n, err := strconv.Atoi(s)
	if err != nil {
		vio.Fatal("bad number %q", s)
	}
	return n
}

// workers: VERIF_WORKERS if set, else all cores.
func workers() int {
	if n, err := strconv.Atoi(os.Getenv("VERIF_WORKERS")); err == nil && n > 0 {
		return n
	}
	return runtime.NumCPU()
}

func main() {
	defer vio.Flush()
	if p := os.Getenv("VD_PROF"); p != "" {
		f, _ := os.Create(p)
		pprof.StartCPUProfile(f)
		defer pprof.StopCPUProfile()
	}
	if len(os.Args) < 2 {
		vio.Fatal("usage: vd-eth <cmd> ...")
	}
	log.InitLog(log.FatalLog) // no writers: discard (stdout is the NDJSON channel)
	// Ethash seals of synthetic headers cannot be mined offline: the seal check (and only it) is switched off.
	eth.VerifSealHook = func(h *eth.Header) (bool, error) { return true, nil }
	// fork heights of the main net (London 12 965 000, Arrow Glacier 13 773 000)
	config.DefConfig.P2PNode.NetworkId = config.NETWORK_ID_MAIN_NET
	switch os.Args[1] {
	case "pow-replay":
		powReplay(false)
	case "btc-replay":
		powReplay(true)
	case "pow-record":
		powRecord(atoi(os.Args[2]), atoi(os.Args[3]))
	case "rules-table":
		rulesTable()
	case "rules-e2e":
		rulesE2E()
	case "rules-geth":
		rulesGeth()
	default:
		vio.Fatal("unknown command %s", os.Args[1])
	}
}
