package main

import (
	"crypto/sha256"
	"encoding/hex"
	"encoding/json"
	"fmt"
	"math/big"
	"sort"
	"strings"
	"sync"
	"time"

	ecommon "github.com/ethereum/go-ethereum/common"
	etypes "github.com/ethereum/go-ethereum/core/types"
	"github.com/polynetwork/poly/account"
	"github.com/polynetwork/poly/common"
	cstates "github.com/polynetwork/poly/core/states"
	"github.com/polynetwork/poly/native"
	hscom "github.com/polynetwork/poly/native/service/header_sync/common"
	"github.com/polynetwork/poly/native/service/header_sync/eth"
	"github.com/polynetwork/poly/native/service/utils"

	"verifh/kit/nativekit"
	"verifh/kit/vio"
)

// sandboxes are expensive to make (goleveldb and the overlay pre-allocate megabytes), so each one is reused: every
// world gets a chain id of its own inside a pooled sandbox (all header-sync keys carry the chain id).
type pooled struct {
	sb   *nativekit.Sandbox
	next uint64
}

var sbPool = make(chan *pooled, 256)

func getSandbox() *pooled {
	select {
	case p := <-sbPool:
		return p
	default:
		p := &pooled{sb: nativekit.New(), next: 2}
		p.sb.SeedValidators([]*account.Account{operator()}, 1)
		return p
	}
}
func (w *world) release() {
	select {
	case sbPool <- w.pl:
	default:
	}
}

var (
	opOnce sync.Once
	opAcct *account.Account
)

func operator() *account.Account {
	opOnce.Do(func() { opAcct = account.NewAccount("") })
	return opAcct
}

// world = one contract-storage universe with an installed trust root and a universe of synthetic headers.
type world struct {
	sb   *nativekit.Sandbox
	pl   *pooled
	ch   uint64        // chain id of this world
	hdrs []*eth.Header // by id, 0 = trust root
	ids  map[ecommon.Hash]int
	dgs  map[string]int // interned storage digests
	rng  *vio.RNG
}

func syncHandler(ns *native.NativeService) ([]byte, error) {
	return nil, eth.NewETHHandler().SyncBlockHeader(ns)
}
func genesisHandler(ns *native.NativeService) ([]byte, error) {
	return nil, eth.NewETHHandler().SyncGenesisHeader(ns)
}

func newWorld(rng *vio.RNG, d0 int64) (*world, error) {
	pl := getSandbox()
	w := &world{sb: pl.sb, pl: pl, ch: pl.next, ids: map[ecommon.Hash]int{}, dgs: map[string]int{}, rng: rng}
	pl.next++
	op := operator()
	base := uint64(time.Now().Unix()) - 3000000 - uint64(rng.Intn(1000000))
	// numbers far below the first bomb period of the pre-London rule (parent number < 9 199 999): no bomb term
	num := int64(1000 + rng.Intn(8000000))
	g := &eth.Header{UncleHash: etypes.EmptyUncleHash, Difficulty: big.NewInt(d0), Number: big.NewInt(num),
		GasLimit: uint64(8000000 + rng.Intn(4000000)), Time: base, Extra: []byte{}}
	if rng.Intn(3) == 0 {
		g.UncleHash = ecommon.Hash{0xee}
	}
	gb, _ := json.Marshal(g)
	p := &hscom.SyncGenesisHeaderParam{ChainID: w.ch, GenesisHeader: gb}
	sink := common.NewZeroCopySink(nil)
	p.Serialization(sink)
	if _, _, err := w.sb.Call(genesisHandler, nativekit.Tx(op.Address), sink.Bytes()); err != nil {
		return nil, fmt.Errorf("genesis install: %v", err)
	}
	w.hdrs = []*eth.Header{g}
	w.ids[g.Hash()] = 0
	return w, nil
}

// child builds header id = len(hdrs): child of parent with difficulty step adj and the given difficulty
// (diff < 0: computed here by the rule the model uses); dt is chosen at random inside the class of adj.
func (w *world) child(parent int, adj int, diff int64, numOff int64) *eth.Header {
	p := w.hdrs[parent]
	u := int64(1)
	if p.UncleHash != etypes.EmptyUncleHash {
		u = 2
	}
	// adj = max(u - dt/9, -99)  =>  dt/9 = u - adj
	q := u - int64(adj)
	dt := q*9 + int64(w.rng.Intn(9))
	if adj <= -99 {
		dt = (u+99)*9 + int64(w.rng.Intn(5000))
	}
	if dt < 1 {
		dt = 1
	}
	id := len(w.hdrs)
	gl := p.GasLimit
	if b := int64(gl/1024) - 1; b > 0 {
		gl = uint64(int64(gl) + int64(w.rng.Intn(int(2*b+1))) - b)
	}
	h := &eth.Header{ParentHash: p.Hash(), UncleHash: etypes.EmptyUncleHash, Number: new(big.Int).Add(p.Number, big.NewInt(1+numOff)),
		GasLimit: gl, GasUsed: uint64(w.rng.Intn(int(gl))), Time: p.Time + uint64(dt), Extra: []byte{byte(id), byte(id >> 8)},
		Coinbase: ecommon.Address{byte(id), 0x27}}
	if w.rng.Intn(3) == 0 {
		h.UncleHash = ecommon.Hash{0xcc, byte(id)}
	}
	if diff < 0 {
		pd := p.Difficulty.Int64()
		diff = pd + pd/2048*int64(adj)
		if diff < 131072 {
			diff = 131072
		}
	}
	h.Difficulty = big.NewInt(diff)
	return h
}

func (w *world) addChild(parent, adj int, diff int64) int {
	return w.add(w.child(parent, adj, diff, 0))
}
func (w *world) addBad(rng *vio.RNG, nStored int) (int, string) {
	p := rng.Intn(nStored + 1)
	off := int64(1)
	if rng.Bool() {
		off = -1
	}
	return w.add(w.child(p, 1, -1, off)), fmt.Sprintf("bad-height parent %d off %d", p, off)
}
func (w *world) submitIDs(ids ...int) (error, string) {
	hs := make([]*eth.Header, len(ids))
	for i, id := range ids {
		hs[i] = w.hdrs[id]
	}
	return w.submit(hs...)
}
func (w *world) rootHeight() int64 { return w.hdrs[0].Number.Int64() }
func (w *world) badMustFail() bool { return true }

func (w *world) add(h *eth.Header) int {
	id := len(w.hdrs)
	w.hdrs = append(w.hdrs, h)
	w.ids[h.Hash()] = id
	return id
}

func (w *world) submit(hs ...*eth.Header) (err error, panicked string) {
	var hb [][]byte
	for _, h := range hs {
		b, _ := json.Marshal(h)
		hb = append(hb, b)
	}
	op := operator()
	sp := &hscom.SyncBlockHeaderParam{ChainID: w.ch, Address: op.Address, Headers: hb}
	s := common.NewZeroCopySink(nil)
	sp.Serialization(s)
	panicked = vio.Safe(func() { _, _, err = w.sb.Call(syncHandler, nativekit.Tx(op.Address), s.Bytes()) })
	if panicked != "" {
		w.sb.Cache.Reset()
		err = fmt.Errorf("panic")
	}
	return
}

// digest of the whole header-sync contract storage, interned to a small integer
func (w *world) digest() int {
	d := map[string]string{}
	for _, name := range []string{hscom.GENESIS_HEADER, hscom.HEADER_INDEX, hscom.MAIN_CHAIN, hscom.CURRENT_HEADER_HEIGHT} {
		it := w.sb.Cache.NewIterator(utils.ConcatKey(utils.HeaderSyncContractAddress, []byte(name), utils.GetUint64Bytes(w.ch)))
		for ok := it.First(); ok; ok = it.Next() {
			d[string(it.Key())] = string(it.Value())
		}
		it.Release()
	}
	ks := make([]string, 0, len(d))
	for k := range d {
		ks = append(ks, k)
	}
	sort.Strings(ks)
	hh := sha256.New()
	for _, k := range ks {
		hh.Write([]byte(k))
		hh.Write([]byte{0})
		hh.Write([]byte(d[k]))
		hh.Write([]byte{1})
	}
	s := hex.EncodeToString(hh.Sum(nil))
	if v, ok := w.dgs[s]; ok {
		return v
	}
	v := len(w.dgs) + 1
	w.dgs[s] = v
	return v
}

// obsT is the observation the monitor judges (arrays indexed by id; id x at index x).
type obsT struct {
	St   []int   `json:"st"`
	Par  []int   `json:"par"`
	Num  []int64 `json:"num"`
	Diff []int64 `json:"diff"`
	Td   []int64 `json:"td"`
	Main []int   `json:"main"`
	Head int64   `json:"head"`
	Dg   int     `json:"dg"`
	// not judged: raw main-chain entries above the head (stale ones), for the drift report
	Stale []int `json:"-"`
}

func (w *world) idOf(h ecommon.Hash) int {
	if id, ok := w.ids[h]; ok {
		return id
	}
	return -2 // a header the driver never made
}

// observe reads the state back through the contract's own getters.
func (w *world) observe(span int) (*obsT, error) {
	ns := w.sb.Service(nativekit.Tx(), nil)
	o := &obsT{Dg: w.digest()}
	rootNum := w.hdrs[0].Number.Int64()
	for id, h := range w.hdrs {
		hash := h.Hash()
		ex, err := eth.IsHeaderExist(ns, hash.Bytes(), w.ch)
		if err != nil {
			return nil, err
		}
		if !ex {
			o.St = append(o.St, 0)
			o.Par = append(o.Par, w.parentID(id, h))
			o.Num = append(o.Num, h.Number.Int64())
			o.Diff = append(o.Diff, h.Difficulty.Int64())
			o.Td = append(o.Td, 0)
			continue
		}
		sh, td, err := eth.GetHeaderByHash(ns, hash.Bytes(), w.ch)
		if err != nil {
			return nil, fmt.Errorf("GetHeaderByHash of an existing header: %v", err)
		}
		o.St = append(o.St, 1)
		o.Par = append(o.Par, w.parentID(id, sh))
		o.Num = append(o.Num, sh.Number.Int64())
		o.Diff = append(o.Diff, sh.Difficulty.Int64())
		if !td.IsInt64() || td.Int64() > 2000000000 {
			return nil, fmt.Errorf("total difficulty out of the model's range: %v", td)
		}
		o.Td = append(o.Td, td.Int64())
	}
	hh, err := eth.GetCurrentHeaderHeight(ns, w.ch)
	if err != nil {
		return nil, err
	}
	o.Head = int64(hh)
	for y := rootNum; y <= int64(hh); y++ {
		mh, _, err := eth.GetHeaderByHeight(ns, uint64(y), w.ch)
		if err != nil {
			o.Main = append(o.Main, -1)
			continue
		}
		o.Main = append(o.Main, w.idOf(mh.Hash()))
	}
	// the head as GetCurrentHeader reports it must be the entry at the current height
	if ch, _, err := eth.GetCurrentHeader(ns, w.ch); err == nil && len(o.Main) > 0 {
		if w.idOf(ch.Hash()) != o.Main[len(o.Main)-1] {
			o.Main[len(o.Main)-1] = -3
		}
	}
	for y := int64(hh) + 1; y <= rootNum+int64(span); y++ {
		raw, _ := w.sb.Cache.Get(utils.ConcatKey(utils.HeaderSyncContractAddress, []byte(hscom.MAIN_CHAIN), utils.GetUint64Bytes(w.ch), utils.GetUint64Bytes(uint64(y))))
		if raw == nil {
			o.Stale = append(o.Stale, -1)
			continue
		}
		v, _ := cstates.GetValueFromRawStorageItem(raw)
		o.Stale = append(o.Stale, w.idOf(ecommon.BytesToHash(v)))
	}
	return o, nil
}

func (w *world) parentID(id int, h *eth.Header) int {
	if id == 0 {
		return -1
	}
	return w.idOf(h.ParentHash)
}

type event struct {
	Op    string `json:"op"`
	Ids   []int  `json:"ids"`
	Known []int  `json:"known"`
	Expok int    `json:"expok"`
	Err   int    `json:"err"`
	Obs   *obsT  `json:"obs"`
	Note  string `json:"note,omitempty"`
}

func b2i(b bool) int {
	if b {
		return 1
	}
	return 0
}

// ---------------------------------------------------------------------------------------------------------
// pow-replay: behaviours printed by TLC from PoWChain (one labelled tree = one parent-first order with the
// predicted state after every step and the predicted verdict of every other submission in every state).

type behaviour struct {
	N     int      `json:"n"`
	Par   []int    `json:"par"`
	Adj   []int    `json:"adj"`
	Diff  []int64  `json:"diff"`
	D0    int64    `json:"d0"`
	V0    []string `json:"v0"`
	Steps []struct {
		H    int      `json:"h"`
		Td   int64    `json:"td"`
		Hh   int      `json:"hh"`
		Main []int    `json:"main"`
		V    []string `json:"v"`
	} `json:"steps"`
}

func parseBehaviour(raw []byte) (*behaviour, error) {
	s := string(raw)
	const pre = `<<"TRACE", "`
	if strings.HasPrefix(s, pre) && strings.HasSuffix(s, `">>`) {
		s = s[len(pre) : len(s)-3]
		s = strings.NewReplacer(`\"`, `"`, `\\`, `\`).Replace(s)
	}
	b := new(behaviour)
	if err := json.Unmarshal([]byte(s), b); err != nil {
		return nil, err
	}
	return b, nil
}

// chain is what a replay needs from a light client under test (eth: *world, btc: *bworld).
type chain interface {
	addChild(parent, adj int, diff int64) int       // a valid child joins the universe; returns its id
	addBad(rng *vio.RNG, nStored int) (int, string) // an invalid header (wrong height / bad proof of work) joins the universe
	submitIDs(ids ...int) (error, string)
	observe(span int) (*obsT, error)
	digest() int
	rootHeight() int64
	badMustFail() bool // the invalid header is refused with an error (eth) or silently skipped (btc)
	release()
}

type mismatch struct {
	Mismatch bool        `json:"mismatch"`
	Index    int         `json:"index"`
	Kind     string      `json:"kind"`
	Step     int         `json:"step"`
	Detail   string      `json:"detail"`
	Beh      *behaviour  `json:"beh"`
	Events   []event     `json:"events"`
	Extra    interface{} `json:"extra,omitempty"`
}

func powReplay(btc bool) {
	lines := vio.ReadLines()
	var mu sync.Mutex
	distinct := map[string]bool{}
	calls, mism, reorgs, downs := 0, 0, 0, 0
	seed := vio.Seed()
	vio.ParMap(len(lines), workers(), func(i int) {
		if !strings.Contains(string(lines[i][:minInt(40, len(lines[i]))]), "{") {
			return
		}
		b, err := parseBehaviour(lines[i])
		if err != nil {
			vio.Fatal("bad behaviour line %d: %v", i, err)
		}
		rng := vio.NewRNG(seed*1000003 + uint64(i))
		m, c, sig, ro, dn := replayOne(b, rng, btc)
		mu.Lock()
		calls += c
		reorgs += ro
		downs += dn
		for _, s := range sig {
			distinct[s] = true
		}
		if m != nil {
			mism++
			m.Index = i
			if mism <= 60 {
				vio.Emit(m)
			}
		}
		mu.Unlock()
	})
	vio.Emit(map[string]interface{}{"summary": true, "behaviours": len(lines), "calls": calls, "mismatches": mism,
		"distinct": len(distinct), "reorgs": reorgs, "reorgs_down": downs})
}

func minInt(a, b int) int {
	if a < b {
		return a
	}
	return b
}

// replayOne runs one behaviour on a fresh contract store. Every call is recorded as a monitor event; the first
// difference from the prediction is reported (the rest of the behaviour is still executed and recorded).
func replayOne(b *behaviour, rng *vio.RNG, btc bool) (mm *mismatch, calls int, sigs []string, reorgs, downs int) {
	var w chain
	var err error
	if btc {
		w, err = newBWorld(rng)
	} else {
		w, err = newWorld(rng, b.D0)
	}
	if err != nil {
		vio.Fatal("%v", err)
	}
	defer w.release()
	// the universe: header i is a child of par[i] with the difficulty the model computed
	for i := 1; i <= b.N; i++ {
		w.addChild(b.Par[i-1], b.Adj[i-1], b.Diff[i-1])
	}
	rootNum := w.rootHeight()
	var events []event
	note := func(kind string, step int, detail string, extra interface{}) {
		if mm == nil {
			mm = &mismatch{Mismatch: true, Kind: kind, Step: step, Detail: detail, Beh: b, Extra: extra}
		}
	}
	o0, err := w.observe(b.N)
	if err != nil {
		vio.Fatal("observe: %v", err)
	}
	events = append(events, event{Op: "reset", Ids: []int{}, Known: []int{}, Obs: o0})
	stored := map[int]bool{0: true}
	cur := o0
	// one call with full bookkeeping
	do := func(step int, what string, ids []int, expok bool, expectChange bool, expectErr int) {
		known := make([]int, len(ids))
		for k, id := range ids {
			known[k] = b2i(id >= 0 && stored[id])
		}
		err, pan := w.submitIDs(ids...)
		calls++
		var o *obsT
		var oerr error
		if dg := w.digest(); dg == cur.Dg {
			o = cur // the whole contract storage is byte-identical: the observation is the previous one
		} else if o, oerr = w.observe(b.N); oerr != nil {
			note("observe-failed", step, oerr.Error(), nil)
			return
		}
		events = append(events, event{Op: "submit", Ids: ids, Known: known, Expok: b2i(expok), Err: b2i(err != nil), Obs: o, Note: what})
		if pan != "" {
			note("panic", step, what+": "+pan, nil)
		}
		if expectErr >= 0 && (err != nil) != (expectErr == 1) {
			note("verdict", step, fmt.Sprintf("%s: error=%v, predicted error=%v (%v)", what, err != nil, expectErr == 1, err), nil)
		}
		if !expectChange && o.Dg != cur.Dg {
			note("state-changed", step, what+": the contract storage changed although the model predicts no change", nil)
		}
		cur = o
	}
	// probes in one state: every orphan is attempted; of the known headers the one just stored, the previous head and one
	// more (random) are re-submitted - all of them when there are at most three
	probes := func(step int, v []string, just, prevHead int) {
		var knownIDs []int
		for j := 1; j <= b.N; j++ {
			if v[j-1] == "I" {
				knownIDs = append(knownIDs, j)
			}
		}
		pick := map[int]bool{}
		if len(knownIDs) <= 3 {
			for _, j := range knownIDs {
				pick[j] = true
			}
		} else {
			pick[just] = true
			if prevHead > 0 {
				pick[prevHead] = true
			}
			pick[knownIDs[rng.Intn(len(knownIDs))]] = true
		}
		for j := 1; j <= b.N; j++ {
			if v[j-1] == "I" && !pick[j] {
				continue
			}
			switch v[j-1] {
			case "I":
				do(step, fmt.Sprintf("resubmit %d", j), []int{j}, false, false, 0)
				sigs = append(sigs, fmt.Sprintf("I|%v|%v|%d|%d", b.Par[:maxStored(stored)], b.Adj[:maxStored(stored)], j, cur.Head-rootNum))
			case "R":
				do(step, fmt.Sprintf("orphan %d", j), []int{j}, false, false, 1)
				sigs = append(sigs, fmt.Sprintf("R|%v|%d", b.Par[:j], maxStored(stored)))
			}
		}
		// an invalid header (eth: wrong declared height; btc: bad proof of work) on top of a stored one; it joins the
		// universe, so that the monitor sees it if it gets stored
		id, what := w.addBad(rng, maxStored(stored))
		e := 1
		if !w.badMustFail() {
			e = -1
		}
		do(step, what, []int{id}, false, false, e)
	}
	probes(0, b.V0, 0, 0)
	for k, st := range b.Steps {
		h := st.H
		before := cur
		do(k+1, fmt.Sprintf("submit %d", h), []int{h}, true, true, 0)
		stored[h] = true
		// compare the observed state with the predicted one
		o := cur
		for id := 0; id <= b.N; id++ {
			if (o.St[id] == 1) != stored[id] {
				note("stored-set", k+1, fmt.Sprintf("header %d stored=%v, predicted %v", id, o.St[id] == 1, stored[id]), nil)
			}
		}
		if o.St[h] == 1 && o.Td[h] != st.Td {
			note("td", k+1, fmt.Sprintf("td[%d]=%d predicted %d", h, o.Td[h], st.Td), nil)
		}
		if o.Head-rootNum != int64(st.Hh) {
			note("head", k+1, fmt.Sprintf("current height %d predicted %d", o.Head-rootNum, st.Hh), nil)
		} else {
			for y := 0; y <= st.Hh; y++ {
				if y < len(o.Main) && o.Main[y] != st.Main[y] {
					note("main", k+1, fmt.Sprintf("main[%d]=%d predicted %d", y, o.Main[y], st.Main[y]), nil)
					break
				}
			}
			for y := st.Hh + 1; y <= b.N; y++ {
				if y-st.Hh-1 < len(o.Stale) && o.Stale[y-st.Hh-1] != st.Main[y] {
					note("stale-entries", k+1, fmt.Sprintf("entry above the head at %d: %d predicted %d", y, o.Stale[y-st.Hh-1], st.Main[y]), nil)
					break
				}
			}
		}
		// classify the step (by the model's prediction) for the coverage count
		kind := "side"
		prevH, prevHead := 0, 0
		if k > 0 {
			prevH = b.Steps[k-1].Hh
			prevHead = b.Steps[k-1].Main[prevH]
		}
		if st.Main[st.Hh] == h {
			kind = "append"
			if prevHead != b.Par[h-1] {
				kind = "reorg"
				if st.Hh < prevH {
					kind = "reorg-down"
					downs++
				} else if st.Hh == prevH {
					kind = "reorg-level"
				}
				reorgs++
			}
		}
		_ = before
		if kind != "append" {
			sigs = append(sigs, fmt.Sprintf("S|%v|%v|%s", b.Par[:h], b.Adj[:h], kind))
		}
		probes(k+1, st.V, h, prevHead)
	}
	if mm != nil {
		if js, err := json.Marshal(b); err == nil {
			events[0].Note = string(js) // the behaviour, so that a rejected history can be re-run in isolation
		}
		mm.Events = events
	}
	return
}

func maxStored(stored map[int]bool) int {
	m := 0
	for k := range stored {
		if k > m {
			m = k
		}
	}
	return m
}
