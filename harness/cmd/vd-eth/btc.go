package main

import (
	"bytes"
	"crypto/sha256"
	"encoding/binary"
	"encoding/hex"
	"fmt"
	"sort"
	"time"

	"github.com/btcsuite/btcd/blockchain"
	"github.com/btcsuite/btcd/chaincfg/chainhash"
	"github.com/btcsuite/btcd/wire"
	"github.com/polynetwork/poly/common"
	"github.com/polynetwork/poly/native"
	scm "github.com/polynetwork/poly/native/service/governance/side_chain_manager"
	hbtc "github.com/polynetwork/poly/native/service/header_sync/btc"
	hscom "github.com/polynetwork/poly/native/service/header_sync/common"
	"github.com/polynetwork/poly/native/service/utils"

	"verifh/kit/nativekit"
	"verifh/kit/vio"
)

// The Bitcoin header chain (header_sync/btc) under the same model (PoWChain, Rule = "btc"): regtest parameters, so a
// header chooses its own bits; level l <-> bits with work 2^(l+1); headers are really mined (a few hash attempts).
var btcBits = []uint32{0x207fffff, 0x203fffff, 0x201fffff, 0x200fffff, 0x2007ffff} // work 2, 4, 8, 16, 32

type bworld struct {
	sb    *nativekit.Sandbox
	pl    *pooled
	ch    uint64
	hdrs  []*wire.BlockHeader
	level []int
	ids   map[chainhash.Hash]int
	dgs   map[string]int
	rng   *vio.RNG
	root  uint32
}

func btcSync(ns *native.NativeService) ([]byte, error) {
	return nil, hbtc.NewBTCHandler().SyncBlockHeader(ns)
}
func btcGenesis(ns *native.NativeService) ([]byte, error) {
	return nil, hbtc.NewBTCHandler().SyncGenesisHeader(ns)
}

func mine(h *wire.BlockHeader, good bool) {
	target := blockchain.CompactToBig(h.Bits)
	for n := uint32(0); ; n++ {
		h.Nonce = n
		hash := h.BlockHash()
		ok := blockchain.HashToBig(&hash).Cmp(target) <= 0
		if ok == good {
			return
		}
	}
}

func newBWorld(rng *vio.RNG) (*bworld, error) {
	pl := getSandbox()
	w := &bworld{sb: pl.sb, pl: pl, ch: pl.next, ids: map[chainhash.Hash]int{}, dgs: map[string]int{}, rng: rng}
	pl.next++
	for i, b := range btcBits { // the model's weights must be the real ones
		if blockchain.CalcWork(b).Int64() != int64(2)<<uint(i) {
			return nil, fmt.Errorf("work of bits %x is %v", b, blockchain.CalcWork(b))
		}
	}
	// register the chain as a regtest Bitcoin chain
	cc := make([]byte, 8)
	binary.LittleEndian.PutUint64(cc, uint64(utils.TyRegtest))
	ns := w.sb.Service(nativekit.Tx(), nil)
	if err := scm.PutSideChain(ns, &scm.SideChain{ChainId: w.ch, Router: utils.BTC_ROUTER, Name: "btc", BlocksToWait: 1, CCMCAddress: cc}); err != nil {
		return nil, err
	}
	w.sb.Cache.Commit()
	g := &wire.BlockHeader{Version: 1, Timestamp: time.Unix(1600000000+int64(rng.Intn(1000000)), 0), Bits: btcBits[2]}
	copy(g.PrevBlock[:], rng.Bytes(32))
	copy(g.MerkleRoot[:], rng.Bytes(32))
	mine(g, true)
	w.root = uint32(100 + rng.Intn(700000))
	var buf bytes.Buffer
	g.Serialize(&buf)
	hb := make([]byte, 4)
	binary.BigEndian.PutUint32(hb, w.root)
	p := &hscom.SyncGenesisHeaderParam{ChainID: w.ch, GenesisHeader: append(buf.Bytes(), hb...)}
	sink := common.NewZeroCopySink(nil)
	p.Serialization(sink)
	if _, _, err := w.sb.Call(btcGenesis, nativekit.Tx(operator().Address), sink.Bytes()); err != nil {
		return nil, fmt.Errorf("btc genesis install: %v", err)
	}
	w.hdrs = []*wire.BlockHeader{g}
	w.level = []int{2}
	w.ids[g.BlockHash()] = 0
	return w, nil
}

func (w *bworld) mk(parent int, level int, good bool) int {
	p := w.hdrs[parent]
	id := len(w.hdrs)
	h := &wire.BlockHeader{Version: 1, PrevBlock: p.BlockHash(), Timestamp: p.Timestamp.Add(time.Duration(1+w.rng.Intn(1200)) * time.Second), Bits: btcBits[level]}
	copy(h.MerkleRoot[:], w.rng.Bytes(32))
	h.MerkleRoot[0] = byte(id)
	mine(h, good)
	w.hdrs = append(w.hdrs, h)
	w.level = append(w.level, level)
	w.ids[h.BlockHash()] = id
	return id
}

func (w *bworld) addChild(parent, adj int, diff int64) int {
	l := w.level[parent] + adj
	if l < 0 {
		l = 0
	}
	if l > 4 {
		l = 4
	}
	if diff >= 0 && diff != int64(2)<<uint(l) {
		vio.Fatal("model weight %d of a header at level %d", diff, l)
	}
	return w.mk(parent, l, true)
}
func (w *bworld) addBad(rng *vio.RNG, nStored int) (int, string) {
	p := rng.Intn(nStored + 1)
	return w.mk(p, 4, false), fmt.Sprintf("bad proof of work on parent %d", p)
}
func (w *bworld) badMustFail() bool { return false }
func (w *bworld) rootHeight() int64 { return int64(w.root) }
func (w *bworld) release() {
	select {
	case sbPool <- w.pl:
	default:
	}
}

func (w *bworld) submitIDs(ids ...int) (err error, panicked string) {
	var hb [][]byte
	for _, id := range ids {
		var buf bytes.Buffer
		w.hdrs[id].Serialize(&buf)
		hb = append(hb, buf.Bytes())
	}
	op := operator()
	sp := &hscom.SyncBlockHeaderParam{ChainID: w.ch, Address: op.Address, Headers: hb}
	s := common.NewZeroCopySink(nil)
	sp.Serialization(s)
	panicked = vio.Safe(func() { _, _, err = w.sb.Call(btcSync, nativekit.Tx(op.Address), s.Bytes()) })
	if panicked != "" {
		w.sb.Cache.Reset()
		err = fmt.Errorf("panic")
	}
	return
}

func (w *bworld) digest() int {
	d := map[string]string{}
	for _, name := range []string{hscom.GENESIS_HEADER, hscom.HEADER_INDEX, hscom.BLOCK_HEADER, hscom.CURRENT_HEADER_HEIGHT} {
		it := w.sb.Cache.NewIterator(utils.ConcatKey(utils.HeaderSyncContractAddress, []byte(name), utils.GetUint64Bytes(w.ch)))
		for ok := it.First(); ok; ok = it.Next() {
			d[string(it.Key())] = string(it.Value())
		}
		it.Release()
	}
	ks := make([]string, 0, len(d))
	for k := range d {
		ks = append(ks, k)
	}
	sort.Strings(ks)
	hh := sha256.New()
	for _, k := range ks {
		hh.Write([]byte(k))
		hh.Write([]byte{0})
		hh.Write([]byte(d[k]))
		hh.Write([]byte{1})
	}
	s := hex.EncodeToString(hh.Sum(nil))
	if v, ok := w.dgs[s]; ok {
		return v
	}
	v := len(w.dgs) + 1
	w.dgs[s] = v
	return v
}

func (w *bworld) idOf(h chainhash.Hash) int {
	if id, ok := w.ids[h]; ok {
		return id
	}
	return -2
}

// observe through the contract's getters: GetHeaderByHash (height, total work), GetBestBlockHeader, GetBlockHashByHeight.
func (w *bworld) observe(span int) (*obsT, error) {
	ns := w.sb.Service(nativekit.Tx(), nil)
	o := &obsT{Dg: w.digest()}
	for id, h := range w.hdrs {
		par := -1
		if id > 0 {
			par = w.idOf(h.PrevBlock)
		}
		sh, err := hbtc.GetHeaderByHash(ns, w.ch, h.BlockHash())
		if err != nil {
			o.St = append(o.St, 0)
			o.Par = append(o.Par, par)
			o.Num = append(o.Num, 0)
			o.Diff = append(o.Diff, blockchain.CalcWork(h.Bits).Int64())
			o.Td = append(o.Td, 0)
			continue
		}
		if id > 0 {
			par = w.idOf(sh.Header.PrevBlock)
		}
		o.St = append(o.St, 1)
		o.Par = append(o.Par, par)
		o.Num = append(o.Num, int64(sh.Height))
		o.Diff = append(o.Diff, blockchain.CalcWork(sh.Header.Bits).Int64())
		tw := hbtc.VerifTotalWork(sh)
		if !tw.IsInt64() || tw.Int64() > 2000000000 {
			return nil, fmt.Errorf("total work out of range: %v", tw)
		}
		o.Td = append(o.Td, tw.Int64())
	}
	// headers that are not stored get the height their parent implies (only used for display)
	for id := range w.hdrs {
		if o.St[id] == 0 && o.Par[id] >= 0 && o.Par[id] < id {
			o.Num[id] = o.Num[o.Par[id]] + 1
		}
	}
	best, err := hbtc.GetBestBlockHeader(ns, w.ch)
	if err != nil {
		return nil, err
	}
	o.Head = int64(best.Height)
	for y := int64(w.root); y <= o.Head; y++ {
		hash, err := hbtc.GetBlockHashByHeight(ns, w.ch, uint32(y))
		if err != nil {
			o.Main = append(o.Main, -1)
			continue
		}
		o.Main = append(o.Main, w.idOf(*hash))
	}
	if len(o.Main) > 0 && o.Main[len(o.Main)-1] != w.idOf(best.Header.BlockHash()) {
		o.Main[len(o.Main)-1] = -3 // the index entry at the best height is not the best header
	}
	for y := o.Head + 1; y <= int64(w.root)+int64(span); y++ {
		hash, err := hbtc.GetBlockHashByHeight(ns, w.ch, uint32(y))
		if err != nil {
			o.Stale = append(o.Stale, -1)
			continue
		}
		o.Stale = append(o.Stale, w.idOf(*hash))
	}
	return o, nil
}
