package main

import (
	"bytes"
	"encoding/json"
	"fmt"
	"math/big"
	"os"
	"strings"
	"sync"
	"time"

	ecommon "github.com/ethereum/go-ethereum/common"
	"github.com/ethereum/go-ethereum/consensus/ethash"
	etypes "github.com/ethereum/go-ethereum/core/types"
	"github.com/ethereum/go-ethereum/crypto"
	eparams "github.com/ethereum/go-ethereum/params"
	"github.com/polynetwork/poly/common"
	hscom "github.com/polynetwork/poly/native/service/header_sync/common"
	"github.com/polynetwork/poly/native/service/header_sync/eth"

	"verifh/kit/nativekit"
	"verifh/kit/vio"
)

// C28: rows printed by TLC from EthRules.tla (P-TABLE) against the real functions and the real SyncBlockHeader.

const londonHeight = 12965000

type diffT struct {
	B    int64 `json:"b"`
	S    uint  `json:"s"`
	E    int   `json:"e"`
	Plus int64 `json:"plus"`
}

func (d diffT) big() *big.Int {
	x := new(big.Int).Lsh(big.NewInt(d.B), d.S)
	if d.E >= 0 {
		x.Add(x, new(big.Int).Lsh(big.NewInt(1), uint(d.E)))
	}
	return x.Add(x, big.NewInt(d.Plus))
}

func uncleHash(u bool) ecommon.Hash {
	if u {
		return ecommon.Hash{0xab, 0xcd}
	}
	return etypes.EmptyUncleHash
}

func parseRow(raw []byte, v interface{}) {
	s := string(raw)
	const pre = `<<"ROW", "`
	if strings.HasPrefix(s, pre) && strings.HasSuffix(s, `">>`) {
		s = s[len(pre) : len(s)-3]
		s = strings.NewReplacer(`\"`, `"`, `\\`, `\`).Replace(s)
	}
	if err := json.Unmarshal([]byte(s), v); err != nil {
		vio.Fatal("bad row: %v: %.200s", err, s)
	}
}

type tally struct {
	mu               sync.Mutex
	rows, nontrivial int
	mism             int
	seen             map[string]bool
}

func (t *tally) add(raw []byte, nontrivial bool) {
	t.mu.Lock()
	t.rows++
	if nontrivial && !t.seen[string(raw)] {
		t.seen[string(raw)] = true
		t.nontrivial++
	}
	t.mu.Unlock()
}
func (t *tally) mismatch(table string, raw []byte, what string, exp, got interface{}) {
	t.mu.Lock()
	t.mism++
	n := t.mism
	t.mu.Unlock()
	if n <= 200 {
		var row interface{}
		parseRow(raw, &row)
		vio.Emit(map[string]interface{}{"mismatch": true, "table": table, "what": what, "row": row, "expected": exp, "got": got})
	}
}
func (t *tally) done(table string) {
	vio.Emit(map[string]interface{}{"summary": true, "table": table, "rows": t.rows, "distinct": t.nontrivial, "mismatches": t.mism})
}

type calcRow struct {
	Row struct {
		Pd     int64 `json:"pd"`
		S      uint  `json:"s"`
		Dt     int64 `json:"dt"`
		Uncles bool  `json:"uncles"`
		Num    int64 `json:"num"`
		Delay  int64 `json:"delay"`
	} `json:"row"`
	Diff diffT `json:"diff"`
}

func rulesTable() {
	if len(os.Args) < 3 {
		vio.Fatal("usage: vd-eth rules-table calc|gas|fee|rlp|size")
	}
	table := os.Args[2]
	lines := vio.ReadLines()
	t := &tally{seen: map[string]bool{}}
	rng := vio.NewRNG(vio.Seed())
	t0 := uint64(1500000000 + rng.Intn(100000000))
	vio.ParMap(len(lines), workers(), func(i int) {
		// a seeded change can corrupt shared big.Int state (a package-level constant mutated in place), so that even
		// formatting a returned value panics: the whole row runs under Safe and such a row counts as a mismatch
		if p := vio.Safe(func() { rulesRow(table, lines, i, t, t0) }); p != "" {
			t.mismatch(table, lines[i], "panic-in-row", "", p)
		}
	})
	t.done(table)
}

func rulesRow(table string, lines []json.RawMessage, i int, t *tally, t0 uint64) {
	{
		raw := lines[i]
		switch table {
		case "calc":
			var r calcRow
			parseRow(raw, &r)
			parent := &eth.Header{Number: big.NewInt(r.Row.Num - 1), Time: t0, UncleHash: uncleHash(r.Row.Uncles),
				Difficulty: new(big.Int).Lsh(big.NewInt(r.Row.Pd), r.Row.S)}
			exp := r.Diff.big()
			var got []*big.Int
			var names []string
			if p := vio.Safe(func() {
				if r.Row.Delay == 9000000 { // the fixed pre-London calculator
					got = append(got, eth.VerifDifficultyCalculator(new(big.Int).SetUint64(t0+uint64(r.Row.Dt)), parent))
					names = append(names, "difficultyCalculator")
				}
				got = append(got, eth.VerifMakeDifficultyCalculator(big.NewInt(r.Row.Delay))(t0+uint64(r.Row.Dt), parent))
				names = append(names, "makeDifficultyCalculator")
			}); p != "" {
				t.mismatch(table, raw, "panic", exp.String(), p)
			}
			for k, g := range got {
				if g.Cmp(exp) != 0 {
					t.mismatch(table, raw, names[k], exp.String(), g.String())
				}
			}
			t.add(raw, exp.Cmp(parent.Difficulty) != 0)
		case "gas":
			var r struct {
				Row struct {
					Pgl uint64 `json:"pgl"`
					Gl  uint64 `json:"gl"`
				} `json:"row"`
				Ok bool `json:"ok"`
			}
			parseRow(raw, &r)
			err := eth.VerifyGaslimit(r.Row.Pgl, r.Row.Gl)
			if (err == nil) != r.Ok {
				t.mismatch(table, raw, "VerifyGaslimit", r.Ok, fmt.Sprint(err))
			}
			t.add(raw, !r.Ok)
		case "fee":
			var r struct {
				Row struct {
					Plondon bool   `json:"plondon"`
					Pgl     uint64 `json:"pgl"`
					Pgu     uint64 `json:"pgu"`
					Pbf     int64  `json:"pbf"`
				} `json:"row"`
				Expected int64  `json:"expected"`
				Gl       uint64 `json:"gl"`
				Bf       int64  `json:"bf"`
				Ok       bool   `json:"ok"`
			}
			parseRow(raw, &r)
			parent := &eth.Header{Number: big.NewInt(londonHeight - 1), GasLimit: r.Row.Pgl, GasUsed: r.Row.Pgu}
			if r.Row.Plondon {
				parent.Number = big.NewInt(londonHeight + int64(i%3))
				parent.BaseFee = big.NewInt(r.Row.Pbf)
			}
			child := &eth.Header{Number: new(big.Int).Add(parent.Number, big.NewInt(1)), GasLimit: r.Gl}
			if r.Bf >= 0 {
				child.BaseFee = big.NewInt(r.Bf)
			}
			var fee *big.Int
			var err error
			if p := vio.Safe(func() { fee = eth.CalcBaseFee(parent); err = eth.VerifyEip1559Header(parent, child) }); p != "" {
				t.mismatch(table, raw, "panic", r.Expected, p)
				return
			}
			if fee.Cmp(big.NewInt(r.Expected)) != 0 {
				t.mismatch(table, raw, "CalcBaseFee", r.Expected, fee.String())
			}
			if (err == nil) != r.Ok {
				t.mismatch(table, raw, "VerifyEip1559Header", r.Ok, fmt.Sprint(err))
			}
			t.add(raw, !r.Ok || r.Expected != r.Row.Pbf)
		case "rlp":
			var r struct {
				Row map[string][]int `json:"row"`
				Rlp []int            `json:"rlp"`
			}
			parseRow(raw, &r)
			bs := func(k string) []byte {
				b := make([]byte, len(r.Row[k]))
				for j, x := range r.Row[k] {
					b[j] = byte(x)
				}
				return b
			}
			u64 := func(k string) uint64 { return new(big.Int).SetBytes(bs(k)).Uint64() }
			h := &eth.Header{ParentHash: ecommon.BytesToHash(bs("parentHash")), UncleHash: ecommon.BytesToHash(bs("sha3Uncles")),
				Coinbase: ecommon.BytesToAddress(bs("miner")), Root: ecommon.BytesToHash(bs("stateRoot")),
				TxHash: ecommon.BytesToHash(bs("transactionsRoot")), ReceiptHash: ecommon.BytesToHash(bs("receiptsRoot")),
				Bloom: etypes.BytesToBloom(bs("logsBloom")), Difficulty: new(big.Int).SetBytes(bs("difficulty")),
				Number: new(big.Int).SetBytes(bs("number")), GasLimit: u64("gasLimit"), GasUsed: u64("gasUsed"), Time: u64("timestamp"),
				Extra: bs("extraData"), MixDigest: ecommon.BytesToHash(bs("mixHash"))}
			copy(h.Nonce[:], bs("nonce"))
			hasFee := !(len(r.Row["baseFee"]) == 1 && r.Row["baseFee"][0] == -1)
			if hasFee {
				h.BaseFee = new(big.Int).SetBytes(bs("baseFee"))
			}
			enc := make([]byte, len(r.Rlp))
			for j, x := range r.Rlp {
				enc[j] = byte(x)
			}
			exp := crypto.Keccak256Hash(enc)
			if got := h.Hash(); got != exp {
				t.mismatch(table, raw, "Header.Hash", exp.Hex(), got.Hex())
			}
			// the stored form must keep the identity: JSON round trip (as HEADER_INDEX stores it) preserves the hash
			if js, err := json.Marshal(h); err == nil {
				var h2 eth.Header
				if err := json.Unmarshal(js, &h2); err != nil || h2.Hash() != exp {
					t.mismatch(table, raw, "Header.Hash after JSON round trip", exp.Hex(), fmt.Sprint(err, h2.Hash().Hex()))
				}
			}
			if !hasFee { // sanity of the transcription: go-ethereum v1.9.15 hashes legacy headers the same way
				gh := &etypes.Header{ParentHash: h.ParentHash, UncleHash: h.UncleHash, Coinbase: h.Coinbase, Root: h.Root, TxHash: h.TxHash,
					ReceiptHash: h.ReceiptHash, Bloom: h.Bloom, Difficulty: h.Difficulty, Number: h.Number, GasLimit: h.GasLimit,
					GasUsed: h.GasUsed, Time: h.Time, Extra: h.Extra, MixDigest: h.MixDigest, Nonce: h.Nonce}
				if gh.Hash() != exp {
					vio.Emit(map[string]interface{}{"specsanity": true, "table": table, "what": "go-ethereum v1.9.15 Header.Hash differs from the spec's RLP",
						"expected": exp.Hex(), "geth": gh.Hash().Hex()})
				}
			}
			t.add(raw, true)
		case "size":
			var r struct {
				First       uint64 `json:"first"`
				Last        uint64 `json:"last"`
				DatasetRows uint64 `json:"datasetRows"`
				CacheRows   uint64 `json:"cacheRows"`
			}
			parseRow(raw, &r)
			for _, blk := range []uint64{r.First, r.First + 1, (r.First + r.Last) / 2, r.Last} {
				if g := eth.VerifDatasetSize(blk); g != r.DatasetRows*128 {
					t.mismatch(table, raw, fmt.Sprintf("datasetSize(%d)", blk), r.DatasetRows*128, g)
				}
				if g := eth.VerifCacheSize(blk); g != r.CacheRows*64 {
					t.mismatch(table, raw, fmt.Sprintf("cacheSize(%d)", blk), r.CacheRows*64, g)
				}
			}
			t.add(raw, true)
		default:
			vio.Fatal("unknown table %s", table)
		}
	}
}

// rules-geth: the spec's difficulty rows against go-ethereum v1.9.15 (main-net config). A difference means the
// transcription (or the chosen era table) is wrong: it is reported as a spec-sanity failure, never as a violation.
func rulesGeth() {
	lines := vio.ReadLines()
	n, bad := 0, 0
	for _, raw := range lines {
		var r calcRow
		parseRow(raw, &r)
		t0 := uint64(1600000000)
		parent := &etypes.Header{Number: big.NewInt(r.Row.Num - 1), Time: t0, UncleHash: uncleHash(r.Row.Uncles),
			Difficulty: new(big.Int).Lsh(big.NewInt(r.Row.Pd), r.Row.S)}
		got := ethash.CalcDifficulty(eparams.MainnetChainConfig, t0+uint64(r.Row.Dt), parent)
		n++
		if exp := r.Diff.big(); got.Cmp(exp) != 0 {
			bad++
			if bad <= 20 {
				var row interface{}
				parseRow(raw, &row)
				vio.Emit(map[string]interface{}{"specsanity": true, "table": "geth", "row": row, "expected": exp.String(), "geth": got.String()})
			}
		}
	}
	vio.Emit(map[string]interface{}{"summary": true, "table": "geth", "rows": n, "mismatches": bad})
}

// rules-e2e: parent installed as trust root, child through the real SyncBlockHeader; accepted <=> the spec says valid.
type e2eRow struct {
	Row struct {
		Num int64  `json:"num"`
		Dev string `json:"dev"`
	} `json:"row"`
	Parent struct {
		Num    int64  `json:"num"`
		Time   int64  `json:"time"`
		Gl     uint64 `json:"gl"`
		Gu     uint64 `json:"gu"`
		Bf     int64  `json:"bf"`
		Pd     int64  `json:"pd"`
		S      uint   `json:"s"`
		Uncles bool   `json:"uncles"`
	} `json:"parent"`
	Child struct {
		Num   int64  `json:"num"`
		Time  int64  `json:"time"`
		Extra int    `json:"extra"`
		Gl    uint64 `json:"gl"`
		Gu    uint64 `json:"gu"`
		Bf    int64  `json:"bf"`
		Diff  diffT  `json:"diff"`
	} `json:"child"`
	Ok bool `json:"ok"`
}

func rulesE2E() {
	lines := vio.ReadLines()
	t := &tally{seen: map[string]bool{}}
	seed := vio.Seed()
	vio.ParMap(len(lines), workers(), func(i int) {
		raw := lines[i]
		var r e2eRow
		parseRow(raw, &r)
		rng := vio.NewRNG(seed*65537 + uint64(i))
		pl := getSandbox()
		ch := pl.next
		pl.next++
		defer func() { sbPool <- pl }()
		base := time.Now().Unix() - 5000000 - int64(rng.Intn(1000000)) - r.Parent.Time
		parent := &eth.Header{Number: big.NewInt(r.Parent.Num), Time: uint64(base + r.Parent.Time), GasLimit: r.Parent.Gl, GasUsed: r.Parent.Gu,
			Difficulty: new(big.Int).Lsh(big.NewInt(r.Parent.Pd), r.Parent.S), UncleHash: uncleHash(r.Parent.Uncles),
			Extra: []byte{}, Coinbase: ecommon.BytesToAddress(rng.Bytes(20)), Root: ecommon.BytesToHash(rng.Bytes(32))}
		if r.Parent.Bf >= 0 {
			parent.BaseFee = big.NewInt(r.Parent.Bf)
		}
		child := &eth.Header{ParentHash: parent.Hash(), Number: big.NewInt(r.Child.Num), Time: uint64(base + r.Child.Time),
			GasLimit: r.Child.Gl, GasUsed: r.Child.Gu, Difficulty: r.Child.Diff.big(), UncleHash: etypes.EmptyUncleHash,
			Extra: bytes.Repeat([]byte{0x5a}, r.Child.Extra), Coinbase: ecommon.BytesToAddress(rng.Bytes(20))}
		if r.Child.Bf >= 0 {
			child.BaseFee = big.NewInt(r.Child.Bf)
		}
		op := operator()
		gb, _ := json.Marshal(parent)
		gp := &hscom.SyncGenesisHeaderParam{ChainID: ch, GenesisHeader: gb}
		sink := common.NewZeroCopySink(nil)
		gp.Serialization(sink)
		if _, _, err := pl.sb.Call(genesisHandler, nativekit.Tx(op.Address), sink.Bytes()); err != nil {
			vio.Fatal("trust root install failed: %v", err)
		}
		cb, _ := json.Marshal(child)
		sp := &hscom.SyncBlockHeaderParam{ChainID: ch, Address: op.Address, Headers: [][]byte{cb}}
		s2 := common.NewZeroCopySink(nil)
		sp.Serialization(s2)
		var err error
		if p := vio.Safe(func() { _, _, err = pl.sb.Call(syncHandler, nativekit.Tx(op.Address), s2.Bytes()) }); p != "" {
			pl.sb.Cache.Reset()
			t.mismatch("e2e", raw, "panic", r.Ok, p)
			t.add(raw, !r.Ok)
			return
		}
		accepted := err == nil
		if accepted { // "accepted" means stored and head
			ns := pl.sb.Service(nativekit.Tx(), nil)
			ex, _ := eth.IsHeaderExist(ns, child.Hash().Bytes(), ch)
			cur, _, cerr := eth.GetCurrentHeader(ns, ch)
			if !ex || cerr != nil || cur.Hash() != child.Hash() {
				t.mismatch("e2e", raw, "SyncBlockHeader returned success but the header is not the stored head", true, fmt.Sprint(ex, cerr))
			}
		}
		if accepted != r.Ok {
			t.mismatch("e2e", raw, "SyncBlockHeader", r.Ok, fmt.Sprintf("accepted=%v err=%v", accepted, err))
		}
		t.add(raw, !r.Ok)
	})
	t.done("e2e")
}
