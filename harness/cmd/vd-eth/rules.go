package main

func rulesTable() {}
func rulesE2E()   {}
func rulesGeth()  {}
