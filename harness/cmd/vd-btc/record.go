package main

import (
	"bytes"
	"crypto/sha256"
	"encoding/binary"
	"encoding/hex"
	"fmt"
	"sort"

	"github.com/btcsuite/btcd/btcec"
	"github.com/btcsuite/btcd/chaincfg"
	"github.com/btcsuite/btcd/txscript"
	"github.com/btcsuite/btcd/wire"
	"github.com/btcsuite/btcutil"
	"github.com/polynetwork/poly/common"
	cstates "github.com/polynetwork/poly/core/states"
	"github.com/polynetwork/poly/native"
	"github.com/polynetwork/poly/native/service/cross_chain_manager/btc"
	"github.com/polynetwork/poly/native/service/governance/side_chain_manager"
	"github.com/polynetwork/poly/native/service/utils"
	"verifh/kit/nativekit"
	"verifh/kit/vio"
)

const (
	btcChain = uint64(1)
	maxTx    = 80      // NTx of TraceBtcCoins.cfg (outpoint = <<txid number, output index 0..3>>)
	maxValue = 2000000 // satoshi per outpoint; 80 of them stay far below 2^31 (TLC integers)
)

type bev struct {
	Op     string `json:"op"`
	Ops    []oid  `json:"ops"`
	Vals   []int  `json:"vals"`
	O      oid    `json:"o"`
	V      int    `json:"v"`
	Via    string `json:"via"`
	Target int64  `json:"target"`
	Mc     int64  `json:"mc"`
	Res    string `json:"res"`
	Sel    []oid  `json:"sel"`
	Sum    int64  `json:"sum"`
	Fee    int64  `json:"fee"`
	Change int64  `json:"change"`
	Insum  int64  `json:"insum"`
	Outsum int64  `json:"outsum"`
	Utxo2  []oid  `json:"utxo2"`
	Stxo2  []oid  `json:"stxo2"`

	// diagnostics
	FeeRate  uint64  `json:"feerate,omitempty"`
	Strategy string  `json:"strategy,omitempty"`
	SelVals  []int64 `json:"selvals,omitempty"`
	AllVals  []int64 `json:"allvals,omitempty"` // the unspent values offered, in the order the selector saw them
	Kinds    string  `json:"kinds,omitempty"`   // script kinds offered: s = P2SH, w = P2WSH
	MN       string  `json:"mn,omitempty"`
	Diag     string  `json:"diag,omitempty"` // why the reported total differs from the selected values (see diagnose)
	Err      string  `json:"err,omitempty"`
	Panic    string  `json:"panic,omitempty"`
}

// oid is an outpoint as the specification sees it: (number of the transaction id in order of first appearance, output
// index).  {0,0} = not an outpoint the driver created.  Several outpoints of one scenario share a transaction id.
type oid [2]int

type scenario struct {
	sb       *nativekit.Sandbox
	rng      *vio.RNG
	net      *chaincfg.Params
	redeem   []byte
	rk       []byte
	m, n     int
	p2sh     []byte
	p2wsh    []byte
	payAddr  string
	payScr   []byte
	ids      map[string]oid
	txn      map[string]int // txid -> number
	lastTx   []byte         // txid of the outpoint created last, and the indices used of it
	lastIdx  map[uint32]bool
	vals     map[oid]int64
	feeRate  uint64
	mc       uint64
	events   []bev
	regime   int
	baseUnit int64
}

func opKey(op *btc.OutPoint) string { return hex.EncodeToString(op.Hash) + ":" + fmt.Sprint(op.Index) }

func newScenario(rng *vio.RNG) *scenario {
	sc := &scenario{sb: nativekit.New(), rng: rng, net: &chaincfg.RegressionNetParams, ids: map[string]oid{}, txn: map[string]int{}, vals: map[oid]int64{}}
	// m-of-n redeem script
	sc.n = 1 + rng.Intn(5)
	sc.m = 1 + rng.Intn(sc.n)
	if rng.Intn(2) == 0 {
		sc.m, sc.n = 2, 3
	}
	var pks []*btcutil.AddressPubKey
	for i := 0; i < sc.n; i++ {
		_, pub := btcec.PrivKeyFromBytes(btcec.S256(), append(rng.Bytes(31), 1))
		a, err := btcutil.NewAddressPubKey(pub.SerializeCompressed(), sc.net)
		vio.Must(err)
		pks = append(pks, a)
	}
	var err error
	sc.redeem, err = txscript.MultiSigScript(pks, sc.m)
	vio.Must(err)
	sc.rk = btcutil.Hash160(sc.redeem)
	sa, err := btcutil.NewAddressScriptHash(sc.redeem, sc.net)
	vio.Must(err)
	sc.p2sh, err = txscript.PayToAddrScript(sa)
	vio.Must(err)
	h := sha256.Sum256(sc.redeem)
	wa, err := btcutil.NewAddressWitnessScriptHash(h[:], sc.net)
	vio.Must(err)
	sc.p2wsh, err = txscript.PayToAddrScript(wa)
	vio.Must(err)
	pa, err := btcutil.NewAddressPubKeyHash(rng.Bytes(20), sc.net)
	vio.Must(err)
	sc.payAddr = pa.EncodeAddress()
	sc.payScr, err = txscript.PayToAddrScript(pa)
	vio.Must(err)
	// side chain record (net type) and the redeem key's transaction parameters, straight into contract storage
	_, _, err = sc.sb.Call(func(ns *native.NativeService) ([]byte, error) {
		cc := make([]byte, 8)
		binary.LittleEndian.PutUint64(cc, uint64(utils.TyRegtest))
		return nil, side_chain_manager.PutSideChain(ns, &side_chain_manager.SideChain{ChainId: btcChain, Router: 1, Name: "btc", BlocksToWait: 1, CCMCAddress: cc})
	}, nativekit.Tx(), nil)
	vio.Must(err)
	return sc
}

func (sc *scenario) setParam(feeRate, mc uint64) {
	sc.feeRate, sc.mc = feeRate, mc
	_, _, err := sc.sb.Call(func(ns *native.NativeService) ([]byte, error) {
		sink := common.NewZeroCopySink(nil)
		(&side_chain_manager.BtcTxParamDetial{PVersion: 1, FeeRate: feeRate, MinChange: mc}).Serialization(sink)
		ns.GetCacheDB().Put(utils.ConcatKey(utils.SideChainManagerContractAddress, []byte(side_chain_manager.BTC_TX_PARAM), sc.rk,
			utils.GetUint64Bytes(btcChain)), cstates.GenRawStorageItem(sink.Bytes()))
		return nil, nil
	}, nativekit.Tx(), nil)
	vio.Must(err)
}

func (sc *scenario) utxoKey() string { return hex.EncodeToString(sc.rk) }

func (sc *scenario) value() int64 {
	r := sc.rng
	u := sc.baseUnit
	switch sc.regime {
	case 0: // few distinct values, many ties
		return u * int64(1+r.Intn(4))
	case 1: // multiples of the unit over a wide range
		return u * int64(1+r.Intn(60))
	case 2: // arbitrary
		return 1 + int64(r.Intn(maxValue))
	default: // close to each other
		return 50*u + int64(r.Intn(7))*u/10
	}
}

func (sc *scenario) newUtxo() *btc.Utxo {
	v := sc.value()
	if v > maxValue {
		v = maxValue
	}
	scr := sc.p2sh
	if sc.rng.Intn(2) == 0 {
		scr = sc.p2wsh
	}
	// about half of the outpoints are further outputs (index 0..3) of the transaction created last: a relayed
	// withdrawal that pays the multisig and returns change to it, or one deposit transaction with several outputs
	var hash []byte
	var index uint32
	if sc.lastTx != nil && len(sc.lastIdx) < 4 && sc.rng.Intn(2) == 0 {
		hash = sc.lastTx
		for index = uint32(sc.rng.Intn(4)); sc.lastIdx[index]; index = (index + 1) % 4 {
		}
		if sc.rng.Intn(4) != 0 {
			v = v/2 + 1 + int64(sc.rng.Intn(int(v/2)+1))
		}
	} else {
		hash = sc.rng.Bytes(32)
		index = uint32(sc.rng.Intn(4))
		sc.lastTx, sc.lastIdx = hash, map[uint32]bool{}
		sc.txn[hex.EncodeToString(hash)] = len(sc.txn) + 1
	}
	sc.lastIdx[index] = true
	u := &btc.Utxo{Op: &btc.OutPoint{Hash: hash, Index: index}, AtHeight: uint32(sc.rng.Intn(1000)), Value: uint64(v), ScriptPubkey: scr}
	id := oid{sc.txn[hex.EncodeToString(hash)], int(index)}
	sc.ids[opKey(u.Op)] = id
	sc.vals[id] = v
	return u
}

func (sc *scenario) stored() (ut, st *btc.Utxos) {
	ns := sc.sb.Service(nativekit.Tx(), nil)
	var err error
	ut, err = btc.VerifGetUtxos(ns, btcChain, sc.utxoKey())
	vio.Must(err)
	st, err = btc.VerifGetStxos(ns, btcChain, sc.utxoKey())
	vio.Must(err)
	return
}

func (sc *scenario) idsOf(us []*btc.Utxo) []oid {
	r := make([]oid, len(us))
	for i, u := range us {
		r[i] = sc.ids[opKey(u.Op)]
	}
	return r
}

func sorted(a []oid) []oid {
	b := append([]oid{}, a...)
	sort.Slice(b, func(i, j int) bool { return b[i][0] < b[j][0] || (b[i][0] == b[j][0] && b[i][1] < b[j][1]) })
	return b
}

func (sc *scenario) sets(e *bev) {
	ut, st := sc.stored()
	e.Utxo2, e.Stxo2 = sorted(sc.idsOf(ut.Utxos)), sorted(sc.idsOf(st.Utxos))
}

func (sc *scenario) reset(n int) {
	us := &btc.Utxos{}
	for i := 0; i < n; i++ {
		us.Utxos = append(us.Utxos, sc.newUtxo())
	}
	_, _, err := sc.sb.Call(func(ns *native.NativeService) ([]byte, error) {
		btc.VerifPutUtxos(ns, btcChain, sc.utxoKey(), us)
		return nil, nil
	}, nativekit.Tx(), nil)
	vio.Must(err)
	e := bev{Op: "reset", Ops: []oid{}, Vals: []int{}, Sel: []oid{}, Utxo2: []oid{}, Stxo2: []oid{}}
	for _, u := range us.Utxos {
		e.Ops = append(e.Ops, sc.ids[opKey(u.Op)])
		e.Vals = append(e.Vals, int(u.Value))
	}
	sc.events = append(sc.events, e)
}

func (sc *scenario) deposit() {
	u := sc.newUtxo()
	_, _, err := sc.sb.Call(func(ns *native.NativeService) ([]byte, error) {
		us, err := btc.VerifGetUtxos(ns, btcChain, sc.utxoKey())
		if err != nil {
			return nil, err
		}
		us.Utxos = append(us.Utxos, u)
		btc.VerifPutUtxos(ns, btcChain, sc.utxoKey(), us)
		return nil, nil
	}, nativekit.Tx(), nil)
	vio.Must(err)
	sc.events = append(sc.events, bev{Op: "dep", O: sc.ids[opKey(u.Op)], V: int(u.Value), Ops: []oid{}, Vals: []int{}, Sel: []oid{}, Utxo2: []oid{}, Stxo2: []oid{}})
}

// target picks a payment amount in one of several relations to the unspent values and the minimum change.
func (sc *scenario) target(ut *btc.Utxos) int64 {
	r := sc.rng
	var total int64
	for _, u := range ut.Utxos {
		total += int64(u.Value)
	}
	subset := func() int64 {
		var s int64
		for _, u := range ut.Utxos {
			if r.Intn(3) == 0 {
				s += int64(u.Value)
			}
		}
		return s
	}
	var t int64
	switch r.Intn(9) {
	case 0: // smaller than the minimum change
		t = 1 + int64(r.Intn(int(sc.mc)+1))/2
	case 1: // well below half of the minimum change
		t = 1 + int64(r.Intn(int(sc.mc)/3+1))
	case 2: // exactly the total of some subset
		t = subset()
	case 3: // a subset total minus a little (change below the minimum)
		t = subset() - int64(r.Intn(int(sc.mc)+2))
	case 4: // one outpoint's value
		if len(ut.Utxos) > 0 {
			t = int64(ut.Utxos[r.Intn(len(ut.Utxos))].Value)
		}
	case 5: // near the total
		t = total - int64(r.Intn(int(sc.mc)*2+2))
	case 6: // more than there is
		t = total + 1 + int64(r.Intn(1000))
	case 7: // a fraction of the smallest
		if len(ut.Utxos) > 0 {
			min := ut.Utxos[0].Value
			for _, u := range ut.Utxos {
				if u.Value < min {
					min = u.Value
				}
			}
			t = int64(min) / int64(2+r.Intn(8))
		}
	default:
		t = 1 + int64(r.Intn(int(total/2)+1000))
	}
	if t <= 0 {
		t = 1 + int64(r.Intn(1000))
	}
	return t
}

func (sc *scenario) describe(e *bev, offered *btc.Utxos) {
	e.FeeRate = sc.feeRate
	e.MN = fmt.Sprintf("%d-of-%d", sc.m, sc.n)
	so := &btc.Utxos{Utxos: append([]*btc.Utxo{}, offered.Utxos...)}
	sort.Sort(sort.Reverse(so))
	var kinds bytes.Buffer
	for _, u := range so.Utxos {
		e.AllVals = append(e.AllVals, int64(u.Value))
		if txscript.IsPayToScriptHash(u.ScriptPubkey) {
			kinds.WriteByte('s')
		} else {
			kinds.WriteByte('w')
		}
	}
	e.Kinds = kinds.String()
}

func (sc *scenario) outs(amount int64) []*wire.TxOut {
	return []*wire.TxOut{wire.NewTxOut(amount, sc.payScr), wire.NewTxOut(0, sc.p2wsh)}
}

func (sc *scenario) withdrawChoose(amount int64) {
	before, _ := sc.stored()
	e := bev{Op: "w", Via: "choose", Target: amount, Mc: int64(sc.mc), Res: "fail", Ops: []oid{}, Vals: []int{}, Sel: []oid{}}
	sc.describe(&e, before)
	var sel []*btc.Utxo
	var sum, fee int64
	var err error
	pn := vio.Safe(func() {
		_, _, err = sc.sb.Call(func(ns *native.NativeService) ([]byte, error) {
			var e2 error
			sel, sum, fee, e2 = btc.VerifChooseUtxos(ns, btcChain, amount, sc.outs(amount), sc.rk, sc.m, sc.n)
			return nil, e2
		}, nativekit.Tx(), nil)
	})
	if pn != "" {
		sc.sb.Cache.Reset()
		e.Panic = pn
	} else if err != nil {
		e.Err = err.Error()
	} else {
		e.Res = "ok"
		e.Sel, e.Sum, e.Fee = sc.idsOf(sel), sum, fee
		for _, u := range sel {
			e.SelVals = append(e.SelVals, int64(u.Value))
		}
	}
	sc.diagnose(&e, before, amount)
	sc.sets(&e)
	sc.events = append(sc.events, e)
}

func (sc *scenario) withdrawMakeTx(amount int64) {
	before, _ := sc.stored()
	e := bev{Op: "w", Via: "maketx", Target: amount, Mc: int64(sc.mc), Res: "fail", Ops: []oid{}, Vals: []int{}, Sel: []oid{}}
	sc.describe(&e, before)
	var err error
	var ns *native.NativeService
	pn := vio.Safe(func() {
		_, ns, err = sc.sb.Call(func(ns *native.NativeService) ([]byte, error) {
			return nil, btc.VerifMakeBtcTx(ns, btcChain, map[string]int64{sc.payAddr: amount}, sc.rng.Bytes(32), 2, sc.redeem, sc.rk)
		}, nativekit.Tx(), nil)
	})
	switch {
	case pn != "":
		sc.sb.Cache.Reset()
		e.Panic = pn
	case err != nil:
		e.Err = err.Error()
	default:
		// the unsigned transaction is the observable result
		var raw []byte
		for _, n := range ns.GetNotify() {
			if st, ok := n.States.([]interface{}); ok && len(st) == 4 && st[0] == "makeBtcTx" {
				raw, _ = hex.DecodeString(st[2].(string))
			}
		}
		mtx := wire.NewMsgTx(wire.TxVersion)
		if raw == nil || mtx.BtcDecode(bytes.NewReader(raw), wire.ProtocolVersion, wire.LatestEncoding) != nil {
			vio.Fatal("makeBtcTx succeeded without a decodable transaction in its notification")
		}
		e.Res = "ok"
		var pay int64
		for _, o := range mtx.TxOut {
			e.Outsum += o.Value
			if bytes.Equal(o.PkScript, sc.p2wsh) {
				e.Change += o.Value
			} else {
				pay += o.Value
			}
		}
		for _, in := range mtx.TxIn {
			id := sc.ids[hex.EncodeToString(in.PreviousOutPoint.Hash[:])+":"+fmt.Sprint(in.PreviousOutPoint.Index)]
			e.Sel = append(e.Sel, id)
			e.Insum += sc.vals[id]
			e.SelVals = append(e.SelVals, sc.vals[id])
		}
		e.Sum = amount + e.Change
		e.Fee = amount - pay
	}
	sc.diagnose(&e, before, amount)
	sc.sets(&e)
	sc.events = append(sc.events, e)
}

// probe runs the CoinSelector alone on the stored unspent set (sorted the way chooseUtxos sorts it); nothing is stored.
func (sc *scenario) probe(amount int64, strategy string) {
	before, _ := sc.stored()
	e := bev{Op: "w", Via: "select", Strategy: strategy, Target: amount, Mc: int64(sc.mc), Res: "fail", Ops: []oid{}, Vals: []int{}, Sel: []oid{}, Utxo2: []oid{}, Stxo2: []oid{}}
	sc.describe(&e, before)
	sort.Sort(sort.Reverse(before))
	var sel []*btc.Utxo
	var sum, fee uint64
	pn := vio.Safe(func() {
		sel, sum, fee = btc.VerifSelect(strategy, before, uint64(amount), sc.mc, sc.feeRate, sc.outs(amount), sc.m, sc.n)
	})
	if pn != "" {
		e.Panic = pn
	} else if len(sel) > 0 {
		e.Res = "ok"
		e.Sel, e.Sum, e.Fee = sc.idsOf(sel), int64(sum), int64(fee)
		for _, u := range sel {
			e.SelVals = append(e.SelVals, int64(u.Value))
		}
	}
	if strategy != "bnb" {
		sc.diagnose(&e, before, amount)
	}
	sc.events = append(sc.events, e)
}

// diagnose explains a reported total that differs from the selected values (diagnostics for the finding key only; the
// verdict is TLC's).  It recognises the two ways SortedSearch's running total goes stale:
//
//	"skip":    a P2SH outpoint dropped in the first pass (fee too high with it) keeps its value in the total;
//	"replace": in the second pass the candidate is appended into the selection's own backing array
//	           (selection[:len-1:cap-1]), so the "replaced" last pick is already the candidate when the total is adjusted.
//
// offered is the unspent set the call saw.  The selection is returned in picking order: all picks but the last are at
// increasing positions of the sorted list, the first pass ended at some position q, later candidates replaced the last.
func (sc *scenario) diagnose(e *bev, offered *btc.Utxos, amount int64) {
	if e.Res != "ok" || len(e.Sel) == 0 {
		return
	}
	var real int64
	for _, v := range e.SelVals {
		real += v
	}
	d := e.Sum - real
	if d == 0 {
		return
	}
	e.Diag = "unexplained"
	so := &btc.Utxos{Utxos: append([]*btc.Utxo{}, offered.Utxos...)}
	sort.Sort(sort.Reverse(so))
	if e.Strategy == "sorted" {
		// SortedSearch was called directly
	} else if bn, _, _ := btc.VerifSelect("bnb", so, uint64(amount), sc.mc, sc.feeRate, sc.outs(amount), sc.m, sc.n); bn != nil {
		return // the branch-and-bound search answered: not SortedSearch
	}
	pos := map[oid]int{}
	for i, u := range so.Utxos {
		pos[sc.ids[opKey(u.Op)]] = i
	}
	chosen := map[int]bool{}
	for _, id := range e.Sel {
		if _, ok := pos[id]; !ok {
			return
		}
		chosen[pos[id]] = true
	}
	lastPos := pos[e.Sel[len(e.Sel)-1]]
	from := 0
	if len(e.Sel) > 1 {
		from = pos[e.Sel[len(e.Sel)-2]] + 1
	}
	lastVal := int64(so.Utxos[lastPos].Value)
	for q := from; q <= lastPos; q++ {
		var skipped int64
		okSkip := true
		for i := 0; i < q; i++ {
			if !chosen[i] {
				if !txscript.IsPayToScriptHash(so.Utxos[i].ScriptPubkey) {
					okSkip = false
				}
				skipped += int64(so.Utxos[i].Value)
			}
		}
		if !okSkip {
			continue
		}
		repl := int64(so.Utxos[q].Value) - lastVal
		switch {
		case skipped > 0 && d == skipped:
			e.Diag = "skip"
			return
		case q < lastPos && skipped == 0 && d == repl:
			e.Diag = "replace"
			return
		case q < lastPos && skipped > 0 && repl != 0 && d == skipped+repl:
			e.Diag = "skip+replace"
			return
		}
	}
}

type recResult struct {
	Trace  int   `json:"trace"`
	Events []bev `json:"events"`
}

func runScenario(t int, seed uint64) recResult {
	rng := vio.NewRNG(seed*15485863 + uint64(t)*32452843 + 5)
	sc := newScenario(rng)
	sc.regime = rng.Intn(4)
	sc.baseUnit = []int64{100, 1000, 5000, 10000}[rng.Intn(4)]
	mcs := []uint64{0, 546, 2000, 10000, 50000, 200000}
	rates := []uint64{0, 1, 2, 10, 50, 300}
	sc.setParam(rates[rng.Intn(len(rates))], mcs[rng.Intn(len(mcs))])
	n := rng.Intn(41)
	if rng.Intn(3) == 0 {
		n = rng.Intn(9)
	}
	sc.reset(n)
	steps := 2 + rng.Intn(9)
	for k := 0; k < steps; k++ {
		ut, _ := sc.stored()
		amount := sc.target(ut)
		switch x := rng.Intn(20); {
		case x < 7:
			sc.withdrawChoose(amount)
		case x < 12:
			sc.withdrawMakeTx(amount)
		case x < 17:
			sc.probe(amount, []string{"", "bnb", "sorted"}[rng.Intn(3)])
		case x < 19:
			if len(sc.txn) < maxTx {
				sc.deposit()
			}
		default:
			sc.setParam(rates[rng.Intn(len(rates))], mcs[rng.Intn(len(mcs))])
		}
	}
	return recResult{Trace: t, Events: sc.events}
}

func btcRecord(n, only int) {
	seed := vio.Seed()
	vio.ParMap(n, workers(), func(t int) {
		if only >= 0 && t != only {
			return
		}
		var r recResult
		if pn := vio.Safe(func() { r = runScenario(t, seed) }); pn != "" {
			vio.Fatal("driver panic in scenario %d: %s", t, pn)
		}
		vio.Emit(r)
	})
}
