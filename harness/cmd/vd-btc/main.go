// vd-btc: driver for C26 (BTC coin selection conserves UTXO value).
//
//	record n [t]   n random scenarios (only scenario t): a UTXO set of the redeem script in real contract storage, then a
//	               sequence of withdrawals through the real chooseUtxos / makeBtcTx (hook exports, build tag verif),
//	               deposits, and side-effect-free CoinSelector probes; every call is logged with inputs and result as one
//	               event for spec/TraceBtcCoins.tla.
package main

import (
	"os"
	"runtime"
	"strconv"

	"verifh/kit/vio"
)

func atoi(s string) int {
	n, err := strconv.Atoi(s)
	if err != nil {
		vio.Fatal("bad number %q", s)
	}
	return n
}

func workers() int {
	if n, err := strconv.Atoi(os.Getenv("VERIF_WORKERS")); err == nil && n > 0 {
		return n
	}
	return runtime.NumCPU()
}

func main() {
	defer vio.Flush()
	if len(os.Args) < 3 {
		vio.Fatal("usage: vd-btc record n [t]")
	}
	switch os.Args[1] {
	case "record":
		only := -1
		if len(os.Args) > 3 {
			only = atoi(os.Args[3])
		}
		btcRecord(atoi(os.Args[2]), only)
	default:
		vio.Fatal("unknown command %s", os.Args[1])
	}
}
