package main

// The driver's own rendering of a JSON message payload from the kind table of spec/VbftMsg.tla (field order, JSON keys,
// field kinds) - written against the format description, without encoding/json: numbers in decimal, byte strings in
// standard base64, a 32-byte hash as an array of numbers, nil containers as null, map keys as decimal strings in
// string order.

import (
	"encoding/base64"
	"reflect"
	"sort"
	"strconv"
	"strings"

	"github.com/polynetwork/poly/common"
	"github.com/polynetwork/poly/consensus/vbft"
	vconfig "github.com/polynetwork/poly/consensus/vbft/config"

	"verifh/kit/vio"
)

func jBytes(b []byte) string {
	if b == nil {
		return "null"
	}
	return `"` + base64.StdEncoding.EncodeToString(b) + `"`
}

func jHash(h common.Uint256) string {
	parts := make([]string, len(h))
	for i, x := range h {
		parts[i] = strconv.Itoa(int(x))
	}
	return "[" + strings.Join(parts, ",") + "]"
}

func jU32(n uint32) string { return strconv.FormatUint(uint64(n), 10) }

func jSigMap(m map[uint32][]byte) string {
	if m == nil {
		return "null"
	}
	keys := make([]string, 0, len(m))
	val := map[string][]byte{}
	for k, v := range m {
		s := jU32(k)
		keys = append(keys, s)
		val[s] = v
	}
	sort.Strings(keys)
	parts := make([]string, len(keys))
	for i, k := range keys {
		parts[i] = `"` + k + `":` + jBytes(val[k])
	}
	return "{" + strings.Join(parts, ",") + "}"
}

func jChainCfg(c *vconfig.ChainConfig) string {
	if c == nil {
		return "null"
	}
	peers := "null"
	if c.Peers != nil {
		ps := make([]string, len(c.Peers))
		for i, p := range c.Peers {
			ps[i] = `{"index":` + jU32(p.Index) + `,"id":"` + p.ID + `"}`
		}
		peers = "[" + strings.Join(ps, ",") + "]"
	}
	pos := "null"
	if c.PosTable != nil {
		ps := make([]string, len(c.PosTable))
		for i, p := range c.PosTable {
			ps[i] = jU32(p)
		}
		pos = "[" + strings.Join(ps, ",") + "]"
	}
	return `{"version":` + jU32(c.Version) + `,"view":` + jU32(c.View) + `,"n":` + jU32(c.N) + `,"c":` + jU32(c.C) +
		`,"block_msg_delay":` + strconv.FormatInt(int64(c.BlockMsgDelay), 10) + `,"hash_msg_delay":` + strconv.FormatInt(int64(c.HashMsgDelay), 10) +
		`,"peer_handshake_timeout":` + strconv.FormatInt(int64(c.PeerHandshakeTimeout), 10) + `,"peers":` + peers + `,"pos_table":` + pos +
		`,"max_block_change_view":` + jU32(c.MaxBlockChangeView) + `}`
}

func renderObject(fs []FieldDef, sv reflect.Value) []byte {
	parts := make([]string, len(fs))
	for i, f := range fs {
		fv := sv.FieldByName(f.N)
		var s string
		switch f.T {
		case "u32":
			s = jU32(uint32(fv.Uint()))
		case "bool":
			s = strconv.FormatBool(fv.Bool())
		case "hash":
			s = jHash(fv.Interface().(common.Uint256))
		case "bytes":
			s = jBytes(fv.Interface().([]byte))
		case "byteslist":
			v := fv.Interface().([][]byte)
			if v == nil {
				s = "null"
			} else {
				xs := make([]string, len(v))
				for j, b := range v {
					xs[j] = jBytes(b)
				}
				s = "[" + strings.Join(xs, ",") + "]"
			}
		case "u32map":
			s = jSigMap(fv.Interface().(map[uint32][]byte))
		case "faulty":
			v := fv.Interface().([]*vbft.FaultyReport)
			if v == nil {
				s = "null"
			} else {
				xs := make([]string, len(v))
				for j, r := range v {
					xs[j] = `{"faulty_id":` + jU32(r.FaultyID) + `,"faulty_block_hash":` + jHash(r.FaultyMsgHash) + `}`
				}
				s = "[" + strings.Join(xs, ",") + "]"
			}
		case "chaincfg":
			s = jChainCfg(fv.Interface().(*vconfig.ChainConfig))
		case "blockinfos":
			v := fv.Interface().([]*vbft.BlockInfo_)
			if v == nil {
				s = "null"
			} else {
				xs := make([]string, len(v))
				for j, b := range v {
					xs[j] = `{"block_num":` + jU32(b.BlockNum) + `,"proposer":` + jU32(b.Proposer) + `,"signatures":` + jSigMap(b.Signatures) + `}`
				}
				s = "[" + strings.Join(xs, ",") + "]"
			}
		default:
			vio.Fatal("render: kind %q", f.T)
		}
		parts[i] = `"` + f.J + `":` + s
	}
	return []byte("{" + strings.Join(parts, ",") + "}")
}
