// vd-cmsg: C44 driver.  Reads the CASE table printed by TLC from spec/VbftMsg.tla (stdin NDJSON) and replays every
// row on the real code with `fill` seeded concretizations per row (one signature scheme per concretization, cycling
// ECDSA P-256 / SM2 / Ed25519):
//
//   wire rows       build the message of that kind with the symbolic field values, SerializeVbftMsg, compare the bytes with
//                   the driver's own JSON rendering of the table (drift only), DeserializeVbftMsg, compare the value
//   cp rows         ConsensusPayload signed as vbft signs it, mutated, sent through both codecs, Verify()
//   proposal rows   real blocks (header, transactions, SigData) in a vbft proposal, mutated, DeserializeVbftMsg + Verify(pub)
//   endorse/commit  the same for the two vote messages
package main

import (
	"bytes"
	"encoding/base64"
	"encoding/json"
	"fmt"
	"os"
	"reflect"
	"strconv"

	"github.com/ontio/ontology-crypto/keypair"
	"github.com/polynetwork/poly/account"
	"github.com/polynetwork/poly/common"
	"github.com/polynetwork/poly/consensus/vbft"
	vconfig "github.com/polynetwork/poly/consensus/vbft/config"
	"github.com/polynetwork/poly/core/genesis"
	"github.com/polynetwork/poly/core/signature"
	"github.com/polynetwork/poly/core/types"
	p2ptypes "github.com/polynetwork/poly/p2pserver/message/types"

	"verifh/kit/vio"
)

type FieldDef struct {
	N string `json:"n"`
	J string `json:"j"`
	T string `json:"t"`
}

type MutDef struct {
	Op    string `json:"op"`
	Which string `json:"which"`
	X     string `json:"x"`
}

type Case struct {
	Fam          string     `json:"fam"`
	Kind         string     `json:"kind"`
	Code         int        `json:"code"`
	Wire         string     `json:"wire"`
	Fs           []FieldDef `json:"fs"`
	Vals         []string   `json:"vals"`
	Mut          MutDef     `json:"mut"`
	WithEmpty    bool       `json:"withempty"`
	Decodes      bool       `json:"decodes"`
	EmptyDropped bool       `json:"emptydropped"`
	Accept       bool       `json:"accept"`
	Genuine      bool       `json:"genuine"`
	Whole        bool       `json:"whole"`
}

var schemes = []string{"SHA256withECDSA", "SM3withSM2", "SHA512withEdDSA"}

type result struct {
	Case    int         `json:"case"`
	Fam     string      `json:"fam"`
	Fill    int         `json:"fill"`
	Scheme  string      `json:"scheme,omitempty"`
	Issue   string      `json:"issue,omitempty"` // "" = conforms
	Detail  interface{} `json:"detail,omitempty"`
	Observe interface{} `json:"observe,omitempty"`
}

var stats = map[string]int{}
var distinct = map[string]bool{}

func main() {
	defer vio.Flush()
	if len(os.Args) < 3 || os.Args[1] != "replay" {
		vio.Fatal("usage: vd-cmsg replay <fillings per row>   (CASE table on stdin)")
	}
	fill, _ := strconv.Atoi(os.Args[2])
	if fill < 1 {
		fill = 1
	}
	var cases []Case
	for _, raw := range vio.ReadLines() {
		var c Case
		if err := json.Unmarshal(raw, &c); err != nil {
			vio.Fatal("bad case: %v", err)
		}
		cases = append(cases, c)
	}
	// one pair of accounts per scheme (keys come from crypto/rand, as everywhere in the harness; all field contents are seeded)
	accts := map[string][2]*account.Account{}
	for _, s := range schemes {
		accts[s] = [2]*account.Account{account.NewAccount(s), account.NewAccount(s)}
	}
	for i := range cases {
		c := &cases[i]
		for f := 0; f < fill; f++ {
			rng := vio.NewRNG(vio.Seed()*1000003 + uint64(i)*7919 + uint64(f))
			sch := schemes[(f+i)%len(schemes)]
			k := accts[sch]
			var r result
			p := vio.Safe(func() {
				switch c.Fam {
				case "wire":
					r = wireCase(c, rng, k[0])
				case "cp":
					r = cpCase(c, rng, k[0], k[1])
				case "proposal":
					r = proposalCase(c, rng, k[0], k[1])
				case "endorse", "commit":
					r = voteCase(c, rng, k[0], k[1])
				default:
					vio.Fatal("unknown family %q", c.Fam)
				}
			})
			if p != "" {
				r = result{Issue: "panic", Detail: p}
			}
			r.Case, r.Fam, r.Fill, r.Scheme = i, c.Fam, f, sch
			stats[c.Fam]++
			if r.Issue != "" || f == 0 {
				vio.Emit(r)
			}
		}
	}
	vio.Emit(map[string]interface{}{"summary": true, "cases": len(cases), "fill": fill, "runs": stats, "distinct": len(distinct)})
}

// ---------------------------------------------------------------------------------------------------------------
// concretization of the symbolic field values
// ---------------------------------------------------------------------------------------------------------------

func hashOf(sym string, rng *vio.RNG) (h common.Uint256) {
	switch sym {
	case "zero":
	case "ff":
		for i := range h {
			h[i] = 0xFF
		}
	default:
		copy(h[:], rng.Bytes(32))
	}
	return
}

func u32Of(sym string, rng *vio.RNG) uint32 {
	switch sym {
	case "zero":
		return 0
	case "one":
		return 1
	case "max":
		return 0xFFFFFFFF
	}
	return uint32(rng.U64())
}

func sigMap(sym string, rng *vio.RNG) map[uint32][]byte {
	switch sym {
	case "nil":
		return nil
	case "empty":
		return map[uint32][]byte{}
	case "one":
		return map[uint32][]byte{0xFFFFFFFF: rng.Bytes(65)}
	}
	return map[uint32][]byte{2: rng.Bytes(65), 10: rng.Bytes(64), 1: rng.Bytes(1)}
}

func chainCfg(sym string, rng *vio.RNG) *vconfig.ChainConfig {
	if sym == "nil" {
		return nil
	}
	c := &vconfig.ChainConfig{Version: 1, View: uint32(rng.U64()), N: 4, C: 1, BlockMsgDelay: 10000000000, HashMsgDelay: 10000000000,
		PeerHandshakeTimeout: 10000000000, MaxBlockChangeView: uint32(rng.U64())}
	if sym == "full" {
		for i := 1; i <= 4; i++ {
			c.Peers = append(c.Peers, &vconfig.PeerConfig{Index: uint32(i), ID: vio.Hex(rng.Bytes(33))})
		}
		c.PosTable = []uint32{2, 3, 1, 4, 4, 1, 0xFFFFFFFF}
	}
	return c
}

func mkTx(rng *vio.RNG) *types.Transaction {
	return genesis.NewInvokeTransaction(rng.Bytes(1+rng.Intn(40)), uint32(rng.U64()))
}

// mkBlock builds a real block signed by acc over its hash (what Server.constructBlock does).
func mkBlock(rng *vio.RNG, acc *account.Account, txs []*types.Transaction, info *vconfig.VbftBlockInfo) *types.Block {
	payload, err := json.Marshal(info)
	vio.Must(err)
	var hs []common.Uint256
	for _, t := range txs {
		hs = append(hs, t.Hash())
	}
	var nb common.Address
	copy(nb[:], rng.Bytes(20))
	h := &types.Header{Version: types.CURR_HEADER_VERSION, ChainID: rng.U64(), PrevBlockHash: hashOf("rnd", rng),
		TransactionsRoot: common.ComputeMerkleRoot(hs), CrossStateRoot: hashOf("rnd", rng), BlockRoot: hashOf("rnd", rng),
		Timestamp: uint32(rng.U64()), Height: uint32(rng.U64()), ConsensusData: rng.U64(), ConsensusPayload: payload, NextBookkeeper: nb}
	b := &types.Block{Header: h, Transactions: txs}
	signBlock(b, acc)
	return b
}

func signBlock(b *types.Block, acc *account.Account) {
	b.Header = cloneHeader(b.Header) // drop the cached hash
	hash := b.Hash()
	sig, err := signature.Sign(acc, hash[:])
	vio.Must(err)
	b.Header.Bookkeepers = []keypair.PublicKey{acc.PublicKey}
	b.Header.SigData = [][]byte{sig}
}

func cloneHeader(h *types.Header) *types.Header {
	return &types.Header{Version: h.Version, ChainID: h.ChainID, PrevBlockHash: h.PrevBlockHash, TransactionsRoot: h.TransactionsRoot,
		CrossStateRoot: h.CrossStateRoot, BlockRoot: h.BlockRoot, Timestamp: h.Timestamp, Height: h.Height, ConsensusData: h.ConsensusData,
		ConsensusPayload: append([]byte{}, h.ConsensusPayload...), NextBookkeeper: h.NextBookkeeper,
		Bookkeepers: append([]keypair.PublicKey{}, h.Bookkeepers...), SigData: append([][]byte{}, h.SigData...)}
}

func blockInfo(rng *vio.RNG, cfg *vconfig.ChainConfig) *vconfig.VbftBlockInfo {
	return &vconfig.VbftBlockInfo{Proposer: 1 + uint32(rng.Intn(7)), VrfValue: rng.Bytes(64), VrfProof: rng.Bytes(64),
		LastConfigBlockNum: uint32(rng.U64()), NewChainConfig: cfg}
}

func vblockOf(sym string, rng *vio.RNG, acc *account.Account) *vbft.Block {
	var cfg *vconfig.ChainConfig
	if sym == "newconfig" {
		cfg = chainCfg("full", rng)
	}
	info := blockInfo(rng, cfg)
	var txs []*types.Transaction
	if sym == "withtx" {
		txs = []*types.Transaction{mkTx(rng), mkTx(rng)}
	}
	blk := &vbft.Block{Block: mkBlock(rng, acc, txs, info), Info: info}
	if sym != "noempty" {
		blk.EmptyBlock = mkBlock(rng, acc, nil, info)
	}
	return blk
}

// setField stores the concretization of (kind t, symbolic value sym) into the message field fv.
func setField(fv reflect.Value, t, sym string, rng *vio.RNG, acc *account.Account) {
	switch t {
	case "u32":
		fv.SetUint(uint64(u32Of(sym, rng)))
	case "bool":
		fv.SetBool(sym == "true")
	case "hash":
		fv.Set(reflect.ValueOf(hashOf(sym, rng)))
	case "bytes":
		switch sym {
		case "nil":
			fv.Set(reflect.Zero(fv.Type()))
		case "empty":
			fv.SetBytes([]byte{})
		case "one":
			fv.SetBytes(rng.Bytes(1))
		default:
			fv.SetBytes(rng.Bytes(64))
		}
	case "byteslist":
		var v [][]byte
		switch sym {
		case "nil":
		case "empty":
			v = [][]byte{}
		case "one":
			v = [][]byte{rng.Bytes(33)}
		case "withempty":
			v = [][]byte{{}, rng.Bytes(3)}
		default:
			v = [][]byte{rng.Bytes(33), rng.Bytes(64)}
		}
		fv.Set(reflect.ValueOf(v))
	case "u32map":
		fv.Set(reflect.ValueOf(sigMap(sym, rng)))
	case "faulty":
		var v []*vbft.FaultyReport
		switch sym {
		case "nil":
		case "empty":
			v = []*vbft.FaultyReport{}
		case "one":
			v = []*vbft.FaultyReport{{FaultyID: u32Of("rnd", rng), FaultyMsgHash: hashOf("rnd", rng)}}
		default:
			v = []*vbft.FaultyReport{{FaultyID: 0, FaultyMsgHash: hashOf("zero", rng)}, {FaultyID: 0xFFFFFFFF, FaultyMsgHash: hashOf("rnd", rng)}}
		}
		fv.Set(reflect.ValueOf(v))
	case "chaincfg":
		fv.Set(reflect.ValueOf(chainCfg(sym, rng)))
	case "blockinfos":
		var v []*vbft.BlockInfo_
		switch sym {
		case "nil":
		case "empty":
			v = []*vbft.BlockInfo_{}
		case "one":
			v = []*vbft.BlockInfo_{{BlockNum: u32Of("rnd", rng), Proposer: 3, Signatures: sigMap("three", rng)}}
		default:
			v = []*vbft.BlockInfo_{{BlockNum: 1, Proposer: 1, Signatures: sigMap("nil", rng)}, {BlockNum: 0xFFFFFFFF, Proposer: 7, Signatures: sigMap("one", rng)}}
		}
		fv.Set(reflect.ValueOf(v))
	case "vblock":
		fv.Set(reflect.ValueOf(vblockOf(sym, rng, acc)))
	default:
		vio.Fatal("unknown field kind %q", t)
	}
}

// ---------------------------------------------------------------------------------------------------------------
// normal form of message values (nil and empty containers are one abstract value; blocks by their encoding)
// ---------------------------------------------------------------------------------------------------------------

func norm(v reflect.Value) interface{} {
	switch v.Kind() {
	case reflect.Ptr, reflect.Interface:
		if v.IsNil() {
			return nil
		}
		if b, ok := v.Interface().(*vbft.Block); ok {
			raw, err := b.Serialize()
			if err != nil {
				return "unserializable block: " + err.Error()
			}
			return "block:" + vio.Hex(raw)
		}
		return norm(v.Elem())
	case reflect.Struct:
		m := map[string]interface{}{}
		for i := 0; i < v.NumField(); i++ {
			if v.Type().Field(i).PkgPath == "" {
				m[v.Type().Field(i).Name] = norm(v.Field(i))
			}
		}
		return m
	case reflect.Slice:
		if v.Len() == 0 {
			return nil
		}
		if v.Type().Elem().Kind() == reflect.Uint8 {
			return "bytes:" + vio.Hex(v.Bytes())
		}
		xs := make([]interface{}, v.Len())
		for i := range xs {
			xs[i] = norm(v.Index(i))
		}
		return xs
	case reflect.Array:
		b := make([]byte, v.Len())
		for i := range b {
			b[i] = byte(v.Index(i).Uint())
		}
		return "array:" + vio.Hex(b)
	case reflect.Map:
		if v.Len() == 0 {
			return nil
		}
		m := map[string]interface{}{}
		it := v.MapRange()
		for it.Next() {
			m[fmt.Sprint(it.Key().Interface())] = norm(it.Value())
		}
		return m
	case reflect.Bool:
		return v.Bool()
	case reflect.Uint8, reflect.Uint16, reflect.Uint32, reflect.Uint64, reflect.Uint:
		return strconv.FormatUint(v.Uint(), 10)
	case reflect.Int8, reflect.Int16, reflect.Int32, reflect.Int64, reflect.Int:
		return strconv.FormatInt(v.Int(), 10)
	case reflect.String:
		return "s:" + v.String()
	}
	return fmt.Sprintf("?%s", v.Kind())
}

func sameValue(a, b interface{}) bool {
	return reflect.DeepEqual(norm(reflect.ValueOf(a)), norm(reflect.ValueOf(b)))
}

// ---------------------------------------------------------------------------------------------------------------
// envelope and zero instances
// ---------------------------------------------------------------------------------------------------------------

func envelope(code int, length int, payload []byte) []byte {
	return []byte(fmt.Sprintf(`{"type":%d,"len":%d,"payload":"%s"}`, code, length, base64.StdEncoding.EncodeToString(payload)))
}

// zeroMsg obtains an instance of the (mostly unexported) message type of a JSON kind from the real decoder.
func zeroMsg(code int) vbft.ConsensusMsg {
	m, err := vbft.DeserializeVbftMsg(envelope(code, 2, []byte("{}")))
	if err != nil {
		vio.Fatal("zero instance of message type %d: %v", code, err)
	}
	return m
}

// ---------------------------------------------------------------------------------------------------------------
// wire rows
// ---------------------------------------------------------------------------------------------------------------

func wireCase(c *Case, rng *vio.RNG, acc *account.Account) (r result) {
	distinct["wire|"+c.Kind+"|"+fmt.Sprint(c.Vals)] = true
	var msg vbft.ConsensusMsg
	var expectPayload []byte
	switch c.Wire {
	case "json":
		msg = zeroMsg(c.Code)
		if int(msg.Type()) != c.Code {
			return result{Issue: "roundtrip", Detail: fmt.Sprintf("the decoder turns type code %d into a %T, whose Type() is %d", c.Code, msg, msg.Type())}
		}
		sv := reflect.ValueOf(msg).Elem()
		for i, f := range c.Fs {
			fv := sv.FieldByName(f.N)
			if !fv.IsValid() {
				return result{Issue: "drift", Detail: fmt.Sprintf("%s has no field %s", c.Kind, f.N)}
			}
			setField(fv, f.T, c.Vals[i], rng, acc)
		}
		expectPayload = renderObject(c.Fs, sv)
	case "vblock":
		blk := vblockOf(c.Vals[0], rng, acc)
		raw, err := blk.Serialize()
		vio.Must(err)
		m, err := vbft.DeserializeVbftMsg(envelope(c.Code, len(raw), raw))
		if err != nil {
			return result{Issue: "roundtrip", Detail: "a serialized proposal does not decode: " + err.Error()}
		}
		if got := reflect.ValueOf(m).Elem().FieldByName("Block").Interface(); !sameValue(got, blk) {
			return result{Issue: "roundtrip", Detail: "proposal block changed by decoding"}
		}
		msg, expectPayload = m, raw
	case "fetchresp":
		blk := vblockOf(c.Vals[2], rng, acc)
		m := &vbft.BlockFetchRespMsg{BlockNumber: u32Of(c.Vals[0], rng), BlockHash: hashOf(c.Vals[1], rng), BlockData: blk}
		raw, err := blk.Serialize()
		vio.Must(err)
		sink := common.NewZeroCopySink(nil)
		sink.WriteUint32(m.BlockNumber)
		sink.WriteHash(m.BlockHash)
		sink.WriteBytes(raw)
		msg, expectPayload = m, sink.Bytes()
	default:
		vio.Fatal("unknown wire %q", c.Wire)
	}
	if int(msg.Type()) != c.Code {
		return result{Issue: "roundtrip", Detail: fmt.Sprintf("%s.Type() = %d, table says %d", c.Kind, msg.Type(), c.Code)}
	}
	data, err := vbft.SerializeVbftMsg(msg)
	if err != nil {
		return result{Issue: "roundtrip", Detail: "SerializeVbftMsg: " + err.Error()}
	}
	back, err := vbft.DeserializeVbftMsg(data)
	if err != nil {
		return result{Issue: "roundtrip", Detail: "DeserializeVbftMsg of SerializeVbftMsg output: " + err.Error(), Observe: string(data[:min(len(data), 300)])}
	}
	if reflect.TypeOf(back) != reflect.TypeOf(msg) {
		return result{Issue: "roundtrip", Detail: fmt.Sprintf("kind changed: sent %T, got %T", msg, back)}
	}
	if !sameValue(back, msg) {
		return result{Issue: "roundtrip", Detail: map[string]interface{}{"sent": norm(reflect.ValueOf(msg)), "got": norm(reflect.ValueOf(back))}}
	}
	// a second trip must be stable byte for byte
	data2, err := vbft.SerializeVbftMsg(back)
	if err != nil || !bytes.Equal(data2, data) {
		if !mapOrderOnly(msg) {
			return result{Issue: "roundtrip", Detail: "re-encoding the decoded message gives other bytes"}
		}
	}
	// reference rendering (wire format as the table states it); a difference alone is drift
	if want := envelope(c.Code, len(expectPayload), expectPayload); !bytes.Equal(want, data) {
		return result{Issue: "drift", Detail: "wire bytes differ from the table's rendering", Observe: map[string]string{"real": string(data[:min(len(data), 400)]), "table": string(want[:min(len(want), 400)])}}
	}
	return result{Observe: map[string]interface{}{"kind": c.Kind, "bytes": len(data)}}
}

func mapOrderOnly(m vbft.ConsensusMsg) bool { return false } // encoding/json sorts map keys: encodings are deterministic

func min(a, b int) int {
	if a < b {
		return a
	}
	return b
}

// ---------------------------------------------------------------------------------------------------------------
// ConsensusPayload rows
// ---------------------------------------------------------------------------------------------------------------

func unsignedBytes(p *p2ptypes.ConsensusPayload) []byte {
	buf := new(bytes.Buffer)
	vio.Must(p.SerializeUnsigned(buf))
	return buf.Bytes()
}

func cpFields(rng *vio.RNG) *p2ptypes.ConsensusPayload {
	return &p2ptypes.ConsensusPayload{Version: uint32(rng.U64()), PrevHash: hashOf("rnd", rng), Height: uint32(rng.U64()),
		BookkeeperIndex: uint16(rng.U64()), Timestamp: uint32(rng.U64()), Data: rng.Bytes(1 + rng.Intn(300))}
}

func cpSet(p *p2ptypes.ConsensusPayload, x string, rng *vio.RNG) {
	switch x {
	case "Version":
		p.Version ^= 1 << uint(rng.Intn(32))
	case "PrevHash":
		p.PrevHash[rng.Intn(32)] ^= 1 << uint(rng.Intn(8))
	case "Height":
		p.Height ^= 1 << uint(rng.Intn(32))
	case "BookkeeperIndex":
		p.BookkeeperIndex ^= 1 << uint(rng.Intn(16))
	case "Timestamp":
		p.Timestamp ^= 1 << uint(rng.Intn(32))
	case "Data":
		d := append([]byte{}, p.Data...)
		switch rng.Intn(3) {
		case 0:
			d[rng.Intn(len(d))] ^= 1 << uint(rng.Intn(8))
		case 1:
			d = append(d, 0)
		default:
			d = d[:len(d)-1]
		}
		p.Data = d
	default:
		vio.Fatal("cp field %q", x)
	}
}

func junkSig(sig []byte, rng *vio.RNG) []byte {
	j := append([]byte{}, sig...)
	if len(j) == 0 {
		return rng.Bytes(64)
	}
	j[len(j)-1-rng.Intn(min(len(j), 32))] ^= 1 << uint(rng.Intn(8))
	return j
}

func cpCase(c *Case, rng *vio.RNG, k1, k2 *account.Account) (r result) {
	distinct["cp|"+c.Mut.Op+"|"+c.Mut.X] = true
	p := cpFields(rng)
	p.Owner = k1.PublicKey
	p.PeerId = rng.U64()
	sig, err := signature.Sign(k1, unsignedBytes(p))
	vio.Must(err)
	p.Signature = sig
	if err := p.Verify(); err != nil {
		return result{Issue: "harness", Detail: "freshly signed payload does not verify: " + err.Error()}
	}
	m := c.Mut
	switch m.Op {
	case "none":
	case "peerid":
		p.PeerId++
	case "owner":
		p.Owner = k2.PublicKey
	case "resign-other-key":
		p.Signature, err = signature.Sign(k2, unsignedBytes(p))
		vio.Must(err)
	case "junk-sig":
		p.Signature = junkSig(p.Signature, rng)
	case "empty-sig":
		p.Signature = []byte{}
	case "set":
		cpSet(p, m.X, rng)
	case "sig-of-other-content":
		q := *p
		cpSet(&q, m.X, rng)
		p.Signature, err = signature.Sign(k1, unsignedBytes(&q))
		vio.Must(err)
	default:
		vio.Fatal("cp mutation %q", m.Op)
	}
	// through both codecs, then Verify
	sink := common.NewZeroCopySink(nil)
	vio.Must(p.Serialization(sink))
	buf := new(bytes.Buffer)
	vio.Must(p.Serialize(buf))
	if !bytes.Equal(buf.Bytes(), sink.Bytes()) {
		return result{Issue: "roundtrip", Detail: "ConsensusPayload: the two encoders disagree"}
	}
	var accepts []bool
	for variant := 0; variant < 2; variant++ {
		q := &p2ptypes.ConsensusPayload{}
		if variant == 0 {
			err = q.Deserialization(common.NewZeroCopySource(sink.Bytes()))
		} else {
			err = q.Deserialize(bytes.NewReader(sink.Bytes()))
		}
		if err != nil {
			return result{Issue: "roundtrip", Detail: fmt.Sprintf("ConsensusPayload decoder %d rejects its own encoding: %v", variant, err)}
		}
		q.PeerId = p.PeerId
		if q.Version != p.Version || q.PrevHash != p.PrevHash || q.Height != p.Height || q.BookkeeperIndex != p.BookkeeperIndex ||
			q.Timestamp != p.Timestamp || !bytes.Equal(q.Data, p.Data) || !bytes.Equal(q.Signature, p.Signature) ||
			!bytes.Equal(keypair.SerializePublicKey(q.Owner), keypair.SerializePublicKey(p.Owner)) {
			return result{Issue: "roundtrip", Detail: fmt.Sprintf("ConsensusPayload changed by codec %d", variant)}
		}
		accepts = append(accepts, q.Verify() == nil)
	}
	if accepts[0] != accepts[1] {
		return result{Issue: "roundtrip", Detail: "Verify differs between the two decoders"}
	}
	return judge(c, accepts[0], map[string]interface{}{"accept": accepts[0]})
}

// judge: accepted although the signature is not genuine for this content and key => binding violation;
// any other difference from the model's prediction is drift.
func judge(c *Case, accepted bool, obs map[string]interface{}) result {
	if accepted && !c.Genuine {
		return result{Issue: "binding", Detail: map[string]interface{}{"mut": c.Mut, "predicted_accept": c.Accept}, Observe: obs}
	}
	if accepted != c.Accept {
		return result{Issue: "drift", Detail: map[string]interface{}{"mut": c.Mut, "predicted_accept": c.Accept, "genuine": c.Genuine}, Observe: obs}
	}
	return result{Observe: obs}
}

// ---------------------------------------------------------------------------------------------------------------
// proposal rows
// ---------------------------------------------------------------------------------------------------------------

func blockBytes(b *types.Block) []byte {
	sink := common.NewZeroCopySink(nil)
	vio.Must(b.Serialization(sink))
	return sink.Bytes()
}

func flipHash(h common.Uint256, rng *vio.RNG) common.Uint256 {
	h[rng.Intn(32)] ^= 1 << uint(rng.Intn(8))
	return h
}

// mutateBlock returns the wire bytes of the mutated block (the Version field can only be patched in the bytes).
func mutateBlock(b *types.Block, m MutDef, rng *vio.RNG, k1, k2 *account.Account) []byte {
	nb := &types.Block{Header: cloneHeader(b.Header), Transactions: append([]*types.Transaction{}, b.Transactions...)}
	h := nb.Header
	switch m.Op {
	case "txs":
		nb.Transactions = []*types.Transaction{mkTx(rng)}
	case "txs+root":
		nb.Transactions = []*types.Transaction{mkTx(rng)}
		nb.RebuildMerkleRoot()
	case "bookkeepers":
		h.Bookkeepers = []keypair.PublicKey{k2.PublicKey}
	case "resign-other-key":
		hash := nb.Hash()
		sig, err := signature.Sign(k2, hash[:])
		vio.Must(err)
		h.SigData = [][]byte{sig}
	case "junk-sig":
		h.SigData = [][]byte{junkSig(h.SigData[0], rng)}
	case "no-sigdata":
		h.SigData, h.Bookkeepers = nil, nil
	case "sig-of-other-block":
		o := &types.Block{Header: cloneHeader(h)}
		o.Header.Height++
		hash := o.Hash()
		sig, err := signature.Sign(k1, hash[:])
		vio.Must(err)
		h.SigData = [][]byte{sig}
	case "set":
		switch m.X {
		case "Version":
			raw := blockBytes(nb)
			raw[rng.Intn(4)] ^= 1 << uint(rng.Intn(8))
			return raw
		case "ChainID":
			h.ChainID ^= 1 << uint(rng.Intn(64))
		case "PrevBlockHash":
			h.PrevBlockHash = flipHash(h.PrevBlockHash, rng)
		case "TransactionsRoot":
			h.TransactionsRoot = flipHash(h.TransactionsRoot, rng)
		case "CrossStateRoot":
			h.CrossStateRoot = flipHash(h.CrossStateRoot, rng)
		case "BlockRoot":
			h.BlockRoot = flipHash(h.BlockRoot, rng)
		case "Timestamp":
			h.Timestamp ^= 1 << uint(rng.Intn(32))
		case "Height":
			h.Height ^= 1 << uint(rng.Intn(32))
		case "ConsensusData":
			h.ConsensusData ^= 1 << uint(rng.Intn(64))
		case "ConsensusPayload":
			info := &vconfig.VbftBlockInfo{}
			vio.Must(json.Unmarshal(h.ConsensusPayload, info))
			switch rng.Intn(3) {
			case 0:
				info.Proposer++
			case 1:
				info.LastConfigBlockNum++
			default:
				info.VrfValue = append([]byte{}, info.VrfValue...)
				info.VrfValue[rng.Intn(len(info.VrfValue))] ^= 1
			}
			p, err := json.Marshal(info)
			vio.Must(err)
			h.ConsensusPayload = p
		case "NextBookkeeper":
			h.NextBookkeeper[rng.Intn(20)] ^= 1 << uint(rng.Intn(8))
		default:
			vio.Fatal("header field %q", m.X)
		}
	default:
		vio.Fatal("block mutation %q", m.Op)
	}
	return blockBytes(nb)
}

func proposalPayload(blk, emp []byte) []byte {
	sink := common.NewZeroCopySink(nil)
	sink.WriteVarBytes(blk)
	if emp != nil {
		sink.WriteVarBytes(emp)
	}
	return sink.Bytes()
}

func proposalCase(c *Case, rng *vio.RNG, k1, k2 *account.Account) (r result) {
	distinct[fmt.Sprintf("proposal|%v|%s|%s|%s", c.WithEmpty, c.Mut.Op, c.Mut.Which, c.Mut.X)] = true
	info := blockInfo(rng, nil)
	blk := mkBlock(rng, k1, []*types.Transaction{mkTx(rng), mkTx(rng)}, info)
	var emp *types.Block
	if c.WithEmpty {
		emp = mkBlock(rng, k1, nil, info)
	}
	// the unmutated proposal must be accepted, and SerializeVbftMsg must reproduce its bytes
	bb := blockBytes(blk)
	var eb []byte
	if emp != nil {
		eb = blockBytes(emp)
	}
	base := proposalPayload(bb, eb)
	m0, err := vbft.DeserializeVbftMsg(envelope(0, len(base), base))
	if err != nil {
		return result{Issue: "harness", Detail: "fresh proposal does not decode: " + err.Error()}
	}
	if err := m0.Verify(k1.PublicKey); err != nil {
		return result{Issue: "harness", Detail: "fresh proposal does not verify: " + err.Error()}
	}
	if again, err := vbft.SerializeVbftMsg(m0); err != nil || !bytes.Equal(again, envelope(0, len(base), base)) {
		return result{Issue: "roundtrip", Detail: "SerializeVbftMsg(DeserializeVbftMsg(proposal)) differs from the proposal bytes"}
	}
	m := c.Mut
	pub := k1.PublicKey
	switch {
	case m.Op == "none":
	case m.Op == "verify-with-other-key":
		pub = k2.PublicKey
	case m.Op == "drop-empty":
		eb = nil
	case m.Which == "blk":
		bb = mutateBlock(blk, m, rng, k1, k2)
	case m.Which == "emp":
		eb = mutateBlock(emp, m, rng, k1, k2)
	}
	payload := proposalPayload(bb, eb)
	msg, err := vbft.DeserializeVbftMsg(envelope(0, len(payload), payload))
	obs := map[string]interface{}{"decodes": err == nil}
	accepted := false
	if err == nil {
		got := reflect.ValueOf(msg).Elem().FieldByName("Block").Interface().(*vbft.Block)
		obs["emptydropped"] = eb != nil && got.EmptyBlock == nil
		verr := msg.Verify(pub)
		accepted = verr == nil
		obs["accept"] = accepted
		if accepted {
			// what was accepted is what was sent (the blocks that survived decoding, byte for byte)
			if !bytes.Equal(blockBytes(got.Block), bb) || (got.EmptyBlock != nil && !bytes.Equal(blockBytes(got.EmptyBlock), eb)) {
				return result{Issue: "roundtrip", Detail: "accepted proposal differs from the bytes sent", Observe: obs}
			}
		}
	} else {
		obs["err"] = err.Error()
	}
	return judge(c, accepted, obs)
}

// ---------------------------------------------------------------------------------------------------------------
// endorse / commit rows
// ---------------------------------------------------------------------------------------------------------------

func voteCase(c *Case, rng *vio.RNG, k1, k2 *account.Account) (r result) {
	distinct[c.Fam+"|"+c.Mut.Op+"|"+c.Mut.X] = true
	code, names := 1, map[string]string{"Who": "Endorser", "Proposer": "EndorsedProposer", "BlockNum": "BlockNum", "BlockHash": "EndorsedBlockHash",
		"ForEmpty": "EndorseForEmpty", "Faulty": "FaultyProposals", "ProposerSig": "ProposerSig", "Sig": "EndorserSig"}
	if c.Fam == "commit" {
		code, names = 2, map[string]string{"Who": "Committer", "Proposer": "BlockProposer", "BlockNum": "BlockNum", "BlockHash": "CommitBlockHash",
			"ForEmpty": "CommitForEmpty", "Faulty": "FaultyVerifies", "ProposerSig": "ProposerSig", "Sig": "CommitterSig"}
	}
	msg := zeroMsg(code)
	sv := reflect.ValueOf(msg).Elem()
	f := func(n string) reflect.Value {
		fv := sv.FieldByName(names[n])
		if !fv.IsValid() {
			vio.Fatal("%s has no field %s", c.Fam, names[n])
		}
		return fv
	}
	hash := hashOf("rnd", rng)
	f("Who").SetUint(uint64(1 + rng.Intn(7)))
	f("Proposer").SetUint(uint64(1 + rng.Intn(7)))
	f("BlockNum").SetUint(uint64(uint32(rng.U64())))
	f("BlockHash").Set(reflect.ValueOf(hash))
	f("ForEmpty").SetBool(rng.Bool())
	f("ProposerSig").SetBytes(rng.Bytes(65))
	if c.Fam == "commit" {
		sv.FieldByName("EndorsersSig").Set(reflect.ValueOf(sigMap("three", rng)))
	}
	sig, err := signature.Sign(k1, hash[:])
	vio.Must(err)
	f("Sig").SetBytes(sig)
	pub := k1.PublicKey
	m := c.Mut
	switch m.Op {
	case "none":
	case "verify-with-other-key":
		pub = k2.PublicKey
	case "resign-other-key":
		s2, err := signature.Sign(k2, hash[:])
		vio.Must(err)
		f("Sig").SetBytes(s2)
	case "junk-sig":
		f("Sig").SetBytes(junkSig(sig, rng))
	case "empty-sig":
		f("Sig").SetBytes([]byte{})
	case "set":
		switch m.X {
		case "Who", "Proposer", "BlockNum":
			f(m.X).SetUint(f(m.X).Uint() ^ 1)
		case "BlockHash":
			f(m.X).Set(reflect.ValueOf(flipHash(hash, rng)))
		case "ForEmpty":
			f(m.X).SetBool(!f(m.X).Bool())
		case "Faulty":
			setField(f(m.X), "faulty", "one", rng, k1)
		case "ProposerSig":
			f(m.X).SetBytes(rng.Bytes(65))
		default:
			vio.Fatal("vote field %q", m.X)
		}
	default:
		vio.Fatal("vote mutation %q", m.Op)
	}
	data, err := vbft.SerializeVbftMsg(msg)
	vio.Must(err)
	back, err := vbft.DeserializeVbftMsg(data)
	if err != nil {
		return result{Issue: "roundtrip", Detail: c.Fam + " message does not decode: " + err.Error()}
	}
	if !sameValue(back, msg) {
		return result{Issue: "roundtrip", Detail: c.Fam + " message changed by the codec"}
	}
	accepted := false
	p := vio.Safe(func() { accepted = back.Verify(pub) == nil })
	obs := map[string]interface{}{"accept": accepted, "whole_message_genuine": c.Whole}
	if p != "" {
		obs["verify_panic"] = p[:min(len(p), 300)] // an empty signature: not what C44 states, reported as an observation
	}
	return judge(c, accepted, obs)
}
