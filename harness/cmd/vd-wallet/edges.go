package main

import (
	"encoding/json"
	"fmt"
	"os"
	"path/filepath"
	"strings"
	"time"

	"verifh/kit/vio"
)

type marg struct {
	ID int      `json:"id"`
	L  string   `json:"l"`
	P  string   `json:"p"`
	Q  string   `json:"q"`
	Ps []string `json:"ps"`
}
type mop struct {
	Op string `json:"op"`
	A  marg   `json:"a"`
	F  bool   `json:"f"`
}
type mobs struct {
	Res string `json:"res"`
	ID  int    `json:"id"`
}
type wedge struct {
	H       []mop  `json:"h"`
	Op      string `json:"op"`
	A       marg   `json:"a"`
	Obs     mobs   `json:"obs"`
	Ld      bool   `json:"ld"`
	Mut     bool   `json:"mut"`
	F       bool   `json:"f"` // fault edge: the call is made while the wallet file cannot be written
	Params  string `json:"params"`
	Ids2    []int  `json:"ids2"`
	Params2 string `json:"params2"`
}

// edgeResult: one replayed edge = events[From:To) of its session.
type edgeResult struct {
	Edge  int    `json:"edge"`
	From  int    `json:"from"`
	To    int    `json:"to"`
	Match bool   `json:"match"`
	Diff  string `json:"diff,omitempty"`
	Class string `json:"class"` // abstract (op, outcome, context) class, for distinct_nontrivial
}

// sessionResult: one real wallet session = the shared history, then either all edges the model says leave the wallet
// unchanged (executed one after the other on that client), or one edge that changes it.
type sessionResult struct {
	Session  int          `json:"session"`
	HistDiff string       `json:"histdiff,omitempty"` // a history step did not go as predicted: source state not reached
	Events   []event      `json:"events"`
	Edges    []edgeResult `json:"edges"`
	Ms       int64        `json:"ms"`
}

// concrete passwords: one ASCII letter, a long one, a non-ASCII one.  Which model name gets which is permuted per edge.
var concretePW = [][]byte{
	[]byte("a"),
	[]byte(strings.Repeat("correct horse battery staple / ", 9) + "\x00\ttail "),
	[]byte("pässwörd-密码-\U0001F511"),
}
var concreteLabels = [][2]string{{"acct-A", "acct-B"}, {"标签 A", "label with \"quotes\" \\ B"}}

func pwMapper(perm []int) func(string) []byte {
	return func(name string) []byte {
		switch name {
		case "":
			return []byte{}
		case "p1":
			return concretePW[perm[0]]
		case "p2":
			return concretePW[perm[1]]
		case "p3":
			return concretePW[perm[2]]
		}
		// further names (random histories): distinct, derived from the name
		return []byte("pw:" + name + ":ü")
	}
}

func labelMapper(set int) func(string) string {
	return func(name string) string {
		switch name {
		case "A":
			return concreteLabels[set][0]
		case "B":
			return concreteLabels[set][1]
		}
		return name
	}
}

func (ss *session) apply(op mop) (evs []event) {
	if op.F {
		op.F = false
		ss.withSaveBlocked(func() { evs = ss.apply(op) })
		return evs
	}
	a := op.A
	switch op.Op {
	case "open":
		return []event{ss.open(a.L)}
	case "new":
		return []event{ss.newAccount(a.L, a.P)}
	case "import":
		return []event{ss.importAccount(a.L, a.P)}
	case "delete":
		return []event{ss.deleteAccount(a.ID, a.P)}
	case "setdefault":
		return []event{ss.setDefault(a.ID)}
	case "setlabel":
		return []event{ss.setLabel(a.ID, a.L)}
	case "chpw":
		return []event{ss.changePassword(a.ID, a.P, a.Q)}
	case "reopen":
		return []event{ss.reopen()}
	case "convert":
		return []event{ss.convert(a.L, a.Ps)}
	case "get":
		return ss.get(a.ID, a.P)
	}
	vio.Fatal("unknown op %q", op.Op)
	return nil
}

func sameInts(a, b []int) bool {
	if len(a) != len(b) {
		return false
	}
	for i := range a {
		if a[i] != b[i] {
			return false
		}
	}
	return true
}

func (ss *session) runEdge(i int, e *wedge) edgeResult {
	r := edgeResult{Edge: i, From: len(ss.events), Match: true}
	evs := ss.apply(mop{Op: e.Op, A: e.A, F: e.F})
	var after []event
	if e.F {
		// a call that failed at the save must have left everything as it was: read every account back, live and after
		// the next successful save + reopen; a rejected new password must not open anything
		also := ""
		if e.Op == "chpw" {
			also = e.A.Q
		}
		after = ss.verifyAll(also)
	}
	r.To = len(ss.events)
	var diffs []string
	for _, ev := range evs {
		if ev.Res != e.Obs.Res {
			diffs = append(diffs, fmt.Sprintf("%s %s: res %s, predicted %s (%s%s)", e.Op, ev.Path, ev.Res, e.Obs.Res, ev.Err, ev.Panic))
		} else if e.Op == "get" && ev.Res == "ok" && (ev.Rid != e.Obs.ID || !ev.Same) {
			diffs = append(diffs, fmt.Sprintf("get %s: returned account %d same-key=%v, predicted %d", ev.Path, ev.Rid, ev.Same, e.Obs.ID))
		}
		if (e.Op == "new" || e.Op == "import") && ev.Res == "ok" && ev.ID != e.Obs.ID {
			diffs = append(diffs, fmt.Sprintf("%s: created id %d, predicted %d", e.Op, ev.ID, e.Obs.ID))
		}
	}
	for _, ev := range after {
		if ev.Op == "get" {
			want := "fail"
			if ev.P != "" && ev.P == ss.intended[ev.ID] {
				want = "ok"
			}
			if ev.Res != want {
				diffs = append(diffs, fmt.Sprintf("after the failed save: get %s of account %d with %s: %s, expected %s", ev.Path, ev.ID, ev.P, ev.Res, want))
			}
		} else if ev.Res != "ok" {
			diffs = append(diffs, fmt.Sprintf("after the failed save: %s returned %s (%s)", ev.Op, ev.Res, ev.Err))
		}
	}
	last := evs[len(evs)-1]
	if len(after) > 0 {
		last = after[len(after)-1]
	}
	if !sameInts(last.Ids, e.Ids2) {
		diffs = append(diffs, fmt.Sprintf("account list %v, predicted %v", last.Ids, e.Ids2))
	}
	if last.WParams != e.Params2 {
		diffs = append(diffs, fmt.Sprintf("wallet parameters %s, predicted %s", last.WParams, e.Params2))
	}
	if len(diffs) > 0 {
		r.Match = false
		r.Diff = strings.Join(diffs, "; ")
	}
	try := "-"
	if e.Op == "get" || e.Op == "delete" || e.Op == "chpw" {
		switch {
		case e.A.P == "":
			try = "empty"
		case e.Obs.Res == "ok":
			try = "right"
		default:
			try = "other"
		}
	}
	lastMut := e.H[len(e.H)-1].Op
	r.Class = fmt.Sprintf("%s/%s/%s/%s/ld=%v/n=%d/after=%s/paths=%d/fault=%v", e.Op, e.Obs.Res, try, e.Params, e.Ld, len(e.Ids2), lastMut, len(evs), e.F)
	return r
}

// runSession replays the history shared by the given edges on a fresh real wallet, then the edges.
func runSession(sn int, idx []int, edges []*wedge, root string, seed uint64) sessionResult {
	t0 := time.Now()
	rng := vio.NewRNG(seed*1000003 + uint64(idx[0]))
	perm := rng.Perm(3)
	schemes := schemeSet()
	k := rng.Intn(len(schemes))
	pick := func() scheme { k++; return schemes[k%len(schemes)] }
	ss := newSession(filepath.Join(root, fmt.Sprintf("s%d", sn)), pwMapper(perm), labelMapper(rng.Intn(2)), pick)
	r := sessionResult{Session: sn}
	for j, h := range edges[idx[0]].H {
		evs := ss.apply(h)
		if evs[0].Res != "ok" && r.HistDiff == "" {
			r.HistDiff = fmt.Sprintf("history step %d (%s) returned %s: %s%s", j, h.Op, evs[0].Res, evs[0].Err, evs[0].Panic)
		}
	}
	order := rng.Perm(len(idx))
	for _, o := range order {
		r.Edges = append(r.Edges, ss.runEdge(idx[o], edges[idx[o]]))
	}
	r.Events = ss.events
	r.Ms = time.Since(t0).Milliseconds()
	if os.Getenv("VERIF_KEEP") == "" {
		os.RemoveAll(ss.dir)
	}
	return r
}

func walletEdges() {
	lines := vio.ReadLines()
	if os.Getenv("VERIF_OUT") == "" {
		vio.Fatal("VERIF_OUT not set")
	}
	root := filepath.Join(os.Getenv("VERIF_OUT"), "wallet-edges")
	edges := make([]*wedge, len(lines))
	var sessions [][]int
	groups := map[string]int{}
	for i, ln := range lines {
		e := &wedge{}
		if err := json.Unmarshal(ln, e); err != nil {
			vio.Fatal("bad edge line %d: %v", i, err)
		}
		if len(e.H) == 0 || e.H[0].Op != "open" {
			vio.Fatal("edge %d: history does not start with open", i)
		}
		edges[i] = e
		if e.Mut || e.F {
			sessions = append(sessions, []int{i})
			continue
		}
		hb, _ := json.Marshal(e.H)
		g, ok := groups[string(hb)]
		if !ok {
			g = len(sessions)
			groups[string(hb)] = g
			sessions = append(sessions, nil)
		}
		sessions[g] = append(sessions[g], i)
	}
	seed := vio.Seed()
	vio.ParMap(len(sessions), workers(), func(sn int) {
		var r sessionResult
		if pn := vio.Safe(func() { r = runSession(sn, sessions[sn], edges, root, seed) }); pn != "" {
			vio.Fatal("driver panic in session %d: %s", sn, pn)
		}
		vio.Emit(r)
	})
	vio.Emit(map[string]interface{}{"summary": true, "edges": len(edges), "sessions": len(sessions)})
}
