package main

import (
	"fmt"
	"os"
	"path/filepath"
	"sort"
	"time"

	"github.com/ontio/ontology-crypto/keypair"
	s "github.com/ontio/ontology-crypto/signature"
	"github.com/polynetwork/poly/account"
	"verifh/kit/vio"
)

// extra passwords of the random histories (p4..): near misses of each other and of p1
var extraPW = map[string][]byte{
	"p4": []byte("A"),
	"p5": []byte("a "),
	"p6": []byte("a\x00b"), // (a trailing NUL would be the SAME scrypt input as "a": HMAC pads keys with zeros)
	"p7": []byte("пароль"),
	"p8": []byte{0xff, 0xfe, 0x80, 0x00, 0x01},
}

const tMax = 12 // TMax of TraceWallet.cfg

type recResult struct {
	Trace  int     `json:"trace"`
	Events []event `json:"events"`
	Ops    int     `json:"ops"`
}

func randomHistory(t, n int, root string, seed uint64) recResult {
	rng := vio.NewRNG(seed*7919 + uint64(t)*104729 + 17)
	perm := rng.Perm(3)
	base := pwMapper(perm)
	names := []string{"p1", "p2", "p3", "p4", "p5", "p6", "p7", "p8"}
	pw := func(name string) []byte {
		if b, ok := extraPW[name]; ok {
			return b
		}
		return base(name)
	}
	lset := rng.Intn(2)
	label := func(name string) string {
		if name == "" {
			return ""
		}
		return labelMapper(lset)(name) + name
	}
	schemes := schemeSet()
	pick := func() scheme { return schemes[rng.Intn(len(schemes))] }
	ss := newSession(filepath.Join(root, fmt.Sprintf("t%d", t)), pw, label, pick)
	params := "low"
	if rng.Intn(5) == 0 {
		params = "default"
	}
	ss.open(params)
	labels := []string{"", "A", "B", "C", "D", "E"}
	anyPw := func() string { return names[rng.Intn(len(names))] }
	liveIds := func() []int {
		var r []int
		for id := range ss.intended {
			r = append(r, id)
		}
		sort.Ints(r)
		return r
	}
	target := func() int { // mostly an account in the wallet, sometimes a deleted or foreign one
		l := liveIds()
		if len(l) > 0 && rng.Intn(10) < 8 {
			return l[rng.Intn(len(l))]
		}
		return rng.Intn(len(ss.keys) + 1)
	}
	try := func(id int) string {
		switch x := rng.Intn(20); {
		case x < 8:
			if p, ok := ss.intended[id]; ok {
				return p
			}
			return anyPw()
		case x < 11:
			return ""
		default:
			return anyPw()
		}
	}
	mutate := func(x int, live []int) {
		switch {
		case x < 14:
			if len(ss.keys) >= tMax || len(live) >= 4 {
				return
			}
			if rng.Intn(3) == 0 {
				ss.importAccount(labels[rng.Intn(len(labels))], anyPw())
			} else {
				ss.newAccount(labels[rng.Intn(len(labels))], anyPw())
			}
		case x < 62:
			id := target()
			ss.changePassword(id, try(id), anyPw())
		case x < 70:
			id := target()
			ss.deleteAccount(id, try(id))
		case x < 76:
			ss.setLabel(target(), labels[1+rng.Intn(len(labels)-1)])
		default:
			ss.setDefault(target())
		}
	}
	for k := 0; k < n; k++ {
		x := rng.Intn(100)
		live := liveIds()
		if x < 82 && (x < 14 || x >= 50) && rng.Intn(7) == 0 {
			// the same kind of call, but the wallet file cannot be written while it runs (it must fail and change nothing)
			ss.withSaveBlocked(func() { mutate(x, live) })
			continue
		}
		switch {
		case x < 14 || len(live) == 0:
			if len(ss.keys) >= tMax || len(live) >= 4 {
				ss.reopen()
				continue
			}
			p := anyPw()
			if rng.Intn(12) == 0 {
				p = ""
			}
			if rng.Intn(3) == 0 {
				ss.importAccount(labels[rng.Intn(len(labels))], anyPw())
			} else {
				ss.newAccount(labels[rng.Intn(len(labels))], p)
			}
		case x < 50:
			id := target()
			ss.get(id, try(id))
		case x < 62:
			id := target()
			old := try(id)
			ss.changePassword(id, old, anyPw())
		case x < 70:
			id := target()
			ss.deleteAccount(id, try(id))
		case x < 76:
			ss.setLabel(target(), labels[1+rng.Intn(len(labels)-1)])
		case x < 82:
			ss.setDefault(target())
		case x < 92:
			ss.reopen()
		default:
			to := "low"
			if rng.Intn(4) == 0 {
				to = "default"
			}
			var pws []string
			for _, id := range ss.listing() {
				pws = append(pws, ss.intended[id])
			}
			if len(pws) > 0 && rng.Intn(4) == 0 {
				pws[rng.Intn(len(pws))] = anyPw()
			}
			ss.convert(to, pws)
		}
	}
	// final read-back of every account that should be there, from a freshly opened client
	ss.reopen()
	for _, id := range liveIds() {
		ss.get(id, ss.intended[id])
	}
	if os.Getenv("VERIF_KEEP") == "" {
		os.RemoveAll(ss.dir)
	}
	return recResult{Trace: t, Events: ss.events, Ops: n}
}

func walletRecord(n, ln, only int) {
	if os.Getenv("VERIF_OUT") == "" {
		vio.Fatal("VERIF_OUT not set")
	}
	root := filepath.Join(os.Getenv("VERIF_OUT"), "wallet-record")
	seed := vio.Seed()
	vio.ParMap(n, workers(), func(t int) {
		if only >= 0 && t != only {
			return
		}
		var r recResult
		if pn := vio.Safe(func() { r = randomHistory(t, ln, root, seed) }); pn != "" {
			vio.Fatal("driver panic in history %d: %s", t, pn)
		}
		vio.Emit(r)
	})
}

func walletBench() {
	if os.Getenv("VERIF_OUT") == "" {
		vio.Fatal("VERIF_OUT not set")
	}
	dir, err := os.MkdirTemp(os.Getenv("VERIF_OUT"), "bench")
	vio.Must(err)
	defer os.RemoveAll(dir)
	for _, params := range []string{"default", "low"} {
		ss := newSession(filepath.Join(dir, params), pwMapper([]int{0, 1, 2}), labelMapper(0), func() scheme { return schemesQuick[0] })
		ss.open(params)
		t := time.Now()
		ss.newAccount("A", "p1")
		tn := time.Since(t)
		t = time.Now()
		acc, err := ss.cli.GetAccountByLabel("acct-A", []byte("a"))
		_ = acc
		tg := time.Since(t)
		t = time.Now()
		ss.changePassword(1, "p1", "p2")
		tc := time.Since(t)
		vio.Emit(map[string]interface{}{"params": params, "new_ms": tn.Milliseconds(), "get_ms": tg.Milliseconds(), "chpw_ms": tc.Milliseconds(),
			"get_ok": err == nil && acc != nil})
	}
	_ = keypair.P256
	_ = s.SHA256withECDSA
	_ = account.NewWalletData
}
