package main

import (
	"crypto/aes"
	"crypto/cipher"
	"crypto/sha256"
	"encoding/hex"
	"os"
	"path/filepath"

	"github.com/ontio/ontology-crypto/ec"
	"github.com/ontio/ontology-crypto/keypair"
	s "github.com/ontio/ontology-crypto/signature"
	"github.com/polynetwork/poly/account"
	"github.com/polynetwork/poly/core/types"
	"golang.org/x/crypto/scrypt"
	"verifh/kit/vio"
)

// ctrProbe (observation outside the C43 domain, not used by the check): a key protected with the legacy "aes-256-ctr"
// scheme that DecryptWithCustomScrypt still accepts is imported; is a wrong password refused?
func ctrProbe() {
	if os.Getenv("VERIF_OUT") == "" {
		vio.Fatal("VERIF_OUT not set")
	}
	dir, err := os.MkdirTemp(os.Getenv("VERIF_OUT"), "ctr")
	vio.Must(err)
	defer os.RemoveAll(dir)
	prv, pub, err := keypair.GenerateKeyPair(keypair.PK_ECDSA, keypair.P256)
	vio.Must(err)
	addr := types.AddressFromPubKey(pub)
	a58 := addr.ToBase58()
	param := keypair.GetScryptParameters()
	d1 := sha256.Sum256([]byte(a58))
	d2 := sha256.Sum256(d1[:])
	dk, err := scrypt.Key([]byte("right"), d2[:4], param.N, param.R, param.P, param.DKLen)
	vio.Must(err)
	block, err := aes.NewCipher(dk[len(dk)-32:])
	vio.Must(err)
	plain := prv.(*ec.PrivateKey).D.Bytes()
	ct := make([]byte, len(plain))
	cipher.NewCTR(block, dk[:16]).XORKeyStream(ct, plain)
	meta := &account.AccountMetadata{Label: "legacy", KeyType: "ECDSA", Curve: "P-256", Address: a58,
		PubKey: hex.EncodeToString(keypair.SerializePublicKey(pub)), SigSch: s.SHA256withECDSA.Name(), Key: ct, EncAlg: "aes-256-ctr"}
	cli, err := account.NewClientImpl(filepath.Join(dir, "w.dat"))
	vio.Must(err)
	vio.Must(cli.ImportAccount(meta))
	cli, err = account.NewClientImpl(filepath.Join(dir, "w.dat"))
	vio.Must(err)
	for _, pw := range []string{"right", "wrong"} {
		acc, err := cli.GetAccountByAddress(a58, []byte(pw))
		r := map[string]interface{}{"password": pw, "err": errs(err), "returned": acc != nil}
		if acc != nil {
			r["address_matches_stored"] = acc.Address == addr
			r["key_is_the_original"] = hex.EncodeToString(keypair.SerializePrivateKey(acc.PrivateKey)) == hex.EncodeToString(keypair.SerializePrivateKey(prv))
		}
		vio.Emit(r)
	}
}
