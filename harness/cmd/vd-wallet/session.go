package main

import (
	"bytes"
	"fmt"
	"os"
	"path/filepath"
	"sort"

	"github.com/ontio/ontology-crypto/keypair"
	s "github.com/ontio/ontology-crypto/signature"
	"github.com/polynetwork/poly/account"
	"github.com/polynetwork/poly/core/types"
	"verifh/kit/vio"
)

// event is one logged call (one line of trace.ndjson for spec/TraceWallet.tla).  Fields below Ids are diagnostics only.
type event struct {
	Op   string `json:"op"`
	ID   int    `json:"id"`
	P    string `json:"p"`
	Q    string `json:"q"`
	Res  string `json:"res"`
	Rid  int    `json:"rid"`
	Same bool   `json:"same"`
	Ids  []int  `json:"ids"`
	F    bool   `json:"f"` // the wallet file was made unwritable for this call

	Path    string `json:"path,omitempty"`
	Origin  string `json:"origin,omitempty"`  // call that sealed the key of account ID last (new/import/chpw/convert)
	WParams string `json:"wparams,omitempty"` // scrypt parameters in the wallet header: default | low | other
	DefDec  bool   `json:"defdec,omitempty"`  // right password refused, but the stored key opens under the library default parameters
	Scheme  string `json:"scheme,omitempty"`
	Err     string `json:"err,omitempty"`
	Panic   string `json:"panic,omitempty"`
}

type scheme struct {
	name  string
	kt    keypair.KeyType
	curve byte
	sig   s.SignatureScheme
}

var schemesQuick = []scheme{
	{"ECDSA-P256/SHA256", keypair.PK_ECDSA, keypair.P256, s.SHA256withECDSA},
	{"SM2/SM3", keypair.PK_SM2, keypair.SM2P256V1, s.SM3withSM2},
	{"Ed25519/SHA512", keypair.PK_EDDSA, keypair.ED25519, s.SHA512withEDDSA},
}
var schemesMore = []scheme{
	{"ECDSA-P224/SHA224", keypair.PK_ECDSA, keypair.P224, s.SHA224withECDSA},
	{"ECDSA-P384/SHA384", keypair.PK_ECDSA, keypair.P384, s.SHA384withECDSA},
	{"ECDSA-P521/SHA512", keypair.PK_ECDSA, keypair.P521, s.SHA512withECDSA},
	{"ECDSA-P256/SHA3-256", keypair.PK_ECDSA, keypair.P256, s.SHA3_256withECDSA},
	{"ECDSA-P256/RIPEMD160", keypair.PK_ECDSA, keypair.P256, s.RIPEMD160withECDSA},
	{"ECDSA-P224/SHA3-224", keypair.PK_ECDSA, keypair.P224, s.SHA3_224withECDSA},
	{"ECDSA-P384/SHA3-384", keypair.PK_ECDSA, keypair.P384, s.SHA3_384withECDSA},
	{"ECDSA-P521/SHA3-512", keypair.PK_ECDSA, keypair.P521, s.SHA3_512withECDSA},
}

func schemeSet() []scheme {
	if vio.Tier() == "thorough" {
		return append(append([]scheme{}, schemesQuick...), schemesMore...)
	}
	return schemesQuick
}

type keyrec struct {
	prv, pub []byte
	addr     string
}

// session wraps one real wallet (a ClientImpl and its file) and keeps what the driver itself handed in:
// which key pair was generated for which account, and which password the API was told to use.
type session struct {
	dir      string
	path     string
	nfile    int
	cli      *account.ClientImpl
	ids      map[string]int // address (base58) -> id in order of creation
	keys     map[int]keyrec
	intended map[int]string // id -> password name (diagnostics; the verdict comes from TraceWallet)
	origin   map[int]string
	ghost    string // an address that is never put into the wallet (id 0)
	pw       func(name string) []byte
	label    func(name string) string
	pick     func() scheme
	events   []event
	inFault  bool
}

func newSession(dir string, pw func(string) []byte, label func(string) string, pick func() scheme) *session {
	vio.Must(os.MkdirAll(dir, 0755))
	g := account.NewAccount("")
	return &session{dir: dir, ids: map[string]int{}, keys: map[int]keyrec{}, intended: map[int]string{}, origin: map[int]string{},
		ghost: g.Address.ToBase58(), pw: pw, label: label, pick: pick}
}

func (ss *session) addrOf(id int) string {
	if k, ok := ss.keys[id]; ok {
		return k.addr
	}
	return ss.ghost
}

func (ss *session) wparams() string {
	p := ss.cli.GetWalletData().Scrypt
	d := keypair.GetScryptParameters()
	if p == nil {
		return "nil"
	}
	if *p == *d {
		return "default"
	}
	if p.N == 4096 && p.R == 8 && p.P == 8 && p.DKLen == 64 {
		return "low"
	}
	return "other"
}

func (ss *session) listing() []int {
	res := []int{}
	for i := 1; ; i++ {
		m := ss.cli.GetAccountMetadataByIndex(i)
		if m == nil {
			break
		}
		res = append(res, ss.ids[m.Address]) // 0 for an address the driver never created
	}
	return res
}

func (ss *session) log(e event) event {
	if ss.cli != nil {
		e.Ids = ss.listing()
		e.WParams = ss.wparams()
	} else {
		e.Ids = []int{}
	}
	if e.Origin == "" {
		e.Origin = ss.origin[e.ID]
	}
	e.F = ss.inFault
	ss.events = append(ss.events, e)
	return e
}

func (ss *session) nextPath() string {
	ss.nfile++
	return filepath.Join(ss.dir, fmt.Sprintf("w%d.dat", ss.nfile))
}

func errs(err error) string {
	if err == nil {
		return ""
	}
	return err.Error()
}

// open starts a fresh wallet carrying the named scrypt parameter set.  "low" is produced the way the repository does it
// (`account export --low-security`): WalletData.Clone().ToLowSecurity(passwords) saved to a new file, which is then opened.
func (ss *session) open(params string) event {
	ss.path = ss.nextPath()
	cli, err := account.NewClientImpl(ss.path)
	vio.Must(err)
	if params == "low" {
		wd := cli.GetWalletData().Clone()
		vio.Must(wd.ToLowSecurity([][]byte{}))
		vio.Must(wd.Save(ss.path))
		cli, err = account.NewClientImpl(ss.path)
		vio.Must(err)
	}
	ss.cli = cli
	return ss.log(event{Op: "reset", P: params, Res: "ok"})
}

// withSaveBlocked runs f while WalletData.Save(ss.path) cannot succeed: Save writes "<path>~" and renames it when the
// file exists (a directory of that name blocks the write), and writes <path> directly when it does not (a directory at
// <path> makes Save take the first route and fail at the rename).  Everything is restored afterwards.
func (ss *session) withSaveBlocked(f func()) {
	var undo func()
	if _, err := os.Stat(ss.path); err == nil {
		d := ss.path + "~"
		vio.Must(os.Mkdir(d, 0755))
		undo = func() { vio.Must(os.Remove(d)) }
	} else {
		vio.Must(os.Mkdir(ss.path, 0755))
		undo = func() {
			os.Remove(ss.path + "~")
			vio.Must(os.Remove(ss.path))
		}
	}
	ss.inFault = true
	defer func() {
		ss.inFault = false
		undo()
	}()
	f()
}

// saveNow is a successful save of the client's wallet data as it is (what every mutating call does at its end).
func (ss *session) saveNow() event {
	return ss.log(ss.simple("save", 0, func() error { return ss.cli.GetWalletData().Save(ss.path) }))
}

// verifyAll asks for every account the driver believes to be in the wallet with its password (and with `also`, a password
// that must not have become valid), first on the live client, then after a successful save and a reopen.
func (ss *session) verifyAll(also string) (evs []event) {
	round := func() {
		var ids []int
		for id := range ss.intended {
			ids = append(ids, id)
		}
		sort.Ints(ids)
		for _, id := range ids {
			evs = append(evs, ss.get(id, ss.intended[id])...)
			if also != "" && also != ss.intended[id] {
				evs = append(evs, ss.get(id, also)...)
			}
		}
	}
	round()
	evs = append(evs, ss.saveNow(), ss.reopen())
	round()
	return evs
}

func (ss *session) register(op string, prv keypair.PrivateKey, pub keypair.PublicKey, addr string, pwName string) int {
	id := len(ss.keys) + 1
	ss.ids[addr] = id
	ss.keys[id] = keyrec{prv: keypair.SerializePrivateKey(prv), pub: keypair.SerializePublicKey(pub), addr: addr}
	ss.intended[id] = pwName
	ss.origin[id] = op
	return id
}

func (ss *session) newAccount(label, pwName string) event {
	sc := ss.pick()
	var acc *account.Account
	var err error
	pn := vio.Safe(func() { acc, err = ss.cli.NewAccount(ss.label(label), sc.kt, sc.curve, sc.sig, ss.pw(pwName)) })
	e := event{Op: "new", P: pwName, Scheme: sc.name, Err: errs(err), Panic: pn, Res: "fail"}
	if pn == "" && err == nil && acc != nil {
		e.Res = "ok"
		e.ID = ss.register("new", acc.PrivateKey, acc.PublicKey, acc.Address.ToBase58(), pwName)
		e.Same = types.AddressFromPubKey(acc.PublicKey) == acc.Address
	}
	return ss.log(e)
}

// importAccount creates an account in a separate source wallet, seals it under the target wallet's scrypt parameter set
// (ToLowSecurity when the target is a low-security wallet) and imports its metadata.
func (ss *session) importAccount(label, pwName string) event {
	sc := ss.pick()
	pw := ss.pw(pwName)
	ss.nfile++
	srcPath := filepath.Join(ss.dir, fmt.Sprintf("src%d.dat", ss.nfile))
	src, err := account.NewClientImpl(srcPath)
	vio.Must(err)
	acc, err := src.NewAccount(ss.label(label), sc.kt, sc.curve, sc.sig, pw)
	vio.Must(err)
	wd := src.GetWalletData().Clone()
	switch ss.wparams() {
	case "default":
	case "low":
		vio.Must(wd.ToLowSecurity([][]byte{pw}))
	default:
		prot, err := keypair.ReencryptPrivateKey(&wd.Accounts[0].ProtectedKey, pw, pw, wd.Scrypt, ss.cli.GetWalletData().Scrypt)
		vio.Must(err)
		wd.Accounts[0].SetKeyPair(prot)
	}
	src2Path := srcPath + ".x"
	vio.Must(wd.Save(src2Path))
	src2, err := account.NewClientImpl(src2Path)
	vio.Must(err)
	meta := src2.GetAccountMetadataByIndex(1)
	if meta == nil {
		vio.Fatal("source wallet has no account")
	}
	var ierr error
	pn := vio.Safe(func() { ierr = ss.cli.ImportAccount(meta) })
	e := event{Op: "import", P: pwName, Scheme: sc.name, Err: errs(ierr), Panic: pn, Res: "fail"}
	if pn == "" && ierr == nil {
		e.Res = "ok"
		e.ID = ss.register("import", acc.PrivateKey, acc.PublicKey, acc.Address.ToBase58(), pwName)
		e.Same = true
	}
	return ss.log(e)
}

func (ss *session) judge(acc *account.Account) (rid int, same bool) {
	if acc == nil {
		return 0, false
	}
	addr := acc.Address.ToBase58()
	rid = ss.ids[addr]
	k, ok := ss.keys[rid]
	if !ok {
		return 0, false
	}
	var prv, pub []byte
	if vio.Safe(func() {
		prv = keypair.SerializePrivateKey(acc.PrivateKey)
		pub = keypair.SerializePublicKey(acc.PublicKey)
	}) != "" {
		return rid, false
	}
	derived := types.AddressFromPubKey(acc.PublicKey)
	same = bytes.Equal(prv, k.prv) && bytes.Equal(pub, k.pub) && derived.ToBase58() == k.addr
	return rid, same
}

func outcome(acc *account.Account, err error, pn string) string {
	switch {
	case pn != "" || err != nil:
		return "fail"
	case acc == nil:
		return "none"
	}
	return "ok"
}

func (ss *session) deleteAccount(id int, try string) event {
	var acc *account.Account
	var err error
	pn := vio.Safe(func() { acc, err = ss.cli.DeleteAccount(ss.addrOf(id), ss.pw(try)) })
	e := event{Op: "delete", ID: id, P: try, Err: errs(err), Panic: pn, Res: outcome(acc, err, pn), Origin: ss.origin[id]}
	if e.Res == "ok" {
		e.Rid, e.Same = ss.judge(acc)
		delete(ss.intended, id)
	}
	return ss.log(e)
}

func (ss *session) simple(op string, id int, f func() error) event {
	var err error
	pn := vio.Safe(func() { err = f() })
	e := event{Op: op, ID: id, Err: errs(err), Panic: pn, Res: "ok"}
	if pn != "" || err != nil {
		e.Res = "fail"
	}
	return e
}

func (ss *session) setDefault(id int) event {
	return ss.log(ss.simple("setdefault", id, func() error { return ss.cli.SetDefaultAccount(ss.addrOf(id)) }))
}

func (ss *session) setLabel(id int, label string) event {
	return ss.log(ss.simple("setlabel", id, func() error { return ss.cli.SetLabel(ss.addrOf(id), ss.label(label)) }))
}

func (ss *session) changePassword(id int, old, new string) event {
	e := ss.simple("chpw", id, func() error { return ss.cli.ChangePassword(ss.addrOf(id), ss.pw(old), ss.pw(new)) })
	e.P, e.Q = old, new
	e.Origin = ss.origin[id]
	if e.Res == "ok" && old != new {
		if _, ok := ss.keys[id]; ok {
			ss.intended[id] = new
			ss.origin[id] = "chpw"
		}
	}
	return ss.log(e)
}

func (ss *session) reopen() event {
	var cli *account.ClientImpl
	e := ss.simple("reopen", 0, func() error {
		var err error
		cli, err = account.NewClientImpl(ss.path)
		return err
	})
	if e.Res == "ok" {
		ss.cli = cli
	}
	return ss.log(e)
}

// convert is `account export` (with or without --low-security): clone the wallet data, re-seal every account with the
// passwords given (one per account, in file order), save to a new file and open that file.
func (ss *session) convert(to string, pws []string) event {
	var wd *account.WalletData
	e := ss.simple("convert", 0, func() error {
		wd = ss.cli.GetWalletData().Clone()
		raw := make([][]byte, len(pws))
		for i, p := range pws {
			raw[i] = ss.pw(p)
		}
		if to == "low" {
			return wd.ToLowSecurity(raw)
		}
		return wd.ToDefaultSecurity(raw)
	})
	e.P = to
	if e.Res == "ok" {
		np := ss.nextPath()
		vio.Must(wd.Save(np))
		cli, err := account.NewClientImpl(np)
		vio.Must(err)
		ss.cli, ss.path = cli, np
		for id := range ss.intended {
			ss.origin[id] = "convert"
		}
	}
	return ss.log(e)
}

// get asks for the account with the given id and password through every lookup that the wallet's own metadata resolves
// to that account (address; label if it has one; its index; default account if it is the default).  One event per lookup;
// the event's id is the account the metadata names, so the monitor needs no model of labels, order or default.
func (ss *session) get(id int, try string) []event {
	addr := ss.addrOf(id)
	pw := ss.pw(try)
	var res []event
	one := func(path string, target int, f func() (*account.Account, error)) {
		var acc *account.Account
		var err error
		pn := vio.Safe(func() { acc, err = f() })
		e := event{Op: "get", ID: target, P: try, Path: path, Err: errs(err), Panic: pn, Res: outcome(acc, err, pn), Origin: ss.origin[target]}
		if e.Res == "ok" {
			e.Rid, e.Same = ss.judge(acc)
		}
		if e.Res == "fail" && try != "" && ss.intended[target] == try && ss.wparams() != "default" {
			if ad, _ := ss.cli.GetWalletData().GetAccountByAddress(ss.addrOf(target)); ad != nil {
				vio.Safe(func() {
					_, derr := keypair.DecryptWithCustomScrypt(&ad.ProtectedKey, pw, keypair.GetScryptParameters())
					e.DefDec = derr == nil
				})
			}
		}
		res = append(res, ss.log(e))
	}
	one("address", id, func() (*account.Account, error) { return ss.cli.GetAccountByAddress(addr, pw) })
	meta := ss.cli.GetAccountMetadataByAddress(addr)
	if meta == nil {
		return res
	}
	if meta.Label != "" {
		if m2 := ss.cli.GetAccountMetadataByLabel(meta.Label); m2 != nil {
			one("label", ss.ids[m2.Address], func() (*account.Account, error) { return ss.cli.GetAccountByLabel(meta.Label, pw) })
		}
	}
	for i := 1; ; i++ {
		m := ss.cli.GetAccountMetadataByIndex(i)
		if m == nil {
			break
		}
		if m.Address == addr {
			idx := i
			one("index", id, func() (*account.Account, error) { return ss.cli.GetAccountByIndex(idx, pw) })
			break
		}
	}
	if dm := ss.cli.GetDefaultAccountMetadata(); dm != nil && dm.Address == addr {
		one("default", id, func() (*account.Account, error) { return ss.cli.GetDefaultAccount(pw) })
	}
	return res
}
