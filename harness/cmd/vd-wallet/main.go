// vd-wallet: drivers for C43 (wallet accounts round-trip and are password-protected).
//
//	edges          stdin: EDGE lines of spec/Wallet.tla; each is replayed on a real account.ClientImpl with its own
//	               wallet file under $VERIF_OUT; stdout: one line per edge with the real observations (trace events for
//	               spec/TraceWallet.tla) and the comparison with the model's prediction.
//	record n len [t]  n random histories of len calls on real wallets, logged as TraceWallet events (only history t).
//	bench          timing of the scrypt-bound calls.
//	ctrprobe       observation outside C43's domain: legacy aes-256-ctr keys and wrong passwords (not used by the check).
package main

import (
	"os"
	"runtime"
	"strconv"

	"verifh/kit/vio"
)

func atoi(s string) int {
	n, err := strconv.Atoi(s)
	if err != nil {
		vio.Fatal("bad number %q", s)
	}
	return n
}

// workers: VERIF_WORKERS, else all cores (scrypt dominates; every session has its own wallet file).
func workers() int {
	if n, err := strconv.Atoi(os.Getenv("VERIF_WORKERS")); err == nil && n > 0 {
		return n
	}
	return runtime.NumCPU()
}

func main() {
	defer vio.Flush()
	if len(os.Args) < 2 {
		vio.Fatal("usage: vd-wallet <cmd> ...")
	}
	switch os.Args[1] {
	case "edges":
		walletEdges()
	case "record":
		only := -1
		if len(os.Args) > 4 {
			only = atoi(os.Args[4])
		}
		walletRecord(atoi(os.Args[2]), atoi(os.Args[3]), only)
	case "bench":
		walletBench()
	case "ctrprobe":
		ctrProbe()
	default:
		vio.Fatal("unknown command %s", os.Args[1])
	}
}
