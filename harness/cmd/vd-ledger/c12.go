package main

import (
	"bytes"
	"encoding/json"
	"fmt"
	"os"
	"os/exec"
	"path/filepath"
	"runtime"
	"sync"
	"syscall"

	"verifh/kit/ledgerkit"
	"verifh/kit/vio"
)

// ---------------------------------------------------------------- reference (crash-free) run

type reference struct {
	Blocks     []storedBlock
	BlocksFile string
	Proj       []fullProj // Proj[h] = projection when the crash-free run stood at height h
	Reopened   fullProj   // projection after a clean close and reopen at the last height
}

func outDir() string {
	d := os.Getenv("VERIF_OUT")
	if d == "" {
		vio.Fatal("VERIF_OUT is not set (scratch ledgers must live under ctx.out)")
	}
	return d
}

// refRun executes the script without any crash in this process and keeps the blocks as bytes.
func refRun(dir, keys string, script []blockScript, nctr int, path string) *reference {
	accts := ledgerkit.LoadOrCreateAccounts(keys, 1)
	lg, err := ledgerkit.Open(filepath.Join(dir, "ledger"), accts, false)
	vio.Must(err)
	ref := &reference{}
	ref.Proj = append(ref.Proj, project(lg, nctr))
	for i, bs := range script {
		h := uint32(i + 1)
		cur, _ := lg.L.GetHeaderByHeight(lg.L.GetCurrentBlockHeight())
		t := cur.Timestamp + bs.Dt
		if bs.Dt == 0 {
			t = cur.Timestamp + 1
		}
		b := lg.Build(buildTxs(bs, h), &ledgerkit.BlockOpts{Timestamp: &t})
		res, err := lg.L.ExecuteBlock(b)
		vio.Must(err)
		if path == "add" {
			vio.Must(lg.L.AddBlock(b, res.MerkleRoot))
		} else {
			vio.Must(lg.L.SubmitBlock(b, res))
		}
		if lg.L.GetCurrentBlockHeight() != h {
			panic(fmt.Sprintf("reference run: block %d not committed", h))
		}
		ref.Blocks = append(ref.Blocks, storeBlock(b, res.MerkleRoot))
		ref.Proj = append(ref.Proj, project(lg, nctr))
	}
	vio.Must(lg.L.Close())
	lg, err = ledgerkit.Open(filepath.Join(dir, "ledger"), accts, false)
	vio.Must(err)
	ref.Reopened = project(lg, nctr)
	vio.Must(lg.L.Close())
	ref.BlocksFile = filepath.Join(dir, "blocks.json")
	writeJSON(ref.BlocksFile, ref.Blocks)
	return ref
}

// ---------------------------------------------------------------- crash cases

type lifetime struct {
	Crash  *crashSpec `json:"crash,omitempty"`
	Upto   uint32     `json:"upto"`
	Reopen bool       `json:"reopen,omitempty"`
}

type c12Case struct {
	ID        int        `json:"id"`
	Script    int        `json:"script"`
	Path      string     `json:"path"`
	Lifetimes []lifetime `json:"lifetimes"`
}

type obsEvent struct {
	Ev     string            `json:"ev"`
	H      uint32            `json:"h,omitempty"`
	OK     bool              `json:"ok"`
	Err    string            `json:"err,omitempty"`
	Block  uint32            `json:"block"`
	State  uint32            `json:"state"`
	Header uint32            `json:"header"`
	Tree   uint32            `json:"tree"`
	Ctr    map[string]string `json:"ctr,omitempty"`
	Events []bool            `json:"events,omitempty"` // per height: event records present
	Same   bool              `json:"same"`             // block height = state height = header height, tree size = height+1
	RefEq  bool              `json:"refEq"`
	Diff   []string          `json:"diff,omitempty"`
}

type lifeObs struct {
	Killed bool       `json:"killed"`
	Exit   int        `json:"exit"`
	Stderr string     `json:"stderr,omitempty"`
	Events []obsEvent `json:"events"`
}

type c12Result struct {
	ID        int       `json:"id"`
	Script    int       `json:"script"`
	Lifetimes []lifeObs `json:"lifetimes"`
	Children  int       `json:"children"`
}

func runChild(self string, sp childSpec) (lifeObs, []childEvent) {
	arg, _ := json.Marshal(sp)
	cmd := exec.Command(self, "child", string(arg))
	var so, se bytes.Buffer
	cmd.Stdout, cmd.Stderr = &so, &se
	// a child does a few milliseconds of work: keep the Go runtime small (fewer threads, no collector) so that
	// sixteen of them side by side do not fight for the machine
	cmd.Env = append(os.Environ(), "GOMAXPROCS=2", "GOGC=off")
	err := cmd.Run()
	lo := lifeObs{}
	if err != nil {
		if ee, ok := err.(*exec.ExitError); ok {
			ws := ee.Sys().(syscall.WaitStatus)
			if ws.Signaled() && ws.Signal() == syscall.SIGKILL {
				lo.Killed = true
			} else {
				lo.Exit = ee.ExitCode()
				if lo.Exit == 0 {
					lo.Exit = -1
				}
			}
		} else {
			lo.Exit = -2
		}
	}
	if lo.Exit != 0 {
		s := se.String()
		if len(s) > 1500 {
			s = s[len(s)-1500:]
		}
		lo.Stderr = s
	}
	var evs []childEvent
	for _, ln := range bytes.Split(so.Bytes(), []byte("\n")) {
		if len(ln) == 0 || ln[0] != '{' {
			continue
		}
		var e childEvent
		if json.Unmarshal(ln, &e) == nil {
			evs = append(evs, e)
		}
	}
	return lo, evs
}

func abstractEvent(e childEvent, ref *reference, reopened bool) obsEvent {
	o := obsEvent{Ev: e.Ev, H: e.H, OK: e.OK, Err: e.Err}
	if len(o.Err) > 300 {
		o.Err = o.Err[:300]
	}
	if e.Proj == nil {
		return o
	}
	p := e.Proj
	o.Block, o.State, o.Header, o.Tree, o.Ctr = p.BlockHeight, p.StateHeight, p.HeaderHeight, p.TreeSize, p.Ctr
	o.Same = p.BlockHeight == p.StateHeight && p.BlockHeight == p.HeaderHeight && p.TreeSize == p.BlockHeight+1
	for _, hi := range p.Heights {
		o.Events = append(o.Events, !(len(hi.Events) == 1 && hi.Events[0] == "<none>"))
	}
	if int(p.BlockHeight) < len(ref.Proj) {
		r := ref.Proj[p.BlockHeight]
		o.RefEq = r.Digest == p.Digest
		if !o.RefEq {
			o.Diff = diffProj(*p, r)
			if len(o.Diff) > 8 {
				o.Diff = o.Diff[:8]
			}
			for i := range o.Diff {
				if len(o.Diff[i]) > 240 {
					o.Diff[i] = o.Diff[i][:240] + "..."
				}
			}
		}
	}
	return o
}

func c12Replay(nscripts, nblocks int) {
	setupGlobals()
	self, err := os.Executable()
	vio.Must(err)
	base := filepath.Join(outDir(), fmt.Sprintf("c12-%d", os.Getpid()))
	vio.Must(os.MkdirAll(base, 0755))
	keys := filepath.Join(base, "keys")
	ledgerkit.LoadOrCreateAccounts(keys, 1)
	rng := vio.NewRNG(vio.Seed())
	var cases []c12Case
	for _, ln := range vio.ReadLines() {
		var c c12Case
		vio.Must(json.Unmarshal(ln, &c))
		cases = append(cases, c)
	}
	// reference runs: one per (script, path)
	scripts := make([][]blockScript, nscripts)
	for i := range scripts {
		scripts[i] = genScript(rng, nblocks)
	}
	refs := map[string]*reference{}
	for _, c := range cases {
		k := fmt.Sprintf("%d-%s", c.Script, c.Path)
		if refs[k] == nil {
			d := filepath.Join(base, "ref-"+k)
			vio.Must(os.MkdirAll(d, 0755))
			refs[k] = refRun(d, keys, scripts[c.Script], nblocks, c.Path)
			r := refs[k]
			if r.Reopened.Digest != r.Proj[nblocks].Digest {
				vio.Emit(map[string]interface{}{"refReopenDiff": diffProj(r.Reopened, r.Proj[nblocks]), "script": c.Script, "path": c.Path})
			}
		}
	}
	vio.Emit(map[string]interface{}{"scripts": scripts})
	workers := runtime.NumCPU()
	if workers > 16 {
		workers = 16
	}
	var mu sync.Mutex
	total := 0
	vio.ParMap(len(cases), workers, func(i int) {
		c := cases[i]
		ref := refs[fmt.Sprintf("%d-%s", c.Script, c.Path)]
		dir := filepath.Join(base, fmt.Sprintf("case-%d", c.ID))
		os.RemoveAll(dir)
		res := c12Result{ID: c.ID, Script: c.Script}
		for _, lt := range c.Lifetimes {
			sp := childSpec{Dir: dir, Keys: keys, Blocks: ref.BlocksFile, NCtr: nblocks, Crash: lt.Crash, Upto: lt.Upto, Path: c.Path, Reopen: lt.Reopen}
			lo, evs := runChild(self, sp)
			res.Children++
			for _, e := range evs {
				lo.Events = append(lo.Events, abstractEvent(e, ref, false))
			}
			res.Lifetimes = append(res.Lifetimes, lo)
			if lo.Exit != 0 {
				break
			}
		}
		if os.Getenv("VERIF_KEEP") == "" {
			os.RemoveAll(dir)
		}
		mu.Lock()
		total += res.Children
		mu.Unlock()
		vio.Emit(res)
	})
	vio.Emit(map[string]interface{}{"summary": true, "cases": len(cases), "children": total})
}
