package main

import (
	"encoding/json"
	"os"
	"syscall"

	"github.com/polynetwork/poly/common"
	"github.com/polynetwork/poly/core/store/ledgerstore"
	"verifh/kit/ledgerkit"
	"verifh/kit/vio"
)

// One child process = one lifetime of a node: open the on-disk ledger (which runs recovery), offer reference blocks
// cur+1..Upto, close.  A crash is a real SIGKILL of the process at the crash point named in the spec, delivered from inside
// ledgerstore.VerifCrashHook (or by the child itself for the two points that need no hook: open:before-init and idle).
type crashSpec struct {
	Point  string `json:"point"`  // submit:* | recover:* | open:before-init | idle
	Height int    `json:"height"` // submit:*: height of the block being persisted (0 = genesis)
	Iter   int    `json:"iter"`   // recover:*: which loop iteration (1-based)
}

type childSpec struct {
	Dir    string     `json:"dir"`
	Keys   string     `json:"keys"`
	Blocks string     `json:"blocks"`
	NCtr   int        `json:"nctr"`
	Crash  *crashSpec `json:"crash,omitempty"`
	Upto   uint32     `json:"upto"`
	Path   string     `json:"path"`             // submit (ExecuteBlock+SubmitBlock) | add (AddBlock)
	Reopen bool       `json:"reopen,omitempty"` // after the clean close: open once more, project, close
}

type childEvent struct {
	Ev   string    `json:"ev"` // open | offer | close
	H    uint32    `json:"h,omitempty"`
	OK   bool      `json:"ok"`
	Err  string    `json:"err,omitempty"`
	Proj *fullProj `json:"proj,omitempty"`
}

func killSelf() {
	vio.Flush()
	syscall.Kill(os.Getpid(), syscall.SIGKILL)
	select {}
}

func childMain(arg string) {
	var sp childSpec
	vio.Must(json.Unmarshal([]byte(arg), &sp))
	setupGlobals()
	accts := ledgerkit.LoadOrCreateAccounts(sp.Keys, 1)
	var blocks []storedBlock
	readJSON(sp.Blocks, &blocks)

	submitting := 0 // height being persisted; 0 while opening (genesis)
	recIter := 0
	if c := sp.Crash; c != nil {
		ledgerstore.VerifCrashHook = func(p string) {
			if p == "recover:after-event-commit" {
				recIter++
			}
			if p != c.Point {
				return
			}
			if len(p) > 7 && p[:7] == "submit:" && submitting == c.Height {
				killSelf()
			}
			if len(p) > 8 && p[:8] == "recover:" && recIter == c.Iter {
				killSelf()
			}
		}
		if c.Point == "open:before-init" {
			if _, err := ledgerstore.NewLedgerStore(sp.Dir); err != nil {
				vio.Emit(childEvent{Ev: "open", OK: false, Err: err.Error()})
				return
			}
			killSelf()
		}
	}
	var lg *ledgerkit.Ledger
	var err error
	if p := vio.Safe(func() { lg, err = ledgerkit.Open(sp.Dir, accts, false) }); p != "" {
		vio.Emit(childEvent{Ev: "open", OK: false, Err: p})
		return
	}
	if err != nil {
		vio.Emit(childEvent{Ev: "open", OK: false, Err: err.Error()})
		return
	}
	pr := project(lg, sp.NCtr)
	vio.Emit(childEvent{Ev: "open", OK: true, Proj: &pr})
	vio.Flush()
	for {
		cur := lg.L.GetCurrentBlockHeight()
		if cur >= sp.Upto || int(cur) >= len(blocks) {
			break
		}
		sb := blocks[cur] // blocks[i] has height i+1
		b := sb.block()
		submitting = int(sb.H)
		var oerr error
		pan := vio.Safe(func() {
			if sp.Path == "add" {
				root, _ := common.Uint256FromHexString(sb.StateRoot)
				oerr = lg.L.AddBlock(b, root)
			} else {
				_, oerr = lg.Commit(b)
			}
		})
		submitting = -1
		pr := project(lg, sp.NCtr)
		// accepted = no error and the ledger now stands at the offered height
		ev := childEvent{Ev: "offer", H: sb.H, OK: oerr == nil && pan == "" && pr.BlockHeight == sb.H, Proj: &pr}
		if oerr != nil {
			ev.Err = oerr.Error()
		} else if pan != "" {
			ev.Err = pan
		} else if !ev.OK {
			ev.Err = "no error, but the block was not committed"
		}
		vio.Emit(ev)
		vio.Flush()
		if !ev.OK {
			break
		}
	}
	if sp.Crash != nil && sp.Crash.Point == "idle" {
		killSelf()
	}
	cerr := lg.L.Close()
	ev := childEvent{Ev: "close", OK: cerr == nil}
	if cerr != nil {
		ev.Err = cerr.Error()
	}
	vio.Emit(ev)
	if sp.Reopen {
		var lg2 *ledgerkit.Ledger
		if p := vio.Safe(func() { lg2, err = ledgerkit.Open(sp.Dir, accts, false) }); p != "" {
			vio.Emit(childEvent{Ev: "reopen", OK: false, Err: p})
			return
		}
		if err != nil {
			vio.Emit(childEvent{Ev: "reopen", OK: false, Err: err.Error()})
			return
		}
		pr := project(lg2, sp.NCtr)
		vio.Emit(childEvent{Ev: "reopen", OK: true, Proj: &pr})
		lg2.L.Close()
	}
}
