package main

import (
	"crypto/sha256"
	"encoding/hex"
	"encoding/json"
	"fmt"
	"os"
	"sort"
	"strconv"

	"github.com/polynetwork/poly/common"
	"github.com/polynetwork/poly/common/config"
	"github.com/polynetwork/poly/common/log"
	cstates "github.com/polynetwork/poly/core/states"
	"github.com/polynetwork/poly/core/types"
	"github.com/polynetwork/poly/native"
	"verifh/kit/ledgerkit"
	"verifh/kit/vio"
)

// ctrAddr: a counter contract (not idempotent on purpose): "inc k" reads the decimal value stored under k, adds one and
// writes it back.  A block whose effects are applied twice (or never) is therefore visible in the contract storage itself.
var ctrAddr = common.Address{0xff, 0x03}

func runCtr(ns *native.NativeService) ([]byte, error) {
	var keys []string
	if err := json.Unmarshal(ns.GetInput(), &keys); err != nil {
		return nil, fmt.Errorf("ctr: bad input: %v", err)
	}
	for _, k := range keys {
		key := append(append([]byte{}, ctrAddr[:]...), []byte(k)...)
		raw, err := ns.GetCacheDB().Get(key)
		if err != nil {
			return nil, err
		}
		n := 0
		if raw != nil {
			v, err := cstates.GetValueFromRawStorageItem(raw)
			if err != nil {
				return nil, err
			}
			n, _ = strconv.Atoi(string(v))
		}
		ns.GetCacheDB().Put(key, cstates.GenRawStorageItem([]byte(strconv.Itoa(n+1))))
	}
	return []byte{1}, nil
}

func setupGlobals() {
	log.InitLog(log.ErrorLog) // no writers: discard
	ledgerkit.RegisterProbe()
	native.Contracts[ctrAddr] = func(ns *native.NativeService) { ns.Register("inc", runCtr) }
	config.DefConfig.Common.EnableEventLog = true
}

func ctrTx(keys []string, nonce uint32) *types.Transaction {
	b, _ := json.Marshal(keys)
	return ledgerkit.InvokeTx(ctrAddr, "inc", b, nonce)
}

// blockScript: the transactions of one block, as data (so that all processes of one case build identical blocks).
type txScript struct {
	Probe []ledgerkit.Step `json:"probe,omitempty"`
	Inc   []string         `json:"inc,omitempty"`
}
type blockScript struct {
	Txs []txScript `json:"txs"`
	Dt  uint32     `json:"dt,omitempty"` // timestamp step over the parent (default 1)
}

var probeKeys = []string{"a", "b", "c"}

// genScript makes n blocks of state-changing transactions.  Block h always increments its own counter c<h> and "total"
// (applied-exactly-once observation) and carries a seeded mix of puts, deletes, cross-chain records, notifications,
// a failing transaction (rolled back) and a nested call.
func genScript(rng *vio.RNG, n int) []blockScript {
	var res []blockScript
	for h := 1; h <= n; h++ {
		var bs blockScript
		bs.Txs = append(bs.Txs, txScript{Inc: []string{fmt.Sprintf("c%d", h), "total"}})
		nt := 1 + rng.Intn(3)
		for t := 0; t < nt; t++ {
			var steps []ledgerkit.Step
			ns := 1 + rng.Intn(3)
			for s := 0; s < ns; s++ {
				k := probeKeys[rng.Intn(len(probeKeys))]
				switch rng.Intn(7) {
				case 0, 1:
					steps = append(steps, ledgerkit.Step{Op: "put", K: k, V: fmt.Sprintf("v%d.%d.%d", h, t, s)})
				case 2:
					steps = append(steps, ledgerkit.Step{Op: "del", K: k})
				case 3:
					steps = append(steps, ledgerkit.Step{Op: "rec", K: fmt.Sprintf("r%d.%d.%d", h, t, s)})
				case 4:
					steps = append(steps, ledgerkit.Step{Op: "notify", K: fmt.Sprintf("n%d.%d.%d", h, t, s)})
				case 5:
					steps = append(steps, ledgerkit.Step{Op: "call", Steps: []ledgerkit.Step{{Op: "put", K: k, V: fmt.Sprintf("w%d.%d.%d", h, t, s)}}})
				case 6:
					steps = append(steps, ledgerkit.Step{Op: "put", K: k, V: "doomed"}, ledgerkit.Step{Op: "fail"})
				}
			}
			bs.Txs = append(bs.Txs, txScript{Probe: steps})
		}
		// every block changes state through the probe contract too
		bs.Txs = append(bs.Txs, txScript{Probe: []ledgerkit.Step{{Op: "put", K: "h", V: fmt.Sprintf("%d", h)}, {Op: "rec", K: fmt.Sprintf("x%d", h)}, {Op: "notify", K: fmt.Sprintf("blk%d", h)}}})
		bs.Dt = 1 + uint32(rng.Intn(3))
		res = append(res, bs)
	}
	return res
}

func buildTxs(bs blockScript, h uint32) []*types.Transaction {
	var txs []*types.Transaction
	for i, t := range bs.Txs {
		nonce := h*1000 + uint32(i)
		if t.Inc != nil {
			txs = append(txs, ctrTx(t.Inc, nonce))
		} else {
			txs = append(txs, ledgerkit.ProbeTx(t.Probe, nonce))
		}
	}
	return txs
}

// storedBlock: a block as bytes together with the state root the sync path needs.
type storedBlock struct {
	H         uint32   `json:"h"`
	Hex       string   `json:"hex"`
	StateRoot string   `json:"stateRoot"`
	Hash      string   `json:"hash"`
	Txs       []string `json:"txs"`
}

func (sb *storedBlock) block() *types.Block {
	b, err := types.BlockFromRawBytes(vio.UnHex(sb.Hex))
	if err != nil {
		panic(err)
	}
	return b
}

func storeBlock(b *types.Block, stateRoot common.Uint256) storedBlock {
	h := b.Hash()
	sb := storedBlock{H: b.Header.Height, Hex: hex.EncodeToString(b.ToArray()), StateRoot: stateRoot.ToHexString(), Hash: h.ToHexString()}
	for _, t := range b.Transactions {
		th := t.Hash()
		sb.Txs = append(sb.Txs, th.ToHexString())
	}
	return sb
}

func writeJSON(path string, v interface{}) {
	b, err := json.Marshal(v)
	vio.Must(err)
	vio.Must(os.WriteFile(path, b, 0644))
}

func readJSON(path string, v interface{}) {
	b, err := os.ReadFile(path)
	vio.Must(err)
	vio.Must(json.Unmarshal(b, v))
}

// ---------------------------------------------------------------- projection

type heightInfo struct {
	H         uint32   `json:"h"`
	Hash      string   `json:"hash"`      // GetBlockHash(h)
	HdrHash   string   `json:"hdr"`       // hash of GetHeaderByHeight(h)
	Prev      string   `json:"prev"`      // its PrevBlockHash
	Ts        uint32   `json:"ts"`        // its timestamp
	BlockRoot string   `json:"blockRoot"` // its BlockRoot
	BlkHash   string   `json:"blk"`       // hash of GetBlockByHash(hash)
	Txs       []string `json:"txs"`       // tx hashes of that block
	TxLookup  []string `json:"txl"`       // "<hash>@<height>" from GetTransaction for each of them
	StateRoot string   `json:"stateRoot"` // GetStateMerkleRoot(h)
	CrossRoot string   `json:"crossRoot"` // GetCrossStateRoot(h)
	Events    []string `json:"events"`    // tx:state:len(notify) of GetEventNotifyByBlock(h)
	Proof     string   `json:"proof"`     // digest of GetMerkleProof(hash, h, current)
}

type fullProj struct {
	ledgerkit.Projection
	TreeRoot string            `json:"treeRoot"`
	Ctr      map[string]string `json:"ctr"`
	Heights  []heightInfo      `json:"heights"`
	Digest   string            `json:"digest"`
}

func short(b []byte) string {
	s := sha256.Sum256(b)
	return hex.EncodeToString(s[:8])
}

func project(lg *ledgerkit.Ledger, nctr int) (fp fullProj) {
	l := lg.L
	fp.Projection = lg.Project(append(append([]string{}, probeKeys...), "h"))
	tr := l.VerifBlockTreeRoot()
	fp.TreeRoot = tr.ToHexString()
	fp.Ctr = map[string]string{}
	ck := []string{"total"}
	for i := 1; i <= nctr; i++ {
		ck = append(ck, fmt.Sprintf("c%d", i))
	}
	for _, k := range ck {
		it, err := l.GetStorageItem(&cstates.StorageKey{ContractAddress: ctrAddr, Key: []byte(k)})
		if err != nil || it == nil {
			fp.Ctr[k] = "0"
		} else {
			fp.Ctr[k] = string(it.Value)
		}
	}
	top := fp.BlockHeight
	if fp.HeaderHeight > top {
		top = fp.HeaderHeight
	}
	for h := uint32(0); h <= top; h++ {
		hi := heightInfo{H: h}
		bh := l.GetBlockHash(h)
		hi.Hash = bh.ToHexString()
		if hdr, err := l.GetHeaderByHeight(h); err == nil && hdr != nil {
			hh := hdr.Hash()
			hi.HdrHash = hh.ToHexString()
			hi.Prev = hdr.PrevBlockHash.ToHexString()
			hi.Ts = hdr.Timestamp
			hi.BlockRoot = hdr.BlockRoot.ToHexString()
		} else {
			hi.HdrHash = "<none>"
		}
		if blk, err := l.GetBlockByHash(bh); err == nil && blk != nil {
			x := blk.Hash()
			hi.BlkHash = x.ToHexString()
			for _, t := range blk.Transactions {
				th := t.Hash()
				hi.Txs = append(hi.Txs, th.ToHexString())
				if tx, at, err := l.GetTransaction(th); err == nil && tx != nil {
					g := tx.Hash()
					hi.TxLookup = append(hi.TxLookup, fmt.Sprintf("%s@%d", g.ToHexString(), at))
				} else {
					hi.TxLookup = append(hi.TxLookup, "<none>")
				}
			}
		} else {
			hi.BlkHash = "<none>"
		}
		if r, err := l.GetStateMerkleRoot(h); err == nil {
			hi.StateRoot = r.ToHexString()
		} else {
			hi.StateRoot = "<none>"
		}
		if r, err := l.GetCrossStateRoot(h); err == nil {
			hi.CrossRoot = r.ToHexString()
		} else {
			hi.CrossRoot = "<err>"
		}
		if evs, err := l.GetEventNotifyByBlock(h); err == nil {
			for _, e := range evs {
				hi.Events = append(hi.Events, fmt.Sprintf("%s:%d:%d", e.TxHash.ToHexString()[:16], e.State, len(e.Notify)))
			}
		} else {
			hi.Events = []string{"<none>"}
		}
		if h <= fp.BlockHeight {
			var pf []byte
			var perr error
			if p := vio.Safe(func() { pf, perr = l.GetMerkleProof(bh[:], h, fp.BlockHeight) }); p != "" {
				hi.Proof = "<panic>"
			} else if perr != nil {
				hi.Proof = "<err>"
			} else {
				hi.Proof = short(pf)
			}
		}
		fp.Heights = append(fp.Heights, hi)
	}
	fp.Digest = ""
	b, _ := json.Marshal(fp)
	fp.Digest = short(b)
	return fp
}

// diff lists the top-level differences of two projections (for reports).
func diffProj(a, b fullProj) []string {
	var d []string
	am, bm := map[string]interface{}{}, map[string]interface{}{}
	x, _ := json.Marshal(a)
	y, _ := json.Marshal(b)
	json.Unmarshal(x, &am)
	json.Unmarshal(y, &bm)
	var keys []string
	for k := range am {
		keys = append(keys, k)
	}
	sort.Strings(keys)
	for _, k := range keys {
		if k == "digest" {
			continue
		}
		u, _ := json.Marshal(am[k])
		v, _ := json.Marshal(bm[k])
		if string(u) != string(v) {
			if k == "heights" {
				ah, bh := a.Heights, b.Heights
				for i := 0; i < len(ah) || i < len(bh); i++ {
					if i >= len(ah) || i >= len(bh) {
						d = append(d, fmt.Sprintf("heights[%d]: present in one only", i))
						continue
					}
					var pm, qm map[string]interface{}
					p, _ := json.Marshal(ah[i])
					q, _ := json.Marshal(bh[i])
					json.Unmarshal(p, &pm)
					json.Unmarshal(q, &qm)
					var fk []string
					for f := range pm {
						fk = append(fk, f)
					}
					sort.Strings(fk)
					for _, f := range fk {
						x, _ := json.Marshal(pm[f])
						y, _ := json.Marshal(qm[f])
						if string(x) != string(y) {
							d = append(d, fmt.Sprintf("heights[%d].%s: %s != %s", i, f, x, y))
						}
					}
				}
			} else {
				d = append(d, fmt.Sprintf("%s: %s != %s", k, u, v))
			}
		}
	}
	return d
}
