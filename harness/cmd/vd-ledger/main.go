// vd-ledger: drivers for the ledger store (C12 crash recovery with real processes, C13 ledger growth).
package main

import (
	"os"
	"strconv"

	"verifh/kit/vio"
)

func atoi(s string) int {
	n, err := strconv.Atoi(s)
	if err != nil {
		vio.Fatal("bad number %q", s)
	}
	return n
}

func main() {
	defer vio.Flush()
	if len(os.Args) < 2 {
		vio.Fatal("usage: vd-ledger <cmd> ...")
	}
	switch os.Args[1] {
	case "child":
		childMain(os.Args[2])
	case "c12-replay": // <nscripts> <nblocks>; stdin: cases
		c12Replay(atoi(os.Args[2]), atoi(os.Args[3]))
	case "c13-replay": // <nctr>; stdin: one history (JSON array) per line
		c13Replay(atoi(os.Args[2]))
	default:
		vio.Fatal("unknown command %s", os.Args[1])
	}
}
