package main

import (
	"crypto/sha256"
	"encoding/json"
	"fmt"
	"os"
	"path/filepath"
	"runtime"
	"sort"
	"sync"

	"github.com/ontio/ontology-crypto/keypair"
	"github.com/polynetwork/poly/account"
	"github.com/polynetwork/poly/common"
	"github.com/polynetwork/poly/core/signature"
	"github.com/polynetwork/poly/core/types"
	"github.com/polynetwork/poly/merkle"
	"verifh/kit/ledgerkit"
	"verifh/kit/vio"
)

// ---------------------------------------------------------------- abstract records printed by TLC (spec/Ledger.tla)

type absBlock struct {
	H    int      `json:"h"`
	V    int      `json:"v"`
	Prev [2]int   `json:"prev"`
	Ts   int      `json:"ts"`
	Root [][2]int `json:"root"`
}

type absObs struct {
	Block   int      `json:"block"`
	State   int      `json:"state"`
	Tree    int      `json:"tree"`
	Applied []int    `json:"applied"`
	Events  []bool   `json:"events"`
	Chain   [][2]int `json:"chain"`
	Hdr     int      `json:"hdr"`
}

type histRec struct {
	E       string    `json:"e"` // open | offer | header | crash | reopen
	Kind    string    `json:"kind,omitempty"`
	Path    string    `json:"path,omitempty"`
	Cur     int       `json:"cur"`
	B       *absBlock `json:"b,omitempty"`
	Verdict string    `json:"verdict,omitempty"`
	OK      bool      `json:"ok"`
	Obs     *absObs   `json:"obs,omitempty"`
}

type c13Case struct {
	ID   int       `json:"id"`
	Hist []histRec `json:"hist"`
}

// ---------------------------------------------------------------- concretization of abstract blocks

type concretizer struct {
	acct    *account.Account
	genesis *types.Block
	blocks  map[[2]int]*types.Block // by abstract id <<h, v>>
	hashes  map[[2]int]common.Uint256
	table   map[[2]int]*absBlock // every abstract block that occurs in the behaviour, by id
	salt    string
}

func (c *concretizer) hashOf(id [2]int) common.Uint256 {
	if id == [2]int{-1, 0} {
		return common.UINT256_EMPTY
	}
	if h, ok := c.hashes[id]; ok {
		return h
	}
	if ab, ok := c.table[id]; ok { // occurs later in the behaviour: the same block, built now
		b := c.block(ab)
		return b.Hash()
	}
	// a hash nobody knows (unknown parent, garbage leaf): derived from the id, never registered
	return common.Uint256(sha256.Sum256([]byte(fmt.Sprintf("unknown-%s-%d-%d", c.salt, id[0], id[1]))))
}

// accRoot is the accumulator root over the given leaves, computed with a fresh tree (independent of the ledger's own tree).
func accRoot(leaves []common.Uint256) common.Uint256 {
	t := merkle.NewTree(0, nil, nil)
	for _, l := range leaves {
		t.Append(l.ToArray())
	}
	return t.Root()
}

func (c *concretizer) block(ab *absBlock) *types.Block {
	id := [2]int{ab.H, ab.V}
	if b, ok := c.blocks[id]; ok {
		return b
	}
	h := uint32(ab.H)
	txs := []*types.Transaction{
		ctrTx([]string{fmt.Sprintf("c%d", ab.H), "total"}, uint32(ab.H*1000+ab.V*10)),
		ledgerkit.ProbeTx([]ledgerkit.Step{{Op: "put", K: "h", V: fmt.Sprintf("%d.%d", ab.H, ab.V)}, {Op: "put", K: probeKeys[(ab.H+ab.V)%3], V: fmt.Sprintf("p%d.%d", ab.H, ab.V)},
			{Op: "rec", K: fmt.Sprintf("x%d.%d", ab.H, ab.V)}, {Op: "notify", K: "n"}}, uint32(ab.H*1000+ab.V*10+1)),
	}
	var th []common.Uint256
	for _, t := range txs {
		th = append(th, t.Hash())
	}
	var leaves []common.Uint256
	for _, l := range ab.Root {
		leaves = append(leaves, c.hashOf(l))
	}
	nb, _ := types.AddressFromBookkeepers([]keypair.PublicKey{c.acct.PublicKey})
	hdr := &types.Header{
		ChainID:          c.genesis.Header.ChainID,
		PrevBlockHash:    c.hashOf(ab.Prev),
		TransactionsRoot: common.ComputeMerkleRoot(th),
		BlockRoot:        accRoot(leaves),
		Timestamp:        c.genesis.Header.Timestamp + uint32(ab.Ts),
		Height:           h,
		ConsensusData:    uint64(ab.V)*1000 + uint64(ab.H),
		NextBookkeeper:   nb,
	}
	b := &types.Block{Header: hdr, Transactions: txs}
	hash := b.Hash()
	sig, err := signature.Sign(c.acct, hash[:])
	vio.Must(err)
	hdr.Bookkeepers = append(hdr.Bookkeepers, c.acct.PublicKey)
	hdr.SigData = append(hdr.SigData, sig)
	// through the wire format, as a block received from a peer
	b2, err := types.BlockFromRawBytes(b.ToArray())
	vio.Must(err)
	c.blocks[id] = b2
	c.hashes[id] = b2.Hash()
	return b2
}

// ---------------------------------------------------------------- replay

type stepRes struct {
	I       int      `json:"i"`
	E       string   `json:"e"`
	Kind    string   `json:"kind"`
	Path    string   `json:"path,omitempty"`
	Pred    string   `json:"pred"`
	Got     string   `json:"got"`
	Err     string   `json:"err,omitempty"`
	Changed []string `json:"changed,omitempty"` // not committed, yet the projection differs (what differs)
	ObsDiff []string `json:"obsDiff,omitempty"` // abstract observation differs from the specification's
	Struct  []string `json:"struct,omitempty"`  // committed chain is not gap-free / parent-linked / time-ordered / rooted
	Lookup  []string `json:"lookup,omitempty"`  // lookups do not return what was committed
	Panic   string   `json:"panic,omitempty"`
}

type c13Result struct {
	ID     int       `json:"id"`
	Steps  int       `json:"steps"`
	Bad    []stepRes `json:"bad,omitempty"`
	Sig    []string  `json:"sig"` // (kind,path,verdict) per step, for the distinct-case count
	Failed string    `json:"failed,omitempty"`
}

// structural check of the committed chain as the ledger reports it (the property itself, evaluated on the real ledger)
func structural(p *fullProj) []string {
	var bad []string
	var hashes []common.Uint256
	for i, hi := range p.Heights {
		if uint32(i) > p.BlockHeight {
			break
		}
		if hi.H != uint32(i) || hi.Hash != hi.HdrHash || hi.Hash != hi.BlkHash {
			bad = append(bad, fmt.Sprintf("height %d: index/header/block disagree (%s %s %s)", i, hi.Hash[:8], hi.HdrHash[:8], hi.BlkHash[:8]))
		}
		if i > 0 {
			pr := p.Heights[i-1]
			if hi.Prev != pr.Hash {
				bad = append(bad, fmt.Sprintf("height %d: previous-block hash %s is not the hash of block %d (%s)", i, hi.Prev[:8], i-1, pr.Hash[:8]))
			}
			if hi.Ts <= pr.Ts {
				bad = append(bad, fmt.Sprintf("height %d: timestamp %d not later than %d", i, hi.Ts, pr.Ts))
			}
			leaves := append([]common.Uint256{common.UINT256_EMPTY}, hashes...)
			want := accRoot(leaves)
			if hi.BlockRoot != want.ToHexString() {
				bad = append(bad, fmt.Sprintf("height %d: block root is not the accumulator root of the earlier block hashes", i))
			}
		}
		for k, t := range hi.Txs {
			if k >= len(hi.TxLookup) || hi.TxLookup[k] != fmt.Sprintf("%s@%d", t, i) {
				bad = append(bad, fmt.Sprintf("height %d: transaction %s is not found at its block", i, t[:8]))
			}
		}
		u, _ := common.Uint256FromHexString(hi.Hash)
		hashes = append(hashes, u)
	}
	return bad
}

func (c *concretizer) obsDiff(o *absObs, p *fullProj, nctr int) []string {
	var d []string
	if o == nil {
		return nil
	}
	if int(p.BlockHeight) != o.Block {
		d = append(d, fmt.Sprintf("block height %d, predicted %d", p.BlockHeight, o.Block))
	}
	if int(p.StateHeight) != o.State {
		d = append(d, fmt.Sprintf("state height %d, predicted %d", p.StateHeight, o.State))
	}
	if int(p.TreeSize) != o.Tree {
		d = append(d, fmt.Sprintf("tree size %d, predicted %d", p.TreeSize, o.Tree))
	}
	if int(p.HeaderHeight) != o.Hdr {
		d = append(d, fmt.Sprintf("header height %d, predicted %d", p.HeaderHeight, o.Hdr))
	}
	for i := 1; i < len(o.Applied) && i <= nctr; i++ {
		if p.Ctr[fmt.Sprintf("c%d", i)] != fmt.Sprintf("%d", o.Applied[i]) {
			d = append(d, fmt.Sprintf("block %d applied %s times, predicted %d", i, p.Ctr[fmt.Sprintf("c%d", i)], o.Applied[i]))
		}
	}
	for i, id := range o.Chain {
		if i >= len(p.Heights) {
			d = append(d, fmt.Sprintf("no block at height %d", i))
			continue
		}
		want := c.hashOf(id)
		if p.Heights[i].Hash != want.ToHexString() {
			d = append(d, fmt.Sprintf("block at height %d is not the predicted one <<%d,%d>>", i, id[0], id[1]))
		}
	}
	return d
}

func runC13Case(base, keys string, cs c13Case, nctr int) (res c13Result) {
	res.ID = cs.ID
	dir := filepath.Join(base, fmt.Sprintf("b-%d", cs.ID))
	os.RemoveAll(dir)
	defer func() {
		if os.Getenv("VERIF_KEEP") == "" {
			os.RemoveAll(dir)
		}
	}()
	accts := ledgerkit.LoadOrCreateAccounts(keys, 1)
	lg, err := ledgerkit.Open(dir, accts, false)
	if err != nil {
		res.Failed = "open: " + err.Error()
		return
	}
	defer lg.L.Close()
	cz := &concretizer{acct: accts[0], genesis: lg.Genesis, blocks: map[[2]int]*types.Block{}, hashes: map[[2]int]common.Uint256{}, table: map[[2]int]*absBlock{}, salt: fmt.Sprint(cs.ID)}
	for _, r := range cs.Hist {
		if r.B != nil {
			cz.table[[2]int{r.B.H, r.B.V}] = r.B
		}
	}
	cz.hashes[[2]int{0, 0}] = lg.Genesis.Hash()
	cz.blocks[[2]int{0, 0}] = lg.Genesis
	before := project(lg, nctr)
	for i, r := range cs.Hist {
		sr := stepRes{I: i, E: r.E, Kind: r.Kind, Path: r.Path, Pred: r.Verdict}
		switch r.E {
		case "open":
			sr.Pred, sr.Got = "open", "open"
			sr.ObsDiff = cz.obsDiff(r.Obs, &before, nctr)
		case "header":
			b := cz.block(r.B)
			var herr error
			sr.Panic = vio.Safe(func() { herr = lg.L.AddHeader(b.Header) })
			after := project(lg, nctr)
			if herr == nil {
				sr.Got = "accept"
			} else {
				sr.Got = "reject"
				sr.Err = herr.Error()
				if after.Digest != before.Digest {
					sr.Changed = diffProj(after, before)
				}
			}
			if after.BlockHeight != before.BlockHeight {
				sr.Changed = append(sr.Changed, "a header operation changed the block height")
			}
			sr.ObsDiff = cz.obsDiff(r.Obs, &after, nctr)
			before = after
		case "offer":
			b := cz.block(r.B)
			var oerr error
			sr.Panic = vio.Safe(func() {
				res, xerr := lg.L.ExecuteBlock(b)
				if r.Path == "add" {
					root := res.MerkleRoot
					if r.Kind == "sr_bad" {
						root = common.Uint256(sha256.Sum256([]byte("bad state root")))
					}
					oerr = lg.L.AddBlock(b, root)
				} else {
					_ = xerr
					oerr = lg.L.SubmitBlock(b, res)
				}
			})
			after := project(lg, nctr)
			switch {
			case oerr != nil:
				sr.Got = "reject"
				sr.Err = oerr.Error()
			case after.BlockHeight == before.BlockHeight:
				sr.Got = "noop"
			default:
				sr.Got = "commit"
			}
			if sr.Got != "commit" {
				if after.Digest != before.Digest {
					sr.Changed = diffProj(after, before)
				}
			} else {
				// committed: exactly one more block, and it is the offered one, found by height, by hash and by transaction
				bh := b.Hash()
				if after.BlockHeight != before.BlockHeight+1 || b.Header.Height != after.BlockHeight {
					sr.Lookup = append(sr.Lookup, fmt.Sprintf("height went %d -> %d on a block of height %d", before.BlockHeight, after.BlockHeight, b.Header.Height))
				} else if after.Heights[after.BlockHeight].Hash != bh.ToHexString() || after.BlockHash != bh.ToHexString() {
					sr.Lookup = append(sr.Lookup, "the block found at the new height is not the committed block")
				}
				for k := 0; k < len(before.Heights) && uint32(k) <= before.BlockHeight; k++ {
					x, _ := json.Marshal(before.Heights[k])
					y, _ := json.Marshal(after.Heights[k])
					// the inclusion proof is relative to the current root and legitimately changes
					var u, v heightInfo
					json.Unmarshal(x, &u)
					json.Unmarshal(y, &v)
					u.Proof, v.Proof = "", ""
					x, _ = json.Marshal(u)
					y, _ = json.Marshal(v)
					if string(x) != string(y) {
						sr.Lookup = append(sr.Lookup, fmt.Sprintf("records of the earlier height %d changed", k))
					}
				}
			}
			sr.Struct = structural(&after)
			sr.ObsDiff = cz.obsDiff(r.Obs, &after, nctr)
			before = after
		default:
			continue
		}
		if len(sr.Err) > 200 {
			sr.Err = sr.Err[:200]
		}
		res.Steps++
		res.Sig = append(res.Sig, fmt.Sprintf("%s/%s/%d/%s", r.Kind, r.Path, r.Cur, sr.Got))
		if sr.Pred != sr.Got || sr.Changed != nil || sr.ObsDiff != nil || sr.Struct != nil || sr.Lookup != nil || sr.Panic != "" {
			res.Bad = append(res.Bad, sr)
			if sr.Pred != sr.Got {
				break // the rest of the behaviour is no longer meaningful
			}
		}
	}
	return
}

func c13Replay(nctr int) {
	setupGlobals()
	base := filepath.Join(outDir(), fmt.Sprintf("c13-%d", os.Getpid()))
	vio.Must(os.MkdirAll(base, 0755))
	keys := filepath.Join(base, "keys")
	ledgerkit.LoadOrCreateAccounts(keys, 1)
	var cases []c13Case
	for i, ln := range vio.ReadLines() {
		var h []histRec
		vio.Must(json.Unmarshal(ln, &h))
		cases = append(cases, c13Case{ID: i, Hist: h})
	}
	workers := runtime.NumCPU()
	if workers > 16 {
		workers = 16
	}
	var mu sync.Mutex
	distinct := map[string]bool{}
	steps, bad := 0, 0
	vio.ParMap(len(cases), workers, func(i int) {
		r := runC13Case(base, keys, cases[i], nctr)
		mu.Lock()
		for _, s := range r.Sig {
			distinct[s] = true
		}
		steps += r.Steps
		mu.Unlock()
		if r.Bad != nil || r.Failed != "" {
			mu.Lock()
			bad++
			mu.Unlock()
			r.Sig = nil
			vio.Emit(r)
		}
	})
	var ds []string
	for s := range distinct {
		ds = append(ds, s)
	}
	sort.Strings(ds)
	vio.Emit(map[string]interface{}{"summary": true, "cases": len(cases), "steps": steps, "bad": bad, "distinct": len(ds), "distinctList": ds})
}
