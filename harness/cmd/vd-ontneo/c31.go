package main

import (
	"encoding/json"
	"fmt"
	"sort"

	"github.com/polynetwork/poly/common"
	cstates "github.com/polynetwork/poly/core/states"
	hscom "github.com/polynetwork/poly/native/service/header_sync/common"
	"github.com/polynetwork/poly/native/service/header_sync/ont"
	"github.com/polynetwork/poly/native/service/utils"

	"verifh/kit/nativekit"
	"verifh/kit/vio"
)

// abstract header of spec/OntNeoSync.tla
type syncHdr struct {
	H    int   `json:"h"`
	Cfg  int   `json:"cfg"`
	Ws   int   `json:"ws"`
	By   int   `json:"by"`
	Bks  []int `json:"bks"`
	Sigs []int `json:"sigs"`
}

type syncState struct {
	// ont
	Stored []int          `json:"stored,omitempty"`
	Peers  map[string]int `json:"peers,omitempty"`
	// neo
	Nh int `json:"nh"`
	Nc int `json:"nc"`
}

type syncEdge struct {
	Chain string      `json:"chain"`
	Flav  string      `json:"flavour"` // neo | neo3 (concretization of Chain = "neo")
	Hist  [][]syncHdr `json:"hist"`
	Src   syncState   `json:"src"`
	Call  []syncHdr   `json:"call"`
	MaxH  int         `json:"maxh"`
	Idx   *int        `json:"idx,omitempty"`
}

type syncObs struct {
	I        int       `json:"i"`
	Pre      syncState `json:"pre"`
	Ok       bool      `json:"ok"`
	Post     syncState `json:"post"`
	Panic    string    `json:"panic,omitempty"`
	Diverged string    `json:"diverged,omitempty"`
	Setup    string    `json:"setup,omitempty"`
	Anomaly  string    `json:"anomaly,omitempty"`
	Concr    string    `json:"concr"`
}

func c31Edges() {
	lines := vio.ReadLines()
	edges := make([]syncEdge, len(lines))
	for i, l := range lines {
		vio.Must(json.Unmarshal(l, &edges[i]))
	}
	obs := make([]syncObs, len(edges))
	const chunk = 64
	vio.ParMap((len(edges)+chunk-1)/chunk, 8, func(c int) {
		u := newUniverse()
		defer u.close()
		for i := c * chunk; i < (c+1)*chunk && i < len(edges); i++ {
			idx := i
			if edges[i].Idx != nil {
				idx = *edges[i].Idx
			}
			r := vio.NewRNG(vio.Seed()*1000003 + uint64(idx)*7919 + 31)
			switch edges[i].Chain {
			case "ont":
				obs[i] = c31Ont(u, i, &edges[i], r)
			case "neo":
				obs[i] = c31Neo(u, i, &edges[i], r)
			default:
				vio.Fatal("unknown chain %q", edges[i].Chain)
			}
		}
	})
	distinct := map[string]bool{}
	for i, o := range obs {
		o.Panic, o.Diverged, o.Setup, o.Anomaly = clean(o.Panic), clean(o.Diverged), clean(o.Setup), clean(o.Anomaly)
		vio.Emit(o)
		if o.Diverged == "" && o.Setup == "" {
			a, _ := json.Marshal(edges[i].Src)
			b, _ := json.Marshal(edges[i].Call)
			distinct[edges[i].Chain+edges[i].Flav+string(a)+string(b)] = true
		}
	}
	vio.Emit(map[string]interface{}{"summary": true, "edges": len(edges), "distinct": len(distinct)})
}

// ---------------------------------------------------------------------------------------------- Ontology

var ontSets = map[int][]int{1: {1, 2, 3, 4}, 2: {4, 5, 6, 7, 8, 9, 10}} // spec OntSets

type ontSync struct {
	w    *ontWorld
	keys map[int]*okey
	r    *vio.RNG
	maxH int
}

func ontHeightOf(h int) uint32 { return uint32(10 * h) }

func (s *ontSync) members(set int) []*okey {
	var ks []*okey
	for _, id := range ontSets[set] {
		ks = append(ks, s.keys[id])
	}
	return ks
}

func (s *ontSync) header(a *syncHdr) []byte {
	var announce, bks, signers []*okey
	if a.Cfg != 0 {
		announce = s.members(a.Cfg)
	}
	for _, b := range a.Bks {
		bks = append(bks, s.keys[b])
	}
	for _, g := range a.Sigs {
		signers = append(signers, s.keys[g]) // keys[0] == nil: bad signature
	}
	return headerBytes(ontHeader(s.r, ontHeightOf(a.H), announce, bks, signers))
}

func (s *ontSync) call(batch []syncHdr) (ok bool, panicked string) {
	p := &hscom.SyncBlockHeaderParam{ChainID: s.w.chain, Address: s.w.op.Address}
	for k := range batch {
		p.Headers = append(p.Headers, s.header(&batch[k]))
	}
	return s.w.syncRaw(p)
}

func (s *ontSync) state() (st syncState, anomaly string) {
	st.Peers = map[string]int{}
	ns := s.w.sb.Service(nativekit.Tx(), nil)
	kh := map[uint32]int{}
	for _, v := range s.w.keyHeights() {
		kh[v]++
	}
	for h := 0; h <= s.maxH; h++ {
		H := ontHeightOf(h)
		if s.w.storedHeader(H) != nil {
			st.Stored = append(st.Stored, h)
		}
		raw, _ := ns.GetCacheDB().Get(utils.ConcatKey(utils.HeaderSyncContractAddress, []byte(hscom.CONSENSUS_PEER),
			utils.GetUint64Bytes(s.w.chain), utils.GetUint32Bytes(H)))
		set := 0
		if raw != nil {
			b, err := cstates.GetValueFromRawStorageItem(raw)
			vio.Must(err)
			cp := new(ont.ConsensusPeers)
			vio.Must(cp.Deserialization(common.NewZeroCopySource(b)))
			set = s.setOf(cp)
		}
		switch {
		case kh[H] == 0 && set != 0:
			anomaly += fmt.Sprintf("peer record at %d without key height; ", h)
			set = 0
		case kh[H] > 0 && set == 0:
			anomaly += fmt.Sprintf("key height %d without peer record; ", h)
			set = -2
		case kh[H] > 1:
			anomaly += fmt.Sprintf("key height %d listed %d times; ", h, kh[H])
		}
		delete(kh, H)
		st.Peers[fmt.Sprint(h)] = set
	}
	for H := range kh {
		anomaly += fmt.Sprintf("unexpected key height %d; ", H)
	}
	sort.Ints(st.Stored)
	return
}

// setOf: which spec set a stored peer record equals (-1: none of them)
func (s *ontSync) setOf(cp *ont.ConsensusPeers) int {
	for id := range ontSets {
		ms := s.members(id)
		if len(ms) != len(cp.PeerMap) {
			continue
		}
		all := true
		for _, k := range ms {
			if _, ok := cp.PeerMap[k.id()]; !ok {
				all = false
			}
		}
		if all {
			return id
		}
	}
	return -1
}

func c31Ont(u *universe, i int, e *syncEdge, r *vio.RNG) (o syncObs) {
	o.I = i
	s := &ontSync{w: u.ontWorld(), keys: map[int]*okey{}, r: r, maxH: e.MaxH}
	for id := 1; id <= 11; id++ {
		s.keys[id] = newOKey(r)
	}
	if err := s.w.genesis(ontHeader(r, 0, s.members(1), nil, nil)); err != nil {
		o.Setup = "genesis: " + err.Error()
		return
	}
	for k := range e.Hist {
		if ok, p := s.call(e.Hist[k]); !ok || p != "" {
			o.Diverged = fmt.Sprintf("history step %d not accepted (panic=%q)", k, p)
			return
		}
	}
	o.Pre, o.Anomaly = s.state()
	if !sameOntState(&o.Pre, &e.Src) {
		o.Diverged = "history did not lead to the source state"
		return
	}
	o.Ok, o.Panic = s.call(e.Call)
	var an string
	o.Post, an = s.state()
	o.Anomaly += an
	return
}

func sameOntState(a, b *syncState) bool {
	x, _ := json.Marshal(a)
	y, _ := json.Marshal(b)
	return string(x) == string(y)
}

// clean keeps printable ASCII only (error texts of the code under test may embed raw key bytes; python's splitlines
// would split an NDJSON line at U+0085 etc.).
func clean(s string) string {
	b := []byte(s)
	for i, c := range b {
		if c < 0x20 || c > 0x7e {
			b[i] = '?'
		}
	}
	if len(b) > 600 {
		b = b[:600]
	}
	return string(b)
}
