package main

import (
	"crypto/sha256"
	"encoding/hex"
	"sort"

	nblock "github.com/joeqian10/neo-gogogo/block"
	ncrypto "github.com/joeqian10/neo-gogogo/crypto"
	nhelper "github.com/joeqian10/neo-gogogo/helper"
	nsc "github.com/joeqian10/neo-gogogo/sc"
	ntx "github.com/joeqian10/neo-gogogo/tx"
	nkeys "github.com/joeqian10/neo-gogogo/wallet/keys"
	n3block "github.com/joeqian10/neo3-gogogo/block"
	n3crypto "github.com/joeqian10/neo3-gogogo/crypto"
	n3helper "github.com/joeqian10/neo3-gogogo/helper"
	n3keys "github.com/joeqian10/neo3-gogogo/keys"
	n3sc "github.com/joeqian10/neo3-gogogo/sc"
	n3tx "github.com/joeqian10/neo3-gogogo/tx"
	"github.com/polynetwork/poly/common"
	cstates "github.com/polynetwork/poly/core/states"
	hs "github.com/polynetwork/poly/native/service/header_sync"
	hscom "github.com/polynetwork/poly/native/service/header_sync/common"
	"github.com/polynetwork/poly/native/service/header_sync/neo"
	"github.com/polynetwork/poly/native/service/header_sync/neo3"
	"github.com/polynetwork/poly/native/service/utils"

	"verifh/kit/nativekit"
	"verifh/kit/vio"
)

// nkey is a secp256r1 key usable with both NEO libraries (same curve, same raw 32-byte private key).
type nkey struct {
	priv []byte
	k2   *nkeys.KeyPair
	k3   *n3keys.KeyPair
}

func newNKey(r *vio.RNG) *nkey {
	d := r.Bytes(32)
	d[0] &= 0x7f
	d[31] |= 1
	k2, err := nkeys.NewKeyPair(d)
	vio.Must(err)
	k3, err := n3keys.NewKeyPair(d)
	vio.Must(err)
	return &nkey{priv: d, k2: k2, k3: k3}
}

// nscript is an m-of-n multi-signature script over keys (kept in the libraries' sorted order).
type nscript struct {
	m    int
	keys []*nkey
	v3   bool // order keys the way neo3-gogogo does
}

func newNScript(r *vio.RNG, n, m int, v3 bool) *nscript {
	s := &nscript{m: m, v3: v3}
	for i := 0; i < n; i++ {
		s.keys = append(s.keys, newNKey(r))
	}
	s.sort()
	return s
}

func (s *nscript) sort() {
	sort.Slice(s.keys, func(i, j int) bool {
		if s.v3 {
			return s.keys[i].k3.PublicKey.CompareTo(s.keys[j].k3.PublicKey) == -1
		}
		return s.keys[i].k2.PublicKey.Compare(s.keys[j].k2.PublicKey) == -1
	})
}

// variant returns another script derived from s ("lowm": threshold m-1; "subset": last key dropped; "foreign": last
// key replaced by a stranger's).
func (s *nscript) variant(r *vio.RNG, kind string) *nscript {
	v := &nscript{m: s.m, v3: s.v3, keys: append([]*nkey{}, s.keys...)}
	switch kind {
	case "tracked":
	case "lowm":
		v.m = s.m - 1
	case "subset":
		v.keys = v.keys[:len(v.keys)-1]
		if v.m > len(v.keys) {
			v.m = len(v.keys)
		}
	case "foreign":
		v.keys[len(v.keys)-1] = newNKey(r)
		v.sort()
	default:
		vio.Fatal("unknown script variant %q", kind)
	}
	return v
}

// legacy NEO verification script: PUSHm, (PUSHBYTES33 key)*n, PUSHn, CHECKMULTISIG
func (s *nscript) neoScript() []byte {
	b := nsc.NewScriptBuilder()
	vio.Must(b.EmitPushInt(s.m))
	for _, k := range s.keys {
		vio.Must(b.EmitPushBytes(k.k2.PublicKey.EncodeCompression()))
	}
	vio.Must(b.EmitPushInt(len(s.keys)))
	vio.Must(b.Emit(nsc.CHECKMULTISIG))
	return b.ToArray()
}

func (s *nscript) neoHash() nhelper.UInt160 {
	h, err := nhelper.UInt160FromBytes(ncrypto.Hash160(s.neoScript()))
	vio.Must(err)
	return h
}

func (s *nscript) neo3Script() []byte {
	var ps []n3crypto.ECPoint
	for _, k := range s.keys {
		ps = append(ps, *k.k3.PublicKey)
	}
	b, err := n3sc.CreateMultiSigRedeemScript(s.m, ps)
	vio.Must(err)
	return b
}

func (s *nscript) neo3Hash() *n3helper.UInt160 {
	return n3helper.UInt160FromBytes(n3crypto.Hash160(s.neo3Script()))
}

// signer picks the key for an abstract signer id relative to script s: 1..n = s's keys, 0 = bad signature, other = stranger
func (s *nscript) signer(r *vio.RNG, id int) *nkey {
	if id >= 1 && id <= len(s.keys) {
		return s.keys[id-1]
	}
	if id == 0 {
		return nil
	}
	return newNKey(r)
}

// rawSig: 64-byte signature of k over msg (sha256 inside, as both libraries do), or a bad one for k == nil.
func rawSig(r *vio.RNG, k *nkey, msg []byte, altMsg []byte) []byte {
	if k != nil {
		sg, err := k.k2.Sign(msg)
		vio.Must(err)
		return sg
	}
	switch r.Intn(3) {
	case 0:
		return r.Bytes(64)
	case 1: // a real key's signature over another message (e.g. another network magic / another root)
		sg, _ := newNKey(r).k2.Sign(altMsg)
		return sg
	default:
		sg, _ := newNKey(r).k2.Sign(msg)
		sg[10] ^= 0x40
		return sg
	}
}

func neoInvocation(sigs [][]byte) []byte {
	var b []byte
	for _, s := range sigs {
		b = append(b, 0x40)
		b = append(b, s...)
	}
	return b
}

func neo3Invocation(sigs [][]byte) []byte {
	var b []byte
	for _, s := range sigs {
		b = append(b, 0x0c, 0x40)
		b = append(b, s...)
	}
	return b
}

// ------------------------------------------------------------------------------------------- legacy NEO chain

type neoWorld struct {
	u     *universe
	chain uint64
}

func (u *universe) neoWorld() *neoWorld { return &neoWorld{u: u, chain: u.registerChain(utils.NEO_ROUTER, nil)} }

func neoHeaderBytes(h *nblock.BlockHeader) []byte {
	sink := common.NewZeroCopySink(nil)
	vio.Must((&neo.NeoBlockHeader{BlockHeader: h}).Serialization(sink))
	return sink.Bytes()
}

func neoUnsigned(h *nblock.BlockHeader) []byte {
	m, err := (&neo.NeoBlockHeader{BlockHeader: h}).GetMessage()
	vio.Must(err)
	return m
}

func (w *neoWorld) genesis(r *vio.RNG, index uint32, next nhelper.UInt160) error {
	h := &nblock.BlockHeader{Index: index, Timestamp: 1500000000, NextConsensus: next, Witness: &ntx.Witness{InvocationScript: []byte{}, VerificationScript: []byte{0x51}}}
	p := &hscom.SyncGenesisHeaderParam{ChainID: w.chain, GenesisHeader: neoHeaderBytes(h)}
	sink := common.NewZeroCopySink(nil)
	p.Serialization(sink)
	_, _, err := w.u.sb.Call(hs.SyncGenesisHeader, nativekit.Tx(w.u.op.Address), sink.Bytes())
	return err
}

func (w *neoWorld) sync(headers [][]byte) (ok bool, panicked string) {
	p := &hscom.SyncBlockHeaderParam{ChainID: w.chain, Address: w.u.op.Address, Headers: headers}
	sink := common.NewZeroCopySink(nil)
	p.Serialization(sink)
	panicked = vio.Safe(func() {
		_, _, err := w.u.sb.Call(hs.SyncBlockHeader, nativekit.Tx(w.u.op.Address), sink.Bytes())
		ok = err == nil
	})
	if panicked != "" {
		w.u.sb.Cache.Reset()
	}
	return
}

// tracked consensus as stored (nil if none)
func (w *neoWorld) consensus() *neo.NeoConsensus {
	raw, _ := w.u.sb.Service(nativekit.Tx(), nil).GetCacheDB().Get(utils.ConcatKey(utils.HeaderSyncContractAddress,
		[]byte(hscom.CONSENSUS_PEER), utils.GetUint64Bytes(w.chain)))
	if raw == nil {
		return nil
	}
	b, err := cstates.GetValueFromRawStorageItem(raw)
	vio.Must(err)
	c := new(neo.NeoConsensus)
	vio.Must(c.Deserialization(common.NewZeroCopySource(b)))
	return c
}

// ------------------------------------------------------------------------------------------------ NEO N3 chain

type neo3World struct {
	u     *universe
	chain uint64
	magic uint32
}

func (u *universe) neo3World(r *vio.RNG) *neo3World {
	magic := uint32(r.U64())
	return &neo3World{u: u, magic: magic, chain: u.registerChain(utils.NEO3_ROUTER, n3helper.UInt32ToBytes(magic))}
}

func neo3Message(magic uint32, unsigned []byte) []byte {
	h := sha256.Sum256(unsigned)
	return append(n3helper.UInt32ToBytes(magic), h[:]...)
}

func neo3HeaderBytes(h *n3block.Header) []byte {
	sink := common.NewZeroCopySink(nil)
	vio.Must((&neo3.NeoBlockHeader{Header: h}).Serialization(sink))
	return sink.Bytes()
}

func (w *neo3World) genesis(index uint32, next *n3helper.UInt160) error {
	h := n3block.NewBlockHeader()
	h.SetIndex(index)
	h.SetNextConsensus(next)
	h.Witness = &n3tx.Witness{InvocationScript: []byte{}, VerificationScript: []byte{0x11}}
	p := &hscom.SyncGenesisHeaderParam{ChainID: w.chain, GenesisHeader: neo3HeaderBytes(h)}
	sink := common.NewZeroCopySink(nil)
	p.Serialization(sink)
	_, _, err := w.u.sb.Call(hs.SyncGenesisHeader, nativekit.Tx(w.u.op.Address), sink.Bytes())
	return err
}

func (w *neo3World) sync(headers [][]byte) (ok bool, panicked string) {
	p := &hscom.SyncBlockHeaderParam{ChainID: w.chain, Address: w.u.op.Address, Headers: headers}
	sink := common.NewZeroCopySink(nil)
	p.Serialization(sink)
	panicked = vio.Safe(func() {
		_, _, err := w.u.sb.Call(hs.SyncBlockHeader, nativekit.Tx(w.u.op.Address), sink.Bytes())
		ok = err == nil
	})
	if panicked != "" {
		w.u.sb.Cache.Reset()
	}
	return
}

func (w *neo3World) consensus() *neo3.NeoConsensus {
	raw, _ := w.u.sb.Service(nativekit.Tx(), nil).GetCacheDB().Get(utils.ConcatKey(utils.HeaderSyncContractAddress,
		[]byte(hscom.CONSENSUS_PEER), utils.GetUint64Bytes(w.chain)))
	if raw == nil {
		return nil
	}
	b, err := cstates.GetValueFromRawStorageItem(raw)
	vio.Must(err)
	c := new(neo3.NeoConsensus)
	vio.Must(c.Deserialization(common.NewZeroCopySource(b)))
	return c
}

var _ = hex.EncodeToString
