package main

import (
	"crypto/elliptic"
	"encoding/json"

	"github.com/ontio/ontology-crypto/ec"
	"github.com/ontio/ontology-crypto/keypair"
	osig "github.com/ontio/ontology-crypto/signature"
	ocommon "github.com/ontio/ontology/common"
	otypes "github.com/ontio/ontology/core/types"
	"github.com/polynetwork/poly/account"
	"github.com/polynetwork/poly/common"
	vconfig "github.com/polynetwork/poly/consensus/vbft/config"
	scm "github.com/polynetwork/poly/native/service/governance/side_chain_manager"
	hs "github.com/polynetwork/poly/native/service/header_sync"
	hscom "github.com/polynetwork/poly/native/service/header_sync/common"
	"github.com/polynetwork/poly/native/service/header_sync/ont"
	"github.com/polynetwork/poly/native/service/utils"
	"golang.org/x/crypto/ed25519"

	"verifh/kit/nativekit"
	"verifh/kit/vio"
)


// okey is an Ontology-style validator key (deterministic from the seed).
type okey struct {
	priv   keypair.PrivateKey
	pub    keypair.PublicKey
	scheme osig.SignatureScheme
}

func (k *okey) id() string { return vconfig.PubkeyID(k.pub) }

// newOKey derives a key pair from the RNG: mostly ECDSA P-256, sometimes Ed25519 (both are legal Ontology keys).
func newOKey(r *vio.RNG) *okey {
	if r.Intn(5) == 0 {
		pk := ed25519.NewKeyFromSeed(r.Bytes(32))
		return &okey{priv: pk, pub: pk.Public().(ed25519.PublicKey), scheme: osig.SHA512withEDDSA}
	}
	d := r.Bytes(32)
	d[0] &= 0x7f // below the group order
	d[31] |= 1
	p := ec.ConstructPrivateKey(d, elliptic.P256())
	return &okey{priv: &ec.PrivateKey{Algorithm: ec.ECDSA, PrivateKey: p},
		pub: &ec.PublicKey{Algorithm: ec.ECDSA, PublicKey: &p.PublicKey}, scheme: osig.SHA256withECDSA}
}

func (k *okey) sign(data []byte) []byte {
	s, err := osig.Sign(k.scheme, k.priv, data, nil)
	vio.Must(err)
	b, err := osig.Serialize(s)
	vio.Must(err)
	return b
}

// ontWorld is one sandbox with the ONT side chain registered and one poly consensus validator (the operator).
type ontWorld struct {
	sb    *nativekit.Sandbox
	op    *account.Account
	chain uint64
}

// universe is one sandbox shared by many scenarios; every scenario gets its own side-chain id (all light-client
// storage keys carry the chain id), so scenarios do not see each other.
type universe struct {
	sb   *nativekit.Sandbox
	op   *account.Account
	next uint64
}

func newUniverse() *universe {
	sb := nativekit.New()
	accts := nativekit.Accounts(1)
	sb.SeedValidators(accts, 1)
	return &universe{sb: sb, op: accts[0], next: 1000}
}

func (u *universe) close() { u.sb.Store.Close() }

func (u *universe) registerChain(router uint64, extra []byte) uint64 {
	u.next++
	ns := u.sb.Service(nativekit.Tx(), nil)
	vio.Must(scm.PutSideChain(ns, &scm.SideChain{ChainId: u.next, Router: router, Name: "c", BlocksToWait: 1, CCMCAddress: []byte{1}, ExtraInfo: extra}))
	u.sb.Cache.Commit()
	return u.next
}

func (u *universe) ontWorld() *ontWorld {
	return &ontWorld{sb: u.sb, op: u.op, chain: u.registerChain(utils.ONT_ROUTER, nil)}
}

func chainConfigPayload(r *vio.RNG, announce []*okey) []byte {
	info := &vconfig.VbftBlockInfo{Proposer: 1, LastConfigBlockNum: 0}
	if announce != nil {
		cfg := &vconfig.ChainConfig{Version: 1, View: 1, N: uint32(len(announce)), C: uint32((len(announce) - 1) / 3)}
		for i, k := range announce {
			cfg.Peers = append(cfg.Peers, &vconfig.PeerConfig{Index: uint32(i + 1), ID: k.id()})
		}
		info.NewChainConfig = cfg
	}
	b, err := json.Marshal(info)
	vio.Must(err)
	return b
}

// ontHeader builds a real Ontology header at `height`, optionally announcing a new peer set, with the given
// bookkeeper list; sigs[i] is produced by signers[i] (nil = a signature that verifies under no key).
func ontHeader(r *vio.RNG, height uint32, announce []*okey, bks []*okey, signers []*okey) *otypes.Header {
	h := &otypes.Header{Version: 0, Height: height, Timestamp: 1600000000 + height, ConsensusData: r.U64(),
		ConsensusPayload: chainConfigPayload(r, announce)}
	copy(h.PrevBlockHash[:], r.Bytes(32))
	copy(h.TransactionsRoot[:], r.Bytes(32))
	copy(h.BlockRoot[:], r.Bytes(32))
	for _, k := range bks {
		h.Bookkeepers = append(h.Bookkeepers, k.pub)
	}
	hash := h.Hash()
	for _, k := range signers {
		h.SigData = append(h.SigData, sigOrBad(r, k, hash[:]))
	}
	return h
}

// sigOrBad: a valid signature of k over data, or (k == nil) one of several kinds of signature valid under no key.
func sigOrBad(r *vio.RNG, k *okey, data []byte) []byte {
	if k != nil {
		return k.sign(data)
	}
	other := newOKey(r)
	switch r.Intn(4) {
	case 0: // well-formed signature over a different message
		d2 := append([]byte{}, data...)
		d2[0] ^= 1
		return other.sign(d2)
	case 1: // one bit flipped in a once-valid signature
		s := other.sign(data)
		s[len(s)/2] ^= 0x10
		return s
	case 2: // structurally invalid
		return r.Bytes(1 + r.Intn(20))
	default: // valid signature by a key nobody listed
		return other.sign(data)
	}
}

func headerBytes(h *otypes.Header) []byte {
	sink := ocommon.NewZeroCopySink(nil)
	h.Serialization(sink)
	return sink.Bytes()
}

func (w *ontWorld) genesis(h *otypes.Header) error {
	p := &hscom.SyncGenesisHeaderParam{ChainID: w.chain, GenesisHeader: headerBytes(h)}
	sink := common.NewZeroCopySink(nil)
	p.Serialization(sink)
	_, _, err := w.sb.Call(hs.SyncGenesisHeader, nativekit.Tx(w.op.Address), sink.Bytes())
	return err
}

func (w *ontWorld) syncRaw(p *hscom.SyncBlockHeaderParam) (ok bool, panicked string) {
	sink := common.NewZeroCopySink(nil)
	p.Serialization(sink)
	panicked = vio.Safe(func() {
		_, _, err := w.sb.Call(hs.SyncBlockHeader, nativekit.Tx(w.op.Address), sink.Bytes())
		ok = err == nil
	})
	if panicked != "" {
		w.sb.Cache.Reset()
	}
	return
}

func (w *ontWorld) syncHeaders(hs_ ...*otypes.Header) (err error, panicked string) {
	p := &hscom.SyncBlockHeaderParam{ChainID: w.chain, Address: w.op.Address}
	for _, h := range hs_ {
		p.Headers = append(p.Headers, headerBytes(h))
	}
	sink := common.NewZeroCopySink(nil)
	p.Serialization(sink)
	panicked = vio.Safe(func() {
		_, _, err = w.sb.Call(hs.SyncBlockHeader, nativekit.Tx(w.op.Address), sink.Bytes())
	})
	if panicked != "" {
		w.sb.Cache.Reset()
	}
	return
}

func (w *ontWorld) storedHeader(height uint32) *otypes.Header {
	h, err := ont.GetHeaderByHeight(w.sb.Service(nativekit.Tx(), nil), w.chain, height)
	if err != nil {
		return nil
	}
	return h
}

func (w *ontWorld) keyHeights() []uint32 {
	kh, err := ont.GetKeyHeights(w.sb.Service(nativekit.Tx(), nil), w.chain)
	vio.Must(err)
	return kh.HeightList
}
