package main

import (
	"fmt"

	nblock "github.com/joeqian10/neo-gogogo/block"
	nhelper "github.com/joeqian10/neo-gogogo/helper"
	ntx "github.com/joeqian10/neo-gogogo/tx"
	n3block "github.com/joeqian10/neo3-gogogo/block"
	n3helper "github.com/joeqian10/neo3-gogogo/helper"
	n3io "github.com/joeqian10/neo3-gogogo/io"
	n3tx "github.com/joeqian10/neo3-gogogo/tx"

	"verifh/kit/vio"
)

// spec NeoScripts: id -> (n, m)
var neoScriptShapes = map[int][2]int{1: {4, 3}, 2: {1, 1}, 3: {7, 5}}

func neoIndexOf(h int) uint32 { return uint32(10 * h) }

type neoSync struct {
	flav    string
	w2      *neoWorld
	w3      *neo3World
	scripts map[int]*nscript
	r       *vio.RNG
}

func (s *neoSync) header(a *syncHdr) []byte {
	by := s.scripts[a.By]
	offered := s.scripts[a.Ws]
	next := s.scripts[a.Cfg]
	r := s.r
	if s.flav == "neo3" {
		h := n3block.NewBlockHeader()
		h.SetIndex(neoIndexOf(a.H))
		h.SetTimeStamp(1600000000000 + uint64(a.H))
		h.SetNonce(r.U64())
		h.SetPrevHash(n3helper.UInt256FromBytes(r.Bytes(32)))
		h.SetMerkleRoot(n3helper.UInt256FromBytes(r.Bytes(32)))
		h.SetNextConsensus(next.neo3Hash())
		bw := n3io.NewBufBinaryWriter()
		h.SerializeUnsigned(bw.BinaryWriter)
		vio.Must(bw.Err)
		msg := neo3Message(s.w3.magic, bw.Bytes())
		alt := neo3Message(s.w3.magic^0x55, bw.Bytes())
		var sigs [][]byte
		for _, g := range a.Sigs {
			sigs = append(sigs, rawSig(r, by.signer(r, g), msg, alt))
		}
		h.Witness = &n3tx.Witness{InvocationScript: neo3Invocation(sigs), VerificationScript: offered.neo3Script()}
		return neo3HeaderBytes(h)
	}
	h := &nblock.BlockHeader{Index: neoIndexOf(a.H), Timestamp: 1600000000 + uint32(a.H), ConsensusData: r.U64(), NextConsensus: next.neoHash()}
	copy(h.PrevHash[:], r.Bytes(32))
	copy(h.MerkleRoot[:], r.Bytes(32))
	h.Witness = &ntx.Witness{InvocationScript: []byte{}, VerificationScript: offered.neoScript()}
	msg := neoUnsigned(h)
	alt := append([]byte{}, msg...)
	alt[7] ^= 1
	var sigs [][]byte
	for _, g := range a.Sigs {
		sigs = append(sigs, rawSig(r, by.signer(r, g), msg, alt))
	}
	h.Witness.InvocationScript = neoInvocation(sigs)
	return neoHeaderBytes(h)
}

func (s *neoSync) call(batch []syncHdr) (bool, string) {
	var hs [][]byte
	for k := range batch {
		hs = append(hs, s.header(&batch[k]))
	}
	if s.flav == "neo3" {
		return s.w3.sync(hs)
	}
	return s.w2.sync(hs)
}

func (s *neoSync) state() (st syncState) {
	st.Nh, st.Nc = -1, -1
	if s.flav == "neo3" {
		c := s.w3.consensus()
		if c == nil {
			return
		}
		st.Nh, st.Nc = neoAbs(c.Height), 0
		for id, sc := range s.scripts {
			if sc.neo3Hash().Equals(c.NextConsensus) {
				st.Nc = id
			}
		}
		return
	}
	c := s.w2.consensus()
	if c == nil {
		return
	}
	st.Nh, st.Nc = neoAbs(c.Height), 0
	for id, sc := range s.scripts {
		if sc.neoHash() == c.NextConsensus {
			st.Nc = id
		}
	}
	return
}

func neoAbs(idx uint32) int {
	if idx%10 != 0 {
		return -1
	}
	return int(idx / 10)
}

func c31Neo(u *universe, i int, e *syncEdge, r *vio.RNG) (o syncObs) {
	o.I = i
	s := &neoSync{flav: e.Flav, scripts: map[int]*nscript{}, r: r}
	if s.flav == "" {
		s.flav = "neo"
	}
	for id, nm := range neoScriptShapes {
		s.scripts[id] = newNScript(r, nm[0], nm[1], s.flav == "neo3")
	}
	var err error
	if s.flav == "neo3" {
		s.w3 = u.neo3World(r)
		err = s.w3.genesis(0, s.scripts[1].neo3Hash())
	} else {
		s.w2 = u.neoWorld()
		err = s.w2.genesis(r, 0, s.scripts[1].neoHash())
	}
	o.Concr = s.flav
	if err != nil {
		o.Setup = "genesis: " + err.Error()
		return
	}
	for k := range e.Hist {
		if ok, p := s.call(e.Hist[k]); !ok || p != "" {
			o.Diverged = fmt.Sprintf("history step %d not accepted (panic=%q)", k, p)
			return
		}
	}
	o.Pre = s.state()
	if o.Pre.Nh != e.Src.Nh || o.Pre.Nc != e.Src.Nc {
		o.Diverged = fmt.Sprintf("history led to %+v", o.Pre)
		return
	}
	o.Ok, o.Panic = s.call(e.Call)
	o.Post = s.state()
	return
}

var _ = nhelper.UInt160{}
