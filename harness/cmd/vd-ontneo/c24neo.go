package main

import "verifh/kit/vio"

func c24Neo(u *universe, i int, row *c24Row, r *vio.RNG) (o c24Obs)  { o.I = i; o.Setup = "not built"; return }
func c24Neo3(u *universe, i int, row *c24Row, r *vio.RNG) (o c24Obs) { o.I = i; o.Setup = "not built"; return }
