package main

import (
	"encoding/hex"
	"fmt"

	nhelper "github.com/joeqian10/neo-gogogo/helper"
	nmpt "github.com/joeqian10/neo-gogogo/mpt"
	n3crypto "github.com/joeqian10/neo3-gogogo/crypto"
	n3helper "github.com/joeqian10/neo3-gogogo/helper"
	n3io "github.com/joeqian10/neo3-gogogo/io"
	n3mpt "github.com/joeqian10/neo3-gogogo/mpt"
	n3models "github.com/joeqian10/neo3-gogogo/rpc/models"
	cstates "github.com/polynetwork/poly/core/states"
	"github.com/polynetwork/poly/native/service/governance/neo3_state_manager"
	"github.com/polynetwork/poly/native/service/header_sync/neo"
	"github.com/polynetwork/poly/native/service/header_sync/neo3"
	"github.com/polynetwork/poly/native/service/utils"

	"verifh/kit/nativekit"
	"verifh/kit/vio"
)

// c24Neo: the tracked m-of-n script is installed by a real genesis header; the state-root message carries the
// witness described by the row.
func c24Neo(u *universe, i int, row *c24Row, r *vio.RNG) (o c24Obs) {
	o.I = i
	w := u.neoWorld()
	tracked := newNScript(r, row.N, row.M, false)
	if err := w.genesis(r, uint32(r.Intn(1000)), tracked.neoHash()); err != nil {
		o.Setup = "genesis: " + err.Error()
		return
	}
	offered := tracked.variant(r, row.Script)
	var pre, root nhelper.UInt256
	copy(pre[:], r.Bytes(32))
	copy(root[:], r.Bytes(32))
	msg := &neo.NeoCrossChainMsg{StateRoot: &nmpt.StateRoot{Version: 0, Index: uint32(1000 + r.Intn(100000)), PreHash: pre.String(), StateRoot: root.String()}}
	unsigned, err := msg.GetMessage()
	vio.Must(err)
	alt := append([]byte{}, unsigned...)
	alt[5] ^= 1
	var sigs [][]byte
	for _, sg := range row.Sigs {
		sigs = append(sigs, rawSig(r, tracked.signer(r, sg), unsigned, alt))
	}
	msg.Witness.InvocationScript = hex.EncodeToString(neoInvocation(sigs))
	msg.Witness.VerificationScript = hex.EncodeToString(offered.neoScript())
	o.Concr = fmt.Sprintf("index=%d offered=%d-of-%d", msg.Index, offered.m, len(offered.keys))
	o.Panic = vio.Safe(func() {
		ns := w.u.sb.Service(nativekit.Tx(), nil)
		o.Accept = neo.VerifyCrossChainMsgSig(ns, w.chain, msg) == nil
		w.u.sb.Cache.Reset()
	})
	o.Entry, o.Stored = o.Accept, o.Accept
	return
}

// c24Neo3: the state validators are the n tracked keys (stored the way neo3_state_manager stores them); the expected
// script is n - (n-1)/3 of them, computed by the code under test.
func c24Neo3(u *universe, i int, row *c24Row, r *vio.RNG) (o c24Obs) {
	o.I = i
	w := u.neo3World(r)
	tracked := newNScript(r, row.N, row.M, true)
	var svs []string
	for _, p := range r.Perm(len(tracked.keys)) { // registration order is not the script order
		svs = append(svs, hex.EncodeToString(tracked.keys[p].k3.PublicKey.EncodePoint(true)))
	}
	ns0 := w.u.sb.Service(nativekit.Tx(), nil)
	ns0.GetCacheDB().Put(utils.ConcatKey(utils.Neo3StateManagerContractAddress, []byte(neo3_state_manager.STATE_VALIDATOR)),
		cstates.GenRawStorageItem(neo3_state_manager.SerializeStringArray(svs)))
	w.u.sb.Cache.Commit()
	offered := tracked.variant(r, row.Script)
	msg := &neo3.NeoCrossChainMsg{StateRoot: &n3mpt.StateRoot{Version: 0, Index: uint32(1000 + r.Intn(100000)), RootHash: "0x" + n3helper.UInt256FromBytes(r.Bytes(32)).String()}}
	bw := n3io.NewBufBinaryWriter()
	msg.SerializeUnsigned(bw.BinaryWriter)
	vio.Must(bw.Err)
	signed := neo3Message(w.magic, bw.Bytes())
	alt := neo3Message(w.magic+1, bw.Bytes()) // the same root signed for another network
	var sigs [][]byte
	for _, sg := range row.Sigs {
		sigs = append(sigs, rawSig(r, tracked.signer(r, sg), signed, alt))
	}
	msg.Witnesses = []n3models.RpcWitness{{Invocation: n3crypto.Base64Encode(neo3Invocation(sigs)), Verification: n3crypto.Base64Encode(offered.neo3Script())}}
	o.Concr = fmt.Sprintf("magic=%d index=%d offered=%d-of-%d", w.magic, msg.Index, offered.m, len(offered.keys))
	o.Panic = vio.Safe(func() {
		ns := w.u.sb.Service(nativekit.Tx(), nil)
		o.Accept = neo3.VerifyCrossChainMsgSig(ns, w.magic, msg) == nil
		w.u.sb.Cache.Reset()
	})
	o.Entry, o.Stored = o.Accept, o.Accept
	return
}
