package main

import (
	"encoding/json"
	"fmt"

	"github.com/ontio/ontology-crypto/keypair"
	ocommon "github.com/ontio/ontology/common"
	otypes "github.com/ontio/ontology/core/types"
	"github.com/polynetwork/poly/common"
	hs "github.com/polynetwork/poly/native/service/header_sync"
	hscom "github.com/polynetwork/poly/native/service/header_sync/common"
	"github.com/polynetwork/poly/native/service/header_sync/ont"

	"verifh/kit/nativekit"
	"verifh/kit/vio"
)

// one row of the C24 decision table (spec/OntNeoMsg.tla, Out(r))
type c24Row struct {
	Chain    string   `json:"chain"`
	Fam      string   `json:"fam"`
	N        int      `json:"n"`
	M        int      `json:"m"`
	Script   string   `json:"script"`
	Bks      []int    `json:"bks"`
	Sigs     []int    `json:"sigs"`
	Intended bool     `json:"intended"`
	NoDup    bool     `json:"nodup"`
	Allowed  bool     `json:"allowed"`
	Why      []string `json:"why"`
	Distinct int      `json:"distinct"`
	Idx      *int     `json:"idx,omitempty"` // replay: original row index (selects the concretization)
}

type c24Obs struct {
	I       int    `json:"i"`
	Accept  bool   `json:"accept"`          // verdict of the verification function called directly
	Entry   bool   `json:"entry"`           // verdict through the contract entry point (ont: SyncCrossChainMsg)
	Stored  bool   `json:"stored"`          // ont: message recorded afterwards
	Panic   string `json:"panic,omitempty"` // poly code panicked
	Concr   string `json:"concr"`           // how the row was concretized
	Setup   string `json:"setup,omitempty"` // harness could not build the scenario (no verdict)
}

func c24Rows() {
	lines := vio.ReadLines()
	rows := make([]c24Row, len(lines))
	for i, l := range lines {
		vio.Must(json.Unmarshal(l, &rows[i]))
	}
	obs := make([]c24Obs, len(rows))
	const chunk = 64
	vio.ParMap((len(rows)+chunk-1)/chunk, 8, func(c int) {
		u := newUniverse()
		defer u.close()
		for i := c * chunk; i < (c+1)*chunk && i < len(rows); i++ {
			idx := i
			if rows[i].Idx != nil {
				idx = *rows[i].Idx
			}
			r := vio.NewRNG(vio.Seed()*1000003 + uint64(idx)*7919 + 11)
			switch rows[i].Chain {
			case "ont":
				obs[i] = c24Ont(u, i, &rows[i], r)
			case "neo":
				obs[i] = c24Neo(u, i, &rows[i], r)
			case "neo3":
				obs[i] = c24Neo3(u, i, &rows[i], r)
			default:
				vio.Fatal("unknown chain %q", rows[i].Chain)
			}
		}
	})
	distinct := map[string]bool{}
	acc := 0
	for i, o := range obs {
		o.Panic, o.Setup = clean(o.Panic), clean(o.Setup)
		vio.Emit(o)
		if len(rows[i].Sigs) > 0 || len(rows[i].Bks) > 0 {
			distinct[fmt.Sprint(rows[i].Chain, rows[i].N, rows[i].M, rows[i].Script, rows[i].Bks, rows[i].Sigs)] = true
		}
		if o.Accept {
			acc++
		}
	}
	vio.Emit(map[string]interface{}{"summary": true, "rows": len(rows), "distinct": len(distinct), "accepted": acc})
}

// c24Ont: tracked set T (ids 1..n) lives in one of two epochs of a synthetic Ontology chain; the other epoch's set
// contains the foreign key n+1; n+2 never was a validator.  The epoch switch is installed by a really signed header.
func c24Ont(u *universe, i int, row *c24Row, r *vio.RNG) (o c24Obs) {
	o.I = i
	w := u.ontWorld()
	n := row.N
	keys := map[int]*okey{}
	var T []*okey
	for v := 1; v <= n+2; v++ {
		keys[v] = newOKey(r)
		if v <= n {
			T = append(T, keys[v])
		}
	}
	other := []*okey{keys[n+1]}
	for k := r.Intn(3); k > 0; k-- {
		other = append(other, newOKey(r))
	}
	epoch := r.Intn(2)
	const switchAt = 100
	var msgHeight uint32
	first, second := T, other
	if epoch == 0 {
		msgHeight = []uint32{1, 57, switchAt}[r.Intn(3)] // key height 0 is the greatest one below (strictly) the message
	} else {
		first, second = other, T
		msgHeight = []uint32{switchAt + 1, 5000}[r.Intn(2)]
	}
	o.Concr = fmt.Sprintf("epoch=%d msgHeight=%d other=%d", epoch, msgHeight, len(other))
	if err := w.genesis(ontHeader(r, 0, first, nil, nil)); err != nil {
		o.Setup = "genesis: " + err.Error()
		return
	}
	need := (len(first) + 2) / 3
	if err, p := w.syncHeaders(ontHeader(r, switchAt, second, first[:need], first[:need])); err != nil || p != "" {
		o.Setup = fmt.Sprintf("epoch switch header: %v %s", err, p)
		return
	}
	msg := &otypes.CrossChainMsg{Version: byte(r.Intn(2)), Height: msgHeight}
	copy(msg.StatesRoot[:], r.Bytes(32))
	hash := msg.Hash()
	for _, s := range row.Sigs {
		msg.SigData = append(msg.SigData, sigOrBad(r, keys[s], hash[:])) // keys[0] == nil -> bad signature
	}
	var bks []keypair.PublicKey
	for _, b := range row.Bks {
		bks = append(bks, keys[b].pub)
	}
	// (a) the verification function itself
	o.Panic = vio.Safe(func() {
		ns := w.sb.Service(nativekit.Tx(), nil)
		o.Accept = ont.VerifyCrossChainMsg(ns, w.chain, msg, bks) == nil
		w.sb.Cache.Reset()
	})
	// (b) through the contract entry point
	sink := ocommon.NewZeroCopySink(nil)
	msg.Serialization(sink)
	sink.WriteVarUint(uint64(len(bks)))
	for _, b := range bks {
		sink.WriteVarBytes(keypair.SerializePublicKey(b))
	}
	p := &hscom.SyncCrossChainMsgParam{ChainID: w.chain, Address: w.op.Address, CrossChainMsgs: [][]byte{sink.Bytes()}}
	ps := common.NewZeroCopySink(nil)
	p.Serialization(ps)
	pn := vio.Safe(func() {
		_, _, err := w.sb.Call(hs.SyncCrossChainMsg, nativekit.Tx(w.op.Address), ps.Bytes())
		o.Entry = err == nil
	})
	if pn != "" {
		o.Panic = pn
		w.sb.Cache.Reset()
	}
	if m, _ := ont.GetCrossChainMsg(w.sb.Service(nativekit.Tx(), nil), w.chain, msgHeight); m != nil {
		o.Stored = true
	}
	return
}
