// vd-ontneo: drivers for the Ontology / NEO / NEO N3 light clients (C24 signed messages, C31 validator changes).
package main

import (
	"os"
	"strconv"

	"verifh/kit/vio"
)

func atoi(s string) int {
	n, err := strconv.Atoi(s)
	if err != nil {
		vio.Fatal("bad number %q", s)
	}
	return n
}

func main() {
	defer vio.Flush()
	if len(os.Args) < 2 {
		vio.Fatal("usage: vd-ontneo <cmd> ...")
	}
	switch os.Args[1] {
	case "c24":
		c24Rows()
	case "c31":
		c31Edges()
	default:
		vio.Fatal("unknown command %s", os.Args[1])
	}
}
