package main

// initcfg: the real InitConfig over genesis configurations whose peer indices are 1..n, have gaps, or are permuted.
// The C34 model starts from "what InitConfig writes"; this sub-command binds that initial state: it reports the pool of
// view 1, the PEER_INDEX records and the candidate-index counter, which checks/C34.py compares with the model's Init
// (every index record equals the pool index, the counter is above every index in the pool).

import (
	"encoding/hex"
	"strings"

	"github.com/polynetwork/poly/account"
	"github.com/polynetwork/poly/common"
	"github.com/polynetwork/poly/common/config"
	vconfig "github.com/polynetwork/poly/consensus/vbft/config"
	cstates "github.com/polynetwork/poly/core/states"
	nm "github.com/polynetwork/poly/native/service/governance/node_manager"
	"github.com/polynetwork/poly/native/service/utils"
	"verifh/kit/nativekit"
	"verifh/kit/vio"
)

type initOut struct {
	Init    bool              `json:"initcfg"`
	Indices []uint32          `json:"indices"`
	Err     string            `json:"err"`
	Panic   string            `json:"panic"`
	Pool    map[string]uint32 `json:"pool"`    // pubkey -> index in the pool of view 1
	Records map[string]uint32 `json:"records"` // pubkey -> PEER_INDEX record (0 = missing)
	Cand    uint32            `json:"cand"`    // candidate-index counter
	View    uint32            `json:"view"`
}

func initCfg() {
	lists := [][]uint32{{1, 2, 3, 4}, {1, 2, 3, 5}, {2, 4, 6, 8}, {7, 1, 3, 2}, {1, 2, 3, 4, 5, 6, 7}, {3, 1, 2, 9, 4}, {10, 20, 30, 40, 50}, {4, 3, 2, 1}}
	for _, idx := range lists {
		o := initOut{Init: true, Indices: idx, Pool: map[string]uint32{}, Records: map[string]uint32{}}
		sb := nativekit.New()
		accts := make([]*account.Account, len(idx))
		cfg := &config.VBFTConfig{BlockMsgDelay: 10000, HashMsgDelay: 10000, PeerHandshakeTimeout: 10, MaxBlockChangeView: 10000,
			VrfValue: strings.Repeat("a", 128), VrfProof: strings.Repeat("b", 128)}
		for i, x := range idx {
			accts[i] = account.NewAccount("")
			cfg.Peers = append(cfg.Peers, &config.VBFTPeerInfo{Index: x, PeerPubkey: vconfig.PubkeyID(accts[i].PublicKey), Address: accts[i].Address.ToBase58()})
		}
		sink := common.NewZeroCopySink(nil)
		if err := cfg.Serialization(sink); err != nil {
			vio.Fatal("serialize genesis configuration: %v", err)
		}
		o.Panic = vio.Safe(func() {
			if _, _, err := sb.Call(nm.InitConfig, nativekit.Tx(), sink.Bytes()); err != nil {
				o.Err = "refused"
			}
		})
		if o.Err == "" && o.Panic == "" {
			ns := sb.Service(nativekit.Tx(), nil)
			v, err := nm.GetView(ns)
			if err != nil {
				o.Err = "no view"
			}
			o.View = v
			if pm, err := nm.GetPeerPoolMap(ns, v); err == nil {
				for k, it := range pm.PeerPoolMap {
					o.Pool[k] = it.Index
				}
			} else {
				o.Err = "no pool"
			}
			c := utils.NodeManagerContractAddress
			for _, p := range cfg.Peers {
				raw, _ := hex.DecodeString(p.PeerPubkey)
				if b, err := ns.GetCacheDB().Get(utils.ConcatKey(c, []byte(nm.PEER_INDEX), raw)); err == nil && b != nil {
					if val, err := cstates.GetValueFromRawStorageItem(b); err == nil && len(val) >= 4 {
						o.Records[p.PeerPubkey] = utils.GetBytesUint32(val)
					}
				}
			}
			if b, err := ns.GetCacheDB().Get(utils.ConcatKey(c, []byte(nm.CANDIDITE_INDEX))); err == nil && b != nil {
				if val, err := cstates.GetValueFromRawStorageItem(b); err == nil && len(val) >= 4 {
					o.Cand = utils.GetBytesUint32(val)
				}
			}
		}
		vio.Emit(o)
	}
	vio.Emit(map[string]interface{}{"summary": true, "configs": len(lists)})
}
