// vd-gov: driver for the governance contracts (C32 approval threshold, C33 requests consumed, C34 validator pool,
// C35 side-chain registry).  Input: the edges of spec/Governance.tla printed by TLC (one JSON object per line:
// history h, action a, predicted result r, predicted pre-state s and post-state t).  Every edge is replayed through
// the REAL exported contract functions on a fresh nativekit sandbox.  Where the real contracts deviate from the
// prediction the driver records what they really did and explores on from the real (off-model) state over the
// same action alphabet; those real executions are judged by TLC (spec/GovJudge.tla), not here.
package main

import (
	"encoding/json"
	"os"
	"runtime"
	"runtime/pprof"
	"sort"
	"strconv"
	"sync"

	_ "github.com/polynetwork/poly/native/service"
	"verifh/kit/vio"
)

type edge struct {
	H []act           `json:"h"`
	A act             `json:"a"`
	R string          `json:"r"`
	S json.RawMessage `json:"s"`
	T json.RawMessage `json:"t"`
	G json.RawMessage `json:"g"`
}

type step struct {
	A *act        `json:"a"`
	R string      `json:"r"`
	T interface{} `json:"t"`
}

// A recorded real execution: starts in the (conforming) source state of a deviating edge, whose ghost state g the model
// supplies; h = the history that leads there (for the report only).
type trace struct {
	Id    int             `json:"id"`
	Kind  string          `json:"kind"` // "dev": an edge where the real contracts deviate; "off": exploration from a deviating state
	G     json.RawMessage `json:"g"`
	H     []*act          `json:"h"`
	Init  interface{}     `json:"init"`
	Steps []step          `json:"steps"`
}

// canon sorts every array by the canonical encoding of its elements (all arrays of the observation are sets).
func canon(v interface{}) interface{} {
	switch x := v.(type) {
	case map[string]interface{}:
		for k, e := range x {
			x[k] = canon(e)
		}
		return x
	case []interface{}:
		type pr struct {
			s string
			v interface{}
		}
		ps := make([]pr, len(x))
		for i, e := range x {
			c := canon(e)
			b, _ := json.Marshal(c)
			ps[i] = pr{string(b), c}
		}
		sort.Slice(ps, func(i, j int) bool { return ps[i].s < ps[j].s })
		out := make([]interface{}, 0, len(x))
		for i, p := range ps {
			if i > 0 && ps[i-1].s == p.s {
				continue
			}
			out = append(out, p.v)
		}
		return out
	}
	return v
}

func canonStr(v interface{}) string {
	b, err := json.Marshal(canon(v))
	if err != nil {
		panic(err)
	}
	return string(b)
}

func canonRaw(r json.RawMessage) string {
	var v interface{}
	if err := json.Unmarshal(r, &v); err != nil {
		panic(err)
	}
	return canonStr(v)
}

// history actions are not state-independent copies: ks etc. decode fine; nothing else needed.

type runner struct {
	n     *names
	nv    int
	mode  string
	tab   labelTab
	alpha map[string][]*act // area -> distinct actions of the alphabet
	depth int
	capT  int

	mu        sync.Mutex
	seen      map[string]bool // canonical real states already explored off-model
	seenEdge  map[string]bool // real (state, action) pairs already executed off-model
	pool      chan *world
	nTraces   int
	nOffTr    int
	offByArea map[string]int // recorded exploration traces per area (the cap is shared evenly)
	nOff      int
	capHit    bool
	distinct  map[string]bool
}

func (r *runner) emitTrace(t trace) {
	r.mu.Lock()
	t.Id = r.nTraces
	r.nTraces++
	r.mu.Unlock()
	vio.Emit(map[string]interface{}{"trace": t})
}

// snapshot / restore of the whole contract storage (a few dozen keys), so that all edges leaving one model state
// are executed after a single replay of the history
type snap struct {
	kv     map[string]string
	height uint32
}

func (w *world) snapshot() snap { return snap{w.sb.Dump(), w.sb.Height} }

func (w *world) restore(s snap) {
	w.sb.Cache.Reset()
	cur := w.sb.Dump()
	for k, v := range s.kv {
		if cur[k] != v {
			w.sb.Cache.Put(vio.UnHex(k), vio.UnHex(v))
		}
	}
	for k := range cur {
		if _, ok := s.kv[k]; !ok {
			w.sb.Cache.Delete(vio.UnHex(k))
		}
	}
	w.sb.Cache.Commit()
	w.sb.Height = s.height
}

// run replays hist (unrecorded) and then suffix (recorded: real results and observations) on a recycled world.
func (r *runner) run(area string, hist, suffix []*act) (interface{}, []step) {
	w := r.getWorld()
	defer r.putWorld(w)
	for _, a := range hist {
		w.exec(a)
	}
	init := w.project(area, r.tab)
	steps := make([]step, 0, len(suffix))
	for _, a := range suffix {
		res := w.exec(a)
		steps = append(steps, step{A: a, R: res, T: w.project(area, r.tab)})
	}
	return init, steps
}

// worlds are recycled (creating the in-memory LevelDB costs several ms): a recycled world is restored to the
// seeded storage before use.
func (r *runner) getWorld() *world {
	select {
	case w := <-r.pool:
		w.restore(w.seed)
		return w
	default:
	}
	w := newWorld(r.n, r.nv, r.mode)
	w.seed = w.snapshot()
	return w
}

func (r *runner) putWorld(w *world) {
	select {
	case r.pool <- w:
	default:
	}
}

func areaOf(raw json.RawMessage) string {
	var x struct {
		Area string `json:"area"`
	}
	json.Unmarshal(raw, &x)
	return x.Area
}

// Exploration of the REAL contracts from the deviating states: breadth-first, level by level over all deviating states
// (so every one of them gets its depth-1 successors before any goes deeper), bounded depth, every distinct real
// (state, action) pair executed once and every real state expanded once (global dedup), bounded number of recorded traces.
type node struct {
	area   string
	g      json.RawMessage
	hist   []*act
	suffix []*act
}

func (r *runner) expand(nd node) (children []node) {
	w := r.getWorld()
	defer r.putWorld(w)
	for _, a := range nd.hist {
		w.exec(a)
	}
	for _, a := range nd.suffix {
		w.exec(a)
	}
	pre := canonStr(w.project(nd.area, r.tab))
	sn := w.snapshot()
	for _, b := range r.alpha[nd.area] {
		ek := pre + "|" + b.key()
		r.mu.Lock()
		stop := r.offByArea[nd.area] >= r.capT/len(r.alpha)+1
		dup := r.seenEdge[ek]
		r.seenEdge[ek] = true
		if stop {
			r.capHit = true
		}
		r.mu.Unlock()
		if stop {
			return
		}
		if dup {
			continue
		}
		res := w.exec(b)
		post := canonStr(w.project(nd.area, r.tab))
		w.restore(sn)
		r.mu.Lock()
		r.nOff++
		r.mu.Unlock()
		if (res == "err" || res == "ok") && post == pre {
			continue // nothing applied and nothing changed: nothing to judge
		}
		sfx := append(append([]*act{}, nd.suffix...), b)
		init, steps := r.run(nd.area, nd.hist, sfx)
		r.emitTrace(trace{Kind: "off", G: nd.g, H: nd.hist, Init: init, Steps: steps})
		r.mu.Lock()
		r.nOffTr++
		r.offByArea[nd.area]++
		fresh := !r.seen[post]
		r.seen[post] = true
		r.mu.Unlock()
		if fresh {
			children = append(children, node{nd.area, nd.g, nd.hist, sfx})
		}
	}
	return
}

func nodeKey(n node) string {
	k := n.area
	for _, a := range n.hist {
		k += "/" + a.key()
	}
	k += "//"
	for _, a := range n.suffix {
		k += "/" + a.key()
	}
	return k
}

// deterministic order (independent of the parallel schedule), then a seeded shuffle: the cap samples the deviating
// states fairly instead of spending itself on the first ones
func shuffle(ns []node, rng *vio.RNG) {
	sort.Slice(ns, func(i, j int) bool { return nodeKey(ns[i]) < nodeKey(ns[j]) })
	p := rng.Perm(len(ns))
	out := make([]node, len(ns))
	for i, j := range p {
		out[i] = ns[j]
	}
	copy(ns, out)
}

func (r *runner) exploreAll(roots []node) {
	cur := roots
	rng := vio.NewRNG(vio.Seed() ^ 0xe8)
	for d := 0; d < r.depth && len(cur) > 0; d++ {
		shuffle(cur, rng)
		var next []node
		var mu sync.Mutex
		vio.ParMap(len(cur), workers(), func(i int) {
			ch := r.expand(cur[i])
			mu.Lock()
			next = append(next, ch...)
			mu.Unlock()
		})
		cur = next
	}
}

func workers() int {
	if v, err := strconv.Atoi(os.Getenv("VERIF_WORKERS")); err == nil && v > 0 {
		return v
	}
	return runtime.NumCPU()
}

func main() {
	defer vio.Flush()
	if pf := os.Getenv("VDGOV_PROF"); pf != "" {
		f, _ := os.Create(pf)
		pprof.StartCPUProfile(f)
		defer pprof.StopCPUProfile()
	}
	if len(os.Args) >= 2 && os.Args[1] == "initcfg" {
		initCfg()
		return
	}
	if len(os.Args) >= 2 && os.Args[1] == "probe" {
		// which of the two behaviours the property allows does RegisterCandidate have for the upper-case spelling?
		w := newWorld(newNames(vio.Seed()), 4, "C34")
		r := w.exec(&act{T: "reg", K: "c1", Sp: "U", Own: "o1"})
		vio.Emit(map[string]interface{}{"altsp_accepted": r == "ok"})
		return
	}
	if len(os.Args) >= 4 && os.Args[1] == "replay" {
		// re-execute one recorded execution (a replays/*.json object on stdin) on the real contracts
		var rp struct {
			History []*act          `json:"history"`
			Ghost   json.RawMessage `json:"ghost"`
			Init    json.RawMessage `json:"init"`
			Steps   []step          `json:"steps"`
		}
		ls := vio.ReadLines()
		if len(ls) == 0 || json.Unmarshal(ls[0], &rp) != nil {
			vio.Fatal("replay: bad input")
		}
		nv, _ := strconv.Atoi(os.Args[3])
		r := &runner{n: newNames(vio.Seed()), nv: nv, mode: os.Args[2], tab: labelTab{}, pool: make(chan *world, 4)}
		var sfx []*act
		for i := range rp.Steps {
			sfx = append(sfx, rp.Steps[i].A)
		}
		for _, a := range append(append([]*act{}, rp.History...), sfx...) {
			if a.T == "ap" || a.T == "round" {
				r.n.labelsFor(a, r.tab)
			}
		}
		init, steps := r.run(areaOf(rp.Init), rp.History, sfx)
		vio.Emit(map[string]interface{}{"trace": trace{Kind: "replay", G: rp.Ghost, H: rp.History, Init: init, Steps: steps}})
		return
	}
	if len(os.Args) < 4 || os.Args[1] != "edges" {
		vio.Fatal("usage: vd-gov edges|replay <mode C32|C33|C34|C35> <NV> [depth] [cap]   (edges / replay object on stdin) | vd-gov probe")
	}
	mode := os.Args[2]
	nv, _ := strconv.Atoi(os.Args[3])
	depth, capT := 3, 3000
	if len(os.Args) > 4 {
		depth, _ = strconv.Atoi(os.Args[4])
	}
	if len(os.Args) > 5 {
		capT, _ = strconv.Atoi(os.Args[5])
	}
	lines := vio.ReadLines()
	edges := make([]edge, len(lines))
	r := &runner{n: newNames(vio.Seed()), nv: nv, mode: mode, tab: labelTab{}, alpha: map[string][]*act{},
		depth: depth, capT: capT, pool: make(chan *world, 64), seen: map[string]bool{}, seenEdge: map[string]bool{}, offByArea: map[string]int{}, distinct: map[string]bool{}}
	seenAct := map[string]bool{}
	for i, l := range lines {
		if err := json.Unmarshal(l, &edges[i]); err != nil {
			vio.Fatal("bad edge line %d: %v", i, err)
		}
		e := &edges[i]
		area := areaOf(e.S)
		k := area + "/" + e.A.key()
		if !seenAct[k] {
			seenAct[k] = true
			a := e.A
			r.alpha[area] = append(r.alpha[area], &a)
			if a.T == "ap" || a.T == "round" {
				r.n.labelsFor(&a, r.tab)
			}
		}
	}
	var matched, unreachable, deviations int64
	var roots []node
	var cmu sync.Mutex
	// group the edges by history: one replay per model state
	groups := map[string][]int{}
	var order []string
	for i := range edges {
		hk, _ := json.Marshal(edges[i].H)
		k := areaOf(edges[i].S) + string(hk)
		if _, ok := groups[k]; !ok {
			order = append(order, k)
		}
		groups[k] = append(groups[k], i)
	}
	vio.ParMap(len(order), workers(), func(gi int) {
		idx := groups[order[gi]]
		e0 := &edges[idx[0]]
		area := areaOf(e0.S)
		hist := make([]*act, 0, len(e0.H)+1)
		for j := range e0.H {
			hist = append(hist, &e0.H[j])
		}
		w := r.getWorld()
		defer r.putWorld(w)
		for _, a := range hist {
			w.exec(a)
		}
		pre := canonStr(w.project(area, r.tab))
		if pre != canonRaw(e0.S) {
			cmu.Lock()
			unreachable += int64(len(idx)) // the real contracts deviated earlier on this history; that edge is reported on its own
			cmu.Unlock()
			return
		}
		sn := w.snapshot()
		for _, i := range idx {
			e := &edges[i]
			res := w.exec(&e.A)
			post := canonStr(w.project(area, r.tab))
			w.restore(sn)
			if res == e.R && post == canonRaw(e.T) {
				cmu.Lock()
				matched++
				if res != "err" {
					r.distinct[e.A.key()+"|"+res+"|"+post] = true
				}
				cmu.Unlock()
				continue
			}
			cmu.Lock()
			deviations++
			cmu.Unlock()
			init, steps := r.run(area, hist, []*act{&e.A})
			r.emitTrace(trace{Kind: "dev", G: e.G, H: hist, Init: init, Steps: steps})
			r.mu.Lock()
			fresh := !r.seen[post]
			r.seen[post] = true
			r.seenEdge[pre+"|"+e.A.key()] = true
			r.mu.Unlock()
			if fresh {
				cmu.Lock()
				roots = append(roots, node{area, e.G, hist, []*act{&e.A}})
				cmu.Unlock()
			}
		}
	})
	r.exploreAll(roots)
	vio.Emit(map[string]interface{}{"summary": true, "edges": len(edges), "matched": matched, "unreachable": unreachable,
		"deviations": deviations, "offmodel": r.nOff, "cap_hit": r.capHit, "distinct": len(r.distinct), "traces": r.nTraces})
}
