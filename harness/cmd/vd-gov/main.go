// vd-gov: driver for the governance contracts (C32 approval threshold, C33 requests consumed, C34 validator pool,
// C35 side-chain registry).  Input: the edges of spec/Governance.tla printed by TLC (one JSON object per line:
// history h, action a, predicted result r, predicted pre-state s and post-state t).  Every edge is replayed through
// the REAL exported contract functions on a fresh nativekit sandbox.  Where the real contracts deviate from the
// prediction the driver records what they really did and explores on from the real (off-model) state over the
// same action alphabet; those real executions are judged by TLC (spec/GovJudge.tla), not here.
package main

import (
	"encoding/json"
	"os"
	"runtime"
	"runtime/pprof"
	"sort"
	"strconv"
	"sync"

	_ "github.com/polynetwork/poly/native/service"
	"verifh/kit/vio"
)

type edge struct {
	H []act           `json:"h"`
	A act             `json:"a"`
	R string          `json:"r"`
	S json.RawMessage `json:"s"`
	T json.RawMessage `json:"t"`
}

type step struct {
	A *act        `json:"a"`
	R string      `json:"r"`
	T interface{} `json:"t"`
}

type trace struct {
	Id    int         `json:"id"`
	Kind  string      `json:"kind"` // "dev": an edge where the real contracts deviate; "off": exploration from a deviating state
	Init  interface{} `json:"init"`
	Steps []step      `json:"steps"`
}

// canon sorts every array by the canonical encoding of its elements (all arrays of the observation are sets).
func canon(v interface{}) interface{} {
	switch x := v.(type) {
	case map[string]interface{}:
		for k, e := range x {
			x[k] = canon(e)
		}
		return x
	case []interface{}:
		type pr struct {
			s string
			v interface{}
		}
		ps := make([]pr, len(x))
		for i, e := range x {
			c := canon(e)
			b, _ := json.Marshal(c)
			ps[i] = pr{string(b), c}
		}
		sort.Slice(ps, func(i, j int) bool { return ps[i].s < ps[j].s })
		out := make([]interface{}, 0, len(x))
		for i, p := range ps {
			if i > 0 && ps[i-1].s == p.s {
				continue
			}
			out = append(out, p.v)
		}
		return out
	}
	return v
}

func canonStr(v interface{}) string {
	b, err := json.Marshal(canon(v))
	if err != nil {
		panic(err)
	}
	return string(b)
}

func canonRaw(r json.RawMessage) string {
	var v interface{}
	if err := json.Unmarshal(r, &v); err != nil {
		panic(err)
	}
	return canonStr(v)
}

// history actions are not state-independent copies: ks etc. decode fine; nothing else needed.

type runner struct {
	n     *names
	nv    int
	mode  string
	tab   labelTab
	alpha map[string][]*act // area -> distinct actions of the alphabet
	depth int
	capT  int

	mu      sync.Mutex
	seen    map[string]bool // canonical real states already explored off-model
	pool    chan *world
	nTraces int
	nOff    int
	capHit  bool
	distinct map[string]bool
}

func (r *runner) emitTrace(t trace) {
	r.mu.Lock()
	t.Id = r.nTraces
	r.nTraces++
	r.mu.Unlock()
	vio.Emit(map[string]interface{}{"trace": t})
}

// snapshot / restore of the whole contract storage (a few dozen keys), so that all edges leaving one model state
// are executed after a single replay of the history
type snap struct {
	kv     map[string]string
	height uint32
}

func (w *world) snapshot() snap { return snap{w.sb.Dump(), w.sb.Height} }

func (w *world) restore(s snap) {
	w.sb.Cache.Reset()
	cur := w.sb.Dump()
	for k, v := range s.kv {
		if cur[k] != v {
			w.sb.Cache.Put(vio.UnHex(k), vio.UnHex(v))
		}
	}
	for k := range cur {
		if _, ok := s.kv[k]; !ok {
			w.sb.Cache.Delete(vio.UnHex(k))
		}
	}
	w.sb.Cache.Commit()
	w.sb.Height = s.height
}

// run replays path on a fresh world, returning the world and the recorded steps (real results and observations).
func (r *runner) run(area string, path []*act) (*world, interface{}, []step) {
	w := r.getWorld()
	defer r.putWorld(w)
	init := w.project(area, r.tab)
	steps := make([]step, 0, len(path))
	for _, a := range path {
		res := w.exec(a)
		steps = append(steps, step{A: a, R: res, T: w.project(area, r.tab)})
	}
	return w, init, steps
}

// worlds are recycled (creating the in-memory LevelDB costs several ms): a recycled world is restored to the
// seeded storage before use.
func (r *runner) getWorld() *world {
	select {
	case w := <-r.pool:
		w.restore(w.seed)
		return w
	default:
	}
	w := newWorld(r.n, r.nv, r.mode)
	w.seed = w.snapshot()
	return w
}

func (r *runner) putWorld(w *world) {
	select {
	case r.pool <- w:
	default:
	}
}

func areaOf(raw json.RawMessage) string {
	var x struct {
		Area string `json:"area"`
	}
	json.Unmarshal(raw, &x)
	return x.Area
}

// explore: breadth-first over the real contracts from the state reached by `path`, bounded depth, global dedup.
func (r *runner) explore(area string, path []*act) {
	type node struct {
		path []*act
		d    int
	}
	queue := []node{{path, 0}}
	for len(queue) > 0 {
		nd := queue[0]
		queue = queue[1:]
		if nd.d >= r.depth {
			continue
		}
		for _, b := range r.alpha[area] {
			r.mu.Lock()
			if r.nOff >= r.capT {
				r.capHit = true
				r.mu.Unlock()
				return
			}
			r.nOff++
			r.mu.Unlock()
			p := append(append([]*act{}, nd.path...), b)
			_, init, steps := r.run(area, p)
			last := steps[len(steps)-1]
			prev := init
			if len(steps) > 1 {
				prev = steps[len(steps)-2].T
			}
			cs := canonStr(last.T)
			if (last.R == "err" || last.R == "ok") && cs == canonStr(prev) {
				continue // nothing applied and nothing changed: nothing to judge
			}
			r.emitTrace(trace{Kind: "off", Init: init, Steps: steps})
			r.mu.Lock()
			fresh := !r.seen[cs]
			r.seen[cs] = true
			r.mu.Unlock()
			if fresh {
				queue = append(queue, node{p, nd.d + 1})
			}
		}
	}
}

func workers() int {
	if v, err := strconv.Atoi(os.Getenv("VERIF_WORKERS")); err == nil && v > 0 {
		return v
	}
	n := runtime.NumCPU()
	if n > 8 {
		n = 8
	}
	return n
}

func main() {
	defer vio.Flush()
	if pf := os.Getenv("VDGOV_PROF"); pf != "" {
		f, _ := os.Create(pf)
		pprof.StartCPUProfile(f)
		defer pprof.StopCPUProfile()
	}
	if len(os.Args) >= 2 && os.Args[1] == "probe" {
		// which of the two behaviours the property allows does RegisterCandidate have for the upper-case spelling?
		w := newWorld(newNames(vio.Seed()), 4, "C34")
		r := w.exec(&act{T: "reg", K: "c1", Sp: "U", Own: "o1"})
		vio.Emit(map[string]interface{}{"altsp_accepted": r == "ok"})
		return
	}
	if len(os.Args) < 4 || os.Args[1] != "edges" {
		vio.Fatal("usage: vd-gov edges <mode C32|C33|C34|C35> <NV> [depth] [cap]   (edges on stdin)")
	}
	mode := os.Args[2]
	nv, _ := strconv.Atoi(os.Args[3])
	depth, capT := 3, 3000
	if len(os.Args) > 4 {
		depth, _ = strconv.Atoi(os.Args[4])
	}
	if len(os.Args) > 5 {
		capT, _ = strconv.Atoi(os.Args[5])
	}
	lines := vio.ReadLines()
	edges := make([]edge, len(lines))
	r := &runner{n: newNames(vio.Seed()), nv: nv, mode: mode, tab: labelTab{}, alpha: map[string][]*act{},
		depth: depth, capT: capT, pool: make(chan *world, 64), seen: map[string]bool{}, distinct: map[string]bool{}}
	seenAct := map[string]bool{}
	for i, l := range lines {
		if err := json.Unmarshal(l, &edges[i]); err != nil {
			vio.Fatal("bad edge line %d: %v", i, err)
		}
		e := &edges[i]
		area := areaOf(e.S)
		k := area + "/" + e.A.key()
		if !seenAct[k] {
			seenAct[k] = true
			a := e.A
			r.alpha[area] = append(r.alpha[area], &a)
			if a.T == "ap" || a.T == "round" {
				r.n.labelsFor(&a, r.tab)
			}
		}
	}
	var matched, unreachable, deviations int64
	var cmu sync.Mutex
	// group the edges by history: one replay per model state
	groups := map[string][]int{}
	var order []string
	for i := range edges {
		hk, _ := json.Marshal(edges[i].H)
		k := areaOf(edges[i].S) + string(hk)
		if _, ok := groups[k]; !ok {
			order = append(order, k)
		}
		groups[k] = append(groups[k], i)
	}
	vio.ParMap(len(order), workers(), func(gi int) {
		idx := groups[order[gi]]
		e0 := &edges[idx[0]]
		area := areaOf(e0.S)
		hist := make([]*act, 0, len(e0.H)+1)
		for j := range e0.H {
			hist = append(hist, &e0.H[j])
		}
		w := r.getWorld()
		defer r.putWorld(w)
		for _, a := range hist {
			w.exec(a)
		}
		pre := canonStr(w.project(area, r.tab))
		if pre != canonRaw(e0.S) {
			cmu.Lock()
			unreachable += int64(len(idx)) // the real contracts deviated earlier on this history; that edge is reported on its own
			cmu.Unlock()
			return
		}
		sn := w.snapshot()
		for _, i := range idx {
			e := &edges[i]
			res := w.exec(&e.A)
			post := canonStr(w.project(area, r.tab))
			w.restore(sn)
			if res == e.R && post == canonRaw(e.T) {
				cmu.Lock()
				matched++
				if res != "err" {
					r.distinct[e.A.key()+"|"+res+"|"+post] = true
				}
				cmu.Unlock()
				continue
			}
			cmu.Lock()
			deviations++
			cmu.Unlock()
			path := append(append([]*act{}, hist...), &e.A)
			_, init, steps := r.run(area, path)
			r.emitTrace(trace{Kind: "dev", Init: init, Steps: steps})
			r.mu.Lock()
			fresh := !r.seen[post]
			r.seen[post] = true
			r.mu.Unlock()
			if fresh {
				r.explore(area, path)
			}
		}
	})
	vio.Emit(map[string]interface{}{"summary": true, "edges": len(edges), "matched": matched, "unreachable": unreachable,
		"deviations": deviations, "offmodel": r.nOff, "cap_hit": r.capHit, "distinct": len(r.distinct), "traces": r.nTraces})
}
