package main

import (
	"bytes"
	"crypto/ecdsa"
	"crypto/elliptic"
	"crypto/sha256"
	"encoding/binary"
	"encoding/hex"
	"fmt"
	"math/big"
	"sort"
	"strconv"
	"strings"

	"github.com/ontio/ontology-crypto/ec"
	"github.com/ontio/ontology-crypto/keypair"
	"github.com/polynetwork/poly/common"
	cstates "github.com/polynetwork/poly/core/states"
	"github.com/polynetwork/poly/core/types"
	"github.com/polynetwork/poly/native"
	"github.com/polynetwork/poly/native/event"
	neo3 "github.com/polynetwork/poly/native/service/governance/neo3_state_manager"
	nm "github.com/polynetwork/poly/native/service/governance/node_manager"
	rm "github.com/polynetwork/poly/native/service/governance/relayer_manager"
	scm "github.com/polynetwork/poly/native/service/governance/side_chain_manager"
	"github.com/polynetwork/poly/native/service/utils"
	"verifh/kit/nativekit"
	"verifh/kit/vio"
)

// ---------------------------------------------------------------- concretization of model values

type keyInfo struct {
	name  string
	pub   keypair.PublicKey
	raw   []byte // serialized public key
	lower string
	upper string
	addr  common.Address // address of the key's own account
}

type names struct {
	keys   map[string]*keyInfo       // v1.., c1, c2
	byRaw  map[string]string         // hex(raw) -> key name
	addrs  map[string]common.Address // key names, o1, o2, x, r1, r2
	byAddr map[common.Address]string
	svs    map[string]string // r1, r2 -> state validator strings
	bySv   map[string]string
}

func detKey(rng *vio.RNG) keypair.PublicKey {
	c := elliptic.P256()
	for {
		d := new(big.Int).SetBytes(rng.Bytes(32))
		d.Mod(d, c.Params().N)
		if d.Sign() == 0 {
			continue
		}
		x, y := c.ScalarBaseMult(d.Bytes())
		return &ec.PublicKey{Algorithm: ec.ECDSA, PublicKey: &ecdsa.PublicKey{Curve: c, X: x, Y: y}}
	}
}

func newNames(seed uint64) *names {
	rng := vio.NewRNG(seed ^ 0x60f)
	n := &names{keys: map[string]*keyInfo{}, byRaw: map[string]string{}, addrs: map[string]common.Address{},
		byAddr: map[common.Address]string{}, svs: map[string]string{}, bySv: map[string]string{}}
	var kn []string
	for i := 1; i <= 7; i++ {
		kn = append(kn, "v"+strconv.Itoa(i))
	}
	kn = append(kn, "c1", "c2")
	for _, name := range kn {
		for {
			pk := detKey(rng)
			raw := keypair.SerializePublicKey(pk)
			lo := hex.EncodeToString(raw)
			up := strings.ToUpper(lo)
			if lo == up {
				continue
			}
			ki := &keyInfo{name: name, pub: pk, raw: raw, lower: lo, upper: up, addr: types.AddressFromPubKey(pk)}
			n.keys[name] = ki
			n.byRaw[lo] = name
			n.addrs[name] = ki.addr
			n.byAddr[ki.addr] = name
			break
		}
	}
	for _, name := range []string{"o1", "o2", "x", "r1", "r2"} {
		a := types.AddressFromPubKey(detKey(rng))
		n.addrs[name] = a
		n.byAddr[a] = name
	}
	for _, name := range []string{"r1", "r2"} {
		s := hex.EncodeToString(keypair.SerializePublicKey(detKey(rng)))
		n.svs[name] = s
		n.bySv[s] = name
	}
	return n
}

func (n *names) spelling(k, sp string) string {
	ki := n.keys[k]
	if ki == nil {
		panic("unknown key " + k)
	}
	if sp == "U" {
		return ki.upper
	}
	return ki.lower
}

func (n *names) addrName(a common.Address) string {
	if s, ok := n.byAddr[a]; ok {
		return s
	}
	return "?" + a.ToHexString()[:8]
}

// keyOf maps a pubkey string as stored by the contracts to (key name, spelling).
func (n *names) keyOf(s string) (string, string) {
	raw, err := hex.DecodeString(s)
	if err != nil {
		return "?" + s, "?"
	}
	k, ok := n.byRaw[hex.EncodeToString(raw)]
	if !ok {
		return "?" + s[:8], "?"
	}
	ki := n.keys[k]
	switch s {
	case ki.lower:
		return k, "l"
	case ki.upper:
		return k, "U"
	}
	return k, "?"
}

// ---------------------------------------------------------------- model actions

type ksT struct {
	K  string `json:"k"`
	Sp string `json:"sp"`
}

type act struct {
	T   string   `json:"t"`
	M   string   `json:"m"`
	Q   string   `json:"q"`
	Ks  []ksT    `json:"ks"`
	Id  uint64   `json:"id"`
	Own string   `json:"own"`
	Ver string   `json:"ver"`
	Who []string `json:"who"`
	K   string   `json:"k"`
	Sp  string   `json:"sp"`
}

func (a *act) key() string {
	return fmt.Sprintf("%s|%s|%s|%v|%d|%s|%s|%v|%s|%s", a.T, a.M, a.Q, a.Ks, a.Id, a.Own, a.Ver, a.Who, a.K, a.Sp)
}

// ---------------------------------------------------------------- one contract-storage universe

type world struct {
	n    *names
	sb   *nativekit.Sandbox
	nv   int
	seed snap
}

func raw(b []byte) []byte { return cstates.GenRawStorageItem(b) }

func u32(v uint32) []byte { return utils.GetUint32Bytes(v) }

// newWorld seeds what InitConfig would have written: pool of view 1 (v1..vNV in consensus status, index i; in
// C32 mode c1 as an approved candidate with index NV+1), the index records, the candidate index, the governance
// view (height 0) and a configuration with MaxBlockChangeView = 2.
func newWorld(n *names, nv int, mode string) *world {
	w := &world{n: n, sb: nativekit.New(), nv: nv}
	c := utils.NodeManagerContractAddress
	pool := &nm.PeerPoolMap{PeerPoolMap: map[string]*nm.PeerPoolItem{}}
	cnt := uint32(0)
	add := func(name string, owner common.Address, st nm.Status) {
		cnt++
		ki := n.keys[name]
		pool.PeerPoolMap[ki.lower] = &nm.PeerPoolItem{Index: cnt, PeerPubkey: ki.lower, Address: owner, Status: st}
		w.sb.Cache.Put(utils.ConcatKey(c, []byte(nm.PEER_INDEX), ki.raw), raw(u32(cnt)))
	}
	for i := 1; i <= nv; i++ {
		name := "v" + strconv.Itoa(i)
		add(name, n.addrs[name], nm.ConsensusStatus)
	}
	if mode == "C32" {
		add("c1", n.addrs["o1"], nm.CandidateStatus)
	}
	w.sb.PutPool(pool, 1)
	w.sb.Cache.Put(utils.ConcatKey(c, []byte(nm.CANDIDITE_INDEX)), raw(u32(cnt+1)))
	gv := nm.GovernanceView{View: 1, Height: 0, TxHash: common.UINT256_EMPTY}
	sink := common.NewZeroCopySink(nil)
	gv.Serialization(sink)
	w.sb.Cache.Put(utils.ConcatKey(c, []byte(nm.GOVERNANCE_VIEW)), raw(sink.Bytes()))
	cfg := &nm.Configuration{BlockMsgDelay: 10000, HashMsgDelay: 10000, PeerHandshakeTimeout: 10, MaxBlockChangeView: 2}
	sink = common.NewZeroCopySink(nil)
	cfg.Serialization(sink)
	w.sb.Cache.Put(utils.ConcatKey(c, []byte(nm.VBFT_CONFIG)), raw(sink.Bytes()))
	w.sb.Cache.Commit()
	w.sb.Height = 1
	return w
}

func (w *world) service() *native.NativeService { return w.sb.Service(nativekit.Tx(), nil) }

type poolEntry struct {
	key  string // pubkey string as stored
	item *nm.PeerPoolItem
}

func (w *world) curPool() (uint32, []poolEntry, error) {
	ns := w.service()
	v, err := nm.GetView(ns)
	if err != nil {
		return 0, nil, err
	}
	pm, err := nm.GetPeerPoolMap(ns, v)
	if err != nil {
		return v, nil, err
	}
	var es []poolEntry
	for k, it := range pm.PeerPoolMap {
		es = append(es, poolEntry{k, it})
	}
	sort.Slice(es, func(i, j int) bool {
		if es[i].item.Index != es[j].item.Index {
			return es[i].item.Index < es[j].item.Index
		}
		return es[i].key < es[j].key
	})
	return v, es, nil
}

// consensus members (by index, then spelling) as public keys
func (w *world) consKeys() []keypair.PublicKey {
	_, es, err := w.curPool()
	if err != nil {
		return nil
	}
	var res []keypair.PublicKey
	for _, e := range es {
		if e.item.Status != nm.ConsensusStatus {
			continue
		}
		b, err := hex.DecodeString(e.key)
		if err != nil {
			continue
		}
		pk, err := keypair.DeserializePublicKey(b)
		if err != nil {
			continue
		}
		res = append(res, pk)
	}
	return res
}

func ser(f func(*common.ZeroCopySink)) []byte {
	s := common.NewZeroCopySink(nil)
	f(s)
	return s.Bytes()
}

// call runs one contract function as one transaction witnessed by `wit`; result "err" | "ok" | "hit" | "panic".
func (w *world) call(h native.Handler, wit common.Address, input []byte, evName string) (res string) {
	var ns *native.NativeService
	var err error
	p := vio.Safe(func() { _, ns, err = w.sb.Call(h, nativekit.Tx(wit), input) })
	if p != "" {
		w.sb.Cache.Reset()
		return "panic"
	}
	if err != nil {
		return "err"
	}
	if evName != "" && ns != nil && hasEvent(ns.GetNotify(), evName) {
		return "hit"
	}
	return "ok"
}

func hasEvent(evs []*event.NotifyEventInfo, name string) bool {
	for _, e := range evs {
		st, ok := e.States.([]interface{})
		if !ok || len(st) == 0 {
			continue
		}
		if s, ok := st[0].(string); ok && strings.EqualFold(s, name) {
			return true
		}
	}
	return false
}

func (w *world) approve1(a *act, by common.Address) string {
	n := w.n
	switch a.M {
	case "approveCandidate":
		in := ser((&nm.PeerParam{PeerPubkey: n.spelling(a.Ks[0].K, a.Ks[0].Sp), Address: by}).Serialization)
		return w.call(nm.ApproveCandidate, by, in, a.M)
	case "whiteNode":
		in := ser((&nm.PeerParam{PeerPubkey: n.spelling(a.Ks[0].K, a.Ks[0].Sp), Address: by}).Serialization)
		return w.call(nm.WhiteNode, by, in, a.M)
	case "blackNode":
		var l []string
		for _, k := range a.Ks {
			l = append(l, n.spelling(k.K, k.Sp))
		}
		in := ser((&nm.PeerListParam{PeerPubkeyList: l, Address: by}).Serialization)
		return w.call(nm.BlackNode, by, in, a.M)
	case "approveRegisterSideChain", "approveUpdateSideChain", "approveQuitSideChain":
		in := ser((&scm.ChainidParam{Chainid: a.Id, Address: by}).Serialization)
		h := map[string]native.Handler{"approveRegisterSideChain": scm.ApproveRegisterSideChain,
			"approveUpdateSideChain": scm.ApproveUpdateSideChain, "approveQuitSideChain": scm.ApproveQuitSideChain}[a.M]
		return w.call(h, by, in, a.M)
	case "approveRegisterRelayer", "approveRemoveRelayer":
		in := ser((&rm.ApproveRelayerParam{ID: a.Id, Address: by}).Serialization)
		if a.M == "approveRegisterRelayer" {
			return w.call(rm.ApproveRegisterRelayer, by, in, a.M)
		}
		return w.call(rm.ApproveRemoveRelayer, by, in, a.M)
	case "approveRegisterStateValidator", "approveRemoveStateValidator":
		in := ser((&neo3.ApproveStateValidatorParam{ID: a.Id, Address: by}).Serialization)
		if a.M == "approveRegisterStateValidator" {
			return w.call(neo3.ApproveRegisterStateValidator, by, in, a.M)
		}
		return w.call(neo3.ApproveRemoveStateValidator, by, in, a.M)
	}
	panic("unknown approve method " + a.M)
}

func (w *world) sideChainParam(a *act) []byte {
	p := &scm.RegisterSideChainParam{Address: w.n.addrs[a.Own], ChainId: a.Id, Router: 2, Name: a.Ver, BlocksToWait: 1,
		CCMCAddress: []byte{0xcc, byte(a.Id)}, ExtraInfo: []byte{}}
	s := common.NewZeroCopySink(nil)
	p.Serialization(s)
	return s.Bytes()
}

// exec performs one model action on the real contracts.
func (w *world) exec(a *act) string {
	n := w.n
	switch a.T {
	case "block":
		w.sb.Height++
		return "ok"
	case "reg":
		own := n.addrs[a.Own]
		in := ser((&nm.RegisterPeerParam{PeerPubkey: n.spelling(a.K, a.Sp), Address: own}).Serialization)
		return w.call(nm.RegisterCandidate, own, in, "")
	case "unreg":
		own := n.addrs[a.Own]
		in := ser((&nm.PeerParam{PeerPubkey: n.spelling(a.K, a.Sp), Address: own}).Serialization)
		return w.call(nm.UnRegisterCandidate, own, in, "")
	case "quit":
		own := n.addrs[a.Own]
		in := ser((&nm.PeerParam{PeerPubkey: n.spelling(a.K, a.Sp), Address: own}).Serialization)
		return w.call(nm.QuitNode, own, in, "")
	case "commit":
		wit := n.addrs["x"]
		if a.Own == "op" {
			op, err := types.AddressFromBookkeepers(w.consKeys())
			if err == nil {
				wit = op
			}
		}
		return w.call(nm.CommitDpos, wit, nil, "")
	case "ap":
		return w.approve1(a, n.addrs[a.Own])
	case "round":
		cons := w.consKeys()
		thr := (2*len(cons) + 2) / 3
		res := "err"
		for _, pk := range cons[:thr] {
			r := w.approve1(a, types.AddressFromPubKey(pk))
			if r == "panic" {
				return "panic"
			}
			if r == "hit" || (r == "ok" && res == "err") {
				res = r
			}
		}
		return res
	case "screg":
		return w.call(scm.RegisterSideChain, n.addrs[a.Own], w.sideChainParam(a), "")
	case "scupd":
		return w.call(scm.UpdateSideChain, n.addrs[a.Own], w.sideChainParam(a), "")
	case "scquit":
		own := n.addrs[a.Own]
		return w.call(scm.QuitSideChain, own, ser((&scm.ChainidParam{Chainid: a.Id, Address: own}).Serialization), "")
	case "relreg", "relrem":
		own := n.addrs[a.Own]
		var l []common.Address
		for _, x := range a.Who {
			l = append(l, n.addrs[x])
		}
		in := ser((&rm.RelayerListParam{AddressList: l, Address: own}).Serialization)
		if a.T == "relreg" {
			return w.call(rm.RegisterRelayer, own, in, "")
		}
		return w.call(rm.RemoveRelayer, own, in, "")
	case "svreg", "svrem":
		own := n.addrs[a.Own]
		var l []string
		for _, x := range a.Who {
			l = append(l, n.svs[x])
		}
		in := ser((&neo3.StateValidatorListParam{StateValidators: l, Address: own}).Serialization)
		if a.T == "svreg" {
			return w.call(neo3.RegisterStateValidator, own, in, "")
		}
		return w.call(neo3.RemoveStateValidator, own, in, "")
	}
	panic("unknown action " + a.T)
}

// ---------------------------------------------------------------- projection of the real storage

type obj = map[string]interface{}

func arr() []interface{} { return []interface{}{} }

func rawValue(hexItem string) []byte {
	b, _ := hex.DecodeString(hexItem)
	v, err := cstates.GetValueFromRawStorageItem(b)
	if err != nil {
		return nil
	}
	return v
}

func statusName(s nm.Status) string {
	switch s {
	case nm.CandidateStatus:
		return "cand"
	case nm.ConsensusStatus:
		return "cons"
	case nm.QuitingStatus:
		return "quit"
	case nm.BlackStatus:
		return "black"
	}
	return "?" + strconv.Itoa(int(s))
}

// labels: sha256(method label || request bytes) -> (m, q) for every approve action of the alphabet
type labelTab map[string][2]string

func (n *names) labelsFor(a *act, tab labelTab) {
	put := func(method string, input []byte) {
		h := sha256.Sum256(append([]byte(method), input...))
		tab[hex.EncodeToString(h[:])] = [2]string{a.M, a.Q}
	}
	u64 := func(v uint64) []byte { b := make([]byte, 8); binary.LittleEndian.PutUint64(b, v); return b }
	switch a.M {
	case "approveCandidate", "whiteNode":
		put(a.M, []byte(n.spelling(a.Ks[0].K, a.Ks[0].Sp)))
	case "blackNode":
		var in []byte
		for _, k := range a.Ks {
			in = append(in, []byte(n.spelling(k.K, k.Sp))...)
		}
		put(a.M, in)
	case "approveQuitSideChain":
		put(scm.QUIT_SIDE_CHAIN, u64(a.Id))
		put(a.M, u64(a.Id))
	default:
		put(a.M, u64(a.Id))
	}
}

func scRec(n *names, v []byte) interface{} {
	sc := new(scm.SideChain)
	if err := sc.Deserialization(common.NewZeroCopySource(v)); err != nil {
		return obj{"id": -1, "own": "?", "ver": "?undecodable"}
	}
	ver := sc.Name
	if sc.Router != 2 || sc.BlocksToWait != 1 || !bytes.Equal(sc.CCMCAddress, []byte{0xcc, byte(sc.ChainId)}) {
		ver = "?" + ver
	}
	return obj{"id": int(sc.ChainId), "own": n.addrName(sc.Address), "ver": ver}
}

func hasPrefixLen(k []byte, prefix string, rest int) bool {
	return len(k) == len(prefix)+rest && strings.HasPrefix(string(k), prefix)
}

// project reads the abstract observation back from the contracts' getters and raw storage.
func (w *world) project(area string, tab labelTab) obj {
	n := w.n
	o := obj{"area": area, "height": int(w.sb.Height), "view": 0, "cheight": 0, "cidx": 0,
		"pool": arr(), "papply": arr(), "black": arr(), "pidx": arr(), "signs": arr(),
		"sc": arr(), "scApply": arr(), "scUpd": arr(), "scQuit": arr(),
		"rel": arr(), "relApply": arr(), "relRemove": arr(), "relAid": 0, "relRid": 0,
		"sv": arr(), "svApply": arr(), "svRemove": arr(), "svAid": 0, "svRid": 0}
	app := func(f string, v interface{}) { o[f] = append(o[f].([]interface{}), v) }
	ns := w.service()
	if gv, err := nm.GetGovernanceView(ns); err == nil {
		o["view"] = int(gv.View)
		o["cheight"] = int(gv.Height)
	}
	if _, es, err := w.curPool(); err == nil {
		for _, e := range es {
			k, sp := n.keyOf(e.item.PeerPubkey)
			if e.key != e.item.PeerPubkey {
				sp = "?mapkey"
			}
			app("pool", obj{"k": k, "sp": sp, "idx": int(e.item.Index), "own": n.addrName(e.item.Address), "st": statusName(e.item.Status)})
		}
	}
	for ks, vs := range w.sb.DumpContract(utils.NodeManagerContractAddress) {
		k, _ := hex.DecodeString(ks)
		switch {
		case strings.HasPrefix(string(k), nm.PEER_APPLY):
			p := new(nm.RegisterPeerParam)
			if err := p.Deserialization(common.NewZeroCopySource(rawValue(vs))); err != nil {
				app("papply", obj{"k": "?", "sp": "?", "own": "?"})
				continue
			}
			kn, sp := n.keyOf(p.PeerPubkey)
			if n.byRaw[hex.EncodeToString(k[len(nm.PEER_APPLY):])] != kn {
				kn = "?storedUnderOtherKey:" + kn
			}
			app("papply", obj{"k": kn, "sp": sp, "own": n.addrName(p.Address)})
		case strings.HasPrefix(string(k), nm.BLACK_LIST):
			kn, ok := n.byRaw[hex.EncodeToString(k[len(nm.BLACK_LIST):])]
			if !ok {
				kn = "?" + ks
			}
			app("black", kn)
		case strings.HasPrefix(string(k), nm.PEER_INDEX):
			kn, ok := n.byRaw[hex.EncodeToString(k[len(nm.PEER_INDEX):])]
			if !ok {
				kn = "?" + ks
			}
			app("pidx", obj{"k": kn, "idx": int(utils.GetBytesUint32(rawValue(vs)))})
		case string(k) == nm.CANDIDITE_INDEX:
			o["cidx"] = int(utils.GetBytesUint32(rawValue(vs)))
		case hasPrefixLen(k, nm.CONSENSUS_SIGNS, 32):
			cs := &nm.ConsensusSigns{SignsMap: map[common.Address]bool{}}
			if err := cs.Deserialization(common.NewZeroCopySource(rawValue(vs))); err != nil {
				app("signs", obj{"m": "?", "q": "undecodable", "by": arr()})
				continue
			}
			by := arr()
			for a := range cs.SignsMap {
				by = append(by, n.addrName(a))
			}
			if len(by) == 0 {
				continue
			}
			h := hex.EncodeToString(k[len(nm.CONSENSUS_SIGNS):])
			if l, ok := tab[h]; ok {
				app("signs", obj{"m": l[0], "q": l[1], "by": by})
			} else {
				app("signs", obj{"m": "?", "q": h[:12], "by": by})
			}
		}
	}
	for ks, vs := range w.sb.DumpContract(utils.SideChainManagerContractAddress) {
		k, _ := hex.DecodeString(ks)
		switch {
		case hasPrefixLen(k, scm.SIDE_CHAIN, 8):
			app("sc", scRec(n, rawValue(vs)))
		case hasPrefixLen(k, scm.SIDE_CHAIN_APPLY, 8):
			app("scApply", scRec(n, rawValue(vs)))
		case hasPrefixLen(k, scm.UPDATE_SIDE_CHAIN_REQUEST, 8):
			app("scUpd", scRec(n, rawValue(vs)))
		case hasPrefixLen(k, scm.QUIT_SIDE_CHAIN_REQUEST, 8):
			app("scQuit", int(binary.LittleEndian.Uint64(k[len(scm.QUIT_SIDE_CHAIN_REQUEST):])))
		}
	}
	whoAddrs := func(v []byte) (interface{}, bool) {
		p := new(rm.RelayerListParam)
		if err := p.Deserialization(common.NewZeroCopySource(v)); err != nil {
			return nil, false
		}
		l := arr()
		for _, a := range p.AddressList {
			l = append(l, n.addrName(a))
		}
		return l, true
	}
	for ks, vs := range w.sb.DumpContract(utils.RelayerManagerContractAddress) {
		k, _ := hex.DecodeString(ks)
		id := func(p string) int { return int(binary.LittleEndian.Uint64(k[len(p):])) }
		switch {
		case hasPrefixLen(k, rm.RELAYER, 20):
			a, _ := common.AddressParseFromBytes(k[len(rm.RELAYER):])
			app("rel", n.addrName(a))
		case hasPrefixLen(k, rm.RELAYER_APPLY, 8):
			if l, ok := whoAddrs(rawValue(vs)); ok {
				app("relApply", obj{"id": id(rm.RELAYER_APPLY), "who": l})
			}
		case hasPrefixLen(k, rm.RELAYER_REMOVE, 8):
			if l, ok := whoAddrs(rawValue(vs)); ok {
				app("relRemove", obj{"id": id(rm.RELAYER_REMOVE), "who": l})
			}
		case string(k) == rm.APPLY_ID:
			o["relAid"] = int(utils.GetBytesUint64(rawValue(vs)))
		case string(k) == rm.REMOVE_ID:
			o["relRid"] = int(utils.GetBytesUint64(rawValue(vs)))
		}
	}
	whoSvs := func(v []byte) (interface{}, bool) {
		p := new(neo3.StateValidatorListParam)
		if err := p.Deserialization(common.NewZeroCopySource(v)); err != nil {
			return nil, false
		}
		l := arr()
		for _, s := range p.StateValidators {
			l = append(l, w.svName(s))
		}
		return l, true
	}
	for ks, vs := range w.sb.DumpContract(utils.Neo3StateManagerContractAddress) {
		k, _ := hex.DecodeString(ks)
		id := func(p string) int { return int(binary.LittleEndian.Uint64(k[len(p):])) }
		switch {
		case string(k) == neo3.STATE_VALIDATOR:
			l, err := neo3.DeserializeStringArray(rawValue(vs))
			if err == nil {
				for _, s := range l {
					app("sv", w.svName(s))
				}
			}
		case hasPrefixLen(k, neo3.STATE_VALIDATOR_APPLY, 8):
			if l, ok := whoSvs(rawValue(vs)); ok {
				app("svApply", obj{"id": id(neo3.STATE_VALIDATOR_APPLY), "who": l})
			}
		case hasPrefixLen(k, neo3.STATE_VALIDATOR_REMOVE, 8):
			if l, ok := whoSvs(rawValue(vs)); ok {
				app("svRemove", obj{"id": id(neo3.STATE_VALIDATOR_REMOVE), "who": l})
			}
		case string(k) == neo3.STATE_VALIDATOR_APPLY_ID:
			o["svAid"] = int(utils.GetBytesUint64(rawValue(vs)))
		case string(k) == neo3.STATE_VALIDATOR_REMOVE_ID:
			o["svRid"] = int(utils.GetBytesUint64(rawValue(vs)))
		}
	}
	return o
}

func (w *world) svName(s string) string {
	if x, ok := w.n.bySv[s]; ok {
		return x
	}
	if len(s) > 8 {
		s = s[:8]
	}
	return "?" + s
}
