package main

import (
	"encoding/json"
	"fmt"
	"runtime"
	"sync"
	"sync/atomic"

	"github.com/polynetwork/poly/common"
	"github.com/polynetwork/poly/common/config"
	"github.com/polynetwork/poly/core/payload"
	"github.com/polynetwork/poly/core/types"
	"github.com/polynetwork/poly/errors"
	tc "github.com/polynetwork/poly/txnpool/common"
	vt "github.com/polynetwork/poly/validator/types"
	"verifh/kit/vio"
)

// ent is a pool entry as the specification sees it: hash name and the height of the stateful verification.
type ent struct {
	T string `json:"t"`
	H int    `json:"h"`
}

// call is one completed method call of a history (all fields always present, see spec/TraceTxPool.tla).
type call struct {
	G   int      `json:"g"`
	Op  string   `json:"op"`
	T   string   `json:"t"`
	H   int      `json:"h"`
	Ts  []string `json:"ts"`
	By  bool     `json:"by"`
	S   int64    `json:"s"`
	E   int64    `json:"e"`
	Ret bool     `json:"ret"`
	N   int      `json:"n"`
	Txs []ent    `json:"txs"`
	Old []string `json:"old"`
	Ver []ent    `json:"ver"`
	Unv []string `json:"unv"`
	Rem []string `json:"rem"`
	P   string   `json:"panic,omitempty"`
}

type history struct {
	Calls []*call `json:"calls"`
}

// universe: real transactions t1..tn
type universe struct {
	txs   []*types.Transaction
	names map[common.Uint256]string
}

// invokeTx builds a real invoke transaction the way genesis.NewInvokeTransaction does (serialize, re-parse so that the
// hash is set) without pulling the native contracts into this small binary.
func invokeTx(code []byte, nonce uint32) *types.Transaction {
	tx := &types.Transaction{Version: types.CURR_TX_VERSION, TxType: types.Invoke, Payload: &payload.InvokeCode{Code: code},
		Nonce: nonce, ChainID: config.GetChainIdByNetId(config.DefConfig.P2PNode.NetworkId)}
	sink := common.NewZeroCopySink(nil)
	if err := tx.Serialization(sink); err != nil {
		vio.Fatal("serialize: %v", err)
	}
	r, err := types.TransactionFromRawBytes(sink.Bytes())
	if err != nil {
		vio.Fatal("re-parse: %v", err)
	}
	return r
}

func newUniverse(n int, salt uint32) *universe {
	u := &universe{names: map[common.Uint256]string{}}
	for i := 1; i <= n; i++ {
		tx := invokeTx([]byte(fmt.Sprintf("verif-pool-%d", i)), salt*1000+uint32(i))
		u.txs = append(u.txs, tx)
		u.names[tx.Hash()] = fmt.Sprintf("t%d", i)
	}
	return u
}

func (u *universe) tx(name string) *types.Transaction {
	var i int
	fmt.Sscanf(name, "t%d", &i)
	if i < 1 || i > len(u.txs) {
		vio.Fatal("unknown transaction name %q", name)
	}
	return u.txs[i-1]
}
func (u *universe) name(tx *types.Transaction) string {
	if tx == nil {
		return "nil"
	}
	if n, ok := u.names[tx.Hash()]; ok {
		return n
	}
	h := tx.Hash()
	return "?" + h.ToHexString()[:8]
}
func (u *universe) list(names []string) []*types.Transaction {
	r := make([]*types.Transaction, 0, len(names))
	for _, n := range names {
		r = append(r, u.tx(n))
	}
	return r
}

// entry builds a pool entry verified statelessly (height slH) and statefully at height h; the attribute order varies.
func entry(tx *types.Transaction, h int, slFirst bool, slH uint32) *tc.TXEntry {
	sl := &tc.TXAttr{Height: slH, Type: vt.Stateless, ErrCode: errors.ErrNoError}
	sf := &tc.TXAttr{Height: uint32(h), Type: vt.Stateful, ErrCode: errors.ErrNoError}
	if slFirst {
		return &tc.TXEntry{Tx: tx, Attrs: []*tc.TXAttr{sl, sf}}
	}
	return &tc.TXEntry{Tx: tx, Attrs: []*tc.TXAttr{sf, sl}}
}

func statefulHeight(attrs []*tc.TXAttr) int {
	for _, a := range attrs {
		if a.Type == vt.Stateful {
			return int(a.Height)
		}
	}
	return -1
}

func normalize(c *call) {
	if c.Ts == nil {
		c.Ts = []string{}
	}
	if c.Txs == nil {
		c.Txs = []ent{}
	}
	if c.Old == nil {
		c.Old = []string{}
	}
	if c.Ver == nil {
		c.Ver = []ent{}
	}
	if c.Unv == nil {
		c.Unv = []string{}
	}
	if c.Rem == nil {
		c.Rem = []string{}
	}
}

// exec runs one call on the real pool and fills in the answers.
func exec(p *tc.TXPool, u *universe, c *call, variant uint64) {
	c.P = vio.Safe(func() {
		switch c.Op {
		case "add":
			c.Ret = p.AddTxList(entry(u.tx(c.T), c.H, variant&1 == 0, uint32(variant>>1)%4))
		case "del":
			c.Ret = p.DelTxList(u.tx(c.T))
		case "clean":
			if err := p.CleanTransactionList(u.list(c.Ts)); err != nil {
				c.P = "CleanTransactionList error: " + err.Error()
			}
		case "remain":
			for _, t := range p.Remain() {
				c.Rem = append(c.Rem, u.name(t))
			}
		case "has":
			c.Ret = p.GetTransaction(u.tx(c.T).Hash()) != nil
		case "status":
			st := p.GetTxStatus(u.tx(c.T).Hash())
			c.Ret = st != nil
			if st != nil {
				c.N = statefulHeight(st.Attrs)
			}
		case "count":
			c.N = p.GetTransactionCount()
		case "get":
			txs, old := p.GetTxPool(c.By, uint32(c.H))
			for _, e := range txs {
				c.Txs = append(c.Txs, ent{u.name(e.Tx), statefulHeight(e.Attrs)})
			}
			for _, t := range old {
				c.Old = append(c.Old, u.name(t))
			}
		case "unv":
			r := p.GetUnverifiedTxs(u.list(c.Ts), uint32(c.H))
			for _, v := range r.VerifiedTxs {
				c.Ver = append(c.Ver, ent{u.name(v.Tx), int(v.Height)})
			}
			for _, t := range r.UnverifiedTxs {
				c.Unv = append(c.Unv, u.name(t))
			}
			for _, t := range r.OldTxs {
				c.Old = append(c.Old, u.name(t))
			}
		default:
			vio.Fatal("unknown op %q", c.Op)
		}
	})
	normalize(c)
}

func randomCall(r *vio.RNG, ntx, maxH int, mode string) *call {
	c := &call{}
	name := func() string { return fmt.Sprintf("t%d", 1+r.Intn(ntx)) }
	if mode == "stale" {
		// contention on removal by age: several callers ask about the same stale entries (verify-block path) while
		// others list / look up; every stale entry must be handed to exactly one caller
		some := func() []string {
			n := 1 + r.Intn(3)
			var l []string
			for _, i := range r.Perm(ntx)[:min(n, ntx)] {
				l = append(l, fmt.Sprintf("t%d", i+1))
			}
			return l
		}
		switch k := r.Intn(20); {
		case k < 10:
			c.Op, c.Ts, c.H = "unv", some(), 1+r.Intn(maxH)
		case k < 13:
			c.Op, c.By, c.H = "get", r.Bool(), r.Intn(maxH+1)
		case k < 15:
			c.Op, c.T = "has", name()
		case k < 16:
			c.Op, c.T = "status", name()
		case k < 17:
			c.Op = "count"
		default:
			c.Op, c.T, c.H = "add", name(), r.Intn(2)
		}
		return c
	}
	if mode == "hot" { // contention on one or two hashes: adds and removals of the same transaction race with each other
		switch k := r.Intn(10); {
		case k < 5:
			c.Op, c.T, c.H = "add", name(), r.Intn(maxH+1)
		case k < 8:
			c.Op, c.T = "del", name()
		case k < 9:
			c.Op = "count"
		default:
			c.Op, c.T = "status", name()
		}
		return c
	}
	list := func() []string {
		n := r.Intn(4)
		var l []string
		for i := 0; i < n; i++ {
			l = append(l, name())
		}
		return l
	}
	switch k := r.Intn(20); {
	case k < 6:
		c.Op, c.T, c.H = "add", name(), r.Intn(maxH+1)
	case k < 8:
		c.Op, c.T = "del", name()
	case k < 10:
		c.Op, c.Ts = "clean", list()
	case k < 13:
		c.Op, c.By, c.H = "get", r.Bool(), r.Intn(maxH+1)
	case k < 15:
		c.Op, c.Ts, c.H = "unv", list(), r.Intn(maxH+1)
	case k < 16:
		c.Op = "remain"
	case k < 17:
		c.Op, c.T = "has", name()
	case k < 18:
		c.Op, c.T = "status", name()
	default:
		c.Op = "count"
	}
	return c
}

// linRecord: nh histories; in each, ng goroutines run nops random calls on one real TXPool concurrently.
func linRecord(nh, ng, nops, maxtx int, mode string) {
	hot := mode != ""
	config.DefConfig.Consensus.MaxTxInBlock = uint(maxtx)
	rng := vio.NewRNG(vio.Seed()*7919 + uint64(ng*100+nops))
	u := newUniverse(12, 1)
	overlaps := 0
	for h := 0; h < nh; h++ {
		ntx := 2 + rng.Intn(5) // small universes make conflicting calls likely
		if mode == "hot" {
			ntx = 1 + rng.Intn(2)
		}
		if mode == "stale" {
			ntx = 2 + rng.Intn(3)
		}
		p := &tc.TXPool{}
		p.Init()
		var stamp int64
		var prefix []*call
		if mode == "stale" { // the pool starts with entries verified at heights 0..1 (sequential prefix of the history)
			for i := 1; i <= ntx; i++ {
				c := &call{Op: "add", T: fmt.Sprintf("t%d", i), H: rng.Intn(2)}
				c.S = atomic.AddInt64(&stamp, 1)
				exec(p, u, c, rng.U64())
				c.E = atomic.AddInt64(&stamp, 1)
				prefix = append(prefix, c)
			}
		}
		progs := make([][]*call, ng)
		vars := make([][]uint64, ng)
		for g := 0; g < ng; g++ {
			for i := 0; i < nops; i++ {
				c := randomCall(rng, ntx, 3, mode)
				c.G = g + 1
				progs[g] = append(progs[g], c)
				vars[g] = append(vars[g], rng.U64())
			}
		}
		var wg sync.WaitGroup
		start := make(chan struct{})
		for g := 0; g < ng; g++ {
			wg.Add(1)
			go func(g int) {
				defer wg.Done()
				<-start
				for i, c := range progs[g] {
					if !hot && vars[g][i]&0x300 == 0 {
						runtime.Gosched()
					}
					c.S = atomic.AddInt64(&stamp, 1)
					exec(p, u, c, vars[g][i])
					c.E = atomic.AddInt64(&stamp, 1)
				}
			}(g)
		}
		close(start)
		wg.Wait()
		hist := &history{Calls: prefix}
		for g := 0; g < ng; g++ {
			hist.Calls = append(hist.Calls, progs[g]...)
		}
		// final observation of the state, after every concurrent call has returned
		for _, c := range []*call{{Op: "count"}, {Op: "get", By: false, H: 0}} {
			c.G = 0
			c.S = atomic.AddInt64(&stamp, 1)
			exec(p, u, c, 0)
			c.E = atomic.AddInt64(&stamp, 1)
			hist.Calls = append(hist.Calls, c)
		}
		for _, a := range hist.Calls {
			for _, b := range hist.Calls {
				if a.G < b.G && a.S < b.E && b.S < a.E {
					overlaps++
				}
			}
		}
		vio.Emit(hist)
		vio.Flush()
	}
	vio.Emit(map[string]interface{}{"summary": true, "histories": nh, "overlapping_pairs": overlaps})
}

// seqRun: each input line is a call sequence printed by TLC (TxPoolSeq edge); run it on a fresh real pool.
func seqRun(maxtx int) {
	config.DefConfig.Consensus.MaxTxInBlock = uint(maxtx)
	u := newUniverse(12, 1)
	lines := vio.ReadLines()
	distinct := map[string]bool{}
	for i, ln := range lines {
		var hist history
		if err := json.Unmarshal(ln, &hist); err != nil {
			vio.Fatal("bad input line %d: %v", i, err)
		}
		p := &tc.TXPool{}
		p.Init()
		var stamp int64
		for j, c := range hist.Calls {
			c.G = 1
			stamp++
			c.S = stamp
			exec(p, u, c, uint64(i*31+j))
			stamp++
			c.E = stamp
		}
		last := hist.Calls[len(hist.Calls)-1]
		// observe the state the edge leads to
		for _, c := range []*call{{Op: "count"}, {Op: "get", By: false, H: 0}} {
			c.G = 1
			stamp++
			c.S = stamp
			exec(p, u, c, 0)
			stamp++
			c.E = stamp
			hist.Calls = append(hist.Calls, c)
		}
		if p.GetTransactionCount() > 0 || last.Op == "remain" || last.Op == "clean" || last.Op == "del" {
			b, _ := json.Marshal([]interface{}{last.Op, last.T, last.H, last.Ts, last.By, last.Ret, last.N, last.Txs, last.Old, last.Ver, last.Unv, last.Rem})
			distinct[string(b)] = true
		}
		vio.Emit(&hist)
	}
	vio.Emit(map[string]interface{}{"summary": true, "histories": len(lines), "distinct": len(distinct)})
}
