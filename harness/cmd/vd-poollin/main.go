// vd-poollin: drives the transaction pool object txnpool/common.TXPool (C37): sequential edges printed by TLC and
// concurrent histories for the linearizability search. Small dependency tree so that it can be built with -race cheaply.
package main

import (
	"bytes"
	"io"
	"os"
	osexec "os/exec"
	"strconv"
	"strings"

	"github.com/polynetwork/poly/common/log"
	"verifh/kit/vio"
)

func atoi(s string) int {
	n, err := strconv.Atoi(s)
	if err != nil {
		vio.Fatal("bad number %q", s)
	}
	return n
}

func min(a, b int) int {
	if a < b {
		return a
	}
	return b
}

func main() {
	defer vio.Flush()
	if len(os.Args) < 2 {
		vio.Fatal("usage: vd-poollin <cmd> ...")
	}
	log.InitLog(log.ErrorLog)
	switch os.Args[1] {
	case "lin-record": // <histories> <goroutines> <ops per goroutine> <maxtx> [hot|stale]
		// The histories run in a child process: unsynchronized access to the pool's map can make the Go runtime abort
		// ("fatal error: concurrent map writes"), which no recover() catches. Such an abort is an observation about the
		// pool under concurrency, reported as a "crash" event; anything else that kills the child is an infrastructure error.
		cmd := osexec.Command(os.Args[0], append([]string{"lin-child"}, os.Args[2:]...)...)
		var errb bytes.Buffer
		cmd.Stderr = &errb
		out, err := cmd.StdoutPipe()
		if err != nil {
			vio.Fatal("pipe: %v", err)
		}
		if err := cmd.Start(); err != nil {
			vio.Fatal("start child: %v", err)
		}
		vio.Flush()
		io.Copy(os.Stdout, out)
		if err := cmd.Wait(); err != nil {
			msg := errb.String()
			if strings.Contains(msg, "fatal error: concurrent map") {
				if len(msg) > 3000 {
					msg = msg[:3000]
				}
				os.Stdout.WriteString("\n")
				vio.Emit(map[string]interface{}{"crash": true, "what": strings.SplitN(msg[strings.Index(msg, "fatal error:"):], "\n", 2)[0], "stderr": msg})
				return
			}
			os.Stderr.WriteString(msg)
			vio.Fatal("lin-child failed: %v", err)
		}
		os.Stderr.WriteString(errb.String())
	case "lin-child":
		mode := ""
		if len(os.Args) > 6 {
			mode = os.Args[6]
		}
		linRecord(atoi(os.Args[2]), atoi(os.Args[3]), atoi(os.Args[4]), atoi(os.Args[5]), mode)
	case "seq-run": // <maxtx>; stdin: {"calls":[...]} lines
		seqRun(atoi(os.Args[2]))
	default:
		vio.Fatal("unknown command %s", os.Args[1])
	}
}
