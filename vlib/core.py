"""Runner core for /verif checks (python3 stdlib only).

A check module (checks/<ID>.py) exposes `run(ctx)`; it uses ctx to
  * build harness driver binaries from $VERIF_REPO (default /repo) with `-tags verif`,
  * run TLC on spec modules (exhaustive / generation / trace validation),
  * run drivers, compare, and report violations,
  * write evidence/<ID>.json.

Exit codes (bin/vcheck): 0 held (maybe KNOWN-FINDING lines); 1 violation(s); 2 no verdict.
"""
import json, os, re, shutil, subprocess, sys, time, hashlib, glob

VERIF = os.path.dirname(os.path.dirname(os.path.abspath(__file__)))
TLA_JAR = "/opt/veriftools/tla/tla2tools.jar"
TLA_CP = TLA_JAR + ":/opt/veriftools/tla/CommunityModules-deps.jar"
GOENV = {"GOFLAGS": "-mod=mod", "GOPROXY": "off", "GOSUMDB": "off", "GOTOOLCHAIN": "local",
         "GONOSUMDB": "*", "GONOSUMCHECK": "1"}


class NoVerdict(Exception):
    """Infrastructure problem: exit 2, never a violation."""


class TLCResult:
    def __init__(self, rc, out, wall):
        self.rc, self.out, self.wall = rc, out, wall
        self.lines = out.split("\n")
        self.generated = self.distinct = 0
        self.depth = 0
        m = None
        for m in re.finditer(r"(\d+) states generated, (\d+) distinct states found", out):
            pass
        if m:
            self.generated, self.distinct = int(m.group(1)), int(m.group(2))
        m = re.search(r"The depth of the complete state graph search is (\d+)", out)
        if m:
            self.depth = int(m.group(1))
        self.invariant_violated = None
        m = re.search(r"Invariant (\S+) is violated", out)
        if m:
            self.invariant_violated = m.group(1)
        m = re.search(r"Action property (\S+) is violated", out)
        if m:
            self.invariant_violated = m.group(1)
        self.postcondition_false = ("POSTCONDITION" in out and "violated" in out) or \
            bool(re.search(r"The postcondition .* is false|Evaluating.*postcondition.*failed", out, re.I))
        self.ok = (rc == 0)

    def emitted(self, tag):
        """Parse lines printed by PrintT(<<"TAG", ToJson(x)>>) -> list of python objects."""
        res = []
        pre = '<<"%s", "' % tag
        for ln in self.lines:
            if ln.startswith(pre) and ln.endswith('">>'):
                s = ln[len(pre):-3]
                s = _tla_unescape(s)
                res.append(json.loads(s))
        return res

    def counterexample(self):
        """Return the textual error trace (list of state blocks)."""
        i = self.out.find("Error: The behavior up to this point is:")
        if i < 0:
            i = self.out.find("Error:")
        return self.out[i:i + 20000] if i >= 0 else ""

    def zero_coverage(self):
        """With -coverage 1: names of actions never taken (lines `<Action ...>: 0:0`)."""
        z = []
        for m in re.finditer(r"^<(\w+) line [^>]*>: (\d+):(\d+)$", self.out, re.M):
            if m.group(3) == "0":
                z.append(m.group(1))
        return sorted(set(z))


def _tla_unescape(s):
    out = []
    i = 0
    while i < len(s):
        c = s[i]
        if c == "\\" and i + 1 < len(s):
            n = s[i + 1]
            if n == '"':
                out.append('"'); i += 2; continue
            if n == "\\":
                out.append("\\"); i += 2; continue
            if n == "n":
                out.append("\n"); i += 2; continue
            if n == "t":
                out.append("\t"); i += 2; continue
        out.append(c)
        i += 1
    return "".join(out)


class Ctx:
    def __init__(self, pid, tier, seed, replay=None):
        self.pid, self.tier, self.seed, self.replay = pid, tier, seed, replay
        self.repo = os.path.abspath(os.environ.get("VERIF_REPO", "/repo"))
        self.t0 = time.time()
        self.out = os.path.join(VERIF, "out", "%s-%s-%d" % (pid, tier, os.getpid()))
        shutil.rmtree(self.out, ignore_errors=True)
        os.makedirs(self.out)
        self.specdir = os.path.join(self.out, "spec")
        shutil.copytree(os.path.join(VERIF, "spec"), self.specdir)
        self.violations = []     # (key, detail, replay_path)
        self.known_hits = []
        self.notes = []
        self.cov = {"states": 0, "transitions": 0, "traces_validated_against_impl": 0,
                    "evaluations": 0, "distinct_nontrivial": 0, "samples": [], "tlc_runs": []}
        self.assumptions = []
        self._built = {}
        self._modfile = None
        self.known = [k for k in _load_known() if k.get("property") == pid]
        self.cores = _workers()
        self.quick = (tier == "quick")

    # ---------------------------------------------------------------- go build
    def modfile(self):
        if self._modfile:
            return self._modfile
        gm = open(os.path.join(self.repo, "go.mod")).read()
        reps = []
        m = re.search(r"replace\s*\((.*?)\)", gm, re.S)
        if m:
            for ln in m.group(1).splitlines():
                ln = ln.strip()
                if ln and not ln.startswith("//"):
                    reps.append("replace " + ln)
        for ln in gm.splitlines():
            if ln.startswith("replace ") and "(" not in ln:
                reps.append(ln.strip())
        gov = re.search(r"^go\s+(\S+)", gm, re.M)
        txt = "module verifh\n\ngo %s\n\nrequire github.com/polynetwork/poly v0.0.0\n\n" % (gov.group(1) if gov else "1.14")
        txt += "replace github.com/polynetwork/poly => %s\n\n" % self.repo
        txt += "replace github.com/harmony-one/bls => %s\n\n" % os.path.join(VERIF, "harness", "stubs", "bls")
        txt += "\n".join(reps) + "\n"
        d = os.path.join(self.out, "gomod")
        os.makedirs(d, exist_ok=True)
        mf = os.path.join(d, "go.mod")
        open(mf, "w").write(txt)
        shutil.copy(os.path.join(self.repo, "go.sum"), os.path.join(d, "go.sum"))
        self._modfile = mf
        return mf

    def goenv(self):
        e = dict(os.environ)
        e.update(GOENV)
        e.setdefault("GOCACHE", os.path.expanduser("~/.cache/go-build"))
        return e

    def build(self, cmd, race=False, timeout=1500):
        """go build harness/cmd/<cmd> against the current tree of self.repo, tag verif."""
        key = (cmd, race)
        if key in self._built:
            return self._built[key]
        bindir = os.path.join(self.out, "bin")
        os.makedirs(bindir, exist_ok=True)
        outp = os.path.join(bindir, cmd + ("-race" if race else ""))
        args = ["go", "build", "-modfile=" + self.modfile(), "-tags", "verif", "-o", outp]
        if race:
            args.append("-race")
        args.append("./cmd/" + cmd)
        t = time.time()
        p = subprocess.run(args, cwd=os.path.join(VERIF, "harness"), env=self.goenv(),
                           stdout=subprocess.PIPE, stderr=subprocess.STDOUT, text=True, timeout=timeout)
        if p.returncode != 0:
            raise NoVerdict("harness build failed for %s:\n%s" % (cmd, p.stdout[-6000:]))
        self.note("built %s in %.1fs" % (cmd, time.time() - t))
        self._built[key] = outp
        return outp

    # ---------------------------------------------------------------- TLC
    def tlc(self, module, cfg=None, workers=None, timeout=900, simulate=None, depth=None,
            extra=None, coverage=False, heap="8g", deadlock=True, quiet=False, dfs=False, files=None):
        """Run TLC on spec/<module>.tla with spec/<cfg> in the scratch copy of spec/.
        files: dict name->content written into the scratch spec dir first (e.g. trace.ndjson)."""
        if files:
            for n, c in files.items():
                with open(os.path.join(self.specdir, n), "w") as f:
                    f.write(c)
        cfg = cfg or (module + ".cfg")
        meta = os.path.join(self.out, "meta-%d" % int(time.time() * 1e6))
        jv = ["java", "-XX:+UseParallelGC", "-Xss64m", "-Xmx" + heap]
        if dfs:
            jv.append("-Dtlc2.tool.queue.IStateQueue=StateDeque")
        cmdl = ["timeout", str(timeout)] + jv + ["-cp", TLA_CP, "tlc2.TLC", "-metadir", meta,
                "-config", cfg, "-workers", str(workers or self.cores)]
        if not deadlock:
            cmdl.append("-deadlock")
        if coverage:
            cmdl += ["-coverage", "1"]
        if simulate:
            cmdl += ["-simulate", simulate]
            cmdl += ["-seed", str(self.seed)]
        if depth:
            cmdl += ["-depth", str(depth)]
        if extra:
            cmdl += extra
        cmdl.append(module + ".tla")
        t = time.time()
        p = subprocess.run(cmdl, cwd=self.specdir, stdout=subprocess.PIPE, stderr=subprocess.STDOUT, text=True)
        shutil.rmtree(meta, ignore_errors=True)
        r = TLCResult(p.returncode, p.stdout, time.time() - t)
        self.cov["tlc_runs"].append({"module": module, "cfg": cfg, "rc": p.returncode,
                                     "generated": r.generated, "distinct": r.distinct,
                                     "wall_s": round(r.wall, 1)})
        if p.returncode == 124:
            raise NoVerdict("TLC timeout on %s/%s after %ds" % (module, cfg, timeout))
        if p.returncode >= 75 or "Parsing or semantic analysis failed" in p.stdout or "java.lang.OutOfMemoryError" in p.stdout:
            # 75.. = TLC errors (spec error, config error, system error)
            if not quiet:
                raise NoVerdict("TLC error rc=%d on %s/%s:\n%s" % (p.returncode, module, cfg, p.stdout[-5000:]))
        return r

    def mc(self, module, cfg=None, **kw):
        """P-MC: exhaustive check of the design; counts states/transitions into coverage.
        A model-level counterexample is NOT a violation of the code: exit 2 unless the caller reproduces it."""
        r = self.tlc(module, cfg, **kw)
        self.cov["states"] += r.distinct
        self.cov["transitions"] += r.generated
        if r.rc != 0:
            raise NoVerdict("model-level alarm in %s/%s (rc=%d, %s) - not reproduced on code:\n%s" %
                            (module, cfg or module, r.rc, r.invariant_violated, r.counterexample()[:4000]))
        return r

    def gen(self, module, cfg, tag, workers=1, **kw):
        """Generation run: TLC prints <<tag, json>> lines; returns parsed list. rc must be 0."""
        r = self.tlc(module, cfg, workers=workers, **kw)
        if r.rc != 0:
            raise NoVerdict("generation run failed %s/%s rc=%d:\n%s" % (module, cfg, r.rc, r.out[-4000:]))
        items = r.emitted(tag)
        self.cov["states"] += r.distinct
        self.cov["transitions"] += r.generated
        return items

    def validate_trace(self, module, cfg, events, name="trace.ndjson", timeout=600, heap="8g", dfs=True):
        """P-VALIDATE: events = list of dicts (NDJSON). Trace module must use the HighWater idiom:
             TLCSet(1,1) in Init; CONSTRAINT updates TLCGet(1) to max l; POSTCONDITION Accepted;
           and print PrintT(<<"HIGHWATER", TLCGet(1)>>) in the postcondition (see spec/TraceKit.tla).
           Returns (accepted, highwater_line_index)."""
        body = "\n".join(json.dumps(e, separators=(",", ":"), sort_keys=True) for e in events) + "\n"
        r = self.tlc(module, cfg, workers=1, timeout=timeout, deadlock=False, heap=heap, dfs=dfs,
                     files={name: body}, quiet=True)
        hw = None
        for ln in r.lines:
            m = re.match(r'<<"HIGHWATER", (\d+)>>', ln)
            if m:
                hw = int(m.group(1))
        if hw is None:
            raise NoVerdict("trace validation produced no HIGHWATER line (%s/%s rc=%d):\n%s" %
                            (module, cfg, r.rc, r.out[-4000:]))
        accepted = (hw == len(events) + 1) and r.invariant_violated is None
        if r.rc != 0 and accepted:
            # postcondition true but TLC failed otherwise
            if r.rc >= 75:
                raise NoVerdict("TLC error in trace validation rc=%d:\n%s" % (r.rc, r.out[-4000:]))
        self.cov["states"] += r.distinct
        self.cov["transitions"] += r.generated
        return accepted, hw, r

    # ---------------------------------------------------------------- drivers
    def driver(self, binary, args, input_obj=None, input_path=None, timeout=1800, env=None, ndjson=True):
        """Run a driver; stdin = NDJSON of input_obj (list) or file; stdout NDJSON parsed."""
        e = self.goenv()
        e["VERIF_SEED"] = str(self.seed)
        e["VERIF_TIER"] = self.tier
        e["VERIF_OUT"] = self.out
        if env:
            e.update(env)
        stdin = None
        data = None
        if input_obj is not None:
            data = "\n".join(json.dumps(x, separators=(",", ":")) for x in input_obj) + "\n"
        elif input_path:
            stdin = open(input_path)
        try:
            p = subprocess.run([binary] + list(args), input=data, stdin=stdin, stdout=subprocess.PIPE,
                               stderr=subprocess.PIPE, text=True, timeout=timeout, env=e, cwd=self.out)
        except subprocess.TimeoutExpired:
            raise NoVerdict("driver timeout: %s %s" % (binary, args))
        if p.returncode != 0:
            raise NoVerdict("driver failed rc=%d: %s %s\nstderr:\n%s\nstdout tail:\n%s" %
                            (p.returncode, binary, args, p.stderr[-4000:], p.stdout[-2000:]))
        if not ndjson:
            return p.stdout
        res = []
        for ln in p.stdout.split("\n"):      # not splitlines(): U+0085 / U+2028 inside JSON strings must not split a line
            ln = ln.strip()
            if ln.startswith("{") or ln.startswith("["):
                try:
                    res.append(json.loads(ln))
                except ValueError as e:
                    raise NoVerdict("driver printed a malformed JSON line (%s): %s" % (e, ln[:300]))
        return res

    # ---------------------------------------------------------------- verdicts
    def note(self, s):
        self.notes.append(s)
        sys.stderr.write("[%s %6.1fs] %s\n" % (self.pid, time.time() - self.t0, s))
        sys.stderr.flush()

    def violation(self, key, detail, replay=None):
        """key: stable identifier of the *specific* failing case class (matched against KNOWN_FINDINGS)."""
        for k in self.known:
            if k.get("status") == "known" and _key_match(k.get("key", ""), key):
                if k["key"] not in [h["key"] for h in self.known_hits]:
                    self.known_hits.append({"key": k["key"], "what": k.get("what", ""), "detail": detail})
                return False
        for v in self.violations:
            if v[0] == key:
                return True
        rd = os.path.join(VERIF, "replays")
        os.makedirs(rd, exist_ok=True)
        safe = re.sub(r"[^A-Za-z0-9_.=-]+", "_", key)[:80]
        path = os.path.join(rd, "%s-%s-%s.json" % (self.pid, safe, hashlib.sha1(json.dumps(replay, sort_keys=True, default=str).encode()).hexdigest()[:8]))
        with open(path, "w") as f:
            json.dump({"property": self.pid, "key": key, "detail": detail, "seed": self.seed,
                       "tier": self.tier, "replay": replay}, f, indent=1, default=str)
        self.violations.append((key, detail, path))
        return True

    def fail(self, msg):
        """No verdict (exit 2): infrastructure / model problem, never a violation."""
        raise NoVerdict(msg)

    def sample(self, x):
        if len(self.cov["samples"]) < 5:
            self.cov["samples"].append(x)

    def finish(self, level="model_checking", rule=None, extra=None, assumptions=None):
        cov = dict(self.cov)
        if rule:
            cov["rule"] = rule
        if extra:
            cov.update(extra)
        if not cov["samples"]:
            cov["samples"] = ["(none recorded)"]
        cov["known_findings_hit"] = self.known_hits
        cov["notes"] = self.notes[-40:]
        ev = {"property_id": self.pid, "tier": self.tier, "seed": self.seed, "level": level,
              "coverage": cov, "assumptions": (assumptions or []) + self.assumptions,
              "wall_s": round(time.time() - self.t0, 2), "violations": len(self.violations)}
        # evidence/ is only written by runs against /repo itself; runs against a scratch tree (VERIF_REPO) go elsewhere
        evdir = "evidence" if self.repo == "/repo" else os.path.join("out", "evidence-scratch")
        os.makedirs(os.path.join(VERIF, evdir), exist_ok=True)
        with open(os.path.join(VERIF, evdir, self.pid + ".json"), "w") as f:
            json.dump(ev, f, indent=1, default=str)
        for h in self.known_hits:
            print("KNOWN-FINDING: property=%s %s [%s]" % (self.pid, h["what"], h["key"]))
        for key, detail, path in self.violations:
            print("VIOLATION property=%s replay=%s" % (self.pid, path))
            print("  key=%s detail=%s" % (key, str(detail)[:600]))
        sys.stdout.flush()
        return 1 if self.violations else 0

    def cleanup(self):
        if not os.environ.get("VERIF_KEEP"):
            shutil.rmtree(self.out, ignore_errors=True)


def _workers():
    """TLC worker count: VERIF_WORKERS, else all cores when the machine is idle, fewer when it is already loaded."""
    n = os.cpu_count() or 4
    if os.environ.get("VERIF_WORKERS"):
        return max(1, int(os.environ["VERIF_WORKERS"]))
    try:
        load = os.getloadavg()[0]
    except OSError:
        load = 0
    if load < n / 2:
        return n
    if load < 1.5 * n:
        return max(2, n // 2)
    return max(2, n // 4)


def _key_match(pattern, key):
    """Known-finding key patterns are exact strings or end with '*' (prefix match)."""
    if pattern.endswith("*"):
        return key.startswith(pattern[:-1])
    return pattern == key


def _load_known():
    """KNOWN_FINDINGS.json is the committed list; known/<ID>.json fragments are merged into it by bin/mkmanifest
    (fragments are also read directly so that a check under construction sees its own entries)."""
    res, seen = [], set()
    files = [os.path.join(VERIF, "KNOWN_FINDINGS.json")] + sorted(glob.glob(os.path.join(VERIF, "known", "C*.json")))
    for p in files:
        if not os.path.exists(p):
            continue
        for k in json.load(open(p)).get("findings", []):
            ident = (k.get("property"), k.get("key"), k.get("status"))
            if ident not in seen:
                seen.add(ident)
                res.append(k)
    return res


def main(argv):
    import importlib
    if len(argv) < 3:
        print("usage: vcheck <ID> quick|thorough [--replay path]")
        return 2
    pid, tier = argv[1], argv[2]
    replay = None
    if "--replay" in argv:
        replay = argv[argv.index("--replay") + 1]
    if tier == "--replay":
        tier = "quick"
    tier = os.environ.get("VERIF_TIER_FORCE", tier)
    try:
        seed = int(os.environ.get("VERIF_SEED", "1") or "1")
    except ValueError:
        seed = 1
    sys.path.insert(0, VERIF)
    ctx = Ctx(pid, tier, seed, replay)
    rc = 2
    try:
        mod = importlib.import_module("checks." + pid)
        r = mod.run(ctx)
        rc = r if isinstance(r, int) else 0
    except NoVerdict as e:
        sys.stderr.write("NO-VERDICT %s: %s\n" % (pid, e))
        rc = 2
    except subprocess.TimeoutExpired as e:
        sys.stderr.write("NO-VERDICT %s: timeout %s\n" % (pid, e))
        rc = 2
    except Exception:
        # a bug in the check script is an infrastructure error (exit 2), never a violation (exit 1)
        import traceback
        sys.stderr.write("NO-VERDICT %s: uncaught exception in the check script\n%s\n" % (pid, traceback.format_exc()))
        rc = 2
    finally:
        ctx.cleanup()
    return rc
