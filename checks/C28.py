"""C28 - Ethereum header rules match the Ethereum specification (header_sync/eth: difficulty calculators incl. bomb delays,
VerifyGaslimit, VerifyEip1559Header, CalcBaseFee, Header.Hash, datasetSize/cacheSize, and SyncBlockHeader enforcing them).
spec/EthRules.tla = the rules transcribed from the Ethereum specification (32-bit safe representations, see the module head).
  P-TABLE: for every table TLC enumerates the boundary grid (Init picks a row, Decide prints the row with the specified
  output / verdict; the same run checks the internal-consistency invariants PropC28Model); the driver evaluates the real
  function (hooks eth.Verif*) or runs the real SyncBlockHeader on (parent installed as trust root, child) and compares.
    calc : difficultyCalculator / makeDifficultyCalculator(9.7M, 10.7M)    gas : VerifyGaslimit
    fee  : CalcBaseFee + VerifyEip1559Header                                rlp : Header.Hash = keccak(spec's RLP bytes)
    size : datasetSize / cacheSize (prime row counts)                       e2e : valid child / one deviation -> accept / reject
  geth : sanity of the transcription against go-ethereum v1.9.15 CalcDifficulty (Byzantium .. Muir Glacier, main net);
         a difference there is a spec error (exit 2), never a violation.
"""
import json

LONDON = 12965000


def rows_of(ctx, table, tier, workers=1, timeout=2400):
    cfg = "EthRules_%s_%s.cfg" % (table, tier)
    r = ctx.tlc("EthRules", cfg, workers=workers, timeout=timeout)
    if r.rc != 0:
        ctx.fail("EthRules table %s: TLC rc=%d (%s)\n%s" % (table, r.rc, r.invariant_violated, r.out[-3000:]))
    ctx.cov["states"] += r.distinct
    ctx.cov["transitions"] += r.generated
    lines = [ln for ln in r.lines if ln.startswith('<<"ROW", "')]
    if not lines or 2 * len(lines) != r.distinct:
        ctx.fail("EthRules table %s: %d rows printed for %d states" % (table, len(lines), r.distinct))
    path = "%s/rows-%s.lines" % (ctx.out, table)
    with open(path, "w") as f:
        f.write("\n".join(lines) + "\n")
    return path, len(lines), lines


def _unescape(ln):
    return ln[len('<<"ROW", "'):-3].replace('\\"', '"').replace("\\\\", "\\")


def e2e_key(m):
    row = m["row"]["row"]
    dev, num = row["dev"], row["num"]
    if m["what"] == "panic":
        return "eth:e2e:panic:" + dev
    if m["expected"] is False:
        if dev == "fee:present+london-rules" and num < LONDON:
            return "eth:prelondon-basefee-selects-london-rules"
        return "eth:e2e:invalid-header-accepted:" + dev
    return "eth:e2e:valid-header-rejected:" + dev


def replay(ctx, b):
    """bin/vcheck C28 quick --replay <file>: evaluate the one recorded row again on the code."""
    d = json.load(open(ctx.replay))["replay"]
    if d["kind"] == "rules-e2e":
        out = ctx.driver(b, ["rules-e2e"], input_obj=[d["row"]])
        for m in [o for o in out if o.get("mismatch")]:
            ctx.violation(e2e_key(m), {"what": m["what"], "row": m["row"], "specified_valid": m["expected"], "got": m["got"]}, replay=d)
    else:
        out = ctx.driver(b, ["rules-table", d["table"]], input_obj=[d["row"]])
        for m in [o for o in out if o.get("mismatch")]:
            ctx.violation("eth:%s:%s" % (d["table"], m["what"].split("(")[0].replace(" ", "-")), {"row": m["row"], "specified": m["expected"], "got": m["got"]}, replay=d)
    ctx.sample({"replayed": d["row"]})
    ctx.cov["evaluations"] = 1
    ctx.cov["distinct_nontrivial"] = 1
    ctx.cov["states"] = ctx.cov["transitions"] = 1
    return ctx.finish(rule="single-row replay")


def run(ctx):
    tier = "quick" if ctx.quick else "thorough"
    b = ctx.build("vd-eth")
    if ctx.replay:
        return replay(ctx, b)
    total = distinct = 0

    # sanity of the transcription (not the oracle)
    path, n, _ = rows_of(ctx, "geth", "quick")
    out = ctx.driver(b, ["rules-geth"], input_path=path)
    bad = [o for o in out if o.get("specsanity")]
    if bad:
        ctx.fail("EthRules disagrees with go-ethereum v1.9.15 CalcDifficulty on %d rows, e.g. %s" % (len(bad), json.dumps(bad[0])[:600]))
    ctx.note("transcription cross-checked against go-ethereum v1.9.15 CalcDifficulty on %d rows" % n)

    for table in ("calc", "gas", "fee", "rlp", "size"):
        path, n, lines = rows_of(ctx, table, tier, workers=(None if table in ("size", "calc") and not ctx.quick else 1))
        out = ctx.driver(b, ["rules-table", table], input_path=path)
        summ = [o for o in out if o.get("summary")][0]
        if summ["rows"] != n and not summ["mismatches"]:
            # rows that panicked are reported as mismatches and are not counted as evaluated
            ctx.fail("driver evaluated %d of %d rows of table %s" % (summ["rows"], n, table))
        sane = [o for o in out if o.get("specsanity")]
        if sane:
            ctx.fail("spec sanity (%s): %s" % (table, json.dumps(sane[0])[:600]))
        total += n
        distinct += summ["distinct"]
        ctx.note("table %s: %d rows, %d mismatches" % (table, n, summ["mismatches"]))
        if table in ("calc", "fee"):
            ctx.sample({table: json.loads(_unescape(lines[len(lines) // 3]))})
        for m in [o for o in out if o.get("mismatch")]:
            what = m["what"].split("(")[0]
            ctx.violation("eth:%s:%s" % (table, what.replace(" ", "-")),
                          {"function": m["what"], "row": m["row"], "specified": m["expected"], "got": m["got"]},
                          replay={"kind": "rules-table", "table": table, "row": m["row"]})

    path, n, lines = rows_of(ctx, "e2e", tier)
    out = ctx.driver(b, ["rules-e2e"], input_path=path)
    summ = [o for o in out if o.get("summary")][0]
    if summ["rows"] != n:
        ctx.fail("driver ran %d of %d end-to-end rows" % (summ["rows"], n))
    total += n
    distinct += summ["distinct"]
    ctx.note("table e2e: %d rows, %d mismatches" % (n, summ["mismatches"]))
    ctx.sample({"e2e": json.loads(_unescape(lines[len(lines) // 2]))})
    for m in [o for o in out if o.get("mismatch")]:
        r = m["row"]
        ctx.violation(e2e_key(m), {"what": m["what"], "deviation": r["row"]["dev"], "child_number": r["row"]["num"], "parent": r["parent"],
                                   "child": r["child"], "specified_valid": m["expected"], "got": m["got"]},
                      replay={"kind": "rules-e2e", "row": r})
    ctx.cov["evaluations"] = total
    ctx.cov["distinct_nontrivial"] = distinct
    return ctx.finish(
        rule="P-TABLE: %d rows printed by TLC from EthRules.tla (boundary grid: every floor(dt/9) step and the -99 clamp, uncles, "
             "minimum-difficulty clamp, bomb period edges per delay, era edges +-1, gas limits at +-(parent/1024) +-1 and 5000, gas used "
             "0/target-1/target/target+1/limit, base fees 0/1/small/10^9, RLP integer widths, Ethash epochs) evaluated on the real "
             "functions and end to end through SyncBlockHeader; distinct_nontrivial = distinct rows whose specified output is not the "
             "default (changed difficulty / rejected / changed base fee / every RLP and size row)." % total,
        assumptions=["'the Ethereum specification' = the transcription in spec/EthRules.tla (EIP-100/649/1234/2384/3554/4345, EIP-1559, yellow-paper "
                     "RLP, Ethash sizes); cross-checked against go-ethereum v1.9.15 only where that version has the rule",
                     "domain: main-net numbers 9 200 000 .. 15 049 999; poly has no Gray Glacier (15 050 000) rule and applies the 9 000 000 delay "
                     "to every pre-London number (observations, outside the domain)",
                     "32-bit model: difficulties b*2^s + 2^e with b < 2^31 (s > 0 only for multiples of 2048), base fees <= 1.8*10^9, gas limits <= 2^30",
                     "Ethash seal (verifyHeader) is skipped by eth.VerifSealHook; wall-clock future-block check not in the table; gas limit > 2^63-1 not representable"])
