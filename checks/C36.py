"""C36 - Only registered relayers (or permitted consensus addresses) can submit transactions.
spec/TxSender.tla (relayer registry with approval rounds, peer pool, the pool process' permitted map and its refresh rule,
admission), spec/TraceTxSender.tla; driver harness/cmd/vd-pool (sender).
  1. P-MC      : TypeOK / PropC36 on the model (all interleavings of requests, approvals, candidate approval, ageing, restart).
  2. P-VALIDATE: TLC random walks (relayer-only, candidate/process-only, everything) plus one directed behaviour are executed on
                 a fresh real ledger installed as ledger.DefLedger: every ledger action is a real block with one real
                 relayer_manager / node_manager transaction signed by the acting account; after every action
                 updatePermittedAddrMap + isValidSender (hook) are probed with all 256 signer sets over
                 {r1, r2, v1, c1, multisig(validators), multisig(validators+c1), 1-of-n(validators), outsider} and a sample of
                 13 sets goes through the real TxActor as TxReq.  TLC validates the observations against the model (strict:
                 admitted iff relayer or permitted, registry, peer pool and permitted map as predicted) and evaluates the
                 monitor PropC36 on every observation.
"""
import json

DIRECTED = [("register", ["r1", "r2"], 0, ""), ("approvereg", [], 0, "v1"), ("approvereg", [], 0, "v2"), ("approvereg", [], 0, "x"),
            ("approvereg", [], 0, "v3"), ("remove", ["r1"], 0, ""), ("approverem", [], 0, "v1"), ("approverem", [], 0, "v2"),
            ("approverem", [], 0, "v4"), ("candreg", [], 0, "c1"), ("candapprove", [], 0, "c1/v1"), ("candapprove", [], 0, "c1/v2"),
            ("candapprove", [], 0, "c1/v3"), ("probe", [], 0, ""), ("age", [], 0, ""), ("restart", [], 0, ""),
            ("register", ["r1"], 0, ""), ("approvereg", [], 1, "v2"), ("approvereg", [], 1, "v3"), ("approvereg", [], 1, "v4"),
            ("approverem", [], 0, "v1"), ("approverem", [], 0, "v2"), ("approverem", [], 0, "v3")]


def _flat(bhs):
    ev, owner = [], []
    for i, b in enumerate(bhs):
        for st in b["steps"]:
            ev.append(st)
            owner.append(i)
    return ev, owner


def run(ctx):
    q = ctx.quick
    b = ctx.build("vd-pool")
    ctx.mc("TxSender", "TxSender_mc_quick.cfg" if q else "TxSender_mc_thorough.cfg", timeout=2400)
    bhs = [{"steps": [{"op": o, "l": l, "id": i, "a": a} for o, l, i, a in DIRECTED]}]
    for cfg, n in (("TxSender_walk_rel.cfg", 8 if q else 120), ("TxSender_walk_cand.cfg", 3 if q else 40), ("TxSender_walk.cfg", 5 if q else 120)):
        ws = ctx.tlc("TxSender", cfg, workers=1, timeout=900, simulate="num=%d" % n, depth=32).emitted("WALK")
        ws = list({json.dumps(w["steps"][:-1], sort_keys=True): w for w in ws}.values())
        if len(ws) < n // 2:
            ctx.fail("too few walks from %s: %d" % (cfg, len(ws)))
        bhs += [{"steps": w["steps"]} for w in ws]
    for i, x in enumerate(bhs):
        x["id"] = i + 1
    out = ctx.driver(b, ["sender"], input_obj=bhs, timeout=3000)
    done = sorted([o for o in out if "steps" in o], key=lambda o: o["id"])
    if len(done) != len(bhs):
        ctx.fail("sender driver ran %d of %d behaviours" % (len(done), len(bhs)))
    # strict conformance
    todo, mismatched = list(done), []
    while todo and len(mismatched) < 6:
        ev, owner = _flat(todo)
        ok, hw, r = ctx.validate_trace("TraceTxSender", "TraceTxSender.cfg", ev, timeout=1500)
        if ok:
            break
        k = owner[hw - 1]
        first = owner.index(k)
        mismatched.append((todo[k], hw - first, ev[hw - 1]))
        todo = todo[k + 1:]
    # the monitor on everything
    ev, owner = _flat(done)
    body = "\n".join(json.dumps(e, separators=(",", ":"), sort_keys=True) for e in ev) + "\n"
    r = ctx.tlc("TraceTxSender", "TraceTxSender_mon.cfg", workers=1, timeout=1500, deadlock=False, dfs=True,
                files={"trace.ndjson": body}, quiet=True)
    if '<<"HIGHWATER", %d>>' % (len(ev) + 1) not in r.out:
        ctx.fail("monitor run did not consume the whole trace:\n%s" % r.out[-3000:])
    bad = {}
    for ln in r.lines:
        if ln.startswith('<<"MONFAIL", '):
            idx = int(ln.split(",")[1])
            bad.setdefault(owner[idx - 1], []).append(idx - 1)
    for k, idxs in sorted(bad.items()):
        e = ev[idxs[0]]
        stim = [{x: st[x] for x in st if x != "obs"} for st in done[k]["steps"]]
        ctx.violation("sender:admitted-without-credential:%s" % e["op"],
                      {"event": {x: e[x] for x in e if x != "obs"}, "admitted_masks": e["obs"]["acc"][:40], "admitted_txreq": e["obs"]["acc2"],
                       "registry_in_ledger": e["obs"]["reg"], "peer_pool_in_ledger": e["obs"]["peers"], "permitted_map": e["obs"]["perm"],
                       "mask_bits": ["r1", "r2", "v1", "c1", "op0", "op1", "opm", "x"], "stimuli": stim},
                      replay={"kind": "sender", "steps": stim})
    for bh, at, e in mismatched:
        if (bh["id"] - 1) not in bad:
            ctx.note("DRIFT: behaviour %d leaves the implementation-shaped model at event %d (%s) but satisfies PropC36: obs=%s"
                     % (bh["id"], at, e["op"], json.dumps(e.get("obs"))[:400]))
    ctx.cov["traces_validated_against_impl"] += len(done) - len(mismatched)
    ctx.cov["evaluations"] = sum((256 + 13) for _ in ev)
    ctx.cov["distinct_nontrivial"] = len(set(json.dumps([e["op"], e["obs"]["acc"], e["obs"]["acc2"], e["obs"]["reg"], e["obs"]["perm"]])
                                             for e in ev if e["obs"]["reg"] or len(e["obs"]["perm"]) != 5))
    ctx.sample({"event": {x: ev[len(ev) // 2][x] for x in ("op", "l", "id", "a")}, "obs": {k: v for k, v in ev[len(ev) // 2]["obs"].items() if k != "acc"}})
    return ctx.finish(rule="evaluations = sender tests executed on the real pool code (256 signer sets through isValidSender + 13 through the "
                      "real TxActor per event); distinct_nontrivial = distinct (action, admitted sets, registry, permitted map) observations "
                      "in states other than the initial one. %d behaviours, %d events (real blocks)." % (len(done), len(ev)),
                      assumptions=["'permitted consensus address' is read as: address of a key of the peer pool map, or the multi-signature address over "
                                   "all keys, that the process read from the ledger since it started (the map only grows and is refreshed at most once a minute)",
                                   "the minute is not waited for: the hook moves the time of the last refresh",
                                   "quit / black-listed nodes (pool map shrinking) are not driven; the map never shrinks in the code (observation in notes/built/C36.md)"])
