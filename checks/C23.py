"""C23 - EVM-family deposit proofs are sound and complete.
spec/EvmProof.tla; driver harness/cmd/vd-posa (proof-table).
  1. P-MC    : PropC23 (Accept => confirmed and true in the canonical state; honest confirmed true claim => Accept)
               over the whole claim table of each configuration (abstract Merkle tries, hashes as free terms).
  2. P-TABLE : every row (height x world x account-proof kind x storage-proof kind x message) is concretized with
               go-ethereum's trie package (real secure tries, RLP accounts, eth_getProof-shaped JSON; several random
               worlds per seed) and sent to the real MakeDepositProposal of each router; the router's header store is
               filled through its real SyncGenesisHeader / SyncBlockHeader (PoSA: real seals; eth: seal hook).
Verdict: accept/reject must equal the table ("exactly when"), the returned message must be the submitted one.
"""
import concurrent.futures
import json

# (G0, Best, Wait, ForkAt, DepositAt, LeadZ) - must equal the constants of spec/EvmProof_<name>.cfg
CFGS = {"w3": (200, 206, 3, 203, 203, 0), "w1": (200, 206, 1, 203, 203, 1), "w2": (200, 206, 2, 204, 205, 0), "w12": (200, 214, 12, 203, 201, 0),
        "hdr": (200, 206, 1, 203, 203, 1)}
ROUTERS_QUICK = ["eth", "bsc", "heco"]
ROUTERS_ALL = ["eth", "bsc", "bytom", "heco", "hsc", "pixie", "msc", "bor"]
UNCOVERED = []


def _table(ctx, b, router, name, rows, variants, stats):
    g0, best, wait, forkat, depat, leadz = CFGS[name]
    out = ctx.driver(b, ["proof-table", router, str(g0), str(best), str(wait), str(forkat), str(depat), str(variants), str(leadz)], input_obj=rows, timeout=3000)
    summ = [o for o in out if o.get("summary")]
    if not summ:
        ctx.fail("no summary from proof-table %s %s" % (router, name))
    summ = summ[0]
    if not summ["world_ok"]:
        ctx.fail("the synthetic world of %s/%s is not what the table assumes (canonical roots differ)" % (router, name))
    if summ["evaluations"] != len(rows) * variants:
        ctx.fail("driver evaluated %d of %d rows" % (summ["evaluations"], len(rows) * variants))
    if summ["accepts"] == 0 and not ctx.replay:
        ctx.fail("no row was accepted by %s/%s: the adapter is broken, nothing was exercised" % (router, name))
    stats["evaluations"] += summ["evaluations"]
    stats["classes"][router + name] = summ["distinct_classes"]
    ctx.note("%s %s: %s" % (router, name, json.dumps({k: summ[k] for k in ("rows", "evaluations", "accepts", "rejects", "panics", "mismatches")})))
    seen = set()
    for o in out:
        if o.get("mismatch") and o["key"] not in seen:
            seen.add(o["key"])
            ctx.violation(o["key"], {"row": o["row"], "got": o["got"], "err": o.get("err"), "panic": (o.get("panic") or "")[:600], "msg_equal": o.get("msg_equal")},
                          replay={"kind": "evmproof", "router": router, "cfg": name, "row": o["row"], "variant": o["variant"], "claim": o.get("claim")})


def run(ctx):
    q = ctx.quick
    b = ctx.build("vd-posa")
    stats = {"evaluations": 0, "classes": {}}
    if ctx.replay:
        rp = json.load(open(ctx.replay))["replay"]
        _table(ctx, b, rp["router"], rp["cfg"], [rp["row"]], rp["variant"] + 1, stats)
        ctx.cov["evaluations"] = stats["evaluations"]
        ctx.cov["distinct_nontrivial"] = 2
        ctx.sample(rp["row"])
        return ctx.finish(rule="single replayed row (all world variants up to the failing one)")
    # every router in both tiers (each handler has its own copy of the confirmation test), every BlocksToWait in
    # {1, 2, 3, 12}: the height dimension of each table is relative to its Wait (head - height in wait-3 .. wait+1)
    routers = ROUTERS_ALL
    names = ["w1", "w2", "w3", "w12", "hdr"]
    variants = 2 if q else 12
    with concurrent.futures.ThreadPoolExecutor(max_workers=len(names)) as ex:
        tables = list(ex.map(lambda n: ctx.gen("EvmProof", "EvmProof_%s.cfg" % n, "ROW", timeout=1200, heap="4g"), names))
    for name, rows in zip(names, tables):
        if len(rows) < 1000:
            ctx.fail("too few rows from EvmProof_%s.cfg: %d" % (name, len(rows)))
        acc = [r for r in rows if r["acc"]]
        if not acc or len(acc) == len(rows):
            ctx.fail("vacuous table %s" % name)
        if name != "hdr":
            g0, best, wait = CFGS[name][0], CFGS[name][1], CFGS[name][2]
            dists = set(best - r["r"]["h"] for r in rows)
            need = set(range(max(0, wait - 3), wait + 2))
            if not need <= dists:
                ctx.fail("table %s lacks the confirmation-boundary rows head-height in %s" % (name, sorted(need - dists)))
        ctx.sample({"cfg": name, "accepted_row": acc[0], "rejected_row": [r for r in rows if not r["acc"] and r["true"] and r["conf"]][0]})
        for router in (["quorum"] if name == "hdr" else routers):
            _table(ctx, b, router, name, rows, variants, stats)
    routers = routers + ["quorum"]
    ctx.cov["evaluations"] = stats["evaluations"]
    ctx.cov["distinct_nontrivial"] = max(stats["classes"].values())
    return ctx.finish(rule="P-TABLE: one row per claim descriptor (height in {below genesis, around the confirmation boundary, head, head+1} x "
                      "{canonical state at that height, state of a stored non-canonical header, state of no header} x 7 account-proof kinds x "
                      "12 storage-proof kinds (incl. slots whose value is the last 1/2/31 bytes of the hash, 33 bytes ending in it, empty) x 2 messages; "
                      "Keccak(M) with and without a leading zero byte), each concretized in %d random worlds; distinct_nontrivial = distinct "
                      "(height class, world, kinds, message, verdict) classes other than the plain valid claim." % variants,
                      extra={"routers_covered": routers, "routers_uncovered": UNCOVERED, "blocks_to_wait": [1, 2, 3, 12]},
                      assumptions=["confirmation rule as coded: head - height >= BlocksToWait - 1 (BlocksToWait >= 1)",
                                   "the storage slot is not part of the property: any slot of the registered contract holding Keccak(message) is accepted",
                                   "keccak / MPT hashing are collision resistant (free term algebra in the model, real keccak in the driver)",
                                   "quorum: validator set of 4 (F = 1: proposer seal + one committed seal suffice, as coded); the seal-count rule itself is not part of C23",
                                   "eth: the Ethash seal decision is taken by the verif hook, everything else in header sync is real"])
