"""C25 - Vote-based approvals fire exactly once at two thirds.
spec/Votes.tla (+TraceVotes.tla, monitor PropC25 / OnceC25); driver harness/cmd/vd-xchain (votes-*).
  1. P-MC      : PropC25 (release <=> first vote after which |voters /\ current validators| >= ceil(2N/3), not released before),
                 OnceC25, and (2n+2) div 3 = ceil(2n/3) for n <= 10000 (ASSUME), on the transcription of CheckVotes / CheckSigns
                 with validator-set changes.
  2. P-EDGE    : every (validator set, recorded voters, status) x (vote by any address | epoch change) edge executed on the real
                 code: CheckVotes through ImportExTransfer on a vote-router chain and on a ripple-router chain (release = request
                 record + one cross-state leaf + done key), CheckSigns through AddSignature (release = AddSignatureQuorum event);
                 error flag, release flag, stored voter set and Status compared with the prediction.
  3. monitor   : a mismatching edge is validated as a trace of observations against PropC25 (storage layout is not part of it).
  4. P-VALIDATE: random histories, validator sets of size 1..10 drawn from 12 accounts, former validators and outsiders voting,
                 repeat votes, epoch changes; every observed release decided by the monitor.
"""
import json, re

GENS_Q = [("Votes_gen_a_vote.cfg", ["vote", "ripple"]), ("Votes_gen_a_sig.cfg", ["sig"]),
          ("Votes_gen_b_vote.cfg", ["vote"]), ("Votes_gen_b_sig.cfg", ["sig"])]
GENS_T = [("Votes_gen_c_vote.cfg", ["vote", "ripple"]), ("Votes_gen_c_sig.cfg", ["sig"]),
          ("Votes_gen_d_vote.cfg", ["vote"]), ("Votes_gen_d_sig.cfg", ["sig"])]


def _strip(e):
    return {k: v for k, v in e.items() if k not in ("detail", "errmsg", "panic")}


def monitor(ctx, events):
    body = "\n".join(json.dumps(_strip(e), separators=(",", ":"), sort_keys=True) for e in events) + "\n"
    r = ctx.tlc("TraceVotes", "TraceVotes.cfg", workers=1, timeout=1200, deadlock=False, dfs=True, files={"trace.ndjson": body}, quiet=True)
    ctx.cov["states"] += r.distinct
    ctx.cov["transitions"] += r.generated
    if r.invariant_violated:
        ls = [int(x) for x in re.findall(r"^/\\ l = (\d+)$", r.out, re.M)]
        return False, (max(ls) - 2) if ls else None
    hw = None
    for ln in r.lines:
        m = re.match(r'<<"HIGHWATER", (\d+)>>', ln)
        if m:
            hw = int(m.group(1))
    if r.rc != 0 or hw != len(events) + 1:
        ctx.fail("trace validation gave no verdict (rc=%d, highwater=%s of %d):\n%s" % (r.rc, hw, len(events), r.out[-3000:]))
    return True, None


def _situation(events, idx):
    """Name the situation of the failing vote event (for the violation key only)."""
    cons, voters, released = set(), {}, set()
    for e in events[:idx]:
        if e["ev"] == "reset":
            cons, voters, released = set(e["cons"]), {}, set()
        elif e["ev"] == "epoch":
            cons = set(e["cons"])
        elif e["ev"] == "vote":
            if e["a"] in cons:
                voters.setdefault(e["id"], set()).add(e["a"])
            if e["rel"]:
                released.add(e["id"])
    e = events[idx]
    if e["ev"] != "vote":
        return e["ev"]
    n = len(cons)
    cnt = len((voters.get(e["id"], set()) | {e["a"]}) & cons)
    thr = (2 * n + 2) // 3
    who = "validator" if e["a"] in cons else "outsider"
    if e["a"] in voters.get(e["id"], set()):
        who = "repeat-" + who
    when = "after-release" if e["id"] in released else ("at-threshold" if cnt == thr else "above-threshold" if cnt > thr else "below-threshold")
    return "%s:%s:%s" % (who, when, "released" if e["rel"] else "not-released")


def run(ctx):
    q = ctx.quick
    b = ctx.build("vd-xchain")
    if ctx.replay:
        rp = json.load(open(ctx.replay))["replay"]
        events = ctx.driver(b, ["votes-steps", rp["mode"], json.dumps({"Addrs": rp["addrs"], "Init": rp["init"], "Ids": ["m1", "m2", "m3"]})],
                            input_obj=rp["steps"], env=rp.get("env"))
        ok, idx = monitor(ctx, events)
        if not ok:
            ctx.violation("replay[%s]:%s" % (rp["mode"], _situation(events, idx)), {"event": events[idx], "index": idx}, replay=rp)
        ctx.cov["evaluations"] = ctx.cov["distinct_nontrivial"] = len(events)
        ctx.sample({"replayed": events[-2:]})
        return ctx.finish(rule="replay of one stored case")
    for m in ("vote", "sig"):
        ctx.mc("Votes", "Votes_mc_quick_%s.cfg" % m, timeout=1500)
        if not q:
            ctx.mc("Votes", "Votes_mc_thorough_%s.cfg" % m, timeout=2400)
    total = distinct = diverged = 0
    groups = {}
    for cfg, modes in GENS_Q + ([] if q else GENS_T):
        edges = ctx.gen("Votes", cfg, "EDGE", timeout=1500)
        if len(edges) < 500:
            ctx.fail("too few edges from %s: %d" % (cfg, len(edges)))
        ctx.sample({"edge": edges[len(edges) // 2]})
        runs = [(m, None) for m in modes]
        if cfg == "Votes_gen_a_vote.cfg":   # the release (request + leaf) must not depend on the node's event-log setting
            runs += [(m, {"VERIF_EVENTLOG": "0"}) for m in modes]
        for mode, env in runs:
            out = ctx.driver(b, ["votes-edges", mode], input_obj=edges, timeout=3000, env=env)
            summ = [o for o in out if o.get("summary")][0]
            if summ["edges"] != len(edges):
                ctx.fail("driver replayed %d of %d edges" % (summ["edges"], len(edges)))
            total += summ["edges"]
            distinct += summ["distinct"]
            diverged += summ["diverged"]
            for o in out:
                if o.get("mismatch"):
                    st = o["step"]
                    sig = "%s:%s:pred(err=%s,rel=%s):%s" % (mode, st["act"], st.get("err", False), st.get("rel", False), "+".join(o["what"]))
                    o["mode"] = mode + ("" if env is None else ",eventlog-off")
                    o["basemode"], o["env"] = mode, env
                    groups.setdefault(sig, []).append(o)
    if diverged and not groups:
        ctx.fail("%d edges diverged while re-creating their source state although no edge mismatched" % diverged)
    drift = []
    order = sorted(groups, key=lambda g: (min(len(x["h"]) for x in groups[g]), g))
    for sig in order[:16]:
        o = min(groups[sig], key=lambda x: len(x["h"]))
        ok, idx = monitor(ctx, o["trace"])
        if ok:
            drift.append(sig)
            continue
        addrs = sorted(set([e["a"] for e in o["trace"] if e["a"]] + [c for e in o["trace"] for c in e["cons"]]))
        steps = [dict(act=e["ev"], id=e["id"], a=e["a"], cons=e["cons"]) for e in o["trace"][1:]]
        ctx.violation("edge[%s]:%s" % (o["mode"], _situation(o["trace"], idx)),
                      {"step": o["step"], "history": o["h"], "differs_in": o["what"], "predicted": o["pred"], "observed_voted": o["voted"],
                       "observed_status": o["status"], "call": o["got"], "cases_in_group": len(groups[sig])},
                      replay={"kind": "votes", "mode": o["basemode"], "env": o["env"], "addrs": addrs, "init": o["trace"][0]["cons"], "steps": steps})
    if drift:
        ctx.note("edge mismatches accepted by the monitor (storage / error-flag deviations the property permits): %s" % drift)
    n, ln = (10, 80) if q else (60, 150)
    for mode in ("vote", "sig", "ripple"):
        events = ctx.driver(b, ["votes-record", mode, str(n), str(ln)], timeout=3000)
        rel = sum(1 for e in events if e["rel"])
        if rel < n:
            ctx.fail("recorded %s histories contain only %d releases" % (mode, rel))
        shape = [e for e in events if e.get("detail")]
        ok, idx = monitor(ctx, events)
        if not ok:
            start = idx
            while start > 0 and events[start]["ev"] != "reset":
                start -= 1
            addrs = sorted(set([e["a"] for e in events[start:idx + 1] if e["a"]] + [c for e in events[start:idx + 1] for c in e["cons"]]))
            steps = [dict(act=e["ev"], id=e["id"], a=e["a"], cons=e["cons"]) for e in events[start + 1:idx + 1]]
            ctx.violation("trace[%s]:%s" % (mode, _situation(events, idx)), {"event_index": idx, "event": events[idx]},
                          replay={"kind": "votes", "mode": mode, "addrs": addrs, "init": events[start]["cons"], "steps": steps})
        else:
            ctx.cov["traces_validated_against_impl"] += n
        if shape:
            ctx.violation("release-shape[%s]" % mode, {"event": shape[0]}, replay={"kind": "votes-shape", "event": shape[0]})
        total += len(events)
        ctx.sample({"recorded_%s" % mode: [_strip(e) for e in events[1:3]], "releases": rel})
    ctx.cov["evaluations"] = total
    ctx.cov["distinct_nontrivial"] = distinct
    ctx.cov["paths"] = ["consensus_vote.CheckVotes via ImportExTransfer (vote router)", "consensus_vote.CheckVotes via ImportExTransfer (ripple router)",
                        "signature_manager.CheckSigns via AddSignature"]
    return ctx.finish(rule="P-EDGE: every (validator set, recorded voters, status) x action edge of Votes.tla printed once by TLC (N <= 5 + outsider, "
                      "2 ids; thorough N <= 7) and executed on the real contracts after re-creating its source state; distinct_nontrivial = "
                      "distinct (vote/epoch, id, voter, predicted flags, observed record) tuples excluding refused outsiders. P-VALIDATE: %d random "
                      "histories x %d steps per path, validator sets of size 1..10." % (n, ln),
                      assumptions=["an epoch change is modelled by re-seeding the consensus pool under a new view (what commitDpos leaves behind)",
                                   "late votes after the release are ignored without error by CheckVotes, also for outsiders; the monitor only "
                                   "requires that they neither count nor release",
                                   "release on the vote / ripple path = request record for that message + exactly one cross-state leaf in the "
                                   "same call; on the signature path = exactly one AddSignatureQuorum event",
                                   "ripple MultiSign (XRPL multisign collection, not a validator vote) is outside C25"])
