"""C34 - Validator pool invariants hold across epochs.
spec/GovCore.tla + Governance.tla (Mode = "C34") + GovJudge.tla; driver vd-gov.
Five seeded consensus validators, candidate keys c1 c2 (c1 and validator v1 also in the upper-case hex spelling, two
owners), composite approval rounds.  Area nodeA: register / unregister / approve / quit with spellings and owners, index
assignment, epoch change.  Area nodeB: quit, black lists (single, pair, duplicate entries), white, commit by the consensus
operator and by anybody after MaxBlockChangeView blocks, block boundaries, re-registration.  Monitor PropC34 on every
transition: at least four active members, no key in two entries, distinct indices for distinct keys, no registration of a
blacklisted key; an epoch change advances the view by one, leaves only consensus members, keeps every active member, drops
quitting and blacklisted ones, and does not happen twice in a block.  See checks/_gov.py for the pipeline.
"""
from checks import _gov


def _init_state(ctx):
    """Bind the model's initial state: Governance.tla starts from 'what InitConfig writes' - every genesis peer in the pool
    of view 1 with its configured index, an index record equal to it, and a candidate-index counter above every index in
    the pool (so that the next approved candidate gets a fresh index).  The real InitConfig is run over genesis
    configurations whose indices are 1..n, have gaps, or are permuted (CheckVBFTConfig only asks for positive, unique)."""
    if ctx.replay:
        return
    b = ctx.build("vd-gov")
    try:
        out = ctx.driver(b, ["initcfg"])
    except (ValueError, UnicodeError) as e:
        ctx.fail("initcfg output unreadable: %r" % (e,))
    rows = [o for o in out if o.get("initcfg")]
    if len(rows) < 8:
        ctx.fail("initcfg answered %d configurations" % len(rows))
    done = 0
    for o in rows:
        shape = "contiguous" if sorted(o["indices"]) == list(range(1, len(o["indices"]) + 1)) else "gaps"
        if o["panic"]:
            ctx.violation("nodeA:initconfig:panic:%s" % shape, {"config": o["indices"], "panic": o["panic"][:200]})
            continue
        if o["err"]:
            ctx.fail("InitConfig refused a configuration CheckVBFTConfig allows: %s" % o["indices"])
        done += 1
        idx = sorted(o["pool"].values())
        if idx != sorted(o["indices"]) or o["view"] != 1:
            ctx.violation("nodeA:initconfig:pool-indices-differ-from-configuration:%s" % shape, {"config": o["indices"], "pool": idx})
        elif any(o["records"].get(k, 0) != v for k, v in o["pool"].items()):
            ctx.violation("nodeA:initconfig:index-record-differs-from-pool:%s" % shape, {"config": o["indices"], "pool": o["pool"], "records": o["records"]})
        elif o["cand"] <= max(idx):
            ctx.violation("nodeA:initconfig:candidate-index-not-above-pool-indices:%s" % shape,
                          {"config": o["indices"], "candidate_index": o["cand"], "max_pool_index": max(idx),
                           "why": "the next approved candidate would share an index with a genesis validator (PropC34: distinct indices)"})
    ctx.note("initial state: real InitConfig over %d genesis configurations (contiguous, gaps, permuted) conforms to the model's Init" % done)


def run(ctx):
    q = ctx.quick
    _init_state(ctx)
    # the quick configuration is part of both tiers (its exploration of the real contracts around the deviations is
    # complete or nearly so); the thorough tier adds the larger configuration
    _gov.run_gov(ctx, "C34", "C34", "Governance_C34_gen_quick.cfg", nv=5, depth=3, cap=1000)
    if not q:
        _gov.run_gov(ctx, "C34", "C34", "Governance_C34_gen_thorough.cfg", nv=5, depth=4, cap=6000)
    return ctx.finish(rule="P-EDGE: every (model state, action) edge of Governance.tla in mode C34 replayed on the real node_manager; "
                      "deviating real executions and a bounded exploration of the real contract from each deviating state are judged "
                      "by TLC (GovJudge) with the PropC34 monitor. distinct_nontrivial = distinct (action, result, post-state) of "
                      "conforming edges whose call was not refused.",
                      assumptions=_gov.ASSUME + ["pool of the edge replay seeded as InitConfig writes it (view 1, index records, candidate index); the real InitConfig is bound separately over 8 genesis index layouts; "
                                                 "MaxBlockChangeView seeded as 2",
                                                 "the model follows whichever of the two allowed behaviours the contract shows for the "
                                                 "upper-case spelling at registration (probed once per run)"])
