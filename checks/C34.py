"""C34 - Validator pool invariants hold across epochs.
spec/GovCore.tla + Governance.tla (Mode = "C34") + GovJudge.tla; driver vd-gov.
Five seeded consensus validators, candidate keys c1 c2 (c1 and validator v1 also in the upper-case hex spelling, two
owners), composite approval rounds.  Area nodeA: register / unregister / approve / quit with spellings and owners, index
assignment, epoch change.  Area nodeB: quit, black lists (single, pair, duplicate entries), white, commit by the consensus
operator and by anybody after MaxBlockChangeView blocks, block boundaries, re-registration.  Monitor PropC34 on every
transition: at least four active members, no key in two entries, distinct indices for distinct keys, no registration of a
blacklisted key; an epoch change advances the view by one, leaves only consensus members, keeps every active member, drops
quitting and blacklisted ones, and does not happen twice in a block.  See checks/_gov.py for the pipeline.
"""
from checks import _gov


def run(ctx):
    q = ctx.quick
    # the quick configuration is part of both tiers (its exploration of the real contracts around the deviations is
    # complete or nearly so); the thorough tier adds the larger configuration
    _gov.run_gov(ctx, "C34", "C34", "Governance_C34_gen_quick.cfg", nv=5, depth=3, cap=1000)
    if not q:
        _gov.run_gov(ctx, "C34", "C34", "Governance_C34_gen_thorough.cfg", nv=5, depth=4, cap=6000)
    return ctx.finish(rule="P-EDGE: every (model state, action) edge of Governance.tla in mode C34 replayed on the real node_manager; "
                      "deviating real executions and a bounded exploration of the real contract from each deviating state are judged "
                      "by TLC (GovJudge) with the PropC34 monitor. distinct_nontrivial = distinct (action, result, post-state) of "
                      "conforming edges whose call was not refused.",
                      assumptions=_gov.ASSUME + ["pool seeded as InitConfig writes it (view 1, index records, candidate index); "
                                                 "MaxBlockChangeView seeded as 2",
                                                 "the model follows whichever of the two allowed behaviours the contract shows for the "
                                                 "upper-case spelling at registration (probed once per run)"])
