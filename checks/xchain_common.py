"""Shared pipeline of C20 / C21 / C22 (spec/CrossChain.tla, spec/TraceCrossChain.tla, harness/cmd/vd-xchain).

  1. P-MC       PropC20, PropC21, PropC22 (action properties) on the entrance model, exhaustive.
  2. P-EDGE     every (abstract state, action, args) edge printed by TLC is executed on the REAL entrance
                (ImportExTransfer / BlackChain / WhiteChain, side_chain_manager register+approve / quit+approve) after
                re-creating the source state; accept/reject, done keys, blacklist keys, registry, request records
                (independent re-encoding of ToMerkleValue, key CCM||"request"||u64(to)||txHash) and the cross hashes of
                the call are compared with the prediction.  Valid imports come from router adapters: vote router,
                synthetic BSC chain, synthetic HSC chain (router with a start block).
  3. monitor    a mismatching edge is re-recorded as a trace and validated by TLC against the monitor of *this* property
                (TraceCrossChain_<ID>.cfg): rejected => VIOLATION, accepted => the deviation belongs to a sibling
                property or is permitted (noted, exit 0).
  4. P-VALIDATE long random histories recorded from the real entrance, validated against the same monitor.
"""
import json, re

IDS6 = ["i1", "i2", "i3", "i4", "i5", "i6"]
CFG_ALL = {"src": ["v", "b", "g"], "tgt": ["v", "t", "g"], "ids": IDS6, "vars": [1, 2], "gated": ["g"]}
CFG_ALL_T = {"src": ["v", "b", "g", "r", "h", "y", "e"], "tgt": ["v", "t", "g"], "ids": IDS6, "vars": [1, 2], "gated": ["g", "y"]}
GATED = {"g", "y", "z"}
SWEEP = {"src": ["s"], "tgt": ["s", "t"], "ids": ["i1", "i2"], "vars": [1, 2], "gated": []}
SWEEP_G = {"src": ["z"], "tgt": ["t"], "ids": ["i1"], "vars": [1, 2], "gated": ["z"]}
# router sweep: the same small edge set once per further router adapter (name -> adapter kind)
# (a ripple chain is not an account-based destination, so the ripple sweep has two plain destinations)
SWEEP_R = {"src": ["s"], "tgt": ["t", "w"], "ids": ["i1", "i2"], "vars": [1, 2], "gated": [], "kinds": {"s": "r", "w": "t"}}
# BTC: the repository's testnet3 fixture; variants 1..3 = plain / witness serialisations of the SAME deposit (same txid)
BTC = {"src": ["c"], "tgt": ["t"], "ids": ["i1"], "vars": [1, 2, 3], "gated": []}
SWEEPS = [("CrossChain_gen_btc.cfg", BTC)] + [("CrossChain_gen_router.cfg", dict(SWEEP, kinds={"s": k})) for k in ("h", "e")] + \
         [("CrossChain_gen_router_r.cfg", SWEEP_R), ("CrossChain_gen_router_gated.cfg", dict(SWEEP_G, kinds={"z": "y"}))]
KIND = {"c": "btc", "v": "vote", "r": "ripple", "b": "bsc", "y": "bytom", "g": "hsc", "h": "heco", "e": "eth", "t": "eth"}
GEN = {
    "CrossChain_gen_quick.cfg": {"src": ["v", "b"], "tgt": ["v", "t"], "ids": ["i1", "i2"], "vars": [1, 2], "gated": []},
    "CrossChain_gen_gate.cfg": {"src": ["g"], "tgt": ["t"], "ids": ["i1"], "vars": [1], "gated": ["g"]},
    "CrossChain_gen_thorough.cfg": {"src": ["v", "b", "g"], "tgt": ["v", "t"], "ids": ["i1"], "vars": [1, 2], "gated": ["g"]},
    # relay transactions: two imports through NativeCall in one transaction (own leaf first / second error ignored)
    "CrossChain_gen_relay.cfg": {"src": ["v", "b"], "tgt": ["t", "w"], "ids": ["i1", "i2"], "vars": [1], "gated": [], "kinds": {"w": "t"}},
}
COVERED = ["btc (testnet3 fixture: one deposit, plain and witness serialisations)", "vote", "ripple", "eth (Ethash seal through the verif seal hook)", "bsc", "heco", "hsc", "bytom"]
UNCOVERED = ["ont", "neo", "neo3", "neo3legacy", "cosmos", "quorum", "zilliqa", "zilliqalegacy", "msc", "okex", "polygon",
             "pixiechain", "starcoin", "harmony"]


def _strip(ev):
    return {k: v for k, v in ev.items() if k not in ("err", "panic", "kind", "fail")}


def monitor(ctx, pid, events, name="trace.ndjson"):
    """Validate recorded events against the monitor of property pid.  Returns (accepted, failing_event_index or None)."""
    body = "\n".join(json.dumps(_strip(e), separators=(",", ":"), sort_keys=True) for e in events) + "\n"
    r = ctx.tlc("TraceCrossChain", "TraceCrossChain_%s.cfg" % pid, workers=1, timeout=1200, deadlock=False, dfs=True,
                files={name: body}, quiet=True)
    ctx.cov["states"] += r.distinct
    ctx.cov["transitions"] += r.generated
    if r.invariant_violated:
        ls = [int(x) for x in re.findall(r"^/\\ l = (\d+)$", r.out, re.M)]
        idx = (max(ls) - 2) if ls else None
        return False, idx
    hw = None
    for ln in r.lines:
        m = re.match(r'<<"HIGHWATER", (\d+)>>', ln)
        if m:
            hw = int(m.group(1))
    if r.rc != 0 or hw != len(events) + 1:
        ctx.fail("trace validation gave no verdict (rc=%d, highwater=%s of %d):\n%s" % (r.rc, hw, len(events), r.out[-3000:]))
    return True, None


def _why(prev, ev):
    """Name of the situation of a logged import (for violation keys only; the verdict is TLC's)."""
    reg, blk = set(prev["reg"]), set(prev["blk"])
    done = set(tuple(d) for d in prev["done"])
    if ev["s"] in blk: return "src-black"
    if ev["s"] not in reg: return "src-unregistered"
    if ev["s"] in GATED and prev["h"] < 1: return "router-inactive"
    if not ev["ok"]: return "not-authentic"
    if (ev["s"], ev["i"]) in done: return "already-done"
    if ev["t"] in blk: return "dst-black"
    if ev["t"] not in reg: return "dst-unregistered"
    return "ok"


def _router(name):
    return KIND.get(name[:1], "?")


def _event_key(events, idx):
    ev = events[idx]
    prev = events[idx - 1] if idx > 0 else events[0]
    if ev["ev"] == "import":
        return "import[%s]:%s:%s" % (_router(ev["s"]), _why(prev, ev), "accepted" if ev["acc"] else "refused")
    if ev["ev"] == "relay":
        return "relay[%s+%s]:pre=%s,catch=%s:%s/%s" % (_router(ev["a"]["s"]), _router(ev["b"]["s"]), ev["pre"], ev["catch"],
                                                       "acc" if ev["a"]["acc"] else "ref", "acc" if ev["b"]["acc"] else "ref")
    return "%s:%s" % (ev["ev"], "failed" if ev.get("fail") else "effect")


def run(ctx, pid):
    q = ctx.quick
    b = ctx.build("vd-xchain")
    ctx.mc("CrossChain", "CrossChain_mc_quick.cfg" if q else "CrossChain_mc_thorough.cfg", timeout=1500)
    total = distinct = 0
    ctx.mc("CrossChain", "CrossChain_mc_relay.cfg", timeout=1500)
    gens = [(c, GEN[c]) for c in ["CrossChain_gen_quick.cfg", "CrossChain_gen_gate.cfg", "CrossChain_gen_relay.cfg"] +
            ([] if q else ["CrossChain_gen_thorough.cfg"])]
    gens += SWEEPS
    # node configuration EnableEventLog = false (the notification is not part of the properties, records and leaves are):
    # the small edge sets completely, of the large ones every edge whose step is an accepted import or closes a block
    gens += [(c, dict(d, eventlog=False)) for c, d in gens]
    BIG = ("CrossChain_gen_quick.cfg", "CrossChain_gen_thorough.cfg", "CrossChain_gen_relay.cfg")
    groups = {}
    diverged = 0
    cache = {}
    for cfg, dcfg in gens:
        if cfg not in cache:
            cache[cfg] = ctx.gen("CrossChain", cfg, "EDGE", timeout=1500)
        edges = cache[cfg]
        if len(edges) < 100:
            ctx.fail("too few edges from %s: %d" % (cfg, len(edges)))
        if dcfg.get("eventlog") is False and cfg in BIG:
            edges = [e for e in edges if e["step"].get("acc") or e["step"]["act"] == "newblock" or (e["step"]["act"] == "relay" and e["step"].get("ok"))]
            if len(edges) < 100:
                ctx.fail("too few accepted-import edges in %s: %d" % (cfg, len(edges)))
        out = ctx.driver(b, ["xc-edges", json.dumps(dcfg)], input_obj=edges, timeout=3000)
        summ = [o for o in out if o.get("summary")][0]
        if summ["edges"] != len(edges):
            ctx.fail("driver replayed %d of %d edges" % (summ["edges"], len(edges)))
        total += summ["edges"]
        distinct += summ["distinct"]
        diverged += summ["diverged"]
        ctx.sample({"edge": edges[len(edges) // 3], "concretization": summ["chains"]})
        for o in out:
            if o.get("mismatch"):
                st = o["step"]
                if st["act"] == "relay":
                    st = dict(st, why="%s/%s,pre=%s,catch=%s" % (st["a"].get("why"), st["b"].get("why"), st.get("pre", False), st.get("catch", False)))
                sig = "%s%s:%s:%s%s" % (st["act"], "[%s]" % KIND.get(o.get("kind"), "?") if st["act"] == "import" else "",
                                        st.get("why", "-"), "+".join(o["what"]), "" if dcfg.get("eventlog", True) else ":eventlog-off")
                o["cfg"] = dcfg
                groups.setdefault(sig, []).append(o)
    if diverged and not groups:
        ctx.fail("%d edges diverged while re-creating their source state although no edge mismatched (nondeterminism?)" % diverged)
    drift = []
    # root causes first: groups are ordered by their shortest history (consequences of an earlier deviation have longer ones)
    order = sorted(groups, key=lambda g: (min(len(x["h"]) for x in groups[g]), g))
    for sig in order[:16]:
        o = min(groups[sig], key=lambda x: len(x["h"]))
        ok, idx = monitor(ctx, pid, o["trace"])
        if ok:
            drift.append(sig)
            continue
        ctx.violation("edge:" + sig, {"step": o["step"], "history": o["h"], "differs_in": o["what"], "predicted": o["pred"],
                      "predicted_requests": o["predReq"], "predicted_leaves": o["predLv"], "observed": o["proj"], "call": o["got"],
                      "cases_in_group": len(groups[sig])}, replay={"kind": "xc-edge", "cfg": o["cfg"], "edge": {"h": o["h"], "step": o["step"]}})
    if len(groups) > 16:
        ctx.note("%d further mismatch groups (longer histories) not classified: %s" % (len(groups) - 16, order[16:24]))
    if drift:
        ctx.note("edge mismatches accepted by the %s monitor (other property / permitted deviation): %s" % (pid, drift))
    # recorded histories
    n, ln = (6, 150) if q else (60, 250)
    rcfg = CFG_ALL if q else CFG_ALL_T
    events = ctx.driver(b, ["xc-record", json.dumps(rcfg), str(n), str(ln)], timeout=3000)
    gov_fail = [e for e in events if e["ev"] in ("register", "quit") and e.get("fail")]
    if gov_fail:
        ctx.fail("side-chain register/quit failed in the recorded run (environment, not this property): %s" % gov_fail[0])
    events += ctx.driver(b, ["xc-record", json.dumps(BTC), "4" if q else "20", "40"], timeout=3000)   # btc histories
    acc = sum(1 for e in events if e["ev"] == "import" and e["acc"])
    if acc < n * 3:
        ctx.fail("recorded histories contain only %d accepted imports" % acc)
    ok, idx = monitor(ctx, pid, events)
    if not ok:
        key = _event_key(events, idx) if idx is not None and 0 <= idx < len(events) else "unknown-event"
        start = idx
        while start > 0 and events[start]["ev"] != "reset":
            start -= 1
        ctx.violation("trace:" + key, {"event_index": idx, "event": events[idx] if idx is not None else None,
                      "previous": events[idx - 1] if idx else None}, replay={"kind": "xc-trace", "cfg": BTC if "c" in events[start]["reg"] else rcfg, "events": events[start:idx + 1]})
    else:
        ctx.cov["traces_validated_against_impl"] += n
    ctx.sample({"recorded_events": [_strip(e) for e in events[1:3]], "accepted_imports_recorded": acc})
    ctx.cov["evaluations"] = total + len(events)
    ctx.cov["distinct_nontrivial"] = distinct
    ctx.cov["routers_with_adapter"] = COVERED
    ctx.cov["routers_uncovered"] = UNCOVERED
    return n, ln


def replay(ctx, pid):
    """bin/vcheck <ID> quick --replay <file>: re-execute the stored steps on the real code and let the monitor decide."""
    rp = json.load(open(ctx.replay))["replay"]
    b = ctx.build("vd-xchain")
    if rp["kind"] == "xc-edge":
        steps = rp["edge"]["h"] + [rp["edge"]["step"]]
        cfg = rp.get("cfg", CFG_ALL)
    else:
        steps = [dict(e, act=e["ev"]) for e in rp["events"] if e["ev"] != "reset"]
        cfg = rp.get("cfg", CFG_ALL)
    for el in (True, False):   # both node configurations (EnableEventLog)
        events = ctx.driver(b, ["xc-steps", json.dumps(dict(cfg, eventlog=el))], input_obj=steps)
        ok, idx = monitor(ctx, pid, events)
        if not ok:
            ctx.violation("replay:" + _event_key(events, idx) + ("" if el else ":eventlog-off"), {"event_index": idx, "event": events[idx]}, replay=rp)
    ctx.cov["evaluations"] = len(events)
    ctx.cov["distinct_nontrivial"] = len(events)
    ctx.sample({"replayed": [_strip(e) for e in events[-2:]]})
    return ctx.finish(rule="replay of one stored case")
