"""C06 - the block-hash accumulator is a correct append-only RFC 6962 Merkle tree.
spec/Merkle.tla, tables "c06" (every size 0..N, every (m, n)) and "c06big" (seeded large sizes); driver vd-merkle c06.
  1. TLC (PropC06, exhaustive over the table): compact append = MTH, frontier and post-order node file = reference,
     predicted roots, reload from (size, frontier, file with surplus nodes), implementation-shaped proof builders =
     RFC 6962 PATH / PROOF, the transcribed verifiers accept them.
  2. P-TABLE / P-REPLAY: the real CompactMerkleTree is driven 0..N in several lives (continuous, reloaded from the
     hash file before every append, Marshal/UnMarshal before every append, memory store, random reload points,
     NewTree over the same used store object before every append, file with surplus nodes reopened at a smaller size
     and continued with other leaves, and ONE USED tree object with a warm root cache rolled back and forward between
     Marshal snapshots of earlier and later sizes with UnMarshal); at every size the root,
     the predicted roots, the round trips and every proof of every earlier size are compared with the evaluated spec
     terms, and the real verifiers must accept every served proof.
"""
from checks.merkle_common import table, cfg_text, summary, load_replay
import random


def run(ctx):
    q = ctx.quick
    b = ctx.build("vd-merkle")
    n = 17 if q else 100
    load_replay(ctx)
    rows, _ = table(ctx, "Merkle_c06_quick.cfg" if q else "Merkle_c06_thorough.cfg")
    if len(rows) < n * (n + 1) // 2:
        ctx.fail("too few rows from the c06 table: %d" % len(rows))
    out = ctx.driver(b, ["c06", str(n), ctx.tier], input_obj=rows)
    total, distinct, drift = _collect(ctx, out, "grid")
    ctx.sample({"row": _short(rows[len(rows) // 2])})
    # seeded large sizes
    rnd = random.Random(ctx.seed * 7919 + 11)
    top = 600 if q else 5000
    sizes = sorted({rnd.randrange(n + 1, top) for _ in range(3 if q else 12)} | ({257, 511} if q else {1023, 1024, 1025, 4097}))
    cfg = cfg_text("c06big", max(sizes), sizes="{%s}" % ", ".join(map(str, sizes)))
    rows2, _ = table(ctx, "Merkle_c06big_gen.cfg", files={"Merkle_c06big_gen.cfg": cfg})
    out2 = ctx.driver(b, ["c06", str(max(sizes)), "big"], input_obj=rows2)
    t2, d2, dr2 = _collect(ctx, out2, "big")
    ctx.cov["evaluations"] = total + t2
    ctx.cov["distinct_nontrivial"] = distinct + d2
    for k, v in list(drift.items()) + list(dr2.items()):
        ctx.note("DRIFT (property kept): %s x%d" % (k, v))
    ctx.cov["table_rows"] = len(rows) + len(rows2)
    return ctx.finish(rule="P-TABLE: one row per tree size (root, frontier, node file, predicted roots) and per (m, n) (inclusion "
                      "proof, leaf path, consistency proof) printed by TLC after the model-level check; the real tree is driven "
                      "through 9 lives (incl. UnMarshal into a used object with cached root) + surplus-file reopen scenarios; distinct_nontrivial = distinct (kind, n, m) queries and "
                      "states compared.  Large sizes: %s" % sizes,
                      assumptions=["leaf data: random distinct byte strings (32 bytes, and assorted lengths incl. empty)",
                                   "SHA-256 collision resistance (free term algebra)",
                                   "consistency proofs for old size 0 are outside RFC 6962 and not requested"])


def _collect(ctx, out, what):
    s = summary(out)
    if not s:
        ctx.fail("driver printed no summary (%s)" % what)
    for o in out:
        if o.get("violation"):
            ctx.violation("c06:%s" % o["violation"], o, replay={"kind": "c06", "grid": what == "grid", "n": o.get("T", o.get("n")), "row": o})
    return s["evaluations"], s["distinct"], s.get("drift", {})


def _short(r):
    s = str(r)
    return s if len(s) < 700 else s[:700] + "..."
