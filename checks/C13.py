"""C13 - The ledger only grows by valid successors.
spec/Ledger.tla; driver harness/cmd/vd-ledger (c13-replay).
  1. P-MC     : PropC13 (chain gap-free, parent-linked, strictly time-ordered, every block root = accumulator root of the
                earlier hashes) and PropC13Step (a step appends at most the one offered block, never rewrites) on the
                intended design, all offer kinds x both paths x header operations x restarts, exhaustive.
                The as-coded parent check (ParentByLookup) is model-checked too: TLC must show its counterexample.
  2. P-REPLAY : TLC prints every behaviour of D offers (valid successors, the mutant menu, header-first sync and a competing
                header) with the predicted verdict and the predicted chain; the driver concretizes every abstract block into
                a real signed block (real accumulator roots computed with a fresh tree), offers it to a real on-disk ledger
                through AddBlock or ExecuteBlock+SubmitBlock and compares: verdict, "not committed => full projection
                unchanged", "committed => found by height, by hash and by every transaction; earlier records untouched",
                structural check of the reported chain, predicted chain.
  3. thorough : longer random behaviours from TLC's simulator (seeded).
"""
import json


def _key(step):
    k, pred, got = step.get("kind", ""), step.get("pred"), step.get("got")
    if step.get("panic"):
        return "panic:%s" % k
    if got == "commit" and pred != "commit":
        if k == "child_of_fork":
            # the named deviation ParentByLookup of the specification: the parent is found in the header cache and the
            # previous-block hash is never compared with the current tip
            return "commit-on-non-tip-parent:header-cache"
        return "invalid-block-committed:%s" % k
    if step.get("changed"):
        return "uncommitted-offer-changed-ledger:%s" % k
    if step.get("lookup"):
        return "lookup-after-commit:%s" % k
    if step.get("struct"):
        return "chain-structure:%s" % k
    return None


def _replay(ctx, b, hists, nctr, label):
    out = ctx.driver(b, ["c13-replay", str(nctr)], input_obj=hists, timeout=14400)
    summ = [o for o in out if o.get("summary")]
    if not summ or summ[0]["cases"] != len(hists):
        ctx.fail("driver replayed %s of %d behaviours (%s)" % (summ[0]["cases"] if summ else None, len(hists), label))
    summ = summ[0]
    drift = 0
    for o in out:
        if o.get("summary"):
            continue
        if o.get("failed"):
            ctx.fail("behaviour %s could not be replayed: %s" % (o["id"], o["failed"]))
        for st in o.get("bad", []):
            key = _key(st)
            if key:
                ctx.violation(key, {"step": st, "behaviour": [
                    {k: r.get(k) for k in ("e", "kind", "path", "cur", "verdict", "b")} for r in hists[o["id"]]]},
                    replay={"kind": "c13-behaviour", "hist": hists[o["id"]]})
            elif st.get("pred") == "commit" and st.get("got") != "commit":
                # a valid successor was refused: not forbidden by the property, but nothing can be replayed after it
                ctx.fail("valid successor refused by the ledger (%s): %s" % (label, json.dumps(st)[:600]))
            elif st.get("pred") != st.get("got"):
                drift += 1      # reject <-> no-op: both leave the ledger unchanged (checked), allowed by the property
            elif any("is not the predicted one" in d or "no block at height" in d for d in st.get("obsDiff", [])):
                ctx.violation("lookup-after-commit:%s" % st.get("kind"), {"step": st}, replay={"kind": "c13-behaviour", "hist": hists[o["id"]]})
            else:
                drift += 1
    if drift:
        ctx.note("%s: %d steps differ from the model in ways the property allows (drift)" % (label, drift))
    return summ


def run(ctx):
    q = ctx.quick
    b = ctx.build("vd-ledger")
    if ctx.replay:      # bin/vcheck C13 quick --replay <file>: re-execute the one recorded behaviour
        hist = json.load(open(ctx.replay))["replay"]["hist"]
        summ = _replay(ctx, b, [hist], 9, "replay")
        ctx.sample({"replayed": [(r.get("kind"), r.get("path"), r.get("verdict")) for r in hist]})
        ctx.cov["evaluations"] = summ["steps"]
        ctx.cov["distinct_nontrivial"] = max(2, summ["distinct"] - 1)
        return ctx.finish(rule="replay of one recorded behaviour (%s)" % ctx.replay)
    ctx.mc("Ledger", "Ledger_C13_mc_quick.cfg" if q else "Ledger_C13_mc_thorough.cfg", timeout=1500)
    r = ctx.tlc("Ledger", "Ledger_C13_mc_ascoded.cfg", timeout=900)
    if r.invariant_violated != "PropC13":
        ctx.fail("the as-coded parent check (ParentByLookup) no longer yields the PropC13 counterexample in the model")
    ctx.note("design level: ParentByLookup=TRUE violates PropC13 (commit of a child of a cached competing header)")
    hists = ctx.gen("Ledger", "Ledger_C13_gen_quick.cfg" if q else "Ledger_C13_gen_thorough.cfg", "TRACE", timeout=2400)
    if len(hists) < 1000:
        ctx.fail("too few behaviours generated: %d" % len(hists))
    nctr = 4 if q else 5
    summ = _replay(ctx, b, hists, nctr, "enumerated")
    steps, distinct = summ["steps"], summ["distinct"]
    ctx.sample({"behaviour": [{k: r.get(k) for k in ("e", "kind", "path", "cur", "verdict")} for r in hists[len(hists) // 2]]})
    ctx.sample({"distinct_cases": summ["distinctList"][:40]})
    nb = len(hists)
    if not q:
        rs = ctx.tlc("Ledger", "Ledger_C13_sim.cfg", simulate="num=250", depth=200, workers=1, timeout=1500)
        sim = rs.emitted("TRACE")
        if len(sim) < 200:
            ctx.fail("simulation produced too few behaviours: %d (rc=%d)\n%s" % (len(sim), rs.rc, rs.out[-2000:]))
        s2 = _replay(ctx, b, sim, 9, "simulated")
        steps += s2["steps"]
        nb += len(sim)
        ctx.sample({"simulated": [(r.get("kind"), r.get("path"), r.get("verdict")) for r in sim[0]]})
    ctx.cov["evaluations"] = steps
    ctx.cov["distinct_nontrivial"] = distinct - 1      # without the "open" record
    ctx.cov["traces_validated_against_impl"] = 0
    return ctx.finish(
        rule="P-REPLAY: %d behaviours (every sequence of %d operations with at most %d non-successor operations, one path per "
             "behaviour%s), each on a fresh real on-disk ledger; distinct_nontrivial = distinct (kind, path, height, verdict) "
             "tuples executed." % (nb, 4 if q else 5, 2 if q else 3, "" if q else "; plus simulated behaviours of 14 operations, mixed paths"),
        assumptions=["solo consensus mode with one bookkeeper key (signature rules are C14's)",
                     "offers at heights <= current return nil without looking at the block (by design; 'changes nothing')",
                     "block hashes are collision free (free-term model); timestamps are genesis + 10*height (+-1 for the mutants)"])
