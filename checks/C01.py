"""C01 - Binary codec round-trips and fails safely on truncated input.
spec/Codec.tla (byte-level primitives, run-length buffers, total decoders) + spec/CodecTable.tla (P-TABLE);
driver harness/cmd/vd-codec (c01).
  1. TLC enumerates every row of the table (programs of 1-3 typed boundary-value items x cuts; corrupted
     length prefixes, non-canonical var-uints, bool bytes >= 2) and checks PropC01 on each: the transcribed
     decoders satisfy the monitor (round trip with exact consumption; truncation => error at the item crossing
     the cut with the right values before it; prefix > rest => error).
  2. The same run prints every row; the driver writes each program with ZeroCopySink AND serialization.Write*
     (both must equal the specification's bytes), reads it back with ZeroCopySource AND the io.Reader functions
     at every listed cut, and is judged by the row's monitor fields (value / error / position); every call is
     wrapped in a recover (panic => violation).
"""


def run(ctx):
    q = ctx.quick
    b = ctx.build("vd-codec")
    if ctx.replay:
        return _replay(ctx, b)
    rows = ctx.gen("CodecTable", "CodecTable_quick.cfg" if q else "CodecTable_thorough.cfg", "ROW",
                   workers=ctx.cores, timeout=2400, heap="12g")
    nprog = sum(1 for r in rows if r["kind"] == "prog")
    nraw = len(rows) - nprog
    if nprog < 3000 or nraw < 1500:
        ctx.fail("table too small: %d programs, %d raw rows" % (nprog, nraw))
    out = ctx.driver(b, ["c01"], input_obj=rows, timeout=2400)
    summ = [o for o in out if o.get("summary")]
    if not summ or summ[0]["rows"] != len(rows):
        ctx.fail("driver replayed %s of %d rows" % (summ[0]["rows"] if summ else None, len(rows)))
    summ = summ[0]
    drift = 0
    for o in out:
        if o.get("summary"):
            continue
        if o.get("viol"):
            ctx.violation(o["viol"], o["detail"], replay={"kind": "c01-row", "row": o.get("replay")})
        elif o.get("drift"):
            drift += 1
            if drift <= 5:
                ctx.note("DRIFT (monitor satisfied, model prediction differs): %s" % str(o)[:300])
    if drift:
        ctx.note("DRIFT total: %d reads differ from the exact model prediction but satisfy the monitor" % drift)
    ctx.sample({"program_row": _slim(next(r for r in rows if r["kind"] == "prog" and len(r["items"]) == 2))})
    ctx.sample({"raw_row": _slim(next(r for r in rows if r["kind"] == "raw" and r["must"][-1]["m"] == "err"))})
    ctx.cov["evaluations"] = summ["evals"]
    ctx.cov["distinct_nontrivial"] = summ["distinct"]
    ctx.cov["table_rows"] = {"programs": nprog, "raw": nraw, "drift": drift}
    return ctx.finish(
        rule="P-TABLE: every row printed by TLC (programs: all singles and ordered pairs of a 45-item boundary menu, "
             "%s triples; raw: every string item x 14 prefix corruptions x 12 contexts, non-canonical var-uints, bool bytes) "
             "is executed on both real codecs in two API variants; evaluations = (row, cut, codec, variant) reads + encodings; "
             "distinct_nontrivial = reads of a truncated or corrupted buffer." % ("a 12x7x12 subset of" if q else "all"),
        assumptions=["byte strings of length >= 2^32 are not materialised (var-uint *values* cover that boundary, string lengths stop at 65 536)",
                     "position after a failed read is not part of the property and is not compared",
                     "long encodings (> 24 bytes, or > 300 for a single item) are cut at every item boundary -2..+9 and in the middle, not at every byte"])


def _slim(r):
    s = dict(r)
    for k in ("cuts",):
        if k in s and len(s[k]) > 12:
            s[k] = s[k][:12] + ["..."]
    return s


def _replay(ctx, b):
    """bin/vcheck C01 --replay <file>: re-runs the single table row stored in a violation record on the real code."""
    import json
    rec = json.load(open(ctx.replay))
    row = rec["replay"]["row"]
    out = ctx.driver(b, ["c01"], input_obj=[row])
    for o in out:
        if o.get("summary"):
            continue
        if o.get("viol"):
            ctx.violation(o["viol"], o["detail"], replay={"kind": "c01-row", "row": row})
    ctx.sample({"replayed": str(row)[:400]})
    ctx.cov["evaluations"] = 1
    ctx.cov["distinct_nontrivial"] = 2
    return ctx.finish(rule="replay of one stored table row")
