"""C08 - proofs served to relayers verify against the committed roots.
spec/Merkle.tla, tables "c08" (cross-state tree of a block with k records: RFC-split root vs the paired-level path builder;
block-inclusion paths for all h < r) and "c08chain" (the chains: block h produces chain[h] records); driver vd-merkle c08.
  1. TLC (PropC08): for every k <= K (records all distinct / repeated in pairs / all equal) HashFullTreeWithLeafHash = MTH =
     the paired-level root, MerkleProve(MerkleLeafPath(r_i, L), root) = r_i, the served path = RFC 6962 PATH of the first
     leaf with that hash; for all h < r <= R MerkleProve(MerkleInclusionLeafPath(H_h, h+1, r+1), BlockRoot_r) = H_h.
  2. P-REPLAY on a real on-disk ledger (core/ledger.Ledger, probe contract calling PutMerkleVal): every chain printed by TLC
     (exhaustive over a small alphabet of record counts + seeded long chains from TLC -simulate) is committed; after every
     commit, at the end and after close + reopen every served cross-state proof / block proof is verified with
     merkle.MerkleProve against GetCrossStateRoot(h) (= header h+1's field) / header r's BlockRoot and must yield the stored
     record / block h's hash; roots and proof bytes are compared with the evaluated spec terms (drift if only those differ).
  2b. (quick 4 / thorough 16) of the chains are cut by a hard process exit between the store commits of a record-carrying block
     (child process, ledgerstore.VerifCrashHook); the parent reopens the directory (recovery replays the block), verifies every
     served proof of every height incl. the replayed one, continues the chain, verifies again, reopens, verifies again.
  3. Table "c08nest": NativeService.Invoke's handling of the leaf list across nested NativeCalls is transcribed (callee's leaves
     first, then the caller's earlier ones; a failed frame contributes nothing); TLC checks for every script shape that exactly the
     records registered by successful frames are leaves, once each, and provable; one real block per shape is committed and
     every such record must be served with a verifying proof (after commit and after reopen).
"""
from checks.merkle_common import table, cfg_text, summary, load_replay


def run(ctx):
    q = ctx.quick
    b = ctx.build("vd-merkle")
    load_replay(ctx)
    K = 8 if q else 20
    rows = []
    for lab in ("id", "pairs", "same"):
        if lab == "id":
            rs, _ = table(ctx, "Merkle_c08_quick.cfg" if q else "Merkle_c08_thorough.cfg")
        else:
            rs, _ = table(ctx, "Merkle_c08_%s.cfg" % lab, files={"Merkle_c08_%s.cfg" % lab: cfg_text("c08", K, lab=lab, prop="PropC08")})
        for r in rs:
            r["v"]["lab"] = lab
        rows += rs
    # blocks whose transaction makes nested contract calls (leaves registered before / inside / after successful, caught and
    # uncaught failing calls, two levels deep): the spec predicts the leaf list in the code's order
    nrows, _ = table(ctx, "Merkle_c08nest_quick.cfg" if q else "Merkle_c08nest_thorough.cfg")
    if len(nrows) < 300:
        ctx.fail("too few nested-call rows: %d" % len(nrows))
    rows += nrows
    # chains: exhaustive over the small alphabet, plus seeded long chains
    r1 = ctx.tlc("Merkle", "Merkle_c08chain_quick.cfg" if q else "Merkle_c08chain_thorough.cfg", workers=1)
    if r1.rc != 0:
        ctx.fail("chain generation failed rc=%d\n%s" % (r1.rc, r1.out[-2000:]))
    chains = r1.emitted("CHAIN")
    ctx.cov["states"] += r1.distinct
    ctx.cov["transitions"] += r1.generated
    depth, num = (K, 2) if q else (K, 8)
    cfg = cfg_text("c08chain", depth, sizes="{%s}" % ", ".join(map(str, range(K + 1))), prop="PropC08")
    r2 = ctx.tlc("Merkle", "Merkle_c08chain_sim.cfg", workers=1, simulate="num=%d" % num, depth=depth + 1,
                 files={"Merkle_c08chain_sim.cfg": cfg})
    long_chains = r2.emitted("CHAIN")
    if len(long_chains) < num or len(chains) < 20:
        ctx.fail("too few chains: %d exhaustive, %d simulated\n%s" % (len(chains), len(long_chains), r2.out[-1500:]))
    # one chain that has every record count 0..K once, in a seeded order
    import random
    perm = list(range(K + 1))
    random.Random(ctx.seed).shuffle(perm)
    allk = [c for c in long_chains[:num]] + [perm[:K]] + [perm[1:] if len(perm) > 1 else perm]
    # crash + recovery inside some chains: a stuttering step of the chain abstraction (C12 decides recovery itself); here the
    # REPLAYED block's records / hash must be served like any other's.  The block that is being submitted when the process
    # dies carries >= 1 record; the two crash points lie between the three store commits.
    rnd = random.Random(ctx.seed * 31 + 7)
    crashes = []
    cands = [c for c in (allk + chains) if any(k >= 1 for k in c)]
    for i, c in enumerate(cands[:(4 if q else 16)]):
        at = rnd.choice([j + 1 for j, k in enumerate(c) if k >= 1])
        crashes.append({"chain": c, "at": at, "point": ("submit:after-block-commit", "submit:after-event-commit")[i % 2]})
    inp = rows + [{"tag": "ROW", "v": {"chain": c}} for c in chains + allk] + [{"tag": "ROW", "v": {"crash": c}} for c in crashes]
    out = ctx.driver(b, ["c08"], input_obj=inp, timeout=2400)
    s = summary(out)
    if not s:
        ctx.fail("driver printed no summary")
    for o in out:
        if o.get("violation"):
            ctx.violation("c08:%s" % o["violation"], o, replay={"kind": "c08", "detail": o["detail"]})
    for k, v in s.get("drift", {}).items():
        ctx.note("DRIFT (property kept): %s x%d" % (k, v))
    ctx.cov["evaluations"] = s["evaluations"]
    ctx.cov["table_rows"] = len(rows)
    ctx.cov["chains_replayed"] = s["chains"]
    ctx.cov["block_commits"] = s["commits"]
    ctx.cov["distinct_nontrivial"] = s["distinct"]
    ctx.cov["traces_validated_against_impl"] = 0
    ctx.sample({"chains": chains[:3], "long": allk[0]})
    ctx.sample({"row": rows[3]["v"]})
    ctx.cov["nested_call_blocks"] = s.get("nested_call_blocks", 0)
    ctx.cov["crash_recovery_chains"] = s.get("crash_recovery_chains", 0)
    if s.get("crash_recovery_chains", 0) != len(crashes):
        ctx.fail("crash chains run: %s of %d" % (s.get("crash_recovery_chains"), len(crashes)))
    ctx.note("%d chains, %d block commits on a real ledger (%d with nested calls)" % (s["chains"], s["commits"], s.get("nested_call_blocks", 0)))
    return ctx.finish(rule="P-REPLAY: all chains of %d blocks over the record-count alphabet of the cfg, %d simulated chains of %d blocks "
                      "with counts 0..%d and two chains that contain every count; distinct_nontrivial = distinct (labelling, k, i) "
                      "cross proofs + (r, h) block proofs + roots checked" % (3 if q else 4, num, depth, K),
                      assumptions=["solo bookkeeper ledger; records are written by the probe contract (put + PutMerkleVal), spread over 1-3 "
                                   "transactions per block, sometimes next to a failing transaction",
                                   "record keys are never overwritten later (GetCrossStatesProof reads the record from the current state)",
                                   "the permutation chain was chosen by the runner from VERIF_SEED; all others by TLC"])
