"""C05 - Peer-to-peer frames are integrity-checked and round-trip.
spec/Codec.tla + spec/Wire.tla (message schemas, ReadFrame / WriteFrame, checksum as a free hash term) +
spec/WireTable.tla (P-TABLE, Area = "C05"); driver harness/cmd/vd-codec (c05).
  1. TLC enumerates the table: the 16 message kinds (24 values), for each its valid frame, every single-byte
     corruption (one flipped bit, 0x00, 0xFF; long payloads sampled in the quick tier), wrong magic, six length-field
     mutants, twelve command mutants, truncated streams, the payload-size limit, garbage streams, and every payload
     mutant of C02's generator re-framed with a correct checksum; PropC05 is checked on each row for the repaired design
     and for the code as it is (where only the named deviations AllocPanic / SlicePanic may differ).
  2. The same run prints every row; the driver writes each message with WriteMessage (bytes must equal the
     specification's frame), reads every stream with ReadMessage and is judged by the row's monitor field:
     "same" (message value, payload length, identities), "reject", "free" (no panic).
"""
import collections


def run(ctx):
    q = ctx.quick
    b = ctx.build("vd-codec")
    if ctx.replay:
        return _replay(ctx, b)
    rows = ctx.gen("WireTable", "WireTable_C05_quick.cfg" if q else "WireTable_C05_thorough.cfg", "ROW",
                   workers=ctx.cores, timeout=2700, heap="12g")
    cls = collections.Counter((r["must"], r["exp"]["e"]) for r in rows)
    ops = collections.Counter(r["op"] for r in rows)
    kinds = set(r["sc"] for r in rows if r["op"] == "valid")
    if len(kinds) != 16 or ops["byte"] < 1500 or cls[("reject", "err")] < 1500 or ops["pmalt"] < 200:
        ctx.fail("table too small or vacuous: %d rows, kinds %d, ops %s" % (len(rows), len(kinds), dict(ops)))
    out = ctx.driver(b, ["c05"], input_obj=rows, timeout=2400)
    summ = [o for o in out if o.get("summary")]
    if not summ or summ[0]["rows"] != len(rows):
        ctx.fail("driver replayed %s of %d rows" % (summ[0]["rows"] if summ else None, len(rows)))
    summ = summ[0]
    drift = 0
    for o in out:
        if o.get("summary"):
            continue
        if o.get("viol"):
            ctx.violation(o["viol"], o["detail"], replay={"kind": "c05-row", "row": o.get("replay")})
        elif o.get("drift"):
            drift += 1
            if drift <= 5:
                ctx.note("DRIFT (monitor satisfied, model prediction differs): %s" % str(o)[:300])
    if drift:
        ctx.note("DRIFT total: %d" % drift)
    ctx.sample({"valid_frame": _slim(next(r for r in rows if r["o"] == "ping" and r["op"] == "valid"))})
    ctx.sample({"corrupted_frame": _slim(next(r for r in rows if r["o"] == "verack" and r["op"] == "byte" and r["i"] == 21))})
    ctx.cov["evaluations"] = summ["evals"]
    ctx.cov["distinct_nontrivial"] = summ["distinct"]
    ctx.cov["table_rows"] = {"rows": len(rows), "by_op": dict(ops), "by_monitor_and_prediction": {"%s/%s" % k: v for k, v in cls.items()},
                             "drift": drift, "no_prediction": summ["unk"], "identity_corruptions_skipped": summ["skipped"]}
    return ctx.finish(
        rule="P-TABLE: every row printed by TLC is a byte stream handed to the real ReadMessage (valid frames are also produced by "
             "the real WriteMessage and compared with the specification's bytes); evaluations = ReadMessage / WriteMessage runs; "
             "distinct_nontrivial = corrupted, mutated, truncated or garbage streams.",
        assumptions=["the 4-byte checksum is treated as collision free on the enumerated corruptions (a free hash term in the model)",
                     "a corruption that writes the value a byte already has is not a corruption and is skipped (counted)",
                     "one stream = one frame followed by end of stream (or by 30 filler bytes in the 'trail' rows)",
                     "signature counts between 2^17 and 2^48 are not generated (the unrepaired decoder would really allocate)",
                     "the network magic is set by the driver to the value the specification uses"])


def _slim(r):
    s = {k: v for k, v in r.items() if k not in ("uni",)}
    for k in ("s", "val", "refp"):
        if k in s and len(str(s[k])) > 600:
            s[k] = str(s[k])[:600] + "..."
    return s


def _replay(ctx, b):
    """bin/vcheck C05 --replay <file>: re-runs the single table row stored in a violation record on the real code."""
    import json
    rec = json.load(open(ctx.replay))
    row = rec["replay"]["row"]
    out = ctx.driver(b, ["c05"], input_obj=[row])
    for o in out:
        if o.get("summary"):
            continue
        if o.get("viol"):
            ctx.violation(o["viol"], o["detail"], replay={"kind": "c05-row", "row": row})
    ctx.sample({"replayed": str(row)[:400]})
    ctx.cov["evaluations"] = 1
    ctx.cov["distinct_nontrivial"] = 2
    return ctx.finish(rule="replay of one stored table row")
