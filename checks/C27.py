"""C27 - PoW light client keeps the heaviest valid chain (header_sync/eth SyncBlockHeader, appendHeader2Main, RestructChain;
header_sync/btc commitHeader, GetCommonAncestor, ReIndexHeaderHeight).
spec/PoWChain.tla (+PoWProp.tla monitor, TracePoWChain.tla); driver harness/cmd/vd-eth (pow-replay, pow-record).
  1. P-MC      : PropC27 (+ idempotence) on the model, every labelled tree <= N headers, every submission order.
  2. P-REPLAY  : TLC prints every labelled tree with N headers (= every tree shape x every parent-first order) x every
                 difficulty-step assignment, with the predicted state after each step and the predicted verdict of every
                 other submission in every state; the driver runs each on the real ETHHandler (fresh trust root, synthetic
                 headers whose difficulty the real calculator must accept), reads the state back through the contract's
                 getters and compares.  A difference is not yet a violation: the observed history goes to the monitor.
  3. P-VALIDATE: observed histories (of every differing behaviour, and of random histories with batches, orphans,
                 re-submissions, wrong heights, long slow/fast chains) are judged by TLC with the property's clauses as
                 invariants (TracePoWChain).  Monitor rejects => VIOLATION; monitor accepts a differing behaviour => DRIFT note.
"""
import json, re

CLAUSE_KEY = {
    "PropParentClosure": "eth:stored-header-without-stored-parent",
    "PropHeights": "eth:height-not-parent-plus-one",
    "PropTdSums": "eth:total-difficulty-not-parent-plus-own",
    "PropCanonical": "eth:canonical-index-not-a-parent-linked-chain-to-head",
    "PropHeadHeaviest": "eth:head-not-heaviest",
    "PropIdempotent": "eth:resubmission-changes-state",
    "PropValidStored": "eth:valid-header-not-stored",
}


def monitor(ctx, events, timeout=900):
    """Judge one observed history. Returns (None, None) if every clause holds in every state, else (clause, event_index)."""
    body = "\n".join(json.dumps(e, separators=(",", ":")) for e in events) + "\n"
    r = ctx.tlc("TracePoWChain", "TracePoWChain.cfg", workers=1, timeout=timeout, deadlock=False,
                files={"trace.ndjson": body}, quiet=True, extra=["-noGenerateSpecTE"])
    ctx.cov["states"] += r.distinct
    ctx.cov["transitions"] += r.generated
    if r.invariant_violated:
        ls = re.findall(r"^/\\ l = (\d+)", r.out, re.M)
        idx = int(ls[-1]) - 1 if ls else 0      # l counts the next event; the state was loaded from event l-1
        return r.invariant_violated, idx
    m = re.search(r'<<"HIGHWATER", (\d+)>>', r.out)
    if r.rc != 0 or not m or int(m.group(1)) != len(events) + 1:
        ctx.fail("trace monitor did not consume the history (rc=%d):\n%s" % (r.rc, r.out[-3000:]))
    return None, None


def scenario_of(events, idx):
    """slice of events from the last reset at or before event idx (1-based) up to idx"""
    i = idx - 1
    while i > 0 and events[i].get("op") != "reset":
        i -= 1
    return events[i:idx]


def judge(ctx, events, what, replay_extra, limit=6):
    """Run the monitor over concatenated histories; report each rejected scenario (up to limit). Returns #rejected."""
    rejected = 0
    rest = events
    while rest and rejected < limit:
        clause, idx = monitor(ctx, rest)
        if clause is None:
            break
        rejected += 1
        scen = scenario_of(rest, idx)
        bad = rest[idx - 1]
        key = CLAUSE_KEY.get(clause, "eth:" + clause)
        if replay_extra.get("chain") == "btc":
            key = "btc:" + key[4:]
        ctx.violation(key,
                      {"clause": clause, "source": what, "call": bad.get("note"), "ids": bad.get("ids"), "err": bad.get("err"),
                       "observed": bad.get("obs"), "scenario_length": len(scen)},
                      replay=dict(replay_extra, kind="pow-history", behaviour=(scen[0].get("note") or None), events=scen))
        j = idx
        while j < len(rest) and rest[j].get("op") != "reset":
            j += 1
        rest = rest[j:]
    return rejected


def replay(ctx, b):
    """bin/vcheck C27 quick --replay <file>: re-run one recorded case on the code and judge it again."""
    d = json.load(open(ctx.replay))["replay"]
    if d.get("behaviour"):
        out = ctx.driver(b, ["btc-replay" if d.get("chain") == "btc" else "pow-replay"], input_obj=[json.loads(d["behaviour"])])
        mism = [o for o in out if o.get("mismatch")]
        ev = mism[0]["events"] if mism else []
        ctx.note("replayed behaviour: %s" % ("differs from the model" if mism else "matches the model"))
    else:
        ev = [e for e in ctx.driver(b, ["pow-record", "40", "14"], env={"VERIF_SEED": str(d.get("seed", ctx.seed))}) if "op" in e]
    if ev:
        judge(ctx, ev, "replay", {"chain": d.get("chain", "eth"), "seed": d.get("seed", ctx.seed)})
    ctx.sample({"replayed": ctx.replay})
    ctx.cov["evaluations"] = len(ev)
    ctx.cov["distinct_nontrivial"] = len(ev)
    return ctx.finish(rule="single-case replay")


def run(ctx):
    q = ctx.quick
    b = ctx.build("vd-eth")
    if ctx.replay:
        return replay(ctx, b)
    ctx.mc("PoWChain", "PoWChain_mc_quick.cfg" if q else "PoWChain_mc_thorough.cfg", timeout=2400)
    if not q:
        ctx.mc("PoWChain", "PoWChain_mc_btc.cfg", timeout=2400)

    # (cfg, least number of behaviours expected); sh*: 7 slowest vs 6 fast blocks (shorter-but-heavier fork, head one lower)
    # and 10 vs 8 (head two lower), as a sample of interleavings (s) or all of them
    # btc_*: the Bitcoin header chain (header_sync/btc, regtest parameters) under the same model with Rule = "btc"
    # quickmix = all trees of 5 headers x steps {-1,1} + of 4 headers x {-1,0,1} + the two samples, in one TLC run
    gens = [("PoWChain_gen_quickmix.cfg", 3840 + 1944 + 10 + 13), ("PoWChain_gen_btc_n4a3.cfg", 1944)] if q else \
           [("PoWChain_gen_n5a3.cfg", 29160), ("PoWChain_gen_n6a2.cfg", 46080), ("PoWChain_gen_shortheavy.cfg", 1716), ("PoWChain_gen_sh108s.cfg", 13),
            ("PoWChain_gen_btc_n5a3.cfg", 29160)]
    total_beh = total_calls = distinct = reorgs = drift = 0
    downs = 0
    for cfg, least in gens:
        r = ctx.tlc("PoWChain", cfg, workers=1, timeout=2400)
        if r.rc != 0:
            ctx.fail("generation run failed %s rc=%d:\n%s" % (cfg, r.rc, r.out[-3000:]))
        ctx.cov["states"] += r.distinct
        ctx.cov["transitions"] += r.generated
        lines = [ln for ln in r.lines if ln.startswith('<<"TRACE", "')]
        if len(lines) != least:
            ctx.fail("%d behaviours generated from %s, expected %d" % (len(lines), cfg, least))
        path = ctx.out + "/beh-" + cfg + ".lines"
        with open(path, "w") as f:
            f.write("\n".join(lines) + "\n")
        out = ctx.driver(b, ["btc-replay" if "_btc_" in cfg else "pow-replay"], input_path=path, timeout=3000)
        summ = [o for o in out if o.get("summary")][0]
        if summ["behaviours"] != len(lines):
            ctx.fail("driver replayed %d of %d behaviours" % (summ["behaviours"], len(lines)))
        total_beh += summ["behaviours"]
        total_calls += summ["calls"]
        distinct += summ["distinct"]
        reorgs += summ["reorgs"]
        downs += summ["reorgs_down"]
        ctx.note("%s: %d behaviours, %d calls, %d reorganisations, %d differ from the prediction" %
                 (cfg, summ["behaviours"], summ["calls"], summ["reorgs"], summ["mismatches"]))
        ctx.sample({"behaviour": ctx.tlc and json.loads(_unescape(lines[len(lines) // 2]))})
        mism = [o for o in out if o.get("mismatch")]
        if mism:
            ev = []
            for m in mism[:40]:
                ev += m["events"]
            rej = judge(ctx, ev, "replay of %s" % cfg, {"cfg": cfg, "chain": "btc" if "_btc_" in cfg else "eth", "first_difference": {k: mism[0][k] for k in ("kind", "step", "detail")}})
            if rej == 0:
                # the code left the model's prediction but every clause of the property holds in every observed state
                drift += summ["mismatches"]
                kinds = sorted(set(m["kind"] for m in mism))
                ctx.note("DRIFT (%s): %d behaviours differ from the model (%s) but the monitor accepts them; e.g. %s" %
                         (cfg, summ["mismatches"], ",".join(kinds), mism[0]["detail"]))
                if any(m["kind"] in ("panic", "observe-failed") for m in mism):
                    ctx.fail("driver-level problem while replaying: %s" % mism[0]["detail"])
    if reorgs == 0 or downs == 0:
        ctx.fail("the generated behaviours contain no reorganisation / no reorganisation to a lower head (%d, %d)" % (reorgs, downs))

    # recorded random histories -> monitor
    n, m = (40, 14) if q else (400, 16)
    events = ctx.driver(b, ["pow-record", str(n), str(m)], timeout=3000)
    if any("panic" in e for e in events):
        p = [e for e in events if "panic" in e][0]
        ctx.violation("eth:panic-in-SyncBlockHeader", p, replay={"kind": "pow-record", "seed": ctx.seed})
    events = [e for e in events if "op" in e]
    rej = judge(ctx, events, "recorded random history", {"seed": ctx.seed})
    ctx.cov["traces_validated_against_impl"] += n - rej
    ctx.sample({"recorded_event": events[1]})
    ctx.cov["evaluations"] = total_calls + len(events)
    ctx.cov["distinct_nontrivial"] = distinct
    return ctx.finish(
        rule="P-REPLAY: %d behaviours (labelled trees = tree shape x parent-first order, x difficulty steps) printed by TLC, %d "
             "SyncBlockHeader calls on the real handler incl. a re-submission of every known header and an attempt of every "
             "orphan in every state, wrong declared heights; %d predicted reorganisations (%d to a lower head); distinct_nontrivial = distinct (tree prefix, "
             "submission, outcome) with outcome in {side store, reorg up/level/down, ignored, rejected}. P-VALIDATE: %d random "
             "histories of <= %d headers judged clause by clause by TLC. Behaviours differing from the model but accepted by "
             "the monitor (drift): %d." % (total_beh, total_calls, reorgs, downs, n, m, drift),
        assumptions=["Ethash seal check switched off by eth.VerifSealHook (synthetic headers); every other check of SyncBlockHeader is real",
                     "difficulties near 10^6 at heights below the first bomb period; children are a little heavier/lighter than parents "
                     "because the real difficulty rule stays on (steps 1, 0, -1, -3, -99)",
                     "one sandbox is shared by many worlds, each under its own chain id",
                     "a tie in total difficulty may be resolved either way (the property asks for a head of maximal total difficulty)",
                     "BTC header chain: regtest parameters (a header chooses its bits; the retarget rule calcRequiredWork is not exercised), works 2..32, headers really mined; total work read through the hook btc.VerifTotalWork"])


def _unescape(ln):
    s = ln[len('<<"TRACE", "'):-3]
    return s.replace('\\"', '"').replace("\\\\", "\\")
