"""C24 - Validator-signed cross-chain messages need distinct tracked signers (Ontology, NEO, NEO N3).
spec/OntNeo.tla (shared operators) + spec/OntNeoMsg.tla (decision table); driver harness/cmd/vd-ontneo (c24).
  1. P-MC    : TLC evaluates PropC24 (intended decision => at least the required number of DISTINCT tracked validators
               signed) on every row of the table, and NeoWalkIsIncreasing (two-cursor walk == strictly increasing signer
               list).  A separate small run documents that the decision WITHOUT the duplicate guard is outside the
               property (design-level statement of finding F4; expected to be violated in the model).
  2. P-TABLE : every row (N = 1..7; subsets, one signer repeated k times, right count with one duplicate, foreign keys
               listed / signing, bad signatures, missing / extra signatures, permuted signatures, foreign scripts for
               neo; plus all lists up to a length bound for small N) is concretized with real keys and real signatures
               and decided by the real code: ont.VerifyCrossChainMsg and the SyncCrossChainMsg entry point;
               neo / neo3 VerifyCrossChainMsgSig with real multi-signature witnesses.
     Oracle = the monitor only: real code accepts  =>  row.allowed.  A verdict different from the model's but inside
     the property is recorded as drift (no alarm).
"""
import json

KNOWN_DUP = "ont:crosschainmsg-duplicate-signer-counts"


def _key(row, path):
    if row["chain"] == "ont":
        why = sorted(row["why"])
        if why == ["dup"]:
            return KNOWN_DUP
        return "ont:accepted-without-quorum:%s%s" % ("+".join(why) or "none", path)
    return "%s:accepted-without-quorum:%s:%s%s" % (row["chain"], row["script"], row["fam"], path)


def _driver(ctx, binary, args, input_obj):
    """ctx.driver, but an unreadable driver output is 'no verdict' (exit 2), never an exit-1 traceback."""
    try:
        return ctx.driver(binary, args, input_obj=input_obj)
    except (ValueError, UnicodeError) as e:
        ctx.fail("driver output unreadable: %r" % (e,))


def run(ctx):
    q = ctx.quick
    b = ctx.build("vd-ontneo")
    if ctx.replay:
        rp = json.load(open(ctx.replay))["replay"]
        rows = [rp["row"]]
    else:
        rows = []
        for chain in CHAINS:
            cfg = "OntNeoMsg_%s_%s.cfg" % (chain, "quick" if q else "thorough")
            got = ctx.gen("OntNeoMsg", cfg, "ROW", timeout=1500)
            if len(got) < 300:
                ctx.fail("too few rows generated from %s: %d" % (cfg, len(got)))
            rows += got
        # design-level statement of F4: without the duplicate guard the ont decision leaves the property
        r = ctx.tlc("OntNeoMsg", "OntNeoMsg_f4_design.cfg", timeout=600)
        if r.invariant_violated != "NoDupGuardIsSafe":
            ctx.fail("model sanity: the no-duplicate-guard decision was expected to violate the monitor in the model")
        ctx.note("design level: ont decision without the duplicate guard violates the monitor (expected, finding F4)")
        for i, r_ in enumerate(rows):
            r_["idx"] = i
    out = _driver(ctx, b, ["c24"], input_obj=rows)
    summ = [o for o in out if o.get("summary")][0]
    obs = [o for o in out if not o.get("summary")]
    if len(obs) != len(rows):
        ctx.fail("driver answered %d of %d rows" % (len(obs), len(rows)))
    stats = {}
    drift = 0
    for o in obs:
        row = rows[o["i"]]
        st = stats.setdefault(row["chain"], {"rows": 0, "accepted": 0, "accepted_intended": 0, "panics": 0})
        st["rows"] += 1
        if o.get("setup"):
            ctx.fail("harness could not build the scenario for row %d (%s): %s" % (o["i"], row["fam"], o["setup"]))
        if o.get("panic"):
            st["panics"] += 1
        paths = [("", o["accept"])]
        if row["chain"] == "ont":
            paths += [("/entry", o["entry"]), ("/stored", o["stored"])]
        acc_any = any(a for _, a in paths)
        if acc_any:
            st["accepted"] += 1
            if row["intended"]:
                st["accepted_intended"] += 1
        for path, acc in paths:
            if acc and not row["allowed"]:
                ctx.violation(_key(row, path if not o["accept"] else ""),
                              {"row": row, "observed": o,
                               "meaning": "accepted although only %d distinct tracked validators validly signed" % row["distinct"]},
                              replay={"kind": "c24-row", "row": row})
                break
        else:
            if o["accept"] != row["intended"]:
                drift += 1
    for chain, st in stats.items():
        if st["accepted_intended"] == 0 and not ctx.replay and not ctx.violations:
            ctx.fail("vacuous: the real %s code accepted none of the rows the model accepts" % chain)
    if drift:
        ctx.note("drift (verdict differs from the model, inside the property): %d rows" % drift)
    for o in obs[:: max(1, len(obs) // 4)]:
        ctx.sample({"row": {k: rows[o["i"]][k] for k in ("chain", "fam", "n", "m", "script", "bks", "sigs", "intended", "allowed")},
                    "observed": {k: o.get(k) for k in ("accept", "entry", "stored", "concr")}})
    ctx.cov["evaluations"] = len(obs)
    ctx.cov["distinct_nontrivial"] = summ["distinct"]
    ctx.cov["per_chain"] = stats
    ctx.cov["drift_rows"] = drift
    return ctx.finish(rule="P-TABLE: every row of the TLC-generated decision table is concretized (fresh keys, real signatures, "
                      "random epoch / message height / bad-signature kind per seed) and decided by the real verification code; "
                      "violation iff the real code accepts a row the monitor forbids. distinct_nontrivial = distinct abstract "
                      "(chain, n, m, script, bookkeepers, signatures) rows with a non-empty list.",
                      assumptions=["a signature is abstracted to the identity that produced it over this message; collision "
                                   "resistance of SHA-256 / script hashes is assumed",
                                   "validator sets of size 0 are outside the domain",
                                   "ont keys: ECDSA P-256 and Ed25519; other Ontology key types are not exercised"])


CHAINS = ["ont", "neo", "neo3"]
