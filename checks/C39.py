"""C39 - Transaction signature validation is exact.
spec/SigCheck.tla; driver harness/cmd/vd-sig (txsig).

  1. P-MC    PropC39 on the whole generated domain: the code-shaped rule (parameter test, first signature for one key,
             greedy position mask over the first m signatures otherwise) decides exactly the declarative condition
             "the first m signatures can be assigned injectively to key positions they are valid for"
             (literal and counting form agree), and implies the loosest reading (any m signatures).
  2. P-TABLE every row (a list of signature entries over key ids with valid / invalid / foreign signature tokens) is
             concretized with real keys (ECDSA P-256/P-384, SM2, Ed25519 chosen by seed), real signatures over the real
             transaction hash, sent through the wire codec when possible and given to validation.VerifyTransaction.
             Verdict must equal the spec on every row where the declarative and the loosest reading agree; where they
             differ (a good signature hidden behind a bad one) either verdict is allowed.  For accepted transactions
             tx.SignedAddr, and Transaction.GetSignatureAddresses on an unvalidated copy, must be exactly the set of
             entry addresses, recomputed here as ripemd160(sha256(program)).  The verdict may not depend on what ran on
             the object before: every row is also validated AFTER GetSignatureAddresses on the same object (the order the
             transaction pool uses: isValidSender, then the stateless validator) and validated a second time.
     Domains: "entry" = all single-entry transactions over 2 (quick) / 3 (thorough) keys: key lists of length 0..3 with
             repeats, m in {0,1,n,n+1}, signature lists of length 0..3 over {invalid, each key, an unlisted key};
             "multi" = all lists of 0, 2, 3 entries over 8 representative entries; "boundary" = 16 / 17 keys, 16 / 17 entries.
"""


def run(ctx):
    q = ctx.quick
    b = ctx.build("vd-sig")
    rows = []
    for cfg in ("SigCheck_quick.cfg" if q else "SigCheck_thorough.cfg",):
        part = ctx.gen("SigCheck", cfg, "ROW", timeout=1500)
        if len(part) < 10:
            ctx.fail("too few rows from %s: %d" % (cfg, len(part)))
        rows += part
    if len(rows) < 3000:
        ctx.fail("too few rows: %d" % len(rows))
    reps = 1 if q else 2          # thorough: two independent concretizations of every row
    total = 0
    distinct = set()
    lenient = 0
    for rep in range(reps):
        out = ctx.driver(b, ["txsig"], input_obj=rows, timeout=3000, env={"VERIF_SEED": str(ctx.seed * 101 + rep)})
        res = [o for o in out if "i" in o]
        if len(res) != len(rows):
            ctx.fail("driver answered %d of %d rows" % (len(res), len(rows)))
        for o in res:
            r = rows[o["i"]]
            total += 1
            tx = r["tx"]
            shape = json_key(tx)
            if any(len(e["sigs"]) > 0 for e in tx):
                distinct.add(shape)
            allowed = {r["exp"], r["loose"]}
            if r["exp"] != r["decl"]:
                ctx.fail("spec row with exp != decl (TLC should have stopped): %s" % r)
            if len(allowed) == 2:
                lenient += 1
            cls = classify(tx)
            if o.get("panic"):
                _viol(ctx, "txsig:panic:%s" % cls, {"row": r, "got": o}, replay={"kind": "c39-row", "row": r})
                continue
            if o["acc"] not in allowed:
                kind = "accepted-but-spec-rejects" if o["acc"] else "rejected-but-spec-accepts"
                _viol(ctx, "txsig:%s:%s" % (kind, cls), {"row": r, "got": o}, replay={"kind": "c39-row", "row": r})
                continue
            for fld, what in (("accAfterLookup", "after-address-lookup"), ("accAgain", "on-revalidation")):
                if fld in o and o[fld] != o["acc"]:
                    kind = "accepted" if o[fld] else "rejected"
                    _viol(ctx, "txsig:verdict-changes-%s:%s:%s" % (what, kind, cls), {"row": r, "got": o},
                          replay={"kind": "c39-row", "row": r})
            if o.get("accAfterLookup") and o.get("signedAfterLookup") != o["expected"]:
                _viol(ctx, "txsig:signed-addresses-differ-after-lookup:%s" % cls, {"row": r, "got": o}, replay={"kind": "c39-row", "row": r})
            if o["acc"]:
                if o["signed"] != o["expected"]:
                    _viol(ctx, "txsig:signed-addresses-differ:%s" % cls, {"row": r, "got": o}, replay={"kind": "c39-row", "row": r})
                if o.get("derErr") or o["derived"] != o["expected"]:
                    _viol(ctx, "txsig:derived-addresses-differ:%s" % cls, {"row": r, "got": o}, replay={"kind": "c39-row", "row": r})
        if rep == 0:
            ctx.sample({"row": rows[len(rows) // 2], "observed": res[len(rows) // 2]})
            ctx.sample({"row": rows[-3], "observed": {k: res[-3][k] for k in ("acc", "code", "wire")}})
    ctx.cov["evaluations"] = total
    ctx.cov["distinct_nontrivial"] = len(distinct)
    return ctx.finish(rule="P-TABLE: every row printed by TLC (single entries exhaustively over a small key alphabet, entry lists "
                      "over 8 representative entries, 16/17 boundaries) concretized with real keys and signatures; "
                      "distinct_nontrivial = distinct abstract transactions carrying at least one signature; %d rows lie in the "
                      "zone where the declarative and the loosest reading differ (either verdict allowed)." % lenient,
                      extra={"rows": len(rows), "lenient_rows": lenient},
                      assumptions=["signatures are unforgeable; invalid tokens are concretized as: signature over another message, "
                                   "one flipped bit, truncation, empty bytes",
                                   "'m distinct listed keys' = m distinct positions of the key list (a key listed twice counts twice)",
                                   "key order for multi-key addresses is the crypto library's SortPublicKeys (trusted)"])


def json_key(tx):
    return tuple((tuple(e["keys"]), e["m"], tuple(e["sigs"])) for e in tx)


def classify(tx):
    """stable, specific class of a row for violation keys"""
    if len(tx) == 0:
        return "no-entries"
    if len(tx) > 16:
        return "more-than-16-entries"
    parts = []
    for e in tx[:3]:
        n, m, s = len(e["keys"]), e["m"], e["sigs"]
        rep = "dupkeys" if len(set(e["keys"])) < n else "keys"
        parts.append("%d%s-m%d-sigs%d%s" % (n, rep, m, len(s), "-bad" if 0 in s[:max(m, 1)] else ""))
    return "|".join(parts) + ("|..." if len(tx) > 3 else "")


_MAXV = 20


def _viol(ctx, key, detail, replay=None):
    """at most _MAXV distinct violation records per run (every further one is only counted)"""
    if len(ctx.violations) >= _MAXV and key not in [v[0] for v in ctx.violations] and not any(
            k.get("status") == "known" and (k["key"] == key or (k["key"].endswith("*") and key.startswith(k["key"][:-1]))) for k in ctx.known):
        ctx.cov["violations_not_recorded"] = ctx.cov.get("violations_not_recorded", 0) + 1
        return True
    return ctx.violation(key, detail, replay=replay)
