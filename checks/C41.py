"""C41 - VBFT round decisions count distinct participants.
spec/VbftRound.tla (+VbftRoundMC.tla alphabets, TraceVbftRound.tla); driver harness/cmd/vd-vbft.
  1. P-MC      : PropC41 (the monitor) on the implementation-shaped pool model for message alphabets in which every
                 carried signature is genuine - exhaustive over all message sequences up to the cfg's length.
  2. P-EDGE    : every (pool state, message) edge of the pool's state graph (one shortest history per pool state)
                 replayed on the real BlockPool with real keys/signatures; the observed return class, endorseDone,
                 commitDone and sealed signature list must be one of the admissible answers TLC printed; TLC's
                 verdict of the monitor for that answer then applies to the real run.
  3. P-VALIDATE: inadmissible observations (and random longer histories over the full alphabet) are recorded from
                 the real pool and judged by TLC in TraceVbftRound: monitor rejects => VIOLATION, accepts => DRIFT.
"""
import json, random
from concurrent.futures import ThreadPoolExecutor

F12 = "vbft:commit-msg-unverified-endorsers-counted"
KEYS = {"endorse": "vbft:endorse-done-without-distinct-quorum",
        "commit": "vbft:commit-done-without-distinct-quorum",
        "seal": "vbft:sealed-signatures-not-one-per-supporter"}

CONF = {4: dict(n=4, c=1, props=[1, 2], endrs=[2, 3, 4], comms=[2, 3, 4], trace="TraceVbftRound_n4.cfg"),
        7: dict(n=7, c=2, props=[1, 2, 3], endrs=[3, 4, 5, 6, 7], comms=[3, 4, 5, 6, 7], trace="TraceVbftRound_n7.cfg")}


def dargs(cmd, cf):
    cs = lambda l: ",".join(map(str, l))
    return [cmd, str(cf["n"]), str(cf["c"]), cs(cf["props"]), cs(cf["endrs"]), cs(cf["comms"])]


def judge(ctx, b, cf, histories, what):
    """Record the histories on the real pool, let TLC evaluate the monitor on what was observed.
    Returns (#events, #drift)."""
    if not histories:
        return 0, 0
    events = ctx.driver(b, dargs("round-record", cf), input_obj=histories)
    for e in events:
        if e.get("op") == "panic":
            ctx.fail("BlockPool panicked while recording %s history %s: %s" % (what, histories[e["hi"]], e["panic"][:800]))
    ok, hw, r = ctx.validate_trace("TraceVbftRound", cf["trace"], events, timeout=4000)
    if not ok:
        ctx.fail("trace validation did not consume the whole log (%s, highwater %d of %d):\n%s" % (what, hw, len(events), r.out[-3000:]))
    drift = 0
    for v in r.emitted("VERDICT"):
        ev = events[v["l"] - 1]
        hist = histories[ev["hi"]]
        # position of the event inside its history
        k = v["l"] - 1
        while events[k].get("op") != "reset":
            k -= 1
        upto = hist[: v["l"] - 1 - k]
        bad = False
        for cl, okk, okc in (("endorse", "e", "ec"), ("commit", "c", "cc"), ("seal", "s", "sc")):
            if not v[okk]:
                bad = True
                key = F12 if v[okc] else KEYS[cl]
                ctx.violation(key, {"clause": cl, "config": {k2: cf[k2] for k2 in ("n", "c", "props", "endrs")}, "history": upto,
                                    "observed": {k2: ev[k2] for k2 in ("ret", "ed", "cd", "hs", "seal")}, "source": what},
                              replay={"kind": "vbft-round-history", "n": cf["n"], "c": cf["c"], "history": upto})
        if not bad and not v["conf"]:
            drift += 1
            if drift <= 5:
                ctx.note("DRIFT (%s): observation not admitted by the pool model but accepted by the monitor: %s -> %s" %
                         (what, json.dumps(upto[-1]), json.dumps({k2: ev[k2] for k2 in ("ret", "ed", "cd", "hs", "seal")})))
    return len(events), drift


def rand_histories(rng, cf, count, length):
    n, props = cf["n"], cf["props"]
    res = []
    for _ in range(count):
        h, proposed = [], set()
        for _ in range(length):
            r = rng.random()
            p = rng.choice(props)
            x = rng.randint(1, n)
            e = rng.random() < 0.3
            if r < 0.12:
                h.append({"k": "P", "x": p, "p": p, "e": False, "sg": [], "sf": []})
                proposed.add(p)
            elif r < 0.16 and proposed:
                p = rng.choice(sorted(proposed))
                h.append({"k": "P2", "x": p, "p": p, "e": False, "sg": [], "sf": []})
            elif r < 0.55:
                h.append({"k": "E", "x": x, "p": p, "e": e, "sg": [], "sf": []})
            elif r < 0.92:
                others = [y for y in range(1, n + 1) if y != x]
                rng.shuffle(others)
                k = rng.randint(0, min(3, len(others)))
                sg = sorted(others[:k])
                sf = sorted(others[k:k + 1]) if rng.random() < 0.25 and len(others) > k else []
                h.append({"k": "C", "x": x, "p": p, "e": e, "sg": sg, "sf": sf})
            else:
                h.append({"k": rng.choice(["BE", "BC"]), "x": x, "p": p, "e": False, "sg": [], "sf": []})
        res.append(h)
    return res


def run(ctx):
    q = ctx.quick
    b = ctx.build("vd-vbft")
    mcs = ["VbftRound_mc_end_q.cfg", "VbftRound_mc_com_q.cfg"] if q else \
          ["VbftRound_mc_end_t.cfg", "VbftRound_mc_com_t.cfg", "VbftRound_mc_n7_t.cfg"]
    gens = [("VbftRound_gen_end_q.cfg", 4), ("VbftRound_gen_com_q.cfg", 4)] if q else \
           [("VbftRound_gen_end_t.cfg", 4), ("VbftRound_gen_com_t.cfg", 4), ("VbftRound_gen_n7_t.cfg", 7)]
    w = max(1, min(4, ctx.cores // 4))
    with ThreadPoolExecutor(max_workers=len(mcs) + len(gens)) as ex:
        fm = [ex.submit(ctx.mc, "VbftRoundMC", c, timeout=7000, workers=w) for c in mcs]
        fg = [ex.submit(ctx.gen, "VbftRoundMC", c, "EDGE", timeout=7000) for c, _ in gens]
        for f in fm:
            f.result()
        edgesets = [f.result() for f in fg]

    total = distinct = flagged = drift = 0
    for (cfg, n), edges in zip(gens, edgesets):
        cf = CONF[n]
        if len(edges) < 2000:
            ctx.fail("too few edges generated from %s: %d" % (cfg, len(edges)))
        if not any(r["d"] for e in edges for r in e["cd"]) or not any(r["d"] for e in edges for r in e["ed"]):
            ctx.fail("vacuous edge set %s: no edge reaches a decision" % cfg)
        out = ctx.driver(b, dargs("round-edges", cf), input_obj=edges)
        summ = [o for o in out if o.get("summary")][0]
        if summ["edges"] != len(edges):
            ctx.fail("driver replayed %d of %d edges" % (summ["edges"], len(edges)))
        total += summ["edges"]
        distinct += summ["distinct"]
        ctx.sample({"cfg": cfg, "edge": edges[len(edges) // 3]})
        mism = []
        for o in out:
            if o.get("summary"):
                continue
            e = edges[o["i"]]
            hist = e["h"] + [e["a"]]
            if o.get("panic"):
                ctx.fail("BlockPool panicked on history %s: %s" % (json.dumps(hist), o["panic"][:800]))
            if o.get("mismatch"):
                mism.append(hist)
                continue
            for fl in o.get("flags", []):
                flagged += 1
                cl, _, unv = fl.partition(":")
                key = F12 if unv else KEYS[cl]
                ctx.violation(key, {"clause": cl, "config": {k: cf[k] for k in ("n", "c", "props", "endrs")}, "history": hist,
                                    "observed": o.get("got"), "source": "edge replay " + cfg},
                              replay={"kind": "vbft-round-history", "n": cf["n"], "c": cf["c"], "history": hist})
        if mism:
            ctx.note("%s: %d of %d edges gave an observation outside the model's admissible set; judging them with the monitor"
                     % (cfg, len(mism), len(edges)))
            for k in range(0, len(mism), 4000):
                nev, dr = judge(ctx, b, cf, mism[k:k + 4000], "edge mismatch " + cfg)
                drift += dr
            ctx.cov["traces_validated_against_impl"] += len(mism)

    # random longer histories over the full alphabet, judged by TLC
    rng = random.Random(ctx.seed * 7919 + 41)
    nev = 0
    for n, cnt, ln in ((4, 60, 8), (7, 40, 10)) if q else ((4, 600, 10), (7, 400, 14)):
        hs = rand_histories(rng, CONF[n], cnt, ln)
        k, dr = judge(ctx, b, CONF[n], hs, "random histories N=%d" % n)
        nev += k
        drift += dr
        ctx.cov["traces_validated_against_impl"] += cnt
        ctx.sample({"random_history_n%d" % n: hs[0][:4]})
    ctx.cov["evaluations"] = total + nev
    ctx.cov["distinct_nontrivial"] = distinct
    if drift:
        ctx.note("DRIFT: %d observations differ from the pool model but satisfy the property" % drift)
    return ctx.finish(
        rule="P-EDGE: TLC prints every (pool state, message) edge reachable within the cfg's history bound once (VIEW = pool state), "
             "with the set of admissible (endorseDone, commitDone, sealed signatures) answers and the monitor's verdict for each; the "
             "driver re-creates the pool state on a fresh real BlockPool (real Verify of each message, real keys), sends the message "
             "and observes; distinct_nontrivial = distinct (message, return class, decisions, sealed list) tuples in which a "
             "decision is reached or the message is refused. %d monitor-rejected confirmed edges. P-VALIDATE: random histories and "
             "all inadmissible observations judged by TLC on the recorded behaviour." % flagged,
        assumptions=["messages are delivered under their author's identity (Server.run verifies against the sending peer's key and "
                     "never compares it with the Endorser/Committer field; that path is outside the anchored code)",
                     "endorsements and commits name the first pooled proposal of a proposer (hash binding of a vote to one of two "
                     "conflicting proposals of one proposer is not explored)",
                     "empty-block endorsements are counted over all proposers (code FIXME) and the for-empty flag of commitDone's "
                     "endorser-count path are modelled as the code has them and are not part of the monitor"])
