"""C19 - Side-chain trust roots are installed at most once.
spec/LightClient.tla (+ MCLightClient.tla constants, TraceLightClient.tla); driver harness/cmd/vd-native (genesis-replay).
  1. P-MC      : PropC19 ([][installed => result = err /\\ lc' = lc]) on the guarded shape, exhaustive; the same monitor
                 must REJECT the model with the deviating shapes (overwrite / silent no-op) - monitor self-check.
  2. P-REPLAY  : every behaviour of length D over {install g1, install g2, install malformed, sync} printed by TLC, per
                 router, is executed on a fresh sandbox through the real header_sync.SyncGenesisHeader / SyncBlockHeader
                 entrance with the operator witness; result + byte-exact snapshot of the header-sync contract storage
                 after every call.
  3. P-VALIDATE: the recorded observations are validated by TLC against TraceLightClient (every event must be explained
                 by an action of the spec: guarded shape or a named deviation); the monitor's step predicate C19Step is
                 evaluated on every installation step; a step it rejects is a violation keyed by router and deviation.
"""
import json

KIND_KEY = {"overwrite": "second-install-overwrites", "noop": "second-install-silent-noop",
            "dirtyfail": "failed-install-changes-state"}


def run(ctx):
    q = ctx.quick
    b = ctx.build("vd-native")
    ctx.mc("MCLightClient", "LightClient_mc.cfg", timeout=900)
    r = ctx.tlc("MCLightClient", "LightClient_mc_asread.cfg", timeout=600)
    if r.invariant_violated != "PropC19":
        ctx.fail("monitor self-check: PropC19 did not reject the deviating shapes (rc=%d, %s)" % (r.rc, r.invariant_violated))

    if ctx.replay:
        rp = json.load(open(ctx.replay))["replay"]
        traces = [rp["behaviour"]]
    else:
        traces = ctx.gen("MCLightClient", "LightClient_gen_quick.cfg" if q else "LightClient_gen_thorough.cfg", "TRACE", timeout=900)
        seen, uniq = set(), []
        for t in traces:
            k = json.dumps(t, sort_keys=True)
            if k not in seen:
                seen.add(k)
                uniq.append(t)
        traces = uniq
        if len(traces) < 1800:
            ctx.fail("too few behaviours generated: %d" % len(traces))
    routers = sorted({t[0]["r"] for t in traces})
    out = ctx.driver(b, ["genesis-replay"], input_obj=traces)
    summ = [o for o in out if o.get("summary")]
    if not summ or summ[0]["behaviours"] != len(traces):
        ctx.fail("driver replayed %s of %d behaviours" % (summ and summ[0]["behaviours"], len(traces)))
    obs = [o for o in out if o.get("ev")]
    events = [({"ev": "reset"} if o["ev"] == "reset" else {"ev": o["ev"], "r": o["r"], "g": o["g"], "res": o["res"], "snap": o["snap"]})
              for o in obs]
    for o in obs:
        if o.get("panic"):
            ctx.note("poly code panicked in %s %s on %s: %s" % (o["ev"], o["g"], o["r"], o["panic"][:300]))
    ok, hw, tr = ctx.validate_trace("TraceLightClient", "TraceLightClient.cfg", events, timeout=900)
    if not ok:
        bad = obs[hw - 1] if 0 < hw <= len(obs) else None
        # an observation no action of the spec explains (e.g. the first installation of a well-formed fixture was refused, a
        # malformed genesis was accepted, a header the adapter built was refused): adapter or model problem, no verdict
        ctx.fail("recorded observation not explained by LightClient at event %d: %s\nbehaviour: %s" %
                 (hw, json.dumps(bad), json.dumps(traces[bad["t"]]) if bad else None))
    ctx.cov["traces_validated_against_impl"] += len(traces)
    verdicts = tr.emitted("VERDICT")
    n_install = sum(1 for o in obs if o["ev"] == "install")
    if len(verdicts) != n_install:
        ctx.fail("monitor judged %d of %d installation steps" % (len(verdicts), n_install))
    later, exercised, deviations = set(), set(), 0
    # A re-installation of the SAME genesis that returns success and leaves the bytes unchanged is explained by "noop" although a
    # router without any guard produces it too (it rewrote identical data).  Where a router also shows a real overwrite, both are
    # the one deviation "no guard" and are reported once, as second-install-overwrites.
    overwriters = {v["r"] for v in verdicts if v["kind"] == "overwrite" and not v["ok"]}
    for v in sorted(verdicts, key=lambda v: (v["kind"] != "overwrite", v["i"])):   # show a real overwrite as the example
        o = obs[v["i"] - 1]
        beh = traces[o["t"]]
        prefix = json.dumps([(s["op"], s["g"]) for s in beh[:o["i"] + 1]])
        if v["kind"] == "first":
            exercised.add(v["r"])
        if v["was"]:
            later.add((v["r"], prefix))
        if o["res"] != o["pred"]:
            deviations += 1
        if not v["ok"]:
            kind = "overwrite" if (v["kind"] == "noop" and v["r"] in overwriters) else v["kind"]
            key = "router=%s:%s" % (v["r"], KIND_KEY.get(kind, "later-install-" + kind))
            ctx.violation(key, {"router": v["r"], "behaviour": [(s["op"], s["g"]) for s in beh], "failing_step": o["i"],
                                "observed": [(x["ev"], x.get("g"), x["res"], x["snap"]) for x in obs if x["t"] == o["t"] and x["ev"] != "reset"],
                                "storage_keys_changed": o.get("diff"), "explained_by": v["kind"],
                                "monitor": "C19Step(installed, lc, lc', res) = FALSE"},
                          replay={"kind": "genesis-behaviour", "behaviour": beh})
        elif o["res"] != o["pred"]:
            ctx.note("DRIFT: %s step %d of %s: predicted %s observed %s, accepted by the monitor" % (v["r"], o["i"], prefix, o["pred"], o["res"]))
    missing = [r for r in routers if r not in exercised]
    if missing:
        ctx.fail("no successful first installation on routers %s (fixture refused): nothing was tested there" % missing)
    ctx.sample({"behaviour": traces[len(traces) // 2]})
    ctx.sample({"observed": [o for o in obs if o["t"] == len(traces) // 2]})
    ctx.sample({"verdict": verdicts[len(verdicts) // 2]})
    ctx.cov["evaluations"] = len(obs)
    ctx.cov["distinct_nontrivial"] = len(later)
    return ctx.finish(rule="P-REPLAY: every behaviour of length D printed by TLC (CONSTRAINT Emit) on every router, replayed through the real "
                      "header_sync entrance; distinct_nontrivial = distinct (router, history) pairs ending in an installation attempt on a "
                      "router that already has a trust root; %d routers, %d behaviours, %d steps deviating from the guarded shape." %
                      (len(routers), len(traces), deviations),
                      assumptions=["one registered side chain per router; the operator witness is present (witness rules are C18)",
                                   "trust roots g1/g2 are fabricated, well-formed genesis data (zilliqa/starcoin: the repository's recorded fixtures); "
                                   "'malformed' is a 7-byte prefix",
                                   "light-client state = all storage of the header-sync contract, compared byte for byte",
                                   "a failed call's writes are discarded as the ledger does per transaction (nativekit.Call)",
                                   "harmony is not executed (BLS binding stubbed)"])
