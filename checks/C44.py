"""C44 - Consensus messages round-trip and signatures bind their content.
spec/VbftMsg.tla; driver harness/cmd/vd-cmsg.

  1. P-MC + P-TABLE (one TLC run): the table of the ten vbft message kinds (type code, fields, JSON keys, payload format)
     with one row per (kind, symbolic filling), and the signature rows: ConsensusPayload, block proposal (with / without an
     empty block), endorsement, commit x {every single-field mutation after signing, key swap, re-signing by another key,
     a signature transplanted from other content, damaged / missing signature}.  Sign/Verify are an ideal pair; the
     acceptance predicates are in the code's shape; TLC checks PropDispatch, PropRoundTrip, PropBind (accepted => every
     checked signature was made by the verifying key over exactly the attached content) and prints each row with the
     predicted verdict.
  2. replay: each row is concretized `fill` times with seeded field contents and real keys (ECDSA P-256, SM2, Ed25519 in
     turn), sent through SerializeVbftMsg / DeserializeVbftMsg (ConsensusPayload: both of its codecs) and the real Verify.

Verdicts: a message that does not come back from its own encoding, or a signature accepted although the model says it is
not genuine for that content and key => violation.  Wire bytes that differ from the table's rendering, or a verdict that
differs from the code-shaped model without breaking the monitor => drift (reported, exit 0).
"""
import json


def run(ctx):
    q = ctx.quick
    b = ctx.build("vd-cmsg")
    r = ctx.tlc("VbftMsg", "VbftMsg.cfg", workers=min(ctx.cores, 4), timeout=900)
    ctx.cov["states"] += r.distinct
    ctx.cov["transitions"] += r.generated
    if r.rc != 0:
        ctx.fail("model-level alarm in VbftMsg (rc=%d, %s):\n%s" % (r.rc, r.invariant_violated, r.counterexample()[:3000]))
    cases = sorted(r.emitted("CASE"), key=lambda c: json.dumps(c, sort_keys=True))
    fams = {}
    for c in cases:
        fams[c["fam"]] = fams.get(c["fam"], 0) + 1
    if len({c["kind"] for c in cases if c["fam"] == "wire"}) != 10 or fams.get("cp", 0) < 18 or fams.get("proposal", 0) < 55:
        ctx.fail("case table incomplete: %s" % fams)
    if not q:
        # vacuity guards: seeded model defects must be flagged by the monitor
        for cfg, inv in (("VbftMsg_selftest_cp-skip-data.cfg", "PropBind"), ("VbftMsg_selftest_hash-skip-payload.cfg", "PropBind"),
                         ("VbftMsg_selftest_dispatch-swap.cfg", "PropDispatch")):
            t = ctx.tlc("VbftMsg", cfg, workers=2, timeout=900, quiet=True)
            if t.rc == 0 or (inv not in t.out):
                ctx.fail("monitor self-test %s: %s did not flag the seeded model defect" % (cfg, inv))
    fill = 6 if q else 60
    out = ctx.driver(b, ["replay", str(fill)], input_obj=cases, timeout=3000)
    summ = [o for o in out if o.get("summary")]
    if not summ or summ[0]["cases"] != len(cases):
        ctx.fail("driver did not replay the whole table")
    drift = {}
    for o in out:
        if o.get("summary") or not o.get("issue"):
            continue
        c = cases[o["case"]]
        mut = c.get("mut") or {}
        what = ":".join(x for x in (mut.get("op"), mut.get("which"), mut.get("x")) if x) or c.get("kind", "")
        replay = {"kind": "cmsg-case", "case": c, "fill": o["fill"], "scheme": o.get("scheme")}
        if o["issue"] == "binding":
            ctx.violation("binding:%s:%s" % (o["fam"], what), {"scheme": o.get("scheme"), "observed": o.get("observe"), "detail": o.get("detail")},
                          replay=replay)
        elif o["issue"] == "roundtrip":
            ctx.violation("roundtrip:%s:%s" % (o["fam"], c.get("kind") or what), {"detail": o.get("detail"), "observed": o.get("observe")},
                          replay=replay)
        elif o["issue"] == "panic":
            ctx.violation("panic:%s:%s" % (o["fam"], what), {"detail": o.get("detail")}, replay=replay)
        elif o["issue"] == "drift":
            k = "%s:%s" % (o["fam"], what)
            drift[k] = drift.get(k, 0) + 1
        else:
            ctx.fail("driver problem on case %s: %s" % (o.get("case"), json.dumps(o)[:600]))
    for k, n in sorted(drift.items()):
        ctx.note("DRIFT %s x%d (real verdict or wire bytes differ from the code-shaped model; monitor not broken)" % (k, n))
    dropped = [c for c in cases if c.get("emptydropped")]
    uncovered = [c for c in cases if c["fam"] in ("endorse", "commit") and c["accept"] and not c["whole"]]
    ctx.note("observations (not part of the statement): %d proposal rows are accepted with the empty block silently dropped by "
             "Block.Deserialize; %d endorse/commit rows accept a changed field because their signature covers the block hash only "
             "(those fields ride on the ConsensusPayload signature)" % (len(dropped), len(uncovered)))
    ok_rows = [o for o in out if not o.get("summary") and not o.get("issue")]
    ctx.sample({"case": cases[len(cases) // 2]})
    if ok_rows:
        ctx.sample({"replayed": ok_rows[len(ok_rows) // 2]})
    runs = summ[0]["runs"]
    ctx.cov["evaluations"] = sum(runs.values())
    ctx.cov["distinct_nontrivial"] = summ[0]["distinct"]
    return ctx.finish(
        rule="P-TABLE: %d rows (wire %d, ConsensusPayload %d, proposal %d, endorse/commit %d) printed by TLC with the monitor checked "
             "on each; every row concretized %d times with seeded contents and real keys of three signature schemes; "
             "distinct_nontrivial = distinct (family, kind/filling or mutation) rows executed." %
             (len(cases), fams.get("wire", 0), fams.get("cp", 0), fams.get("proposal", 0), fams.get("endorse", 0) + fams.get("commit", 0), fill),
        extra={"rows": len(cases), "fill": fill, "runs": runs},
        assumptions=["signatures are unforgeable: the model's Sign/Verify is an ideal pair, the harness uses the real primitives",
                     "content of a proposal = header fields and the transaction list bound by the header's root; Bookkeepers and "
                     "SigData are the signature envelope, PeerId of a ConsensusPayload is a local annotation that is never sent",
                     "a mutation flips one bit / appends or drops one byte / replaces the list; nil and empty containers are one value",
                     "decoding of arbitrary garbage is not part of the statement (the transaction decoder's count panic F2 belongs to C02/C05)"])
