"""C37 - Transaction pool bookkeeping is consistent under concurrency.
spec/TxPoolOps.tla (sequential pool semantics), TxPoolSeq.tla (client interleavings, edge generation), TxPool.tla (the
server pipeline), TraceTxPool.tla (linearizability search), TraceTxPoolSrv.tla (server traces); driver harness/cmd/vd-pool.
  1. P-MC      : PropC37 over all interleavings of 3 clients x 2 calls on the pool model; TypeOK/CapLoose on the server model
                 (all interleavings of admission, worker, validator responses, consensus requests, block saved).
  2. P-EDGE    : every (pool state, call) edge of TxPoolSeq run on a fresh real TXPool, answers validated by TLC (TraceTxPool).
  3. P-VALIDATE: 2-4 goroutines hammer one real TXPool; TLC searches a linearization of every recorded history
                 (real-time order, returned values, final listing), incl. histories with contention on one hash and on
                 removal by age (verify-block path).  The pool driver is built with -race; a race report inside
                 txnpool/common or a runtime abort ("concurrent map writes") of the child process is a violation.
  4. server    : TLC-generated stimulus sequences (every edge to a depth + random walks) are given to the real TXPoolServer
                 through its real actors with stub validators; TLC validates the observed traces against TxPool (strict), and
                 evaluates the C37 monitor on every observed step (capacity, no second copy, get/clean/verify-block clauses).
                 Capacity runs use MAX_CAPACITY-1 real filler entries so that the real constant is the bound that is hit.
"""
import json, os, random
from vlib.core import NoVerdict

CAPKEY = "txpool:capacity-overshoot-by-inflight"


def _dedupe(items):
    seen, res = set(), []
    for x in items:
        k = json.dumps(x, sort_keys=True)
        if k not in seen:
            seen.add(k)
            res.append(x)
    return res


def _validate_histories(ctx, hists, what, maxtx=2):
    """Strict linearizability validation; a rejected history is re-validated against the monitor only."""
    cfg, mon = ("TraceTxPool.cfg", "TraceTxPool_mon.cfg") if maxtx == 2 else ("TraceTxPool_m%d.cfg" % maxtx, "TraceTxPool_m%d_mon.cfg" % maxtx)
    todo = list(hists)
    rounds = 0
    while todo and rounds < 6:
        rounds += 1
        ok, hw, r = ctx.validate_trace("TraceTxPool", cfg, todo, timeout=1500)
        if ok:
            ctx.cov["traces_validated_against_impl"] += len(todo)
            return
        ctx.cov["traces_validated_against_impl"] += hw - 1
        bad = todo[hw - 1]
        panics = [c for c in bad["calls"] if c.get("panic")]
        ok2, hw2, r2 = ctx.validate_trace("TraceTxPool", mon, [bad], timeout=600)
        ops = sorted(set(c["op"] for c in bad["calls"]))
        if panics:
            ctx.violation("txpool-%s:panic:%s" % (what, panics[0]["op"]), {"call": panics[0]}, replay={"kind": what, "history": bad})
        elif ok2:
            ctx.note("DRIFT (%s): a history is not explained by the implementation-shaped answers but satisfies the monitor: %s"
                     % (what, json.dumps(bad)[:600]))
        else:
            ctx.violation("txpool-%s:no-linearization:%s" % (what, "+".join(ops)),
                          {"history": bad, "note": "no order of these calls consistent with real time explains the answers"},
                          replay={"kind": what, "history": bad})
        todo = todo[hw:]


def _flatten(scs):
    ev, owner = [], []
    for i, sc in enumerate(scs):
        ev.append({"op": "reset", "obs": {}})
        owner.append(i)
        for st in sc["steps"]:
            ev.append(st)
            owner.append(i)
    return ev, owner


def _monitor(ctx, scs, cfg):
    """Monitor run: total, never blocks; returns {scenario index: [(event, clause)]} for every event breaking a C37 clause."""
    ev, owner = _flatten(scs)
    body = "\n".join(json.dumps(e, separators=(",", ":"), sort_keys=True) for e in ev) + "\n"
    r = ctx.tlc("TraceTxPoolSrv", cfg, workers=1, timeout=1500, deadlock=False, dfs=True, files={"trace.ndjson": body}, quiet=True)
    if '<<"HIGHWATER", %d>>' % (len(ev) + 1) not in r.out:
        ctx.fail("monitor run did not consume the whole trace (%s):\n%s" % (cfg, r.out[-3000:]))
    ctx.cov["states"] += r.distinct
    bad = {}
    for ln in r.lines:
        if ln.startswith('<<"MONFAIL", '):      # <<"MONFAIL", line, "op", "clause">>
            f = [x.strip().strip('">') for x in ln[2:].split(",")]
            idx, clause = int(f[1]), f[3]
            bad.setdefault(owner[idx - 1], []).append((ev[idx - 1], clause))
    return bad


def _server(ctx, b, scs, args, cfg, what, expect_over=False):
    """Run stimulus sequences on the real server, validate strictly (with one slow re-run of a rejected scenario),
    and evaluate the monitor on everything."""
    if not scs:
        return 0, 0
    for i, sc in enumerate(scs):
        sc["id"] = i + 1
    try:
        out = ctx.driver(b, ["srv-run"] + args, input_obj=scs, timeout=3000)
    except NoVerdict as e:
        if "fatal error: concurrent map" in str(e):   # runtime abort caused by unsynchronized access to the pool's map
            ctx.violation("txpool-srv:fatal-concurrent-map-access", {"driver": str(e)[-3000:]}, replay={"kind": "srv-crash", "args": args})
            return 0, 0
        raise
    done = sorted([o for o in out if "steps" in o], key=lambda o: o["id"])
    if len(done) != len(scs):
        ctx.fail("server driver ran %d of %d scenarios" % (len(done), len(scs)))
    todo = list(done)
    drift = []
    rounds = validated = 0
    while todo and rounds < 8:
        rounds += 1
        ev, owner = _flatten(todo)
        ok, hw, r = ctx.validate_trace("TraceTxPoolSrv", cfg + ".cfg", ev, timeout=1500)
        if ok:
            validated += len(todo)
            break
        k = owner[hw - 1]
        validated += k
        bad = todo[k]
        # once more, slowly: separates a server that was not yet quiet from a real divergence
        again = ctx.driver(b, ["srv-run"] + args, input_obj=[{"steps": [{x: st[x] for x in st if x != "obs"} for st in bad["steps"]],
                                                             "id": bad["id"], "slow": True}], timeout=600)
        again = [o for o in again if "steps" in o][0]
        ev2, _ = _flatten([again])
        ok2, hw2, r2 = ctx.validate_trace("TraceTxPoolSrv", cfg + ".cfg", ev2, timeout=600)
        if ok2:
            ctx.note("%s: scenario %d was observed before the server was quiet; accepted on the slow re-run" % (what, bad["id"]))
            done[bad["id"] - 1] = again
            validated += 1
        else:
            drift.append((again, hw2))
            done[bad["id"] - 1] = again
        todo = todo[k + 1:]
    mon = _monitor(ctx, done, cfg + "_mon.cfg")
    over_seen = over_any = 0
    for k, lst in sorted(mon.items()):
        sc = done[k]
        stimuli = [{x: st[x] for x in st if x != "obs"} for st in sc["steps"]]
        other = [(e, c) for e, c in lst if c != "capacity"]
        e, clause = lst[0]
        if any(c == "capacity" for _, c in lst):
            over_any += 1
        if not other and e["op"] == "rsp":
            # the only clause broken in this scenario is the capacity bound, first at the insertion after verification
            over_seen += 1
            ctx.violation(CAPKEY, {"pool_count_minus_fillers": e["obs"]["n"], "model_CAP": 1, "real_MAX_CAPACITY": 100140,
                                   "event": {x: e[x] for x in e if x != "obs"}, "stimuli": stimuli},
                          replay={"kind": "srv", "args": args, "steps": stimuli})
        else:
            e, clause = other[0] if other else lst[0]
            ctx.violation("txpool-srv:%s:%s" % (clause, e["op"]),
                          {"clause": clause, "event": e, "all_broken_clauses": sorted(set(c for _, c in lst)), "stimuli": stimuli},
                          replay={"kind": "srv", "args": args, "steps": stimuli})
    for sc, hw in drift:
        if (sc["id"] - 1) not in mon:
            ctx.note("DRIFT (%s): scenario %d leaves the implementation-shaped model at step %d but satisfies the C37 monitor: %s"
                     % (what, sc["id"], hw - 1, json.dumps(sc["steps"][max(0, hw - 2)])[:500]))
    ctx.cov["traces_validated_against_impl"] += validated
    if validated + len(drift) < len(done):
        ctx.note("%s: %d scenarios were checked by the monitor only (strict validation stopped after %d divergences)" % (what, len(done) - validated - len(drift), len(drift)))
    ctx.sample({what: done[len(done) // 2]["steps"][-1]})
    if expect_over and over_seen == 0 and over_any == 0 and not ctx.violations:
        if drift and not mon:
            ctx.note("%s: the model (capacity tested at admission only) predicts an overshoot, the real server stayed within its capacity "
                     "and left the model exactly there (DRIFT permitted by C37)" % what)
        else:
            ctx.fail("the model predicts a capacity overshoot (PropCap fails in TxPool_cap.cfg) but none was observed on the real server")
    return sum(len(s["steps"]) for s in done), _distinct_srv(done)


def _distinct_srv(scs):
    s = set()
    for sc in scs:
        st = sc["steps"][-1]
        o = st.get("obs") or {}
        s.add(json.dumps([st["op"], st["t"], st["typ"], st["h"], st["err"], st["by"], st["ts"], o.get("pool"), sorted(o.get("pend", [])),
                          sorted(json.dumps(m, sort_keys=True) for m in o.get("out", []))], sort_keys=True))
    return len(s)


def run(ctx):
    q = ctx.quick
    rnd = random.Random(ctx.seed)
    b = ctx.build("vd-pool")
    phases = set((os.environ.get("C37_PHASES") or "mc,edges,lin,srv,cap").split(","))   # development aid; registered runs do all
    return _run(ctx, q, rnd, b, phases)


def _run(ctx, q, rnd, b, phases):
    model_over = True
    evals = distinct = overl = 0
    if "mc" in phases:
        model_over = _design(ctx, q)
    if "edges" in phases:
        e, d = _edges(ctx, q, b)
        evals, distinct = evals + e, distinct + d
    if "lin" in phases:
        e, overl = _lin(ctx, q, b)
        evals += e
    if "srv" in phases:
        e, d = _srv(ctx, q, b)
        evals, distinct = evals + e, distinct + d
    if "cap" in phases:
        e, d = _cap(ctx, q, b, rnd, model_over)
        evals, distinct = evals + e, distinct + d
    ctx.cov["evaluations"] = evals
    ctx.cov["distinct_nontrivial"] = distinct
    return _finish(ctx, overl)


def _design(ctx, q):
    # 1. design level
    ctx.mc("TxPoolSeq", "TxPoolSeq_mc_quick.cfg" if q else "TxPoolSeq_mc_thorough.cfg", timeout=2400)
    ctx.mc("TxPool", "TxPool_mc_quick.cfg" if q else "TxPool_mc_thorough.cfg", timeout=2400)
    r = ctx.tlc("TxPool", "TxPool_cap.cfg", timeout=600)
    model_over = r.invariant_violated == "PropCap"
    if not model_over and r.rc != 0:
        ctx.fail("TxPool_cap.cfg: unexpected TLC result rc=%d\n%s" % (r.rc, r.out[-2000:]))
    ctx.note("model: capacity clause PropCap %s on the pipeline model (CAP=1)" % ("FAILS (admission is check-then-act)" if model_over else "holds"))
    return model_over


def _edges(ctx, q, b):
    evals = distinct = 0
    # 2. every edge of the pool state graph on a real TXPool
    edges = _dedupe(ctx.gen("TxPoolSeq", "TxPoolSeq_gen.cfg" if q else "TxPoolSeq_gen_thorough.cfg", "EDGE", timeout=1500))
    if len(edges) < 1000:
        ctx.fail("too few pool edges: %d" % len(edges))
    out = ctx.driver(ctx.build("vd-poollin", race=True), ["seq-run", "2"], input_obj=edges)
    hs = [o for o in out if "calls" in o]
    summ = [o for o in out if o.get("summary")][0]
    if len(hs) != len(edges):
        ctx.fail("seq-run ran %d of %d edges" % (len(hs), len(edges)))
    _validate_histories(ctx, hs, "seq")
    evals += sum(len(h["calls"]) for h in hs)
    distinct += summ["distinct"]
    ctx.sample({"pool_edge": hs[len(hs) // 2]["calls"][-1]})
    ctx.note("pool edges: %d validated" % len(hs))
    return evals, distinct


def _lin(ctx, q, b):
    # 3. concurrent histories (the pool driver is a small binary, always built with the race detector)
    evals = 0
    lb = ctx.build("vd-poollin", race=True)
    env = {"GORACE": "log_path=%s halt_on_error=0 exitcode=0" % os.path.join(ctx.out, "race")}
    plans = [(60, 2, 6, 2, ""), (60, 3, 6, 2, ""), (80, 4, 6, 2, ""), (300, 4, 6, 2, "hot"), (300, 4, 6, 2, "stale")] if q else \
            [(600, 2, 6, 2, ""), (800, 3, 6, 2, ""), (1200, 4, 6, 2, ""), (300, 4, 6, 0, ""), (300, 4, 6, 3, ""), (3000, 4, 6, 2, "hot"),
             (3000, 4, 6, 2, "stale"), (500, 3, 6, 3, "stale")]
    overl = 0
    bymax = {}
    for nh, ng, nops, maxtx, mode in plans:
        out = ctx.driver(lb, ["lin-record", str(nh), str(ng), str(nops), str(maxtx)] + ([mode] if mode else []), env=env, timeout=3000)
        hs = [o for o in out if "calls" in o]
        for cr in [o for o in out if o.get("crash")]:
            # the Go runtime aborted the process: unsynchronized access to the pool's map (no recover() can catch it)
            ctx.violation("txpool-lin:fatal-concurrent-map-access", {"what": cr.get("what"), "plan": [nh, ng, nops, maxtx, mode],
                          "histories_completed_before_the_abort": len(hs), "stderr": cr.get("stderr", "")[:2500]},
                          replay={"kind": "lin-crash", "plan": [nh, ng, nops, maxtx, mode], "stderr": cr.get("stderr", "")[:6000]})
        overl += sum(o["overlapping_pairs"] for o in out if o.get("summary"))
        bymax.setdefault(maxtx, []).extend(hs)
    for maxtx, hs in sorted(bymax.items()):
        _validate_histories(ctx, hs, "lin", maxtx)
        evals += sum(len(h["calls"]) for h in hs)
    ctx.sample({"concurrent_history_call": hs[0]["calls"][0] if hs else None, "overlapping_call_pairs": overl})
    races = [f for f in os.listdir(ctx.out) if f.startswith("race")]
    for f in races:
        txt = open(os.path.join(ctx.out, f)).read()
        if "txnpool/common" in txt:
            first = txt.split("==================")[1] if "==================" in txt else txt
            ctx.violation("txpool-lin:data-race", {"report": first[:3000], "reports_in_file": txt.count("WARNING: DATA RACE")},
                          replay={"kind": "race", "report": txt[:6000]})
    if overl < 50 and not ctx.violations:
        ctx.fail("the concurrent histories hardly overlap (%d overlapping pairs): nothing concurrent was tested" % overl)
    ctx.note("concurrent histories validated, %d overlapping pairs" % overl)
    return evals, overl


def _srv(ctx, q, b):
    # 4. the server
    evals = distinct = 0
    depth_cfg = "TxPool_gen_a.cfg" if q else "TxPool_gen_a_thorough.cfg"
    settings = [("1", depth_cfg, "TraceTxPoolSrv_a")]
    if not q:   # quick: the node's default (pre-execution on); the capacity runs below use the other setting
        settings.append(("0", depth_cfg.replace("_a", "_n"), "TraceTxPoolSrv_n"))
    for pre, gcfg, tcfg in settings:
        scs = _dedupe(ctx.gen("TxPool", gcfg, "EDGE", timeout=1500))
        walks = ctx.tlc("TxPool", gcfg.replace("gen_", "walk_").replace("_thorough", ""), workers=1, timeout=900,
                        simulate="num=%d" % (60 if q else 600), depth=14).emitted("WALK")
        walks = list({json.dumps(w["steps"][:-1], sort_keys=True): w for w in walks}.values())   # one per random walk
        if len(scs) < 500 or len(walks) < 20:
            ctx.fail("too few server scenarios: %d edges, %d walks" % (len(scs), len(walks)))
        scs = [{"steps": s["steps"]} for s in scs + walks]
        e, d = _server(ctx, b, scs, [pre, "0", "1"], tcfg, "srv-preexec" + pre)
        evals, distinct = evals + e, distinct + d
        ctx.note("server preexec=%s: %d scenarios" % (pre, len(scs)))
    return evals, distinct


def _cap(ctx, q, b, rnd, model_over):
    # capacity: MAX_CAPACITY - 1 real fillers, model CAP = 1
    evals = distinct = 0
    cap = _dedupe(ctx.gen("TxPool", "TxPool_gen_cap.cfg", "EDGE", timeout=1500))
    over = [s for s in cap if s["over"]]
    rest = [s for s in cap if not s["over"]]
    short = [s for s in rest if len(s["steps"]) <= (2 if q else 4)]
    longer = [s for s in rest if len(s["steps"]) > (2 if q else 4)]
    rnd.shuffle(over)
    rnd.shuffle(longer)
    sel = short + longer[:(60 if q else 600)] + over[:(8 if q else len(over))]
    scs = [{"steps": s["steps"]} for s in sel]
    return _server(ctx, b, scs, ["0", "1", "1"], "TraceTxPoolSrv_cap", "srv-capacity", expect_over=model_over)


def _finish(ctx, overl):
    return ctx.finish(rule="evaluations = real pool calls + real server steps whose answers / observed states TLC validated; "
                      "distinct_nontrivial = distinct (call, answer) pairs on a non-empty pool + distinct (stimulus, observed state, "
                      "messages) triples at the end of server scenarios. Linearizability: %d call pairs of different goroutines overlapped in time." % overl,
                      assumptions=["the server is observed after it became quiet (FIFO barriers on the three actor mailboxes, empty worker channels, "
                                   "stable counters); a scenario rejected once is re-run with longer pauses",
                                   "validators are stubs under the driver's control (the pool never looks at signatures itself); the 9 s verification "
                                   "timeout path and the LIMIT (10000 in flight) bound are not reached",
                                   "capacity runs pre-fill the pool with MAX_CAPACITY-1 real entries through the pool's own AddTxList"])
