"""C42 - Quorum thresholds guarantee intersection.
spec/QuorumDefs.tla, spec/Quorum_proofs.tla (TLAPS), spec/Quorum.tla (TLC + table); driver harness/cmd/vd-sig (thresholds).

  1. P-PROOF  tlapm proves, for ALL N >= 1 and all finite validator sets: 2*BftThr(N)-N > F(N), 2*GovThr(N)-N > F(N),
              GovThr(N) = ceil(2N/3), thresholds attainable, |A \\cap B| >= |A|+|B|-|V|, and the three set-level
              intersection theorems (block/block, gov/gov, block/gov) and "two disjoint sets never both reach the block
              threshold".  Every obligation must be discharged.
  2. P-MC     TLC re-checks the arithmetic for N = 1..10000 and the set-level statement for all pairs of subsets of
              validator sets up to 8 (quick) / 10 (thorough) members, on the same definitions (QuorumDefs).
  3. binding  TLC prints the table (n, f, bft, gov, legacy, commit); the driver measures on the real code the least
              number of distinct approvers at which each implemented expression answers "reached":
                vbft getCommitConsensus (all n <= 10000; several message shapes for small n; and, for n <= 400 plus a sample,
                under four configured values of the consensus parameter C - (N-1)/3, N/3 as GenesisChainConfig computes it,
                0, f+1 - with 0..N-1 commits for the empty block in two placements: the quorum must not move; two disjoint
                groups of participants must never reach commit consensus),
                node_manager.CheckConsensusSigns, consensus_vote.CheckVotes, signature_manager.CheckSigns (sequences of
                real calls and state injection), ledger verifyHeader (solo branch n - (n-1)/3; vbft legacy rule; vbft
                n - (n-1)/3 above header height 20,000,000 through the padded header index, thorough tier).
"""
import os, re, shutil, subprocess, time


def run(ctx):
    q = ctx.quick
    b = ctx.build("vd-sig")
    # ---- 1. TLAPS
    pdir = os.path.join(ctx.out, "tlaps")
    os.makedirs(pdir)
    for f in ("QuorumDefs.tla", "Quorum_proofs.tla"):
        shutil.copy(os.path.join(ctx.specdir, f), pdir)
    # backend time limits are wall-clock: on a loaded machine a prover can time out, so they are stretched, and an
    # incomplete run is repeated once with a much larger factor before it counts as "no verdict"
    for stretch in ("3", "20"):
        cmd = ["timeout", "1500", "tlapm", "--threads", "16", "--stretch", stretch, "--cleanfp", "--nofp", "Quorum_proofs.tla"]
        t = time.time()
        p = subprocess.run(cmd, cwd=pdir, stdout=subprocess.PIPE, stderr=subprocess.STDOUT, text=True)
        out = p.stdout
        m_all = re.search(r"All (\d+) obligations? proved", out)
        m_fail = re.search(r"(\d+)/(\d+) obligations? failed", out)
        if m_all:
            obligations = discharged = int(m_all.group(1))
            break
        elif m_fail:
            obligations = int(m_fail.group(2))
            discharged = obligations - int(m_fail.group(1))
            ctx.note("tlapm --stretch %s: %d/%d obligations, retrying" % (stretch, discharged, obligations))
        else:
            ctx.fail("tlapm gave no obligation count (rc=%d):\n%s" % (p.returncode, out[-3000:]))
    ctx.note("tlapm: %d/%d obligations in %.1fs" % (discharged, obligations, time.time() - t))
    theorems = len(re.findall(r"^(THEOREM|LEMMA)\b", open(os.path.join(pdir, "Quorum_proofs.tla")).read(), re.M))
    if p.returncode != 0 or discharged != obligations or obligations < 60 or theorems < 9:
        # an unproved obligation is a defect of the proof script, not of the code: no verdict
        ctx.fail("TLAPS proof incomplete: %d/%d obligations, %d theorems, rc=%d\n%s" % (discharged, obligations, theorems, p.returncode, out[-3000:]))
    # ---- 2./3. TLC: arithmetic + table
    rows = ctx.gen("Quorum", "Quorum_quick.cfg" if q else "Quorum_thorough.cfg", "ROW", timeout=1500)
    if len(rows) != 10000:
        ctx.fail("expected 10000 table rows, got %d" % len(rows))
    rows.sort(key=lambda r: r["n"])
    if q:
        sel = [r for r in rows if r["n"] <= 1500 or r["n"] % 7 == 0 or r["n"] > 9990]
        args = ["60", "24", "100", "16", "12", "0"]
    else:
        sel = rows
        args = ["150", "64", "300", "17", "40", "1"]     # solo chains exist for at most 16 bookkeepers (17 is reported as skipped)
    res = ctx.driver(b, ["thresholds"] + args, input_obj=sel, timeout=3000)
    for o in res:
        if o.get("skipped"):
            if not (o["what"].startswith("ledger-solo") and o["n"] > 16):
                ctx.fail("ledger could not be created: %s" % o)
            ctx.note("skipped: %s n=%d (%s)" % (o["what"], o["n"], o["err"][:80]))
    res = [o for o in res if "site" in o]
    byn = {r["n"]: r for r in rows}
    distinct = set()
    sites = {}
    info = [o for o in res if o["site"] == "commit-info"]
    res = [o for o in res if o["site"] != "commit-info"]
    short = [(o["n"], o["least"], o["expect"]) for o in info if 0 <= o["least"] < o["expect"]]
    if short:
        ctx.note("observation (C41, not judged here): with the proposer itself among the committers getCommitConsensus reports "
                 "consensus with fewer than N-f distinct participants, e.g. (n, participants, N-f) = %s" % short[:4])
    for o in res:
        sites[o["site"]] = sites.get(o["site"], 0) + 1
        n = o["n"]
        distinct.add((o["site"], o["shape"], n))
        fam = o["site"].split("-")[0] if o["site"].startswith("ledger") else o["site"]
        problem = None
        if o["site"].startswith("ledger-solo") and n > 16 and o["least"] < 0:
            # a non-vbft header naming more than 16 bookkeepers is refused outright (no multi-signature address exists for
            # it, repair ef67c94): no quorum is ever formed, so there is no threshold to compare - not a violation
            ctx.note("solo ledger, n=%d: refused at every signature count (more than 16 bookkeepers)" % n)
            continue
        if o["site"] == "commit-disjoint":
            if o["below"] or not o["at"]:
                problem = "disjoint-group-reached-consensus"
        elif o["below"]:
            problem = "reached-below-threshold"
        elif not o["at"]:
            problem = "not-reached-at-threshold"
        elif o["least"] >= 0 and o["least"] != o["expect"]:
            problem = "least-differs"
        elif o.get("note"):
            problem = "note:" + o["note"][:60]
        if problem:
            _viol(ctx, "threshold:%s:%s:%s" % (o["site"], o["shape"], problem.split(":")[0]), {"observed": o, "spec_row": byn.get(n)},
                          replay={"kind": "c42-threshold", "observed": o, "spec_row": byn.get(n)})
    need_sites = ["commit", "commit-cfg", "commit-disjoint", "consensusSigns", "votes", "signs", "ledger-solo-bft-hdr", "ledger-solo-bft-sub", "ledger-vbft-legacy-hdr"]
    if not q:
        need_sites += ["ledger-vbft-bft-hdr", "ledger-vbft-bft-sub"]
    for s in need_sites:
        if sites.get(s, 0) == 0:
            ctx.fail("no measurement for site %s" % s)
    ctx.sample({"spec_row": byn[7], "measured": [o for o in res if o["n"] == 7][:6]})
    ctx.sample({"spec_row": byn[10000], "measured": [o for o in res if o["n"] == 10000]})
    ctx.cov["evaluations"] = len(res)
    ctx.cov["distinct_nontrivial"] = len([d for d in distinct if d[2] >= 2])
    return ctx.finish(level="proof",
                      rule="binding: one measurement per (call site, message/approval shape, n): the least number of distinct approvers "
                           "at which the real code reports 'reached' (or reached-at-threshold / not-reached-below for large n), compared "
                           "with the table printed by TLC from the proved definitions; distinct_nontrivial counts those with n >= 2.",
                      extra={"obligations": obligations, "discharged": discharged, "checker_cmd": " ".join(cmd[2:]),
                             "trusted_base": ["tlapm " + _ver() + " and its backends (Zenon, Isabelle/TLA+, SMT: Z3/CVC)",
                                              "TLA+ standard module FiniteSetTheorems (library theorems FS_Subset, FS_Union, FS_Intersection, FS_CardinalityType)",
                                              "TLC (arithmetic re-check and table generation from QuorumDefs.tla)",
                                              "harness state injection for governance thresholds (nativekit)"],
                             "theorems": theorems, "sites": sites, "exhaustive": False},
                      assumptions=["the legacy ledger rule N - 6N/7 (non-main networks, main-net header heights <= 20,000,000) is allowed by C14 and "
                                   "gives no intersection guarantee; C42 is claimed for N - f and ceil(2N/3) only",
                                   "vbft commit consensus counts distinct committers/endorsers besides the proposer plus one for the proposer "
                                   "(len(signers)+1 >= N-f); measurements use signer sets that do not contain the proposer"])


def _ver():
    try:
        return subprocess.run(["tlapm", "--version"], stdout=subprocess.PIPE, stderr=subprocess.STDOUT, text=True).stdout.strip()
    except Exception:
        return "?"


_MAXV = 20


def _viol(ctx, key, detail, replay=None):
    """at most _MAXV distinct violation records per run (every further one is only counted)"""
    if len(ctx.violations) >= _MAXV and key not in [v[0] for v in ctx.violations] and not any(
            k.get("status") == "known" and (k["key"] == key or (k["key"].endswith("*") and key.startswith(k["key"][:-1]))) for k in ctx.known):
        ctx.cov["violations_not_recorded"] = ctx.cov.get("violations_not_recorded", 0) + 1
        return True
    return ctx.violation(key, detail, replay=replay)
