"""C31 - Ontology and NEO / NEO N3 light clients follow authenticated validator changes.
spec/OntNeoSync.tla (EXTENDS OntNeo.tla); driver harness/cmd/vd-ontneo (c31).
  1. P-MC   : PropC31 - in every reachable light-client state, every call of the menu leaves a state that is reachable
              from the pre-state by JUSTIFIED steps over the submitted headers (ont: header not yet stored, signed by at
              least one third of the DISTINCT members of the peer set recorded at the greatest key height strictly below
              it; a peer set is recorded only by such a header.  neo / neo3: greater index, witness script = tracked
              next-consensus script, m distinct tracked keys signed) - plus NeoHeightMonotone.
  2. P-EDGE : TLC prints every (state, SyncBlockHeader call) edge once together with the history that reaches the
              state (VIEW hides it): heights in any order (out-of-order configuration changes), signer lists (all, exact
              threshold, below threshold, permuted, one member repeated, right count with one duplicate / one outsider,
              a quorum of the rival set, bad / missing signatures), announcements of either peer set, two-header
              batches in both orders.  The driver builds real Ontology headers (ontology types, ECDSA / Ed25519 keys)
              and real NEO / NEO N3 headers with multi-signature witnesses and runs the real entry points
              SyncGenesisHeader / SyncBlockHeader; the observed post-state (stored heights, key heights, peer records;
              neo: tracked height and script) must lie in the monitor's allowed set.
"""
import json


def _norm(s):
    if "stored" in s or "peers" in s:
        return ("ont", tuple(sorted(s.get("stored") or [])), tuple(sorted((int(k), v) for k, v in (s.get("peers") or {}).items())))
    return ("neo", s["nh"], s["nc"])


def _key(e):
    fl = e.get("flavour") or e["chain"]
    cls = set()
    for h, j in zip(e["call"], e["just"]):
        if j:
            continue
        if len(set(h["bks"])) != len(h["bks"]) or len(set(h["sigs"])) != len(h["sigs"]):
            cls.add("dup")
        elif 0 in h["sigs"]:
            cls.add("badsig")
        elif e["chain"] == "neo" and (h["ws"] != e["src"]["nc"] or h["by"] != e["src"]["nc"]):
            cls.add("script")
        else:
            cls.add("signers")
    return "%s:unjustified-header-took-effect:%s" % (fl, "+".join(sorted(cls)) or "none")


def _driver(ctx, binary, args, input_obj):
    """ctx.driver, but an unreadable driver output is 'no verdict' (exit 2), never an exit-1 traceback."""
    try:
        return ctx.driver(binary, args, input_obj=input_obj)
    except (ValueError, UnicodeError) as e:
        ctx.fail("driver output unreadable: %r" % (e,))


def run(ctx):
    q = ctx.quick
    b = ctx.build("vd-ontneo")
    tier = "quick" if q else "thorough"
    maxh = 3 if q else 4
    if ctx.replay:
        edges = [json.load(open(ctx.replay))["replay"]["edge"]]
    else:
        edges = []
        for chain, flavours in (("ont", ["ont"]), ("neo", ["neo", "neo3"])):
            got = ctx.gen("OntNeoSync", "OntNeoSync_%s_%s.cfg" % (chain, tier), "EDGE", timeout=2400)
            if len(got) < 1000:
                ctx.fail("too few edges from OntNeoSync_%s_%s.cfg: %d" % (chain, tier, len(got)))
            for e in got:
                for fl in flavours:
                    e2 = dict(e)
                    e2["flavour"] = fl
                    e2["maxh"] = maxh
                    edges.append(e2)
        for i, e in enumerate(edges):
            e["idx"] = i
    out = _driver(ctx, b, ["c31"], input_obj=edges)
    summ = [o for o in out if o.get("summary")][0]
    obs = [o for o in out if not o.get("summary")]
    if len(obs) != len(edges):
        ctx.fail("driver answered %d of %d edges" % (len(obs), len(edges)))
    stats = {}
    for o in obs:
        e = edges[o["i"]]
        st = stats.setdefault(e["flavour"], {"edges": 0, "changed": 0, "diverged": 0, "drift": 0, "panics": 0})
        st["edges"] += 1
        if o.get("setup"):
            ctx.fail("harness could not build the scenario of edge %d: %s" % (o["i"], o["setup"]))
        if o.get("anomaly"):
            ctx.fail("inconsistent light-client storage observed (edge %d): %s" % (o["i"], o["anomaly"]))
        if o.get("diverged"):
            st["diverged"] += 1
            continue
        if o.get("panic"):
            st["panics"] += 1
        post = _norm(o["post"])
        if post != _norm(e["src"]):
            st["changed"] += 1
        if post not in [_norm(a) for a in e["allowed"]]:
            ctx.violation(_key(e), {"meaning": "the state after the call is not reachable by justified headers",
                                    "edge": {k: e[k] for k in ("chain", "flavour", "hist", "src", "call", "ok", "post", "allowed", "just")},
                                    "observed": o}, replay={"kind": "c31-edge", "edge": e})
        elif o["ok"] != e["ok"] or post != _norm(e["post"]):
            st["drift"] += 1
    if not ctx.replay and not ctx.violations:
        for fl, st in stats.items():
            if st["diverged"] * 20 > st["edges"]:
                ctx.fail("%s: too many edges whose history did not reach the source state: %d of %d" % (fl, st["diverged"], st["edges"]))
            if st["changed"] == 0:
                ctx.fail("vacuous: the real %s code accepted no header at all" % fl)
    if any(st["drift"] or st["diverged"] or st["panics"] for st in stats.values()):
        ctx.note("drift/diverged/panics per flavour: %s" % {k: (v["drift"], v["diverged"], v["panics"]) for k, v in stats.items()})
    for o in obs[:: max(1, len(obs) // 4)]:
        e = edges[o["i"]]
        ctx.sample({"flavour": e["flavour"], "src": e["src"], "call": e["call"], "predicted": {"ok": e["ok"], "post": e["post"]},
                    "observed": {k: o.get(k) for k in ("ok", "post")}})
    ctx.cov["evaluations"] = len(obs)
    ctx.cov["distinct_nontrivial"] = summ["distinct"]
    ctx.cov["per_flavour"] = stats
    return ctx.finish(rule="P-EDGE: every (light-client state, SyncBlockHeader call) edge printed by TLC is executed on a fresh "
                      "synthetic chain through the real SyncGenesisHeader / SyncBlockHeader entry points after replaying the "
                      "history that reaches the source state; the observed post-state must be in the monitor's allowed set. "
                      "distinct_nontrivial = distinct (flavour, source state, call) edges executed.",
                      assumptions=["peer sets {1..4} and {4..10} (ont), scripts 3-of-4, 1-of-1, 5-of-7 with disjoint keys (neo); "
                                   "heights 1..%d above one genesis" % maxh,
                                   "one genesis per chain (a second genesis install is C19's subject)",
                                   "neo3legacy is not driven; script hashes / SHA-256 assumed collision resistant"])
