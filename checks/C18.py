"""C18 - Privileged native operations require the right witness.
spec/Witness.tla (+ MCWitness.tla constants, TraceWitness.tla); driver harness/cmd/vd-native (witness-table).
  1. P-MC/P-TABLE: TLC enumerates every call of the table (47 privileged methods incl. trust-root installation on 20 routers
                   x who is named x every subset of the signing actors x chains of calling contracts x epoch due), checks
                   PropC18 and the table's consistency on the model and prints each row with the predicted verdict.
  2. binding     : every row is executed on the real contracts with a really signed invoke transaction
                   (validation.VerifyTransaction accepts it; addresses derived by tx.GetSignatureAddresses), nested calls
                   through relay contracts for the calling-context clause; observed accept/reject + storage diff.
  3. monitor     : TLC judges every observation with C18Row (TraceWitness recomputes "witnessed" from the call).
"""
import json


def key_of(m):
    if m.startswith("hs.syncGenesisHeader:"):
        return "router=%s:genesis-without-operator-witness" % m.split(":", 1)[1]
    return "method=%s:accepted-without-required-witness" % m


def run(ctx):
    q = ctx.quick
    b = ctx.build("vd-native")
    if ctx.replay:
        rows = [json.load(open(ctx.replay))["replay"]["row"]]
        ctx.mc("MCWitness", "Witness_mc.cfg", timeout=900)
    else:
        rows = ctx.gen("MCWitness", "Witness_quick.cfg" if q else "Witness_thorough.cfg", "ROW", timeout=1200)
        if len(rows) < 11000:
            ctx.fail("too few table rows generated: %d" % len(rows))
    out = ctx.driver(b, ["witness-table"], input_obj=rows)
    summ = [o for o in out if o.get("summary")]
    res = {o["row"]: o for o in out if "row" in o}
    if not summ or len(res) != len(rows):
        ctx.fail("driver executed %d of %d rows" % (len(res), len(rows)))
    spec_methods = {r["m"] for r in rows}
    if not ctx.replay and spec_methods != set(summ[0]["methods"]):
        ctx.fail("method tables differ: spec only %s, driver only %s" %
                 (sorted(spec_methods - set(summ[0]["methods"])), sorted(set(summ[0]["methods"]) - spec_methods)))
    events = []
    for i, r in enumerate(rows):
        o = res[i]
        if o.get("panic"):
            ctx.note("poly code panicked in %s: %s" % (r["m"], o["panic"][:300]))
        events.append({"m": r["m"], "named": r["named"], "signers": r["signers"], "ctx": r["ctx"], "ep": r["ep"], "path": r["path"],
                       "got": o["got"], "changed": o["changed"]})
    ok, hw, tr = ctx.validate_trace("TraceWitness", "TraceWitness.cfg", events, timeout=1200)
    if not ok:
        ctx.fail("observation %d not accepted by TraceWitness: %s" % (hw, json.dumps(events[hw - 1]) if 0 < hw <= len(events) else None))
    verdicts = tr.emitted("VERDICT")
    if len(verdicts) != len(rows):
        ctx.fail("monitor judged %d of %d rows" % (len(verdicts), len(rows)))
    accepted_per_method, refused, drift = {}, 0, 0
    for v in verdicts:
        i = v["i"] - 1
        r, o = rows[i], res[i]
        if v["witnessed"] != r["witnessed"]:
            ctx.fail("generation and validation disagree on row %d" % i)
        if o["got"] == "accept":
            accepted_per_method[r["m"]] = accepted_per_method.get(r["m"], 0) + 1
        if not v["ok"]:
            ctx.violation(key_of(r["m"]), {"method": r["m"], "named": r["named"], "signers": r["signers"], "calling_contracts": r["ctx"], "signer_address_path": r["path"],
                                           "epoch_due": r["due"], "epoch": r["ep"], "epoch_length": r["mbv"][0] * 65536 + r["mbv"][1],
                                           "epoch_began_at": r["vhv"][0] * 65536 + r["vhv"][1], "call_height": r["hv"][0] * 65536 + r["hv"][1],
                                           "required_witness_present": False, "observed": o["got"],
                                           "state_changed": o["changed"], "storage_keys_changed": o.get("diff"),
                                           "monitor": "C18Row(witnessed, due, result, changed) = FALSE"},
                          replay={"kind": "witness-row", "row": r})
        elif not v["allowed"]:
            refused += 1
        elif o["got"] != r["expect"]:
            drift += 1      # witness present but refused: permitted by the property (only-if), recorded
            if drift <= 5:
                ctx.note("DRIFT: %s named=%s signers=%s ctx=%s refused although witnessed: %s" % (r["m"], r["named"], r["signers"], r["ctx"], o.get("err", "")[:160]))
    vac = sorted(m for m in spec_methods if not accepted_per_method.get(m))
    if vac and not ctx.replay:
        ctx.fail("methods never accepted, even with the required witness (prerequisites broken, rejection is vacuous): %s" % vac)
    ctx.sample({"row": rows[len(rows) // 3], "observed": res[len(rows) // 3]})
    ctx.sample({"row": rows[2 * len(rows) // 3], "observed": res[2 * len(rows) // 3]})
    ctx.sample({"verdict": verdicts[len(verdicts) // 2]})
    ctx.cov["evaluations"] = len(rows)
    ctx.cov["distinct_nontrivial"] = refused
    ctx.cov["traces_validated_against_impl"] += 1
    return ctx.finish(rule="P-TABLE: every well-formed call of Witness.tla is one row, executed once on the real contracts; distinct_nontrivial = "
                      "rows whose required witness is absent (epoch not due) and that the code refused without changing state; %d methods, "
                      "%d rows, %d rows refused although witnessed." % (len(spec_methods), len(rows), drift),
                      assumptions=["4 consensus validators (operator = 3-of-4 multi-signature address); world initialised by the real InitConfig",
                                   "signer sets are subsets of {operator, operator keys with smaller m, one validator, owner, stranger} "
                                   "(thorough: + multi-sig of another validator set); all signatures are real and verified",
                                   "prerequisites of a method are installed by real witnessed calls or by the contracts' exported put helpers",
                                   "vote relayer / ripple handlers (witness of the relayer address) are exercised by C25's check, not here",
                                   "harmony genesis installation is not executed (BLS binding stubbed)"])
