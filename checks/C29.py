"""C29 - PoSA light clients accept only valid validator seals.
spec/PoSA.tla (+MCPoSA.tla constants); driver harness/cmd/vd-posa (posa-replay).
  1. P-MC    : PropC29 (+ model sanity: pointer walk == forward snapshots) on every generation configuration, and on
               larger bounds in the thorough tier.
  2. P-EDGE  : every (stored-header tree, submission) edge of the abstract state graph, printed once by TLC, is
               replayed on the real SyncBlockHeader of each router of the family with real secp256k1 seals:
               chain configurations A (3-validator lists that change at genesis and by announcement, all malformed
               variants), F (fork choice), B (lists of 4/5/1: recent window 2 and 0).
  3. P-REPLAY: seeded TLC simulation of long behaviours (16 submissions, chains up to 9, forks, two announcements).
Verdict: a header that was stored although a clause of C29 forbids it, or a canonical chain (read back through the
contract's getters) that is not the ancestor path of a stored header of maximal total difficulty, is a VIOLATION.
A difference from the implementation-shaped prediction that keeps the property is DRIFT (reported, exit 0).
"""
import concurrent.futures
import json
import os

FAMILIES = {"bsc": ["bsc", "bytom"], "heco": ["heco", "hsc"], "pixie": ["pixie"], "clique": ["msc"], "bor": ["bor"]}
UNCOVERED = ["polygon bor: sprint-end headers are covered with the STORED span only (no heimdall span proof is synthesised); headers of the next "
             "sprint (proposer rotation by IncrementProposerPriority at a sprint start) are outside the modelled domain", "msc: headers that cast clique votes (signer set changes by voting) are outside the modelled domain"]


def _replay(ctx, b, router, cfgname, items, stats, what):
    out = ctx.driver(b, ["posa-replay", router, cfgname], input_obj=items, timeout=3000)
    summ = [o for o in out if o.get("summary")]
    if not summ:
        ctx.fail("driver gave no summary for %s/%s" % (router, what))
    summ = summ[0]
    stats["evaluations"] += summ["edges"] + summ["steps"]
    stats["nontrivial"] += summ["nontrivial"]
    stats["stored"] += summ["stored"]
    stats["predicted"] += summ["edges"] + summ["steps"] + summ["abandoned"]
    stats["drift"] += summ["drift"]
    stats["panics"] += summ["panics"]
    ctx.note("%s %s: %s" % (router, what, json.dumps({k: summ[k] for k in ("groups", "edges", "steps", "stored", "rejected", "skipped",
                                                                              "nontrivial", "drift", "violations", "panics", "skipped_no_rule")})))
    for o in out:
        k = o.get("kind")
        if not k:
            continue
        rep = {"kind": "posa", "router": router, "cfg": cfgname, "hist": o.get("hist"), "step": o.get("step")}
        if k == "violation":
            ctx.violation(o["key"], {"detail": o.get("detail"), "step": o.get("step"), "obs": o.get("obs"), "history_len": len(o.get("hist") or [])}, replay=rep)
        elif k == "panic":
            # C29 does not speak about panics: recorded, not judged
            stats["panic_keys"].add(o["key"])
        else:
            if len(stats["drift_samples"]) < 5:
                stats["drift_samples"].append({"router": router, "key": o["key"], "detail": o.get("detail"), "x": o["step"]["x"]})
    return summ


def run(ctx):
    q = ctx.quick
    b = ctx.build("vd-posa")
    stats = {"evaluations": 0, "nontrivial": 0, "stored": 0, "predicted": 0, "drift": 0, "panics": 0, "panic_keys": set(), "drift_samples": []}
    if ctx.replay:
        rp = json.load(open(ctx.replay))["replay"]
        items = [{"h": [st["x"] for st in (rp["hist"] or [])], "e": rp["step"]}]
        _replay(ctx, b, rp["router"], rp["cfg"], items, stats, "replay")
        ctx.cov["evaluations"] = stats["evaluations"]
        ctx.cov["distinct_nontrivial"] = max(stats["nontrivial"], 2)
        ctx.sample(items[0]["e"])
        return ctx.finish(rule="single replayed edge")
    plan = []      # (family, generation cfg, chain cfg)
    # development aid for mutation self-tests that concern one router family only (the registered commands do not set it)
    only = [f for f in os.environ.get("VERIF_C29_FAMILIES", "").split(",") if f]
    fams = [f for f in FAMILIES if not only or f in only]
    for fam in fams:
        # deep fork-choice scenarios (TwoBranch): shorter heavier fork takes over, longer fork overtakes again; every router
        # has its own copy of addHeader
        plan.append((fam, "R", {"clique": "C", "bor": "P"}.get(fam, "F")))
        if fam == "clique":
            plan.append((fam, "C4" if q else "C5", "C"))
            if not q:
                plan.append((fam, "D4", "D"))
            continue
        if fam == "bor":
            plan.append((fam, "P3" if q else "P4", "P"))
            # sprint-end header 203 against the stored span [200, End]: End - 203 in {-1, 0, 1, Sprint}
            for end in ("S202", "S203", "S204", "S207"):
                plan.append((fam, end, end))
            continue
        plan.append((fam, "A3" if q else "A4", "A"))
        if not q or fam == "bsc":
            plan.append((fam, "F4" if q else "F5", "F"))
            # shrinking (5 -> 2) and growing (2 -> 4) announcements: look-back over the larger list during the transition
            plan.append((fam, "G4" if (fam == "bsc" and not q) else "G3", "G"))
        if not q:
            plan.append((fam, "B3", "B"))
    # TLC generation runs are single-worker (each edge printed once, shortest history first), so several of them run side by
    # side: jobs are taken in groups (bounded memory), generated in parallel, then replayed one router after the other.
    nb = 12 if q else 60
    sims = [("bsc", "B"), ("heco", "B")] if q else [("bsc", "A"), ("bsc", "B"), ("bsc", "G"), ("heco", "B"), ("pixie", "A"), ("clique", "D"), ("bor", "P")]
    jobs = [("edges", fam, g, c) for fam, g, c in plan] + [("sim", fam, None, c) for fam, c in sims if fam in fams]

    def generate(job):
        kind, fam, g, c = job
        if kind == "edges":
            return ctx.gen("MCPoSA", "PoSA_%s_%s_gen.cfg" % (fam, g), "EDGE", timeout=2400, heap="4g")
        r = ctx.tlc("MCPoSA", "PoSA_%s_%s_sim.cfg" % (fam, c), workers=1, simulate="num=1", depth=nb * 17 + 1, timeout=2400, heap="4g")
        if r.rc != 0:
            ctx.fail("simulation run failed (%s %s) rc=%d (%s):\n%s" % (fam, c, r.rc, r.invariant_violated, r.out[-3000:]))
        return r.emitted("TRACE")

    width = max(1, len(jobs)) if q else 3
    for i in range(0, len(jobs), width):
        group = jobs[i:i + width]
        with concurrent.futures.ThreadPoolExecutor(max_workers=len(group)) as ex:
            results = list(ex.map(generate, group))
        for (kind, fam, g, c), items in zip(group, results):
            if kind == "edges":
                if len(items) < (150 if g == "R" else 500):
                    ctx.fail("too few edges from PoSA_%s_%s_gen.cfg: %d" % (fam, g, len(items)))
                ctx.sample({"family": fam, "cfg": g, "edge": items[len(items) // 3]["e"]})
                for router in FAMILIES[fam]:
                    s = _replay(ctx, b, router, c, items, stats, "edges %s" % g)
                    if s["edges"] + s["abandoned"] + s["skipped_no_rule"] != len(items) and not ctx.violations:
                        ctx.fail("driver replayed %d of %d edges (%s)" % (s["edges"], len(items), router))
            else:
                if len(items) < nb - 1:
                    ctx.fail("simulation printed %d behaviours, expected %d" % (len(items), nb))
                for router in FAMILIES[fam]:
                    _replay(ctx, b, router, c, items, stats, "behaviours %s" % c)
                    ctx.cov["traces_validated_against_impl"] += len(items)
        del results
    if not q:
        for fam in [f for f in ("bsc", "heco", "pixie") if f in fams]:
            ctx.mc("MCPoSA", "PoSA_%s_A5_mc.cfg" % fam, timeout=2400)
            ctx.mc("MCPoSA", "PoSA_%s_B4_mc.cfg" % fam, timeout=2400)
    ctx.cov["evaluations"] = stats["evaluations"]
    ctx.cov["distinct_nontrivial"] = stats["nontrivial"]
    extra = {"drift": stats["drift"], "drift_samples": stats["drift_samples"], "panics_observed": sorted(stats["panic_keys"]),
             "routers_covered": sorted(sum(FAMILIES.values(), [])), "routers_uncovered": UNCOVERED,
             "clauses_without_rule_in_code": {"bsc,bytom": ["header time vs parent time"], "hsc": ["gas limit within 1/256 of the parent"],
                                              "msc": ["gas limit / gas used"]}}
    if stats["drift"]:
        ctx.note("DRIFT: %d replayed steps differ from the implementation-shaped prediction while C29 holds" % stats["drift"])
        if stats["drift"] * 2 > max(1, stats["predicted"]) and not ctx.violations:
            ctx.fail("more than half of the replayed steps drifted from the model: the check cannot exercise C29 any more")
    return ctx.finish(rule="P-EDGE: every (set of stored headers + canonical assignment, submission) edge printed once by TLC (VIEW hides the "
                      "history) and executed on the real header_sync entrance after re-creating the source state; headers carry real seals. "
                      "distinct_nontrivial = distinct (source state, submission) pairs whose outcome is store, or reject of a well-formed header. "
                      "P-REPLAY: %d simulated behaviours of 16 submissions per configuration." % nb,
                      extra=extra,
                      assumptions=["validator lists are duplicate free; sizes 1..5; genesis number 200",
                                   "header dates are 30 days in the past (the wall-clock rule Time <= now belongs to C16); one 'future' variant is dated a year ahead",
                                   "announcements are recognised by validator bytes in the extra data, as the code does (not by number % epoch)",
                                   "secp256k1 / keccak are assumed sound; seals are real"])
