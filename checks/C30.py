"""C30 - Tendermint-family light clients need a two-thirds power quorum; deposits need an existence proof.
spec/Tendermint.tla; driver harness/cmd/vd-tm (cosmos-edges).
  1. P-MC    : PropC30 (every call of the menu, in every reachable tracked state, leaves the tracked state inside the set
               reachable by JUSTIFIED advances - trusted set, greater height, > 2/3 of the power validly signed this
               block - and accepts a deposit only with such a header and an EXISTENCE proof), QuorumArithmetic (the
               code's `tallied <= total*2/3` is exactly "more than two thirds"), HeightMonotone.  A small separate run
               documents that the model WITH the empty-key-path branch violates PropC30 (design-level F9).
  2. P-EDGE  : TLC prints every (tracked state, call) edge once with the history reaching the state (VIEW hides it):
               SyncBlockHeader with one header (all signer subsets, nil / forged votes, wrong validator set, wrong
               ValidatorsHash, commit for another block / height, wrong signature count, lower / equal / higher heights)
               and with two-header batches; ImportExTransfer deposits with six proof kinds.  The driver builds a real
               synthetic Tendermint chain (ed25519 / secp256k1 validators with the spec's powers, amino or protobuf
               block version, real commits, ics23 proofs over simple-merkle stores) and runs the real entry points.
  3. P-TABLE : the same module in table mode - every vote vector in {commit, nil, absent, forged}^n for validator sets
               {1,1,1}, {1,2,3}, {10,1,1,1}, ... through SyncBlockHeader and through a deposit with an existence proof.
     Oracle = the monitor: observed tracked state after the call must be in `allowed`; an accepted deposit needs
     `dep_allowed`.  Other differences from the model's prediction are drift (no alarm).
"""
import json

KNOWN_ABS = "cosmos:deposit-accepted-on-absence-proof"
KNOWN_DUPVOTE = "heimdall:duplicate-vote-counted"


def _classify(e):
    c = e["call"]
    src = e["src"]
    h = c["hdrs"][0]
    fl = e["flavour"]
    if c["op"] == "deposit":
        if all(e["signed"]) and c["kind"] == "absent-nokp" and fl == "cosmos":
            return KNOWN_ABS
        return "%s:deposit-accepted:%s:header-%s" % (fl, c["kind"], "signed" if all(e["signed"]) else "unsigned")
    if all(x["h"] <= src["h"] for x in c["hdrs"]):
        return "%s:sync-advance-unjustified:height" % fl
    if h["vs"] != src["nv"] or h["vh"] != src["nv"]:
        return "%s:sync-advance-unjustified:valset" % fl
    if h["cm"] != "this":
        return "%s:sync-advance-unjustified:commit" % fl
    if len(c["hdrs"]) == 1 and "r" in h["votes"] and "f" not in h["votes"] and len(h["votes"]) == len(e["powers"][h["vs"] - 1]):
        # the only thing wrong with the header: slots that repeat one validator's vote were counted as further signers
        return KNOWN_DUPVOTE if fl == "heimdall" else "%s:duplicate-vote-counted" % fl
    return "%s:sync-advance-unjustified:quorum" % fl


def _driver(ctx, binary, args, input_obj):
    """ctx.driver, but an unreadable driver output is 'no verdict' (exit 2), never an exit-1 traceback."""
    try:
        return ctx.driver(binary, args, input_obj=input_obj)
    except (ValueError, UnicodeError) as e:
        ctx.fail("driver output unreadable: %r" % (e,))


def run(ctx):
    q = ctx.quick
    b = ctx.build("vd-tm")
    sc = ctx.driver(b, ["selfcheck"])
    if not sc or sc[0].get("bad") != 0:
        ctx.fail("proof builder self-check against the ics23 library failed: %s" % sc)
    if ctx.replay:
        edges = [json.load(open(ctx.replay))["replay"]["edge"]]
    else:
        tier = "quick" if q else "thorough"
        edges = []
        for mode in ("edge", "table"):
            got = ctx.gen("Tendermint", "Tendermint_%s_%s.cfg" % (mode, tier), "EDGE", timeout=2400)
            if len(got) < 1000:
                ctx.fail("too few edges from Tendermint_%s_%s.cfg: %d" % (mode, tier, len(got)))
            for e in got:
                e["init"] = e["src"] if mode == "table" else {"h": 1, "nv": 1}
                e["mode"] = mode
                for fl in FLAVOURS:
                    # okex / heimdall: light client only (their deposit paths need IAVL / bor proofs); table mode in the thorough tier
                    if fl != "cosmos" and (e["call"]["op"] != "sync" or (q and mode == "table")):
                        continue
                    e2 = dict(e)
                    e2["flavour"] = fl
                    edges.append(e2)
        r = ctx.tlc("Tendermint", "Tendermint_f9_design.cfg", timeout=600)
        if r.invariant_violated != "PropC30":
            ctx.fail("model sanity: the model with the empty-key-path branch was expected to violate PropC30")
        ctx.note("design level: deposit model with the empty-key-path (absence) branch violates PropC30 (expected, finding F9)")
        r = ctx.tlc("Tendermint", "Tendermint_dupvote_design.cfg", timeout=600)
        if r.invariant_violated != "PropC30":
            ctx.fail("model sanity: the model whose tally takes the validator index from the vote was expected to violate PropC30")
        ctx.note("design level: tally that trusts the vote's own validator index violates PropC30 (expected, heimdall finding)")
        for i, e in enumerate(edges):
            e["idx"] = i
    out = _driver(ctx, b, ["cosmos-edges"], input_obj=edges)
    summ = [o for o in out if o.get("summary")][0]
    obs = [o for o in out if not o.get("summary")]
    if len(obs) != len(edges):
        ctx.fail("driver answered %d of %d edges" % (len(obs), len(edges)))
    stats = {}
    for o in obs:
        e = edges[o["i"]]
        st = stats.setdefault(e["flavour"], {"edges": 0, "accepted": 0, "advanced": 0, "deposits_accepted": 0, "diverged": 0, "drift": 0, "panics": 0})
        st["edges"] += 1
        if o.get("setup"):
            ctx.fail("harness could not build the scenario of edge %d: %s" % (o["i"], o["setup"]))
        if o.get("diverged"):
            st["diverged"] += 1
            continue
        if o.get("panic"):
            st["panics"] += 1
        post = (o["post"]["h"], o["post"]["nv"])
        allowed = [(a["h"], a["nv"]) for a in e["allowed"]]
        if o["ok"]:
            st["accepted"] += 1
            if e["call"]["op"] == "deposit":
                st["deposits_accepted"] += 1
        if post != (e["src"]["h"], e["src"]["nv"]):
            st["advanced"] += 1
        bad = None
        if post not in allowed:
            bad = "tracked state %s after the call is not justified by the submitted headers (allowed: %s)" % (post, allowed)
        elif e["call"]["op"] == "deposit" and o["ok"] and not e["dep_allowed"]:
            bad = "deposit accepted without (signed header + existence proof): kind=%s signed=%s" % (e["call"]["kind"], e["signed"])
        if bad:
            ctx.violation(_classify(e), {"meaning": bad, "edge": {k: e[k] for k in ("hist", "src", "call", "ok", "post", "allowed", "dep_allowed")},
                                         "observed": o}, replay={"kind": "c30-edge", "edge": e})
        elif o["ok"] != e["ok"] or post != (e["post"]["h"], e["post"]["nv"]):
            st["drift"] += 1
    if not ctx.replay and not ctx.violations:
        for fl, st in stats.items():
            if st["diverged"] * 20 > st["edges"]:
                ctx.fail("%s: too many edges whose history did not reach the source state on the real code: %d of %d" % (fl, st["diverged"], st["edges"]))
            if st["advanced"] == 0 or (fl == "cosmos" and st["deposits_accepted"] == 0):
                ctx.fail("vacuous: the real %s code accepted no advance / no deposit at all" % fl)
    if any(st["drift"] or st["diverged"] or st["panics"] for st in stats.values()):
        ctx.note("drift/diverged/panics per flavour: %s" % {k: (v["drift"], v["diverged"], v["panics"]) for k, v in stats.items()})
    for o in obs[:: max(1, len(obs) // 4)]:
        e = edges[o["i"]]
        ctx.sample({"flavour": e["flavour"], "src": e["src"], "call": e["call"], "predicted": {"ok": e["ok"], "post": e["post"]},
                    "observed": {k: o.get(k) for k in ("ok", "post", "concr")}})
    ctx.cov["evaluations"] = len(obs)
    ctx.cov["distinct_nontrivial"] = summ["distinct"]
    ctx.cov["per_flavour"] = stats
    return ctx.finish(rule="flavours: %s. " % ", ".join(FLAVOURS) + "P-EDGE / P-TABLE: every (tracked state, call) edge printed by TLC is executed on a fresh synthetic "
                      "Tendermint chain through the real SyncGenesisHeader / SyncBlockHeader / ImportExTransfer entry points "
                      "after replaying the history that reaches the source state; the observed tracked (height, next validator "
                      "set) must lie in the monitor's allowed set and an accepted deposit needs a justified header plus an "
                      "existence proof. distinct_nontrivial = distinct (source state, call, validator powers) edges executed.",
                      assumptions=["Hash(validator set) is abstracted to the set's identity (collision resistance)",
                                   "cosmos: light client + deposit handler; okex and polygon heimdall: light client (SyncGenesisHeader / "
                                   "SyncBlockHeader) only - the okex deposit handler (IAVL + EVM storage proofs) and heimdall's span "
                                   "proofs are not driven",
                                   "validator keys ed25519 and secp256k1 (heimdall: its own secp256k1); cosmos block versions 10 (amino) "
                                   "and 11 (protobuf), one version per scenario; sr25519 and mixed-version upgrades not exercised",
                                   "proofs: ics23 simple-merkle (TendermintSpec) two-level stores; IAVL spec and legacy "
                                   "iavl/multistore ops not exercised"])


FLAVOURS = ["cosmos", "okex", "heimdall"]
