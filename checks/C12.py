"""C12 - The ledger recovers exactly after a crash at any persistence point.
spec/Ledger.tla; driver harness/cmd/vd-ledger (c12-replay / child).
  1. P-MC     : PropC12 on the intended design (recovery replays stateHeight+1..blockHeight, the accumulator is cleared with
                the stores), Crash enabled at every persistence point incl. inside recovery and while the genesis block is
                written, exhaustive.  The two as-coded deviations (RecoverAsCoded, KeepTreeOnWipe) are model-checked too: TLC
                must show their counterexamples (design-level alarm, informational).
  2. P-REPLAY with REAL PROCESSES: TLC prints every behaviour with <= k crashes (which block, which point, crash during
                recovery, crash of a restarted node, ...).  Every node lifetime is a child process of vd-ledger that opens the
                on-disk ledger (recovery runs), is offered the blocks of a crash-free reference run of the same script and
                SIGKILLs itself at the scheduled crash point (ledgerstore.VerifCrashHook).  After every open, every offer and
                the final clean close + reopen the child projects heights, accumulator size/root, state roots, storage,
                per-block application counters, event records, inclusion proofs, lookups; the parent compares with the
                specification's prediction AND with the reference run at the same height (differential oracle).
  The first deviating observation of a case is classified: if it equals what the specification predicts with one named
  deviation switched on, the violation carries that deviation's key; anything else gets a key of its own.
"""
import json

POINTS_SUBMIT = ("submit:before-block-commit", "submit:after-block-commit", "submit:after-event-commit", "submit:after-state-commit")


def _lifetimes(hist):
    """TLC history -> [(crash-or-None, [expected events])]"""
    res, cur = [], []
    for r in hist:
        if r["e"] == "crash":
            res.append(({"point": r["point"], "height": r["h"], "iter": r["it"], "cur": r["cur"]}, cur))
            cur = []
        else:
            cur.append(r)
    res.append((None, cur))
    return res


def _ckey(c):
    return (c["point"], c["height"] if c["point"].startswith("submit:") else 0, c["iter"] if c["point"].startswith("recover:") else 0,
            c["cur"] if c["point"] == "idle" else 0)


def _case(i, hist, nscripts, nblocks):
    path = "submit"
    for r in hist:
        if r["e"] == "offer":
            path = r["path"]
            break
    lts = []
    for crash, _ in _lifetimes(hist):
        if crash is None:
            lts.append({"upto": nblocks, "reopen": True})
        else:
            c = {"point": crash["point"], "height": crash["height"], "iter": crash["iter"]}
            lts.append({"crash": c, "upto": crash["cur"] if crash["point"] == "idle" else nblocks})
    return {"id": i, "script": i % nscripts, "path": path, "lifetimes": lts}


def _abs_expected(r):
    """expected record -> comparable tuple (kind, ok, block, state, tree, applied[1..], events)"""
    o = r.get("obs") or {}
    if r["e"] in ("open", "reopen"):
        ok = bool(r["ok"])
    else:
        ok = r["verdict"] == "commit"
    return {"ev": r["e"], "ok": ok, "block": o.get("block"), "state": o.get("state"), "tree": o.get("tree"),
            "applied": list(o.get("applied", []))[1:], "events": list(o.get("events", []))}


def _abs_observed(e, n):
    if e.get("ctr") is None:
        return {"ev": e["ev"], "ok": bool(e["ok"])}
    ev = list(e.get("events") or [])
    return {"ev": e["ev"], "ok": bool(e["ok"]), "block": e["block"], "state": e["state"], "tree": e["tree"],
            "applied": [int(e["ctr"].get("c%d" % k, "0")) for k in range(1, n + 1)],
            "events": ev}


def _same(exp, got, n):
    """abstract equality on the common part (as-coded tables may be generated for a larger MaxH)"""
    if exp["ev"] != got["ev"] or exp["ok"] != got["ok"]:
        return False
    if not exp["ok"] and exp["ev"] in ("open", "reopen"):
        return True                      # did not open: nothing else is observable
    if got.get("block") is None:
        return False
    for k in ("block", "state", "tree"):
        if exp[k] != got[k]:
            return False
    m = min(len(exp["applied"]), len(got["applied"]), n)
    if exp["applied"][:m] != got["applied"][:m]:
        return False
    top = got["block"] + 1
    ge = (got["events"] + [False] * 16)[:top]
    ee = (exp["events"] + [False] * 16)[:top]
    return ge == ee


def _ascoded_table(hists):
    """(crash prefix, event index in the lifetime) -> expected abstract event, from an as-coded generation run"""
    t = {}
    for h in hists:
        pref = ()
        for crash, evs in _lifetimes(h):
            for j, r in enumerate(evs):
                t[(pref, j)] = _abs_expected(r)
            if crash is not None:
                pref = pref + (_ckey(crash),)
    return t


def _check_case(ctx, hist, res, n, tables, stats):
    """compare one executed case with the prediction; report at most one violation (the first deviation)"""
    lts = _lifetimes(hist)
    pref = ()
    for li, (crash, evs) in enumerate(lts):
        if li >= len(res["lifetimes"]):
            stats["infra"].append("case %d: lifetime %d was not executed" % (res["id"], li))
            return
        lo = res["lifetimes"][li]
        if lo["exit"] != 0:
            stats["infra"].append("case %d: child process failed (exit %s): %s" % (res["id"], lo["exit"], lo.get("stderr", "")[:1500]))
            return
        got = [e for e in (lo["events"] or []) if e["ev"] in ("open", "offer", "reopen")]
        for j, r in enumerate(evs):
            exp = _abs_expected(r)
            g = got[j] if j < len(got) else None
            ga = _abs_observed(g, n) if g else {"ev": "<missing>", "ok": False}
            stats["events"] += 1
            ok = _same(exp, ga, n)
            # the concrete part of the oracle: identical to the crash-free run at that height, and internally consistent
            if ok and exp["ok"] and g is not None and not (g["refEq"] and g["same"]):
                ok = False
            if ok:
                stats["sig"].add((pref[-1][0] if pref else "-", r["e"], exp["ok"], exp.get("block"), len(pref)))
                continue
            # first deviation of this case: classify
            key = None
            for name, tab in tables.items():
                a = tab.get((pref, j))
                if a is not None and _same(a, ga, n):
                    key = name
                    break
            last = pref[-1] if pref else ("none", 0, 0, 0)
            if key is None:
                what = "does-not-open" if (ga["ev"] in ("open", "reopen", "<missing>") and not ga["ok"]) else \
                       "refused-next-block" if (exp["ev"] == "offer" and not ga["ok"]) else \
                       "state-behind-block" if ga.get("state", 0) < ga.get("block", 0) else \
                       "state-ahead-of-block" if ga.get("state", 0) > ga.get("block", 0) else \
                       "differs-from-crash-free-run"
                key = "crash@%s:%s" % (last[0], what)
            detail = {"crashes": [list(c) for c in pref], "lifetime": li, "event": j, "expected": exp, "observed": ga,
                      "diff_vs_reference": (g or {}).get("diff"), "err": (g or {}).get("err")}
            ctx.violation(key, detail, replay={"kind": "c12-case", "hist": hist, "result": res})
            stats["deviating"] += 1
            return
        if crash is not None:
            if not lo["killed"]:
                # No observation deviated, yet the node never came to the scheduled point.  The generated schedule can no longer
                # be followed; the rest of the case is judged by the property itself (monitor mode).
                return _monitor_rest(ctx, hist, res, stats, li, len(evs), pref, crash)
            pref = pref + (_ckey(crash),)
            stats["crashes"].add(_ckey(crash))
    stats["clean"] += 1


def _monitor_rest(ctx, hist, res, stats, li, j0, pref, unreached):
    """A scheduled crash point was not reached in lifetime li.  Every remaining observation of the case (the rest of that
    lifetime and all later lifetimes, whatever crashes they still hit) must satisfy the property itself: the ledger opens,
    block / state / header height agree and the accumulator has height+1 leaves, the projection equals the crash-free run's at
    the same height, the next block is accepted.  A deviation is a violation keyed by the last crash that did happen."""
    last = pref[-1][0] if pref else "none"
    for k in range(li, len(res["lifetimes"])):
        lo = res["lifetimes"][k]
        if lo["exit"] != 0:
            stats["infra"].append("case %d: child process failed (exit %s): %s" % (res["id"], lo["exit"], lo.get("stderr", "")[:1500]))
            return
        got = [e for e in (lo["events"] or []) if e["ev"] in ("open", "offer", "reopen")]
        if not got and not lo["killed"]:
            stats["infra"].append("case %d: lifetime %d reported nothing" % (res["id"], k))
            return
        for j, g in enumerate(got):
            if k == li and j < j0:
                continue
            stats["events"] += 1
            what = None
            if not g["ok"]:
                what = "does-not-open" if g["ev"] in ("open", "reopen") else "refused-next-block"
            elif not g["same"]:
                what = "state-behind-block" if g["state"] < g["block"] else "state-ahead-of-block" if g["state"] > g["block"] else "inconsistent-heights"
            elif not g["refEq"]:
                what = "differs-from-crash-free-run"
            if what:
                ctx.violation("crash@%s:%s" % (last, what),
                              {"crashes": [list(c) for c in pref], "lifetime": k, "event": j, "observed": {x: g.get(x) for x in ("ev", "ok", "block", "state", "header", "tree", "ctr", "err")},
                               "diff_vs_reference": g.get("diff"),
                               "note": "judged by the property alone: scheduled crash point %s (height %s, iteration %s) was never reached" % (unreached["point"], unreached["height"], unreached["iter"])},
                              replay={"kind": "c12-case", "hist": hist, "result": res})
                stats["deviating"] += 1
                return
        if lo["killed"] and k < len(_lifetimes(hist)) and _lifetimes(hist)[k][0] is not None:
            last = _lifetimes(hist)[k][0]["point"]
    stats["unreached"].append("case %d: crash point %s (height %s, iteration %s) was not reached; every observation of the case satisfies the property"
                              % (res["id"], unreached["point"], unreached["height"], unreached["iter"]))


def _replay_one(ctx, b):
    """bin/vcheck C12 quick --replay <file>: re-execute the one recorded crash schedule"""
    rp = json.load(open(ctx.replay))["replay"]
    hist = rp["hist"]
    n = len(hist[0]["obs"]["applied"]) - 1
    suffix = "quick" if n == 3 else "thorough"
    tables = {
        "recoverStore-off-by-one:last-block-never-replayed": _ascoded_table(ctx.gen("Ledger", "Ledger_C12_gen_recover_ascoded_%s.cfg" % suffix, "TRACE", timeout=1500)),
        "genesis-reinit-keeps-stale-accumulator": _ascoded_table(ctx.gen("Ledger", "Ledger_C12_gen_wipe_ascoded_%s.cfg" % suffix, "TRACE", timeout=1500)),
    }
    case = _case(0, hist, 1, n)
    out = ctx.driver(b, ["c12-replay", "1", str(n)], input_obj=[case], timeout=600)
    res = [o for o in out if "lifetimes" in o][0]
    stats = {"events": 0, "clean": 0, "deviating": 0, "sig": set(), "crashes": set(), "unreached": [], "infra": []}
    _check_case(ctx, hist, res, n, tables, stats)
    ctx.sample({"replayed_case": case, "observed": res})
    ctx.cov["evaluations"] = stats["events"]
    ctx.cov["distinct_nontrivial"] = max(2, len(stats["crashes"]) + len(stats["sig"]))
    return ctx.finish(rule="replay of one recorded crash schedule (%s)" % ctx.replay)


def run(ctx):
    q = ctx.quick
    b = ctx.build("vd-ledger")
    if ctx.replay:
        return _replay_one(ctx, b)
    ctx.mc("Ledger", "Ledger_C12_mc_quick.cfg" if q else "Ledger_C12_mc_thorough.cfg", timeout=1500)
    for cfg, dev in (("Ledger_C12_mc_recover_ascoded.cfg", "RecoverAsCoded"), ("Ledger_C12_mc_wipe_ascoded.cfg", "KeepTreeOnWipe")):
        r = ctx.tlc("Ledger", cfg, timeout=900)
        if r.invariant_violated != "PropC12":
            ctx.fail("the named deviation %s no longer yields the PropC12 counterexample in the model" % dev)
        ctx.note("design level: %s=TRUE violates PropC12 (%d states)" % (dev, r.distinct))
    suffix = "quick" if q else "thorough"
    tables = {
        "recoverStore-off-by-one:last-block-never-replayed": _ascoded_table(ctx.gen("Ledger", "Ledger_C12_gen_recover_ascoded_%s.cfg" % suffix, "TRACE", timeout=1500)),
        "genesis-reinit-keeps-stale-accumulator": _ascoded_table(ctx.gen("Ledger", "Ledger_C12_gen_wipe_ascoded_%s.cfg" % suffix, "TRACE", timeout=1500)),
    }
    runs = (("Ledger_C12_gen_single.cfg", 3), ("Ledger_C12_gen_double.cfg", 3)) if q else \
           (("Ledger_C12_gen_thorough.cfg", 4), ("Ledger_C12_gen_triple.cfg", 3))
    nscripts = 2 if q else 4
    stats = {"events": 0, "clean": 0, "deviating": 0, "sig": set(), "crashes": set(), "unreached": [], "infra": []}
    ncases = children = 0
    for cfg, n in runs:
        hists = ctx.gen("Ledger", cfg, "TRACE", timeout=1500)
        if len(hists) < 30:
            ctx.fail("too few behaviours from %s: %d" % (cfg, len(hists)))
        if "triple" in cfg and len(hists) > 600:
            import random
            total = len(hists)
            hists = random.Random(ctx.seed).sample(hists, 600)       # all single/double schedules are exhaustive; triples are sampled per seed
            ctx.note("%s: %d of %d triple-crash behaviours sampled (seed %d)" % (cfg, len(hists), total, ctx.seed))
        cases = [_case(i, h, nscripts, n) for i, h in enumerate(hists)]
        out = ctx.driver(b, ["c12-replay", str(nscripts), str(n)], input_obj=cases, timeout=14400)
        for o in out:
            if o.get("refReopenDiff"):
                ctx.fail("the crash-free reference run differs from itself after a clean reopen: %s" % o["refReopenDiff"][:5])
        summ = [o for o in out if o.get("summary")]
        byid = {o["id"]: o for o in out if "lifetimes" in o}
        if not summ or len(byid) != len(cases):
            ctx.fail("driver executed %d of %d cases" % (len(byid), len(cases)))
        children += summ[0]["children"]
        ncases += len(cases)
        for c in cases:
            _check_case(ctx, hists[c["id"]], byid[c["id"]], n, tables, stats)
        ctx.sample({"cfg": cfg, "case": cases[len(cases) // 2]})
        sc = [o for o in out if o.get("scripts")]
        if sc:
            ctx.sample({"script_block_1": sc[0]["scripts"][0][0]})
    ctx.note("%d cases, %d child processes, %d matched the intended model throughout, %d deviated, %d not judged; %d distinct crash sites"
             % (ncases, children, stats["clean"], stats["deviating"], len(stats["unreached"]), len(stats["crashes"])))
    if stats["infra"] and not ctx.violations:
        ctx.fail("%d cases failed for reasons outside the ledger, first: %s" % (len(stats["infra"]), stats["infra"][0]))
    if stats["unreached"] and not ctx.violations:
        ctx.fail("%d schedules could not be executed as generated (the code no longer passes the scheduled crash points), first: %s"
                 % (len(stats["unreached"]), stats["unreached"][0]))
    ctx.cov["evaluations"] = stats["events"]
    ctx.cov["distinct_nontrivial"] = len(stats["crashes"]) + len(stats["sig"])
    ctx.cov["traces_validated_against_impl"] = 0
    return ctx.finish(
        rule="P-REPLAY with real processes: every behaviour of spec/Ledger.tla with at most %s crashes over %s is executed by "
             "SIGKILLed child processes on an on-disk ledger; evaluations = compared observations (after open / offer / reopen); "
             "distinct_nontrivial = distinct crash sites (point, block, recovery iteration) + distinct (last crash point, "
             "observation kind, height, crash count) tuples that matched." % (("1 (both paths) / 2 (consensus path)", "3 blocks + genesis") if q else
                                                                              ("2 (both paths, 4 blocks) / 3 (consensus path, 3 blocks)", "the chain")),
        assumptions=["process-crash model: SIGKILL between completed store commits; writes of a completed LevelDB batch survive",
                     "crash points are the six hook points, plus kill before InitLedgerStoreWithGenesisBlock and kill of an idle node",
                     "solo consensus mode, one bookkeeper key shared by all processes of a run",
                     "the last block of every script is persisted undisturbed (it is the 'next block' of the property)"])
