"""C33 - Approved governance requests are consumed.
spec/GovCore.tla (contract methods, ghost, monitors) + Governance.tla (model, Mode = "C33") + GovJudge.tla; driver vd-gov.
Composite approval rounds (the driver performs the ceil(2N/3) real approvals); request / approve / re-approve / re-request
sequences over the four request families: validator candidacy, side-chain register / update / quit, relayer register /
remove, state-validator register / remove.  Monitor PropC33: an approve step that applied its request leaves the request
not pending, and nothing is applied for which no fresh request exists.  See checks/_gov.py for the pipeline.
"""
from checks import _gov


def run(ctx):
    q = ctx.quick
    # the quick configuration is part of both tiers (its exploration of the real contracts around the deviations is
    # complete or nearly so); the thorough tier adds the larger configuration
    _gov.run_gov(ctx, "C33", "C33", "Governance_C33_gen_quick.cfg", nv=4, depth=3, cap=2000)
    if not q:
        _gov.run_gov(ctx, "C33", "C33", "Governance_C33_gen_thorough.cfg", nv=5, depth=4, cap=8000)
    return ctx.finish(rule="P-EDGE: every (model state, action) edge of Governance.tla in mode C33 replayed on the real contracts "
                      "(one replay of the shortest history per state, storage snapshot/restore per edge); deviating real executions "
                      "and a bounded breadth-first exploration of the real contracts from each deviating state are judged by TLC "
                      "(GovJudge) with the PropC33 monitor. distinct_nontrivial = distinct (action, result, post-state) of conforming "
                      "edges whose call was not refused.",
                      assumptions=_gov.ASSUME + ["request ids of relayer / state-validator requests bounded by MaxId",
                                                 "approvers of a round: the first ceil(2N/3) consensus validators by pool index"])
