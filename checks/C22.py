"""C22 - Each accepted import commits exactly one outbound request.
spec/CrossChain.tla (+TraceCrossChain.tla, monitor PropC22); driver harness/cmd/vd-xchain; pipeline in checks/xchain_common.py."""
from checks import xchain_common as xc


def run(ctx):
    if ctx.replay:
        return xc.replay(ctx, "C22")
    n, ln = xc.run(ctx, "C22")
    return ctx.finish(rule="P-EDGE: every (registry, blacklist, done set, height class) x action edge of CrossChain.tla printed once by TLC "
                      "and executed on the real entrance after re-creating its source state; distinct_nontrivial = distinct (action, args, "
                      "verdict, reason, observed projection) tuples excluding unauthentic submissions. Monitor PropC22 decides every "
                      "mismatch and %d recorded random histories x %d steps. Oracle: accepted import => exactly one request record at CCM||request||u64(to)||relayTxHash whose bytes equal an independent encoding of ToMerkleValue(relay tx hash, source chain, verified message), exactly that value as exactly one cross-state leaf (sha256(0x00||value)) of the call; refused imports commit no record and no leaf." % (n, ln),
                      assumptions=["one relay-chain validator (operator = its address); vote thresholds are C25",
                                   "valid imports exist for the vote, ripple, eth, bsc, heco, hsc and bytom routers (synthetic chains, real PoSA seals, Ethash seal decided by the verif hook, real MPT proofs); "
                                   "the other routers (coverage.routers_uncovered) share entrance.go but their handlers' done-check call sites are not executed",
                                   "a refused call's writes are discarded by the per-transaction cache reset (the ledger's rule, C15); "
                                   "'accepted' = success with an effect; an exact replay on the vote router answers success without effect",
                                   "router start block: relay height 18822999 vs 18823000 on main net; the hsc light client is synced at a later "
                                   "height and the height is then set back (no valid hsc import can exist earlier otherwise)",
                                   "cross-state leaves are read from the call's NativeService (GetCrossHashes); block assembly is C08"])
