"""C03 - the transaction root equals the reference (Bitcoin-style, double SHA-256) Merkle root.
spec/Merkle.tla, table "c03"; driver vd-merkle c03.
  1. TLC, every list length 0..N over symbolic hashes (all distinct / repeated in pairs / all equal): the in-place loop of
     common.ComputeMerkleRoot (transcribed with its array writes) = the textbook recursive definition (odd node paired
     with itself, empty list -> zero hash).
  2. P-TABLE: for every n the root TERM is evaluated with the real double SHA-256 over random hash tables and compared
     with common.ComputeMerkleRoot; over the hashes of real transactions with Block.RebuildMerkleRoot; and
     Block.Deserialization must accept a block carrying exactly that root and refuse neighbouring roots / a flipped bit.
  3. The same rows are evaluated again CONCURRENTLY (16 and 11 goroutines, two seeded orders, several repetitions; the node
     calls these functions from p2p/sync and consensus goroutines): a row that is right alone and wrong next to other calls is a
     violation (c03:root-differs-under-concurrent-calls).
  4. Block producer: SoloService.makeBlock (verif export) is driven with a stub transaction-pool actor over pools of 0..N fresh
     transactions mixed with 0/1/3 transactions the incremental validator knows as already packed; the produced header's
     TransactionsRoot must equal the reference root term evaluated over the block's OWN transaction list, and the block must
     pass BlockFromRawBytes.
"""
from checks.merkle_common import table, cfg_text, summary, load_replay


def run(ctx):
    q = ctx.quick
    b = ctx.build("vd-merkle")
    load_replay(ctx)
    n = 33 if q else 513
    sets = 4 if q else 50
    total = distinct = 0
    for lab in ("id", "pairs", "same"):
        nn = n if lab == "id" else min(n, 65)
        if lab == "id":
            rows, _ = table(ctx, "Merkle_c03_quick.cfg" if q else "Merkle_c03_thorough.cfg")
        else:
            rows, _ = table(ctx, "Merkle_c03_%s.cfg" % lab, files={"Merkle_c03_%s.cfg" % lab: cfg_text("c03", nn, lab=lab, prop="PropC03")})
        if len(rows) != nn + 1:
            ctx.fail("c03 table (%s): %d rows, expected %d" % (lab, len(rows), nn + 1))
        reps = (60 if q else 6) if lab == "id" else (20 if q else 4)
        out = ctx.driver(b, ["c03", str(sets if lab == "id" else 2), lab, str(reps)], input_obj=rows)
        s = summary(out)
        if not s:
            ctx.fail("driver printed no summary")
        total += s["evaluations"]
        if lab == "id":
            ctx.cov["producer_blocks"] = s.get("producer_blocks", 0)
            if s.get("producer_blocks", 0) < 30:
                ctx.fail("block producer was driven only %s times" % s.get("producer_blocks"))
        ctx.cov["table_rows"] = ctx.cov.get("table_rows", 0) + len(rows)
        distinct += s["distinct"]
        for o in out:
            if o.get("violation"):
                ctx.violation("c03:%s" % o["violation"], o, replay={"kind": "c03", "lab": lab, "n": o["n"]})
        if lab == "id":
            ctx.sample({"row": rows[5]["v"]})
    ctx.cov["evaluations"] = total
    ctx.cov["distinct_nontrivial"] = distinct
    return ctx.finish(rule="P-TABLE: one row per list length n = 0..%d (root term of the reference definition); distinct_nontrivial = "
                      "distinct (api, labelling, n) comparisons; %d random hash tables per row" % (n, sets),
                      assumptions=["SHA-256 collision resistance is not needed here: equality of the two definitions is shown on terms, "
                                   "equality with the code on bytes",
                                   "real blocks cannot hold two transactions with one hash (the decoder refuses them), so repeated leaves "
                                   "are checked through ComputeMerkleRoot only"])
