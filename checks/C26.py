"""C26 - BTC coin selection conserves UTXO value.
spec/BtcCoins.tla (relational postcondition + set transition + PropC26), spec/TraceBtcCoins.tla; driver harness/cmd/vd-btc
(hook native/service/cross_chain_manager/btc/verif_export.go, build tag verif).
  1. P-MC      : PropC26 (unspent/spent disjoint, no outpoint selected twice, value conserved, built transaction balances)
                 on the relational model over small UTXO multisets, exhaustive.
  2. P-VALIDATE: random scenarios on the REAL code: a UTXO set (0..40 outpoints = (txid, index) pairs, about half of them
                 sharing their txid with another one; values with ties, P2SH/P2WSH mix) in real
                 contract storage, then withdrawals through chooseUtxos and makeBtcTx, deposits, parameter changes and
                 side-effect-free CoinSelector probes (Select / SimpleBnbSearch / SortedSearch).  Every call is logged with
                 inputs and result; TLC judges each with the relation of BtcCoins (selected distinct and unspent, reported
                 total = sum of selected values, total = payment or >= payment + min change, unspent' = unspent \\ S,
                 spent' = spent + S, change output = total - payment, transaction outputs <= inputs).
"""
import json, re

FIELDS = ("op", "ops", "vals", "o", "v", "via", "target", "mc", "res", "sel", "sum", "fee", "change", "insum", "outsum", "utxo2", "stxo2")
STALE = {"replace": "btc:sortedsearch:replacement-overwrites-last-pick",
         "skip": "btc:sortedsearch:skipped-p2sh-stays-in-total",
         "skip+replace": "btc:sortedsearch:skipped-p2sh-stays-in-total+replacement-overwrites-last-pick"}
# reasons that are consequences of a reported total that is not the total of the selected values
TOTAL_REASONS = ("reported-total-differs-from-selected-values", "transaction-outputs-exceed-inputs")


def _key(ev, why):
    if why in TOTAL_REASONS and ev.get("diag") in STALE:
        return STALE[ev["diag"]]
    return "btc:%s:%s" % (ev.get("via") or ev.get("op"), why)


def _strip(ev):
    return {k: ev[k] for k in FIELDS}


def _judge(ctx, events, timeout):
    ok, hw, r = ctx.validate_trace("TraceBtcCoins", "TraceBtcCoins.cfg", events, timeout=timeout)
    if not ok:
        ctx.fail("TraceBtcCoins did not consume the log (highwater %d of %d, rc=%d, %s):\n%s" %
                 (hw, len(events), r.rc, r.invariant_violated, r.out[-3000:]))
    bad = {}
    for ln in r.lines:
        m = re.match(r'<<"BAD", (\d+), "([^"]*)">>', ln)
        if m:
            bad.setdefault(int(m.group(1)) - 1, []).append(m.group(2))
    return bad


def _cls(ev):
    """abstract class of a judged withdrawal (for distinct_nontrivial)"""
    if ev["op"] != "w":
        return None
    n = len(ev.get("allvals") or [])
    size = "0" if n == 0 else "1-3" if n <= 3 else "4-12" if n <= 12 else "13+"
    if ev["res"] != "ok":
        return (ev["via"], ev.get("strategy", ""), "fail", size)
    k = len(ev["sel"])
    sel = "1" if k == 1 else "2" if k == 2 else "3" if k == 3 else "4-7" if k <= 7 else "8+"
    rel = "exact" if ev["sum"] == ev["target"] else "change"
    kinds = ev.get("kinds", "")
    mix = "sw" if ("s" in kinds and "w" in kinds) else kinds[:1]
    return (ev["via"], ev.get("strategy", ""), rel, size, sel, mix, "mc0" if ev["mc"] == 0 else "mc")


def run(ctx):
    q = ctx.quick
    b = ctx.build("vd-btc")
    if ctx.replay:
        rp = json.load(open(ctx.replay))["replay"]
        out = ctx.driver(b, ["record", str(rp["n"]), str(rp["trace"])], env={"VERIF_SEED": str(rp["seed"])})
        n_sc = 1
    else:
        ctx.mc("BtcCoins", "BtcCoins_mc_quick.cfg" if q else "BtcCoins_mc_thorough.cfg", timeout=1500)
        n_sc = 100 if q else 1000
        out = ctx.driver(b, ["record", str(n_sc)], timeout=14000)   # generous: the real branch-and-bound search may take 1e6 tries
    traces = sorted([o for o in out if "trace" in o], key=lambda o: o["trace"])
    if len(traces) != n_sc:
        ctx.fail("driver recorded %d of %d scenarios" % (len(traces), n_sc))
    events, owner = [], []
    for t in traces:
        for ev in t["events"]:
            if ev.get("panic"):
                # a panic of the selection code is not a selection that breaks the relation, but nothing may be half done
                ctx.note("panic in %s: %s" % (ev["via"], ev["panic"][:300]))
            events.append(ev)
            owner.append(t["trace"])
    for ev in events:
        for k in ("target", "mc", "sum", "fee", "change", "insum", "outsum"):
            if not -2 ** 31 < ev[k] < 2 ** 31:
                ctx.fail("value outside TLC's integer range in the log: %s=%d" % (k, ev[k]))
    bad = _judge(ctx, [_strip(e) for e in events], 1500)
    for i, whys in sorted(bad.items()):
        ev = events[i]
        first = i
        while events[first]["op"] != "reset":
            first -= 1
        for why in whys:
            ctx.violation(_key(ev, why), {"reason": why, "all_reasons": whys, "event": ev, "scenario": owner[i]},
                          replay={"kind": "btc-record", "trace": owner[i], "n": n_sc, "seed": ctx.seed,
                                  "events": events[first:i + 1]})
    classes = set(c for c in map(_cls, events) if c and c[2] != "fail")
    w = [e for e in events if e["op"] == "w"]
    ctx.cov["traces_validated_against_impl"] += len(traces)
    ctx.cov["evaluations"] = len(w)
    ctx.cov["distinct_nontrivial"] = len(classes)
    ctx.cov["withdrawals_ok"] = sum(1 for e in w if e["res"] == "ok")
    ctx.cov["by_via"] = {v: sum(1 for e in w if e["via"] == v) for v in ("choose", "maketx", "select")}
    ctx.cov["selections_of_3_or_more"] = sum(1 for e in w if len(e["sel"]) >= 3)
    oks = [e for e in w if e["res"] == "ok"]
    # selections that take some but not all unspent outputs of one bitcoin transaction (outpoints are judged as full
    # (txid, index) pairs: the siblings must stay unspent)
    ctx.cov["selections_splitting_a_transaction"] = sum(
        1 for e in oks if e["via"] != "select" and {o[0] for o in e["sel"]} & {o[0] for o in e["utxo2"]})
    if oks:
        ctx.sample({"withdrawal": _strip(oks[len(oks) // 2])})
        ctx.sample({"withdrawal": _strip(oks[0])})
    ctx.sample({"first_events": [_strip(e) for e in events[:2]]})
    return ctx.finish(rule="P-VALIDATE: %d random scenarios (UTXO set of 0..40 outpoints in real contract storage, 2..10 calls each) "
                      "through the real chooseUtxos / makeBtcTx / CoinSelector; every call judged by TLC against the relation of "
                      "BtcCoins. distinct_nontrivial = distinct (entry point, strategy, exact/with-change, #offered class, "
                      "#selected class, script-kind mix, min-change zero or not) classes of successful selections." % n_sc,
                      assumptions=["values <= 2,000,000 satoshi per outpoint so that all totals stay within TLC's 32-bit integers",
                                   "m-of-n redeem scripts with n <= 5; one payment output per withdrawal (what MakeTransaction builds)",
                                   "makeBtcTx: the reported total is observed as payment + change output of the stored unsigned transaction"])
