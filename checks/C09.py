"""C09 - In-memory write buffer behaves as an ordered map with tombstones.
spec/MemDB.tla (+TraceMemDB.tla); driver harness/cmd/vd-store.
  1. P-MC     : PropC09 on the cursor-machine model (K=4 quick / K=5 thorough), exhaustive.
  2. P-EDGE   : every (state, op, args) edge of the abstract state graph replayed on the real MemDB
                (cursor machine K=3; whole scans K=4 quick / K=5 thorough); returned values, Len/Size,
                ForEach listing and per-key Get compared with the predicted post-state.
  3. P-VALIDATE: random histories recorded from the real MemDB, validated by TLC against TraceMemDB
                (PropC09 evaluated in every state of the recorded run).
"""
import json


def run(ctx):
    q = ctx.quick
    b = ctx.build("vd-store")
    ctx.mc("MemDB", "MemDB_mc_quick.cfg" if q else "MemDB_mc_thorough.cfg", timeout=1500)
    total_edges = distinct = 0
    for cfg, k in (("MemDB_gen_cursor.cfg", 3), ("MemDB_gen_scan.cfg" if q else "MemDB_gen_scan_thorough.cfg", 4 if q else 5)):
        edges = ctx.gen("MemDB", cfg, "EDGE", timeout=1500)
        if len(edges) < 1000:
            ctx.fail("too few edges generated from %s: %d" % (cfg, len(edges)))
        out = ctx.driver(b, ["memdb-edges", str(k)], input_obj=edges)
        summ = [o for o in out if o.get("summary")][0]
        total_edges += summ["edges"]
        distinct += summ["distinct"]
        if summ["edges"] != len(edges) and not summ.get("hangs"):
            ctx.fail("driver replayed %d of %d edges" % (summ["edges"], len(edges)))
        ctx.sample({"edge": edges[len(edges) // 2]})
        for o in out:
            if o.get("mismatch"):
                e = o["edge"]
                # The model is the code's transcription *and* the reference map (TLC proved them equal on the model),
                # so a mismatch of a returned answer is a deviation from the byte-ordered map with tombstones.
                ctx.violation("memdb-edge:%s" % e["op"], {"expected": e["obs"], "expected_state": e["m2"], "got": o.get("got"),
                              "got_state": o.get("gotState"), "panic": o.get("panic"), "inconsistent": o.get("inconsistent"),
                              "args": e["a"], "history": e["h"]}, replay={"kind": "memdb-edge", "k": k, "edge": e})
    # recorded histories
    n, ln = (40, 150) if q else (400, 250)
    events = ctx.driver(b, ["memdb-record", str(n), str(ln)])
    ok, hw, r = ctx.validate_trace("TraceMemDB", "TraceMemDB.cfg", events, timeout=1500)
    if not ok:
        bad = events[hw - 1] if hw - 1 < len(events) else None
        ctx.violation("memdb-trace:%s" % (bad or {}).get("op"), {"rejected_event_index": hw, "event": bad,
                      "invariant": r.invariant_violated, "context": events[max(0, hw - 6):hw]},
                      replay={"kind": "memdb-trace", "events": events[_last_reset(events, hw - 1):hw]})
    else:
        ctx.cov["traces_validated_against_impl"] += n
    ctx.sample({"recorded_events": events[1:4]})
    ctx.cov["evaluations"] = total_edges + len(events)
    ctx.cov["distinct_nontrivial"] = distinct
    return ctx.finish(rule="P-EDGE: every (abstract state, op, args) edge printed once by TLC (VIEW hides the history), replayed on a "
                      "fresh real MemDB after re-creating the source state; distinct_nontrivial = distinct (op,args,post-state,"
                      "observation) tuples excluding lookups on the empty buffer. P-VALIDATE: %d random histories x %d ops." % (n, ln),
                      assumptions=["keys are 3-5 byte strings incl. the empty key, a prefix pair and a NUL suffix; values x / yz / empty",
                                   "iterator Key()/Value() are observed at the return of each move only"])


def _last_reset(events, i):
    while i > 0 and events[i].get("op") != "reset":
        i -= 1
    return i
