"""C35 - Side-chain registry changes only through owner request and approval.
spec/GovCore.tla + Governance.tla (Mode = "C35") + GovJudge.tla; driver vd-gov.
Two owners, chain id 1 with register / update (two contents) / quit by owners and non-owners interleaved with composite
approval rounds; chain id 2 registers (and, thorough, quits) alongside.  Monitor PropC35: a chain id becomes registered only
by an approved registration and with the requested record; duplicate registration requests and requests of non-owners are
refused; a registered record changes or disappears only in an approved update / quit whose pending request was made by the
registered owner, and then equals the requested record.  See checks/_gov.py for the pipeline.
"""
from checks import _gov


def run(ctx):
    q = ctx.quick
    # the quick configuration is part of both tiers (its exploration of the real contracts around the deviations is
    # complete or nearly so); the thorough tier adds the larger configuration
    _gov.run_gov(ctx, "C35", "C35", "Governance_C35_gen_quick.cfg", nv=4, depth=3, cap=3000)
    if not q:
        _gov.run_gov(ctx, "C35", "C35", "Governance_C35_gen_thorough.cfg", nv=5, depth=4, cap=8000)
    return ctx.finish(rule="P-EDGE: every (model state, action) edge of Governance.tla in mode C35 replayed on the real "
                      "side_chain_manager; deviating real executions and a bounded exploration of the real contract from each "
                      "deviating state are judged by TLC (GovJudge) with the PropC35 monitor. distinct_nontrivial = distinct "
                      "(action, result, post-state) of conforming edges whose call was not refused.",
                      assumptions=_gov.ASSUME + ["record identity = (owner address, name); router, blocks-to-wait, CCMC address fixed per chain id"])
