"""C04 - Contract parameters and stored records round-trip canonically.
spec/Schema.tla (+SchemaSeed.tla, TraceSchema.tla); driver harness/cmd/vd-schema.

  1. P-MC + P-TABLE (one TLC run): every (type, value) row of the 50-type table is a state; TLC checks on the model
     PropRoundTrip, PropCanonical (code-shaped encoder: iterate the Go map in any order, stable-sort, write) and PropTotal
     (every proper prefix rejected, accepted mutants are whole values) and prints each row: value, reference bytes, the
     verdict of the strict reference decoder and of the code-shaped decoder for every cut and every count / length-prefix
     mutant {0, n-1, n+1, non-minimal, 0xFFFF, 2^32, 2^64-1}.
  2. replay on the real code, in several fresh processes (Go's map seed differs per process), each with >= 8 shuffled map
     insertion orders: real bytes = spec bytes = bytes of the driver's independent encoder; decode = value; every cut and
     mutant through the real decoder under recover, in a worker process that the parent restarts when a decoder kills it
     (an allocation sized by the input is `fatal error: out of memory`, not a panic).
  3. P-VALIDATE: seeded random corruptions of valid encodings through the real decoders, outcomes logged, TLC decides
     per event (TraceSchema.tla) whether the reference decoder calls the bytes malformed.

Verdicts: a panic / process death of a decoder, an accepted input that the reference decoder rejects, a value that does
not come back, two encodings of one map value that differ => violation.  A layout that differs from the table without
breaking any of these is drift (reported, exit 0).
"""
import json, random


def _seed_module(ctx):
    rnd = random.Random(1000003 * ctx.seed + 17)
    bs = [rnd.randrange(256) for _ in range(64)]
    txt = ("----------------------------- MODULE SchemaSeed -----------------------------\n"
           "SeedBytes == <<%s>>\n"
           "=============================================================================\n" % ", ".join(map(str, bs)))
    with open(ctx.specdir + "/SchemaSeed.tla", "w") as f:
        f.write(txt)


def _tail_field(schema):
    fs = schema["t"]["fs"]
    return fs[-1]["n"] if fs and fs[-1]["t"]["k"] == "opttail" else None


def run(ctx):
    q = ctx.quick
    _seed_module(ctx)
    b = ctx.build("vd-schema")
    r = ctx.tlc("Schema", "Schema_quick.cfg" if q else "Schema_thorough.cfg", workers=ctx.cores, timeout=2400, heap="12g")
    ctx.cov["states"] += r.distinct
    ctx.cov["transitions"] += r.generated
    if r.rc != 0:
        ctx.fail("model-level alarm in Schema (rc=%d, %s) - the specification itself is inconsistent:\n%s" %
                 (r.rc, r.invariant_violated, r.counterexample()[:3000]))
    schemas = sorted(r.emitted("SCHEMA"), key=lambda s: s["ty"])
    rows = sorted(r.emitted("ROW"), key=lambda x: (x["ty"], x["j"]))
    if len(schemas) != 50 or len(rows) < 800 or len({x["ty"] for x in rows}) != 50:
        ctx.fail("table incomplete: %d schemas, %d rows" % (len(schemas), len(rows)))
    by_ty = {s["ty"]: s for s in schemas}
    ctx.note("TLC: %d rows of %d types, %d count/length mutants" % (len(rows), len(schemas), sum(len(x["muts"]) for x in rows)))
    if not q:
        # vacuity guard: a code-shaped encoder without the sort must be flagged by PropCanonical
        for cfg in ("Schema_selftest_nosort.cfg", "Schema_selftest_lenkey.cfg"):
            t = ctx.tlc("Schema", cfg, workers=ctx.cores, timeout=2400, quiet=True)
            if t.invariant_violated != "PropCanonical":
                ctx.fail("monitor self-test %s: PropCanonical did not flag the seeded model defect (rc=%d)" % (cfg, t.rc))
    inp = [{"schema": s} for s in schemas] + [{"row": x} for x in rows]
    x0 = rows[len(rows) // 3]
    ctx.sample({"row": {k: x0[k] for k in ("name", "j", "v", "bytes")}, "mutants": len(x0["muts"])})

    nproc = 2 if q else 4
    classes, totals, layouts, drift = set(), {"encodes": 0, "decodes": 0, "cuts": 0, "muts": 0, "skipped": 0, "bigskip": 0}, {}, {}
    crashes = 0
    from concurrent.futures import ThreadPoolExecutor
    with ThreadPoolExecutor(max_workers=nproc) as ex:      # fresh processes: Go seeds its map iteration per process
        outs = list(ex.map(lambda p: ctx.driver(b, ["rows"], input_obj=inp, timeout=3000,
                                                env={"VERIF_SHUFFLE": str(p + 1), "VERIF_NSHUF": "8" if q else "12"}), range(nproc)))
    for p, out in enumerate(outs):
        nstat = 0
        for o in out:
            if o.get("rowstat"):
                nstat += 1
                for k in totals:
                    totals[k] += o.get(k, 0)
                classes.update(o.get("classes") or [])
            elif o.get("summary"):
                crashes += o.get("worker_crashes", 0)
            elif o.get("issue"):
                _issue(ctx, o, p, layouts, drift)
        if nstat < len(rows):
            ctx.fail("driver finished %d of %d rows" % (nstat, len(rows)))
    # layouts that differ from the table: still one encoding per value across processes and orders?
    for (ty, j), seen in layouts.items():
        if len(seen) > 1:
            ctx.violation("noncanonical:%s" % ty, {"row": j, "encodings": sorted(seen)[:4]},
                          replay={"kind": "schema-row", "type": ty, "j": j})
    if layouts:
        types = sorted({ty for ty, _ in layouts})
        ctx.note("DRIFT: wire layout of %s differs from spec/Schema.tla (%d rows); cut/mutant predictions skipped for them" %
                 (",".join(types), len(layouts)))
    for k, n in sorted(drift.items()):
        ctx.note("DRIFT %s x%d" % (k, n))

    # ------------------------------------------------------------------ recorded corruptions, validated by TLC
    per_row = 2 if q else 12
    sel = [x for x in rows if len(x["bytes"]) <= (120 if q else 600)]
    rin = [{"schema": s} for s in schemas] + [{"row": dict(x, muts=[], scuts=[], lcuts=[])} for x in sel]
    out = ctx.driver(b, ["record", str(per_row)], input_obj=rin, env={"VERIF_SHUFFLE": "77"}, timeout=3000)
    events = []
    for o in out:
        if o.get("ev"):
            events.append(o)
        elif o.get("issue"):
            _issue(ctx, o, 0, layouts, drift)
        elif o.get("summary"):
            crashes += o.get("worker_crashes", 0)
    if len(events) < len(sel):
        ctx.fail("too few recorded decoder calls: %d" % len(events))
    body = "\n".join(json.dumps({"ty": e["ty"], "bytes": e["bytes"], "st": e["st"]}, separators=(",", ":")) for e in events) + "\n"
    t = ctx.tlc("TraceSchema", "TraceSchema.cfg", workers=1, timeout=2400, files={"trace.ndjson": body})
    verdicts = t.emitted("VERDICT")
    if t.rc != 0 or len(verdicts) != len(events):
        ctx.fail("trace validation incomplete: rc=%d, %d verdicts for %d events\n%s" % (t.rc, len(verdicts), len(events), t.out[-2000:]))
    ctx.cov["states"] += t.distinct
    ctx.cov["transitions"] += t.generated
    ctx.cov["traces_validated_against_impl"] += len(events)
    stricter = 0
    for v in verdicts:
        e = events[v["i"] - 1]
        classes.add("rec|%s|%s|%s" % (e["name"], v["strict"], v["got"]))
        if v["verdict"] == "malformed-accepted":
            tail = _tail_field(by_ty[e["ty"]])
            what = "%s:eof-ignored" % tail if (tail and v["model"] == "ok") else "random-corruption"
            ctx.violation("malformed-accepted:%s:%s" % (e["name"], what),
                          {"decoder": e["dec"], "bytes": bytes(e["bytes"]).hex(), "reference": v["strict"], "code_shaped_model": v["model"]},
                          replay={"kind": "schema-bytes", "type": e["name"], "bytes": bytes(e["bytes"]).hex()})
        elif v["verdict"] == "stricter":
            stricter += 1
    if stricter:
        ctx.note("DRIFT: %d recorded inputs rejected by the code but well-formed for the reference decoder" % stricter)
    ctx.sample({"recorded": {"type": events[0]["name"], "bytes": bytes(events[0]["bytes"]).hex(), "outcome": events[0]["st"],
                             "verdict": verdicts[0]["verdict"]}})
    if crashes:
        ctx.note("a decoder killed or hung its worker process %d times (fatal out-of-memory in an input-sized allocation, or no return)" % crashes)
    ctx.cov["evaluations"] = totals["encodes"] + totals["decodes"] + len(events)
    ctx.cov["distinct_nontrivial"] = len(classes)
    return ctx.finish(
        rule="P-TABLE: one row per (type, value) printed by TLC with PropRoundTrip/PropCanonical/PropTotal checked on it; each row "
             "replayed on the real codec in %d processes x %s map insertion orders, every cut and every count/length-prefix mutant "
             "through the real decoder; distinct_nontrivial = distinct (type, mutation site and class, reference verdict, observed "
             "outcome) tuples. P-VALIDATE: %d recorded decoder calls on random corruptions judged by TLC." %
             (nproc, "8" if q else "12", len(events)),
        extra={"rows": len(rows), "types": len(schemas), "cuts": totals["cuts"], "mutants": totals["muts"],
               "rows_skipped_schema_mismatch": totals["skipped"], "layout_drift_rows": len(layouts),
               "mutants_not_repeated_after_fatal_crash_of_their_decoder": totals["bigskip"]},
        assumptions=["values per field come from boundary menus (0, 0xFC, 0xFD, 0xFFFF, 0x10000, 2^32-1, 2^32, 2^64-1; byte strings of "
                     "0/1/3/252/253 bytes, 65535/65536 in the thorough tier) varied one field at a time plus seeded combinations; "
                     "maps of 0..3 entries (0..6 thorough) with keys chosen to separate byte order, reversed-byte order and length order",
                     "a map value is well keyed (PeerPoolMap: key = item.PeerPubkey); big.Int values are non-negative; pointers are non-nil",
                     "malformed = rejected by the strict reference decoder of spec/Schema.tla: trailing bytes, non-minimal var-ints, "
                     "unsorted or repeated map keys are not malformed (every decoder of the code base accepts them)",
                     "allocation sizes between 6 GiB and the machine's limit are cut off by RLIMIT_AS in the worker process"])


def _issue(ctx, o, proc, layouts, drift):
    kind, key = o["issue"], o.get("key", "?")
    ty, j = o.get("ty"), o.get("j")
    replay = {"kind": "schema-row", "type": ty, "j": j, "bytes": o.get("bytes"), "what": (o.get("detail") or {}).get("what")
              if isinstance(o.get("detail"), dict) else None}
    if kind == "spec-vs-ref":
        ctx.fail("spec bytes differ from the driver's independent encoder for %s row %s: %s" % (ty, j, json.dumps(o)[:800]))
    elif kind == "schema-mismatch":
        drift["schema-mismatch:%s" % ty] = drift.get("schema-mismatch:%s" % ty, 0) + 1
    elif kind == "layout":
        layouts.setdefault((ty, j), set()).add(o["detail"]["real"])
    elif kind == "drift":
        drift[key] = drift.get(key, 0) + 1
    elif kind in ("encode-panic", "encode-error", "noncanonical", "roundtrip", "decode-crash", "malformed-accepted", "unstable-decode"):
        ctx.violation(key, o.get("detail"), replay=replay)
    else:
        ctx.fail("unknown driver issue %s" % json.dumps(o)[:500])
