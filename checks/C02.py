"""C02 - Ledger objects encode faithfully with signature-independent identity.
spec/Codec.tla + spec/Wire.tla (schemas, decoders of core/types in the code's shape, free hash terms) +
spec/WireTable.tla (P-TABLE, Area = "C02"); driver harness/cmd/vd-codec (c02).
  1. TLC enumerates the table (valid transactions / headers / blocks with 0..16 signature entries of real key kinds,
     objects the property says must be refused, and the mutants of every valid encoding) and checks PropC02 on each
     row for the repaired design and for the code as it is (where only the named deviation AllocPanic may differ).
  2. The same run prints every row; the driver builds the Go value, requires Serialization / Serialize / ToArray to
     equal the specification's bytes, decodes through TransactionFromRawBytes / Transaction.Deserialization /
     HeaderFromRawBytes / Header.Deserialization / Header.Deserialize / BlockFromRawBytes / Block.Deserialization,
     and is judged by the row's monitor field: "same" (value, consumed length, re-encoding, Hash() = SHA-256d of the
     model's unsigned bytes), "reject", "free" (no panic).  Exact predictions that differ are reported as DRIFT only.
"""
import collections


def run(ctx):
    q = ctx.quick
    b = ctx.build("vd-codec")
    if ctx.replay:
        return _replay(ctx, b)
    rows = ctx.gen("WireTable", "WireTable_C02_quick.cfg" if q else "WireTable_C02_thorough.cfg", "ROW",
                   workers=ctx.cores, timeout=2700, heap="12g")
    cls = collections.Counter((r["must"], r["exp"]["e"]) for r in rows)
    if len(rows) < 1000 or cls[("same", "ok")] < 15 or cls[("reject", "err")] < 10:
        ctx.fail("table too small or vacuous: %d rows, classes %s" % (len(rows), dict(cls)))
    out = ctx.driver(b, ["c02"], input_obj=rows, timeout=2400)
    summ = [o for o in out if o.get("summary")]
    if not summ or summ[0]["rows"] != len(rows):
        ctx.fail("driver replayed %s of %d rows" % (summ[0]["rows"] if summ else None, len(rows)))
    summ = summ[0]
    drift = 0
    for o in out:
        if o.get("summary"):
            continue
        if o.get("viol"):
            ctx.violation(o["viol"], o["detail"], replay={"kind": "c02-row", "row": o.get("replay")})
        elif o.get("drift"):
            drift += 1
            if drift <= 5:
                ctx.note("DRIFT (monitor satisfied, model prediction differs): %s" % str(o)[:300])
    if drift:
        ctx.note("DRIFT total: %d" % drift)
    ctx.sample({"valid_row": _slim(next(r for r in rows if r["o"] == "tx_a1" and r["op"] == "valid"))})
    ctx.sample({"mutant_row": _slim(next(r for r in rows if r["op"] == "alt" and r["exp"]["e"] == "panic"))})
    ctx.cov["evaluations"] = summ["evals"]
    ctx.cov["distinct_nontrivial"] = summ["distinct"]
    ctx.cov["table_rows"] = {"rows": len(rows), "by_monitor_and_prediction": {"%s/%s" % k: v for k, v in cls.items()},
                             "drift": drift, "no_prediction": summ["unk"]}
    return ctx.finish(
        rule="P-TABLE: every row printed by TLC (27 objects: 13 transactions incl. the size limit and 16 signature entries, "
             "4 headers, 10 blocks incl. duplicates and root mismatches; mutants = cuts at every part boundary -1/0/+1 and every "
             "length / count replaced by 0, n-1, n+1, non-canonical, 0xFFFF, 2^48, 2^63-1, 2^63, 2^64-1, out-of-range version / type / "
             "coin type, replaced and flipped root) is executed on the real decoders; evaluations = decoder and encoder runs; "
             "distinct_nontrivial = rows other than the plain valid encodings.",
        assumptions=["SHA-256 is collision free (identities are free terms in the model; the driver evaluates them with crypto/sha256)",
                     "signature counts between 2^17 and 2^48 are not generated: the unrepaired decoder would really allocate the slice "
                     "(gigabytes, minutes); the model marks them 'no prediction'",
                     "public keys are real ECDSA P-256 / SM2 / Ed25519 keys derived from VERIF_SEED; signature bytes are filler "
                     "(the codecs never interpret them)",
                     "the key library's own parsing of malformed key bytes is not modelled (rows marked 'unk' are only checked for panics)"])


def _slim(r):
    s = {k: v for k, v in r.items() if k not in ("uni",)}
    for k in ("s", "val"):
        if k in s and len(str(s[k])) > 600:
            s[k] = str(s[k])[:600] + "..."
    return s


def _replay(ctx, b):
    """bin/vcheck C02 --replay <file>: re-runs the single table row stored in a violation record on the real code."""
    import json
    rec = json.load(open(ctx.replay))
    row = rec["replay"]["row"]
    out = ctx.driver(b, ["c02"], input_obj=[row])
    for o in out:
        if o.get("summary"):
            continue
        if o.get("viol"):
            ctx.violation(o["viol"], o["detail"], replay={"kind": "c02-row", "row": row})
    ctx.sample({"replayed": str(row)[:400]})
    ctx.cov["evaluations"] = 1
    ctx.cov["distinct_nontrivial"] = 2
    return ctx.finish(rule="replay of one stored table row")
