"""C07 - the Merkle proof verifiers are sound.
spec/Merkle.tla, table "c07"; driver vd-merkle c07.
  1. TLC, exhaustive over (verifier, n, m) x the mutation menu: the transcribed verifiers accept every honest proof,
     the repaired variant is sound and complete (accepted <=> the claim is true AND the proof is the audit path /
     consistency proof that belongs to it, both read off the root term by the monitors SubAt / PrefixRoot / Siblings /
     RefSub / Desc); the variant of VerifyConsistency as it was coded before fix c963b88 (shortcut `old_root == new_root`
     taken before the sizes are compared) is kept as a named deviation: TLC shows it is the ONLY unsoundness of the old code.
  2. P-TABLE: every (claim, mutated proof) row is concretized with the real SHA-256 over random distinct leaves and
     given to the real VerifyLeafHashInclusion / VerifyLeafInclusion / VerifyConsistency / MerkleProve.
     Monitor: real verifier accepts => row.truth (claim true and proof = the proof of that claim).  Differences from the
     transcribed verdict that keep this = drift.
"""
from checks.merkle_common import table, cfg_text, summary, load_replay

SHORTCUT_KEY = "consistency:old_root==new_root-accepted-although-old_size<new_size"


def run(ctx):
    q = ctx.quick
    b = ctx.build("vd-merkle")
    rep = load_replay(ctx)
    runs = [("Merkle_c07_quick.cfg", None), ("Merkle_c07_quick_double.cfg", None)] if q else [
        ("Merkle_c07_thorough_single.cfg", None), ("Merkle_c07_thorough_near.cfg", None),
        ("Merkle_c07_thorough_double.cfg", None), ("Merkle_c07_thorough_double_full.cfg", None)]
    if rep:
        runs = [(rep["cfg"], None)]
    total = distinct = 0
    ctx.cov["table_rows"] = 0
    for cfg, files in runs:
        rows, pools = table(ctx, cfg, files=files, timeout=2400)
        if rep:
            rows = [r for r in rows if r["v"]["row"]["c"] == rep["c"] and r["v"]["job"] == rep["job"]]
            if not rows:
                continue
        elif len(rows) < 5000:
            ctx.fail("too few rows from %s: %d" % (cfg, len(rows)))
        out = ctx.driver(b, ["c07"], input_obj=pools + rows)
        s = summary(out)
        if not s:
            ctx.fail("driver printed no summary")
        total += s["rows"]
        ctx.cov["table_rows"] += s["rows"]
        distinct += s["distinct"]
        ctx.note("%s: %s" % (cfg, s["counts"]))
        for o in out:
            f = o.get("finding")
            if not f:
                continue
            rp = {"kind": "c07", "cfg": cfg, "job": o["job"], "c": o["c"]}
            if f == "unsound":
                key = SHORTCUT_KEY if o.get("shortcut") else "%s:accepted-false-claim:%s" % (o["v"], o["mut"])
                ctx.violation(key, o, replay=rp)
            elif f == "panic":
                ctx.violation("%s:panic:%s" % (o["v"], o["mut"]), o, replay=rp)
            elif f == "wrong-value":
                ctx.violation("prove:yields-other-value:%s" % o["mut"], o, replay=rp)
            elif f == "honest-rejected":
                ctx.note("DRIFT: honest %s proof rejected by the real verifier (C06's concern): %s" % (o["v"], o["job"]))
            elif f == "drift":
                ctx.note("DRIFT (sound): real=%s spec=%s %s %s" % (o["real_accepted"], o["spec_strict"], o["v"], o["mut"]))
        ctx.sample({"row": rows[len(rows) // 3]["v"]})
        del rows, pools, out
    ctx.cov["evaluations"] = total
    ctx.cov["distinct_nontrivial"] = distinct
    return ctx.finish(rule="P-TABLE: (verifier, n, m) x mutation menu (replace any proof element by any hash of the pool - every node and "
                      "leaf of every tree of size <= n+1, a fresh hash, the empty hash, the zero hash -, drop, duplicate, append, swap, "
                      "index -1/+1/huge, size -1/+1/x2/0, other leaf hash, other leaf data incl. l||r and 0x01||l||r of every interior node, "
                      "other root, flag flip / flag 2, trailing bytes, cut); distinct_nontrivial = distinct mutated claims executed",
                      assumptions=["SHA-256 collision resistance (free term algebra); the concretization is checked to be injective on the pool",
                                   "consistency claims with old size 0 are vacuous in RFC 6962 (accepted as is) and are not generated",
                                   "a claim is TRUE when the root term, opened along the path that (index, size) determine, shows the claimed "
                                   "leaf / the claimed old root, and the proof must be exactly the hashes next to that path; sizes that leave "
                                   "this path shape unchanged are therefore not alterations (no RFC 6962 verifier can see them)",
                                   "not counted as alterations: a position flag other than 0/1 (read as RIGHT), surplus bytes shorter than one "
                                   "path element, and the proof argument of a consistency claim between EQUAL sizes (RFC 6962 defines no proof "
                                   "content there; the claim is decided by root equality)"])
