"""C15 - Transaction execution is atomic.
spec/TxExec.tla (model in the code's shape) + spec/TxExecMon.tla (monitor) + spec/TraceTxExec.tla; driver harness/cmd/vd-txexec.
  1. P-MC + generation in one TLC run per family: TLC enumerates every block of the family (flat blocks of 2-3
     transactions; blocks with nested calls whose failure is propagated or caught; a failure injected at every
     position), executes the model, checks PropC15 / OverlayClean on the model and prints one ROW per block with
     the predicted observation and the monitor's verdict on it.  (TxExec_nest_old: the bookkeeping NativeService.Invoke
     had before its repair must violate PropC15 in the model - the documented counterexample.)
  2. P-REPLAY: every ROW is executed by the real LedgerStoreImp.ExecuteBlock on a real on-disk ledger holding the
     row's prior state (probe contract); write set, cross hashes, per-transaction state and notifications and the
     values read are compared with the prediction.  Equal observation => the monitor's verdict computed by TLC
     on that very data is the verdict.  Different observation => no verdict yet (step 3).
  3. P-VALIDATE: the real observations of all mismatching rows, of a seeded sample of matching rows and of
     random chains of blocks that are executed AND submitted (state and events read back from the stores) are
     judged by TLC with the monitor (TraceTxExec).  A clause violated there is a VIOLATION; a mismatch the
     monitor accepts is drift.
"""
import json, os

FAMILIES_Q = [("flat_q1", 4), ("flat_q2", 4), ("flat_q3", 5), ("nest_q1", 4)]
FAMILIES_T = [("flat_t1", 4), ("flat_t2", 5), ("flat_t3", 4), ("nest_t1", 4), ("nest_t2", 4)]


def _fails(s):
    return any(st["op"] == "fail" or (st["op"] == "call" and not st["catch"] and _fails(st["sub"])) for st in s)


def _caught(s):
    return any(st["op"] == "call" and ((st["catch"] and _fails(st["sub"])) or _caught(st["sub"])) for st in s)


def context(blk, tx):
    pick = blk[tx - 1:tx] if 1 <= tx <= len(blk) else blk
    c = "flat"
    for s in pick:
        if _caught(s):
            return "caught-nested-failure"
        if any(st["op"] == "call" for st in s):
            c = "nested"
    return c


def block_event(o, submitted=False):
    return {"ev": "block", "blk": o["blk"], "prior": o.get("prior") or [], "obs": o["obs"], "foreign": bool(o.get("foreign")),
            "submitted": submitted, "post": o.get("post") or [], "evok": bool(o.get("evok", True))}


def judge(ctx, events, timeout):
    """TLC evaluates the monitor on recorded observations; returns {event index (0-based): [[clause, tx], ...]}."""
    if not events:
        return {}
    ok, hw, r = ctx.validate_trace("TraceTxExec", "TraceTxExec.cfg", events, timeout=timeout)
    if hw != len(events) + 1:
        ctx.fail("TraceTxExec did not consume the trace (event %d of %d):\n%s" % (hw, len(events), r.out[-3000:]))
    return {v["i"] - 1: v["v"] for v in r.emitted("VERDICT")}


def report(ctx, src, o, verdict):
    for clause, tx in verdict:
        key = "%s:%s" % (clause, context(o["blk"], tx))
        ctx.violation(key, {"source": src, "clause": clause, "tx": tx, "block": o["blk"], "prior": o.get("prior"),
                            "observed": o["obs"], "predicted_by_model": o.get("pred"), "panic": o.get("panic"), "err": o.get("err")},
                      replay={"kind": "txexec-row", "row": {"blk": o["blk"], "prior": o.get("prior") or [], "obs": o.get("pred") or o["obs"], "viol": []}})


def run(ctx):
    q = ctx.quick
    b = ctx.build("vd-txexec")
    env = {"VERIF_WORKERS": os.environ.get("VERIF_WORKERS", "")}
    if ctx.replay:
        return replay_one(ctx, b, env)
    tmo = 900 if q else 3000
    # the documented counterexample: with the bookkeeping Invoke had before its repair (RestoreOnError = FALSE) the model
    # must violate PropC15 - otherwise the monitor would not see a lost notification / record at all
    r0 = ctx.tlc("TxExec", "TxExec_nest_old.cfg", timeout=tmo)
    if r0.invariant_violated != "PropC15":
        ctx.fail("PropC15 is not violated by the pre-repair Invoke bookkeeping in the model (monitor vacuous?) rc=%d\n%s" % (r0.rc, r0.out[-1500:]))
    rows_total = matched = mismatched = distinct = 0
    pending = []          # (source, driver record) whose observation still needs the monitor's verdict
    sample_expect = []    # (driver record, model verdict) for the consistency cross-check
    chain_rows = None
    fams = FAMILIES_Q if q else FAMILIES_T
    if os.environ.get("C15_FAMILIES"):      # development aid (mutation self-tests on a loaded machine): a subset of the families
        fams = [f for f in FAMILIES_Q + FAMILIES_T if f[0] in os.environ["C15_FAMILIES"].split(",")]
    for fam, per in fams:
        r = ctx.tlc("TxExec", "TxExec_%s.cfg" % fam, timeout=tmo)
        ctx.cov["states"] += r.distinct
        ctx.cov["transitions"] += r.generated
        if r.rc != 0:
            ctx.fail("model-level alarm in TxExec/%s (rc=%d, %s) - not a verdict on the code:\n%s" %
                     (fam, r.rc, r.invariant_violated, r.counterexample()[:3000]))
        path = os.path.join(ctx.out, "rows-%s.txt" % fam)
        n = 0
        with open(path, "w") as f:
            for ln in r.lines:
                if ln.startswith('<<"ROW", "'):
                    f.write(ln + "\n")
                    n += 1
        if n == 0 or n * per != r.distinct:
            ctx.fail("family %s: %d rows for %d states (expected %d states per block)" % (fam, n, r.distinct, per))
        del r
        out = ctx.driver(b, ["replay", "60" if q else "300"], input_path=path, env=env, timeout=3000)
        summ = [o for o in out if o.get("summary")]
        if not summ or summ[0]["rows"] != n:
            ctx.fail("driver replayed %s of %d rows of %s" % (summ and summ[0]["rows"], n, fam))
        s = summ[0]
        rows_total += n; matched += s["matched"]; mismatched += s["mismatched"]; distinct += s["distinct_nontrivial"]
        ctx.note("%s: %d blocks replayed, %d equal to the model, %d different" % (fam, n, s["matched"], s["mismatched"]))
        for o in out:
            if o.get("class"):
                # real observation == predicted observation, and TLC's monitor rejected that observation
                ex = o["example"]
                clause = o["class"].split(":")[0]
                verdict = [v for v in ex["viol"] if v[0] == clause and "%s:%s" % (v[0], context(ex["blk"], v[1])) == o["class"]]
                ex = dict(ex); ex["rows_in_class"] = o["count"]
                report(ctx, "replay:" + fam, ex, verdict[:1])
            elif o.get("mismatch"):
                pending.append(("replay:" + fam, o))
            elif o.get("sample"):
                sample_expect.append(o)
                if len(ctx.cov["samples"]) < 3:
                    ctx.sample({"family": fam, "block": o["blk"], "observed": o["obs"]})
        if fam == "nest_q1" or fam == "nest_t1":
            chain_rows = path
    # mismatches: cap the number judged (a drift touches whole classes of rows); seeded choice
    cap = 1500 if q else 6000
    if len(pending) > cap:
        import random
        rnd = random.Random(ctx.seed)
        ctx.note("%d mismatching rows, %d of them judged by the monitor (seeded sample)" % (len(pending), cap))
        pending = rnd.sample(pending, cap)
    # chains: execute + submit on one growing ledger, observation includes the stores read back
    nch, lch = (24, 4) if q else (300, 5)
    chains = []
    for path in sorted(p for p in set([chain_rows, os.path.join(ctx.out, "rows-%s.txt" % ("flat_q2" if q else "flat_t1"))]) if p and os.path.exists(p)):
        co = ctx.driver(b, ["chain", str(nch), str(lch)], input_path=path, env=env, timeout=3000)
        chains += [o for o in co if "chain" in o]
    events = [block_event(o) for _, o in pending] + [block_event(o) for o in sample_expect] + \
             [block_event(o, submitted="post" in o) for o in chains]
    verdicts = judge(ctx, events, tmo)
    np_, ns = len(pending), len(sample_expect)
    drift = 0
    for i, (src, o) in enumerate(pending):
        v = verdicts.get(i, [])
        if v:
            report(ctx, src + ":differs-from-model", o, v)
        else:
            drift += 1
    for j, o in enumerate(sample_expect):
        v = verdicts.get(np_ + j, [])
        if sorted(map(tuple, v)) != sorted(map(tuple, o["viol"])):
            ctx.fail("monitor inconsistency: TraceTxExec says %s, TxExec said %s for the same observation %s" % (v, o["viol"], o["blk"]))
    for j, o in enumerate(chains):
        if o.get("panic") or (o.get("err") and "post" not in o):
            ctx.violation("chain-block-not-executed:%s" % context(o["blk"], 0), {"block": o["blk"], "err": o.get("err"), "panic": o.get("panic")},
                          replay={"kind": "txexec-chain-block", "event": o})
            continue
        v = verdicts.get(np_ + ns + j, [])
        if v:
            report(ctx, "chain", o, v)
    if chains:
        ctx.sample({"chain_block": chains[0]["blk"], "prior": chains[0]["prior"], "observed": chains[0]["obs"], "post": chains[0].get("post")})
    if drift:
        ctx.note("DRIFT: %d real observations differ from the model's prediction but satisfy the monitor" % drift)
    ctx.cov["evaluations"] = rows_total + len(chains)
    ctx.cov["distinct_nontrivial"] = distinct
    ctx.cov["traces_validated_against_impl"] = len(events)
    ctx.cov["rows_equal_to_model"] = matched
    ctx.cov["rows_different_from_model"] = mismatched
    ctx.cov["drift_rows_accepted_by_monitor"] = drift
    return ctx.finish(
        rule="P-REPLAY: every block of the enumerated families (%d blocks) executed by the real ExecuteBlock and compared with the "
             "model's prediction; the TLA+ monitor's verdict on the predicted observation is the verdict when the real observation is "
             "identical, otherwise (and for a seeded sample, and for %d submitted chain blocks read back from the stores) TLC judges "
             "the real observation (TraceTxExec). distinct_nontrivial = distinct (block, observation) pairs with a failing "
             "transaction or a nested call." % (rows_total, len(chains)),
        assumptions=["programs are scripts of the probe contract (put/del/get/PutMerkleVal/AddNotify/error/NativeCall with or without "
                     "ignoring the callee's error) registered through native.Contracts; no production contract uses NativeCall",
                     "effects of a callee whose failure the caller ignored may be kept or dropped (the statement speaks of transactions); "
                     "the order of cross-chain records within a transaction is not judged",
                     "at most 3 transactions, 4 top-level steps, 2 keys per contract, nesting depth 2"])


def replay_one(ctx, b, env):
    rp = json.load(open(ctx.replay))["replay"]
    if rp.get("kind") == "txexec-chain-block":
        ev = rp["event"]
        events = [block_event(ev, submitted="post" in ev)]
        src = [ev]
    else:
        out = ctx.driver(b, ["replay", "1"], input_obj=[rp["row"]], env=env)
        src = [o for o in out if o.get("mismatch") or o.get("sample")]
        events = [block_event(o) for o in src]
    verdicts = judge(ctx, events, 600)
    for i, o in enumerate(src):
        if verdicts.get(i):
            report(ctx, "replay-file", o, verdicts[i])
    ctx.cov["evaluations"] = len(events)
    ctx.cov["distinct_nontrivial"] = len(events)
    ctx.cov["traces_validated_against_impl"] = len(events)
    ctx.sample({"replayed": src[:1]})
    return ctx.finish(rule="single row replayed and judged by the monitor")
